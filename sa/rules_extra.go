package main

import (
	"fmt"
	"go/ast"
	"go/token"
	"go/types"
	"strings"
)

func init() {
	register(&Rule{ID: "NUMSTATE-1", Doc: "the resumable number scanner's resume states match what was consumed: a `within...Digits` state (more digits may follow after a refill) is only assigned directly after a digit-consuming loop, so a single leading `0` can never resume into further integer digits; a `before...` state is never assigned after such a loop", Run: ruleNUMSTATE1})
	register(&Rule{ID: "NUMCONV-1", Doc: "decimal-to-binary conversion goes through strconv only: every float64 handed to SetFloat or returned as a decoded number by the unmarshal code comes from strconv.ParseFloat (or math.NaN/Inf, the raw-number hook, or zero), never from hand-rolled digit arithmetic", Run: ruleNUMCONV1})
	register(&Rule{ID: "WS-1", Doc: "token path and value path emit inter-token whitespace in the same order: in appendWhitespace the SpaceAfterComma space is appended before the Multiline newline/indent, as in reformatObject/reformatArray (comma, optional space, then indentation)", Run: ruleWS1})
	register(&Rule{ID: "POOL-4", Doc: "a coder is never reset onto leftover bytes: every encoderState.reset call, and every decoderState.reset call with a reader, receives nil or a zero-length reslice as its buffer", Run: rulePOOL4})
	register(&Rule{ID: "ESCAPE-1", Doc: "the decoder's transient views never escape: in package json the result of PreviousTokenOrValue() is only measured (len), compared, classified (Kind) or copied (Clone, string conversion); ReadValue results stored into error values are cloned", Run: ruleESCAPE1})
}

func ruleNUMSTATE1(c *Ctx) {
	p := c.P
	f := p.Func("jsonwire.ConsumeNumberResumable")
	if f == nil || f.Body() == nil {
		c.Undecide("jsonwire.ConsumeNumberResumable", "function missing")
		return
	}
	info := f.Info()
	var isDigitLoop func(st ast.Stmt) bool
	isDigitLoop = func(st ast.Stmt) bool {
		fs, ok := st.(*ast.ForStmt)
		if !ok || fs.Cond == nil {
			// the loop may have been moved into a private helper: `n += consumeDigits(b[n:])`
			for _, call := range CallsIn(st) {
				if h := p.InlineAny(f)(call); h != nil && h.Body() != nil {
					for _, hs := range findAll[*ast.ForStmt](h.Body()) {
						if isDigitLoop(hs) {
							return true
						}
					}
				}
			}
			return false
		}
		lo, hi := false, false
		ast.Inspect(fs.Cond, func(nd ast.Node) bool {
			if be, ok := nd.(*ast.BinaryExpr); ok && tokIsCmp(be.Op) {
				for _, s := range []ast.Expr{be.X, be.Y} {
					if v, isC := ConstI64(info, s); isC {
						if v == '0' {
							lo = true
						}
						if v == '9' {
							hi = true
						}
					}
				}
			}
			return true
		})
		return lo && hi
	}
	n := 0
	var bad []string
	ast.Inspect(f.Body(), func(nd ast.Node) bool {
		var list []ast.Stmt
		switch x := nd.(type) {
		case *ast.BlockStmt:
			list = x.List
		case *ast.CaseClause:
			list = x.Body
		case *ast.LabeledStmt:
			return true
		}
		for i, st := range list {
			as, ok := st.(*ast.AssignStmt)
			if !ok || len(as.Lhs) != 1 || len(as.Rhs) != 1 || as.Tok != token.ASSIGN {
				continue
			}
			o := IdentObj(info, as.Rhs[0])
			if _, isConst := o.(*types.Const); !isConst {
				continue
			}
			name := o.Name()
			if !(strings.HasPrefix(name, "within") || strings.HasPrefix(name, "before")) {
				continue
			}
			n++
			afterLoop := i > 0 && isDigitLoop(list[i-1])
			if strings.HasPrefix(name, "within") && !afterLoop {
				bad = append(bad, fmt.Sprintf("state = %s at %s is not preceded by a digit-consuming loop (a refill could append digits to a number that must not have more)", name, p.Position(as.Pos())))
			}
			if strings.HasPrefix(name, "before") && afterLoop {
				bad = append(bad, fmt.Sprintf("state = %s at %s directly after a digit loop (further digits after a refill would be rejected)", name, p.Position(as.Pos())))
			}
		}
		return true
	})
	if !c.Floor("resume-state assignments in ConsumeNumberResumable", n, 4) {
		return
	}
	c.Oblige("resume-states", f.Pos(), len(bad) == 0, strings.Join(bad, "; "))
}

var helperResultSrcImpl func(info *types.Info, root ast.Node, v types.Object, def ast.Expr, depth int) (bool, string)

func helperResultSrc(info *types.Info, root ast.Node, v types.Object, def ast.Expr, depth int) (bool, string) {
	if helperResultSrcImpl == nil {
		return false, ""
	}
	return helperResultSrcImpl(info, root, v, def, depth)
}

func ruleNUMCONV1(c *Ctx) {
	numconvRangeUsesSource(c)
	p := c.P
	n := 0
	okSource := func(info *types.Info, root ast.Node, e ast.Expr, depth int) bool { return false }
	var src func(info *types.Info, root ast.Node, e ast.Expr, depth int) (bool, string)
	src = func(info *types.Info, root ast.Node, e ast.Expr, depth int) (bool, string) {
		e = ast.Unparen(e)
		if tv, ok := info.Types[e]; ok && tv.Value != nil {
			return true, ""
		}
		switch x := e.(type) {
		case *ast.CallExpr:
			if cf := Callee(info, x); cf != nil {
				switch QualName(cf) {
				case "strconv.ParseFloat", "math.NaN", "math.Inf", "internal.RawNumberOf":
					return true, ""
				}
				return false, "result of " + QualName(cf)
			}
			if tv, ok := info.Types[x.Fun]; ok && tv.IsType() && len(x.Args) == 1 {
				return src(info, root, x.Args[0], depth)
			}
			if o := IdentOrSelObj(info, x.Fun); o != nil && o.Name() == "RawNumberOf" && o.Pkg() != nil && o.Pkg().Path() == pkgAlias["internal"] {
				return true, "" // the raw-number hook keeps the literal text (UseNumber)
			}
			return false, "dynamic call"
		case *ast.Ident:
			v := IdentObj(info, x)
			if v == nil || depth > 3 {
				return false, "unknown " + x.Name
			}
			defs := defsOf(info, root, v)
			if len(defs) == 0 {
				return true, "" // parameter / zero value
			}
			for _, d := range defs {
				if ok, why := src(info, root, d, depth+1); !ok {
					// one result of a repo helper: what the helper returns in that position
					if okH, whyH := helperResultSrc(info, root, v, d, depth); okH {
						continue
					} else if whyH != "" {
						why = whyH
					}
					return false, why
				}
			}
			return true, ""
		case *ast.BinaryExpr:
			return false, "arithmetic `" + exprString(x) + "`"
		case *ast.UnaryExpr:
			return src(info, root, x.X, depth)
		}
		return false, "`" + exprString(e) + "`"
	}
	_ = okSource
	helperResultSrcImpl = func(info *types.Info, root ast.Node, v types.Object, def ast.Expr, depth int) (bool, string) {
		call, ok := ast.Unparen(def).(*ast.CallExpr)
		if !ok || depth > 3 {
			return false, ""
		}
		cf := Callee(info, call)
		if cf == nil {
			return false, ""
		}
		g := p.FuncOf(cf)
		if g == nil || g.Body() == nil || g.Pkg == nil || g.Pkg.PkgPath != pkgAlias["json"] {
			return false, ""
		}
		idx := -1
		ast.Inspect(root, func(n ast.Node) bool {
			if as, ok := n.(*ast.AssignStmt); ok && len(as.Rhs) == 1 && ast.Unparen(as.Rhs[0]) == ast.Expr(call) {
				for i, l := range as.Lhs {
					if IdentObj(info, l) == v {
						idx = i
					}
				}
			}
			return true
		})
		if idx < 0 {
			return false, ""
		}
		nret := 0
		why := ""
		InspectNoLit(g.Body(), func(n ast.Node) bool {
			r, ok := n.(*ast.ReturnStmt)
			if !ok {
				return true
			}
			nret++
			if idx >= len(r.Results) {
				why = "helper " + cf.Name() + " uses a bare return"
				return true
			}
			if okR, w := src(g.Info(), g.Body(), r.Results[idx], depth+1); !okR {
				why = "helper " + cf.Name() + " returns " + w
			}
			return true
		})
		return nret > 0 && why == "", why
	}
	for _, f := range p.FuncsIn("json") {
		if f.Body() == nil {
			continue
		}
		info := f.Info()
		// SetFloat(x)
		InspectNoLit(f.Body(), func(nd ast.Node) bool {
			call, ok := nd.(*ast.CallExpr)
			if !ok || len(call.Args) != 1 {
				return true
			}
			sel, ok := ast.Unparen(call.Fun).(*ast.SelectorExpr)
			if !ok || sel.Sel.Name != "SetFloat" {
				return true
			}
			n++
			okS, why := src(info, f.Body(), call.Args[0], 0)
			c.Oblige(fmt.Sprintf("setfloat:%s@%s", f.Name, exprString(call.Args[0])), call.Pos(), okS, "float value stored without going through strconv.ParseFloat: "+why)
			return true
		})
	}
	// unmarshalValueAny: number case returns
	if f := p.Func("json.unmarshalValueAny"); f == nil || f.Body() == nil {
		c.Undecide("json.unmarshalValueAny", "function missing")
	} else {
		info := f.Info()
		for _, cc := range findAll[*ast.CaseClause](f.Body()) {
			isNum := false
			for _, e := range cc.List {
				if v, ok := ConstI64(info, e); ok && v == '0' {
					isNum = true
				}
			}
			if !isNum {
				continue
			}
			for _, r := range findAll[*ast.ReturnStmt](&ast.BlockStmt{List: cc.Body}) {
				if len(r.Results) != 2 {
					continue
				}
				n++
				okS, why := src(info, f.Body(), r.Results[0], 0)
				c.Oblige(fmt.Sprintf("any-number:%s", exprString(r.Results[0])), r.Pos(), okS, "number for an untyped target produced without strconv.ParseFloat: "+why)
			}
		}
	}
	c.Floor("places that produce decoded floating-point numbers", n, 6)
}

func ruleWS1(c *Ctx) {
	p := c.P
	ft := p.Flags()
	f := p.Func("jsontext.(*encoderState).appendWhitespace")
	if f == nil || f.Body() == nil {
		c.Undecide("jsontext.(*encoderState).appendWhitespace", "function missing")
		return
	}
	info := f.Info()
	var commaPos, multiPos, colonPos token.Pos
	var multiIf *ast.IfStmt
	InspectNoLit(f.Body(), func(nd ast.Node) bool {
		ifs, ok := nd.(*ast.IfStmt)
		if !ok {
			return true
		}
		fr := flagsRead(info, ifs.Cond)
		appends := len(findAll[*ast.CallExpr](ifs.Body)) > 0
		if !appends {
			return true
		}
		switch fr {
		case ft.Single["SpaceAfterComma"]:
			commaPos = ifs.Pos()
		case ft.Single["Multiline"]:
			multiPos = ifs.Pos()
			multiIf = ifs
		case ft.Single["SpaceAfterColon"]:
			colonPos = ifs.Pos()
		}
		return true
	})
	if commaPos == token.NoPos || multiPos == token.NoPos || colonPos == token.NoPos {
		c.Undecide("appendWhitespace/flag-guarded appends", "SpaceAfterComma/SpaceAfterColon/Multiline appends not all found")
		return
	}
	c.Oblige("comma-space-before-indent", commaPos, commaPos < multiPos, "the SpaceAfterComma space is appended after the Multiline indentation; WriteValue (reformat*) emits it right after the comma, so the two paths would format the same tokens differently")
	// ... and the two are independent: the indentation is not an alternative (else branch) of the comma space
	alt := false
	var cur ast.Node = multiIf
	for cur != nil && cur != ast.Node(f.Body()) {
		par := p.Parent(f.File, cur)
		if pi, ok := par.(*ast.IfStmt); ok && pi.Else == cur {
			if flagsRead(info, pi.Cond)&ft.Single["SpaceAfterComma"] != 0 {
				alt = true
			}
		}
		cur = par
	}
	c.Oblige("indent-independent-of-comma-space", multiPos, !alt, "the Multiline newline/indent is only emitted when the SpaceAfterComma space is not (else branch): with both options set the token path keeps members on one line while WriteValue (reformat*) applies both")
	// the value path for comparison: in reformatArray/reformatObject the comma append is followed by the SpaceAfterComma test
	for _, nm := range []string{"reformatObject", "reformatArray"} {
		g := p.Func("jsontext.(*encoderState)." + nm)
		if g == nil || g.Body() == nil {
			c.Undecide("jsontext.(*encoderState)."+nm, "function missing")
			continue
		}
		ginfo := g.Info()
		ok := false
		// the function and the private helpers its tail was moved into; a comma handled by an
		// `if c == ','` arm instead of a case clause is the same thing
		var clauses [][]ast.Stmt
		var lists [][]ast.Expr
		for _, h := range p.CalleeClosure(g, 2) {
			if h != g && (h.Name == "jsontext.(*encoderState).reformatValue" || h.Name == "jsontext.(*encoderState).reformatObject" || h.Name == "jsontext.(*encoderState).reformatArray") {
				continue
			}
			for _, cc := range findAll[*ast.CaseClause](h.Body()) {
				clauses = append(clauses, cc.Body)
				lists = append(lists, cc.List)
			}
			for _, ifs := range findAll[*ast.IfStmt](h.Body()) {
				if be, isBe := ast.Unparen(ifs.Cond).(*ast.BinaryExpr); isBe && be.Op == token.EQL {
					clauses = append(clauses, ifs.Body.List)
					lists = append(lists, []ast.Expr{be.Y})
				}
			}
		}
		for ci, body := range clauses {
			cc := struct {
				List []ast.Expr
				Body []ast.Stmt
			}{lists[ci], body}
			isComma := false
			for _, e := range cc.List {
				if v, isC := ConstI64(ginfo, e); isC && v == ',' {
					isComma = true
				}
			}
			if !isComma || len(cc.Body) < 2 {
				continue
			}
			// first: dst = append(dst, ','); second: if SpaceAfterComma { append ' ' }
			if as, isAs := cc.Body[0].(*ast.AssignStmt); isAs && len(as.Rhs) == 1 {
				if call, isCall := ast.Unparen(as.Rhs[0]).(*ast.CallExpr); isCall && IsBuiltin(ginfo, call, "append") {
					if ifs, isIf := cc.Body[1].(*ast.IfStmt); isIf && flagsRead(ginfo, ifs.Cond) == ft.Single["SpaceAfterComma"] {
						ok = true
					}
				}
			}
		}
		c.Oblige("value-path-comma-then-space:"+nm, g.Pos(), ok, "the value path does not emit `,` immediately followed by the optional SpaceAfterComma space")
	}
}

func rulePOOL4(c *Ctx) {
	p := c.P
	n := 0
	for _, f := range p.FuncsIn("jsontext", "json", "v1") {
		if f.Body() == nil {
			continue
		}
		info := f.Info()
		InspectNoLit(f.Body(), func(nd ast.Node) bool {
			call, ok := nd.(*ast.CallExpr)
			if !ok || len(call.Args) < 2 {
				return true
			}
			isEnc, isDec := false, false
			if _, ok := MethodCall(info, call, "jsontext", "encoderState", "reset"); ok {
				isEnc = true
			}
			if _, ok := MethodCall(info, call, "jsontext", "decoderState", "reset"); ok {
				isDec = true
			}
			if !isEnc && !isDec {
				return true
			}
			if isDec && IsNilIdent(info, call.Args[1]) {
				return true // buffered decoder: the buffer IS the caller's input
			}
			n++
			zeroLen := func(e ast.Expr) bool { return false }
			var zl func(e ast.Expr, depth int) bool
			zl = func(e ast.Expr, depth int) bool {
				e = ast.Unparen(e)
				if IsNilIdent(info, e) {
					return true
				}
				if sl, ok := e.(*ast.SliceExpr); ok && sl.Low == nil && sl.High != nil {
					if v, isC := ConstI64(info, sl.High); isC && v == 0 {
						return true
					}
				}
				if v := IdentObj(info, e); v != nil && depth < 3 {
					defs := defsOf(info, f.Body(), v)
					if len(defs) == 0 {
						return false
					}
					for _, d := range defs {
						if !zl(d, depth+1) {
							return false
						}
					}
					return true
				}
				return false
			}
			_ = zeroLen
			c.Oblige(fmt.Sprintf("reset-buffer:%s", f.Name), call.Pos(), zl(call.Args[0], 0), "the coder is reset onto `"+exprString(call.Args[0])+"`, which may still hold bytes from a previous (failed) use")
			return true
		})
	}
	c.Floor("coder reset call sites with a reusable buffer", n, 5)
}

func ruleESCAPE1(c *Ctx) {
	p := c.P
	n := 0
	for _, f := range p.FuncsIn("json", "v1") {
		if f.Body() == nil {
			continue
		}
		info := f.Info()
		InspectNoLit(f.Body(), func(nd ast.Node) bool {
			call, ok := nd.(*ast.CallExpr)
			if !ok {
				return true
			}
			if _, ok := MethodCall(info, call, "jsontext", "decodeBuffer", "PreviousTokenOrValue"); !ok {
				return true
			}
			n++
			// walk up through conversions and parens
			var cur ast.Node = call
			okUse, why := false, ""
			for {
				par := p.Parent(f.File, cur)
				switch x := par.(type) {
				case *ast.ParenExpr:
					cur = x
					continue
				case *ast.CallExpr:
					if tv, isT := info.Types[x.Fun]; isT && tv.IsType() {
						if isStringType(tv.Type) {
							okUse = true // string(...) copies
							break
						}
						cur = x // jsontext.Value(...) conversion: keep climbing
						continue
					}
					if IsBuiltin(info, x, "len") {
						okUse = true
						break
					}
					if cf := Callee(info, x); cf != nil && (cf.Name() == "len64" || QualName(cf) == "bytes.Equal") {
						okUse = true
						break
					}
					why = "passed to " + exprString(x.Fun)
				case *ast.SelectorExpr:
					// method on the converted value: Kind() / Clone()
					if pc, isCall := p.Parent(f.File, x).(*ast.CallExpr); isCall && (x.Sel.Name == "Kind" || x.Sel.Name == "Clone") {
						_ = pc
						okUse = true
						break
					}
					why = "selector ." + x.Sel.Name
				case *ast.AssignStmt:
					// local variable: every use of it must itself be benign
					okUse = true
					for i, r := range x.Rhs {
						if containsNode(r, call) && i < len(x.Lhs) {
							v, _ := IdentObj(info, x.Lhs[i]).(*types.Var)
							if v == nil || v.IsField() || SelField(info, x.Lhs[i]) != nil {
								okUse, why = false, "stored into "+exprString(x.Lhs[i])
								continue
							}
							if w := viewEscapes(p, f, v); w != "" {
								okUse, why = false, "local `"+v.Name()+"` "+w
							}
						}
					}
				case *ast.BinaryExpr:
					okUse = x.Op == token.EQL || x.Op == token.NEQ
				default:
					why = fmt.Sprintf("used in %T", par)
				}
				break
			}
			c.Oblige(fmt.Sprintf("previous-view:%s#%d", f.Name, n), call.Pos(), okUse, "the decoder's view of the previous token/value escapes without a copy ("+why+"); it is overwritten by later reads and aliases the caller's input")
			return true
		})
	}
	c.Floor("uses of PreviousTokenOrValue in package json", n, 4)
}

// viewEscapes: how a local holding a transient decoder view may escape ("" = it does not).
func viewEscapes(p *Program, f *FuncInfo, v *types.Var) string {
	info := f.Info()
	why := ""
	ast.Inspect(f.Body(), func(nd ast.Node) bool {
		id, ok := nd.(*ast.Ident)
		if !ok || info.Uses[id] != v || why != "" {
			return true
		}
		var cur ast.Node = id
		for {
			par := p.Parent(f.File, cur)
			switch x := par.(type) {
			case *ast.ParenExpr:
				cur = x
				continue
			case *ast.CallExpr:
				if tv, isT := info.Types[x.Fun]; isT && tv.IsType() {
					if isStringType(tv.Type) {
						return true
					}
					cur = x
					continue
				}
				if IsBuiltin(info, x, "len") {
					return true
				}
				if cf := Callee(info, x); cf != nil && (cf.Name() == "len64" || QualName(cf) == "bytes.Equal") {
					return true
				}
				why = "is passed to " + exprString(x.Fun) + " at " + p.Position(x.Pos())
			case *ast.SelectorExpr:
				if x.Sel.Name == "Kind" || x.Sel.Name == "Clone" {
					return true
				}
				why = "has ." + x.Sel.Name + " taken"
			case *ast.BinaryExpr, *ast.IndexExpr, *ast.SliceExpr:
				return true
			case *ast.ReturnStmt:
				why = "is returned"
			case *ast.AssignStmt:
				why = "is stored at " + p.Position(x.Pos())
			case *ast.KeyValueExpr, *ast.CompositeLit:
				why = "is stored in a composite value"
			}
			break
		}
		return true
	})
	return why
}
