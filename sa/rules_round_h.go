package main

import (
	"fmt"
	"go/ast"
	"go/constant"
	"go/token"
	"go/types"
	"sort"
	"strings"
)

func init() {
	register(&Rule{ID: "WS-2", Doc: "insignificant whitespace is exactly space, tab, line feed, carriage return (RFC 8259 section 2): the byte predicate of every whitespace scanner in jsonwire (ConsumeWhitespace, TrimSuffixWhitespace, any function named *Whitespace* whose loop tests a byte against ' ') is evaluated for all 256 byte values and must hold for exactly {0x20, 0x09, 0x0a, 0x0d}", Run: ruleWS2})
	register(&Rule{ID: "FLOATCONST-1", Doc: "a float is never compared with an integer constant that float64 cannot represent: in every comparison between a floating-point operand and a constant expression, the constant converts to float64 exactly — otherwise the compiler silently rounds it (2^63-1 becomes 2^63) and the bound that is written is not the bound that is tested", Run: ruleFLOATCONST1})
	register(&Rule{ID: "SKIP-1", Doc: "a non-fatal unmarshal error leaves the decoder after the value: in every unmarshal closure, an error built by newUnmarshalErrorBefore (which does not consume the value) is only returned on paths where ReportErrorsWithLegacySemantics is known to be off or after the value was consumed (SkipValue, ReadValue, ReadToken); under legacy reporting the container arshalers continue with the next element and would otherwise spin on the same one", Run: ruleSKIP1})
	register(&Rule{ID: "V1-6", Doc: "the v1 buffer helpers append nothing when they fail: in v1 functions that take a *bytes.Buffer destination, bytes produced by a call that also returns an error are written to the destination only after that error was found nil — except for producers reviewed to truncate their output on error (appendIndent)", Run: ruleV16})
	register(&Rule{ID: "FLAGJOIN-1", Doc: "scan verdicts accumulate: in jsonwire and jsontext no function assigns through a *ValueFlags parameter (`*flags = x`) — flags are only ever joined, so that a resumed scan keeps what the first part of the value established; and every local handed to a resumable scanner (ConsumeStringResumable, ConsumeNumberResumable) inside a loop is declared outside that loop", Run: ruleFLAGJOIN1})
	register(&Rule{ID: "DEPTH-2", Doc: "no container bypasses the depth guard: in every jsontext kind dispatch whose '{' or '[' arm hands the value to a function that hosts a depth guard (consumeObject, consumeArray, reformatObject, reformatArray), every successful return of that arm goes through such a call", Run: ruleDEPTH2})
}

// ---- byte predicates ------------------------------------------------------------

// evalBytePred evaluates a boolean expression over one byte-typed subject for the value v.
// Every non-constant byte operand must have the same text (the subject).
func evalBytePred(info *types.Info, e ast.Expr, subj *string, v int64) tri {
	e = ast.Unparen(e)
	switch x := e.(type) {
	case *ast.UnaryExpr:
		if x.Op == token.NOT {
			switch evalBytePred(info, x.X, subj, v) {
			case triYes:
				return triNo
			case triNo:
				return triYes
			}
		}
		return triUnknown
	case *ast.BinaryExpr:
		switch x.Op {
		case token.LAND, token.LOR:
			a, b := evalBytePred(info, x.X, subj, v), evalBytePred(info, x.Y, subj, v)
			if x.Op == token.LAND {
				if a == triNo || b == triNo {
					return triNo
				}
				if a == triYes && b == triYes {
					return triYes
				}
			} else {
				if a == triYes || b == triYes {
					return triYes
				}
				if a == triNo && b == triNo {
					return triNo
				}
			}
			return triUnknown
		case token.EQL, token.NEQ, token.LSS, token.LEQ, token.GTR, token.GEQ:
			l, r := x.X, x.Y
			op := x.Op
			cv, isC := ConstI64(info, r)
			if !isC {
				if cv2, isC2 := ConstI64(info, l); isC2 {
					cv, isC = cv2, true
					l = r
					switch op {
					case token.LSS:
						op = token.GTR
					case token.LEQ:
						op = token.GEQ
					case token.GTR:
						op = token.LSS
					case token.GEQ:
						op = token.LEQ
					}
				}
			}
			if !isC {
				return triUnknown
			}
			t := info.TypeOf(l)
			b, ok := t.Underlying().(*types.Basic)
			if !ok || (b.Kind() != types.Uint8 && b.Kind() != types.Int32 && b.Kind() != types.UntypedRune) {
				return triUnknown
			}
			s := exprString(l)
			if *subj == "" {
				*subj = s
			} else if *subj != s {
				return triUnknown
			}
			var res bool
			switch op {
			case token.EQL:
				res = v == cv
			case token.NEQ:
				res = v != cv
			case token.LSS:
				res = v < cv
			case token.LEQ:
				res = v <= cv
			case token.GTR:
				res = v > cv
			case token.GEQ:
				res = v >= cv
			}
			if res {
				return triYes
			}
			return triNo
		}
	}
	return triUnknown
}

func ruleWS2(c *Ctx) {
	p := c.P
	n := 0
	want := map[int64]bool{' ': true, '\t': true, '\n': true, '\r': true}
	for _, f := range p.FuncsIn("jsonwire", "jsontext") {
		if f.Decl == nil || f.Body() == nil || f.Obj == nil || !strings.Contains(f.Obj.Name(), "Whitespace") {
			continue
		}
		info := f.Info()
		k := 0
		InspectNoLit(f.Body(), func(nd ast.Node) bool {
			fs, ok := nd.(*ast.ForStmt)
			if !ok || fs.Cond == nil {
				return true
			}
			// the conjuncts that compare a byte with ' '
			var pred []ast.Expr
			for _, cj := range conjuncts(fs.Cond) {
				mentions := false
				ast.Inspect(cj, func(m ast.Node) bool {
					if e, ok := m.(ast.Expr); ok {
						if v, isC := ConstI64(info, e); isC && v == ' ' {
							if _, isLit := e.(*ast.BasicLit); isLit {
								mentions = true
							}
						}
					}
					return true
				})
				if mentions {
					pred = append(pred, cj)
				}
			}
			if len(pred) == 0 {
				return true
			}
			n++
			k++
			var got, undecided []string
			okSet := true
			for v := int64(0); v < 256; v++ {
				r := triYes
				subj := ""
				for _, cj := range pred {
					t := evalBytePred(info, cj, &subj, v)
					if t == triNo {
						r = triNo
					} else if t == triUnknown && r != triNo {
						r = triUnknown
					}
				}
				switch {
				case r == triUnknown:
					undecided = append(undecided, fmt.Sprintf("0x%02x", v))
				case (r == triYes) != want[v]:
					okSet = false
					got = append(got, fmt.Sprintf("0x%02x", v))
				}
			}
			key := fmt.Sprintf("whitespace-set:%s#%d", f.Name, k)
			if len(undecided) > 0 {
				c.Undecide(key, "byte predicate not decidable for "+strings.Join(undecided[:1], ","))
				return true
			}
			c.Oblige(key, fs.Cond.Pos(), okSet, "the loop treats byte(s) "+strings.Join(got, ",")+" differently from RFC 8259 whitespace {0x20,0x09,0x0a,0x0d}: text with other control characters between tokens is accepted (or legal whitespace refused)")
			return true
		})
	}
	c.Floor("whitespace scanner loops", n, 2)
}

// ---- FLOATCONST-1 ---------------------------------------------------------------

// exactConst evaluates a constant expression without the rounding go/types applies when it converts an
// untyped constant to the other operand's floating-point type.
func exactConst(info *types.Info, e ast.Expr) (constant.Value, bool) {
	switch x := ast.Unparen(e).(type) {
	case *ast.BasicLit:
		if tv, ok := info.Types[x]; ok && tv.Value != nil {
			return constant.MakeFromLiteral(x.Value, x.Kind, 0), true
		}
	case *ast.Ident:
		if cobj, ok := info.Uses[x].(*types.Const); ok {
			return cobj.Val(), true
		}
	case *ast.SelectorExpr:
		if cobj, ok := info.Uses[x.Sel].(*types.Const); ok {
			return cobj.Val(), true
		}
	case *ast.UnaryExpr:
		if v, ok := exactConst(info, x.X); ok && (x.Op == token.SUB || x.Op == token.ADD) {
			return constant.UnaryOp(x.Op, v, 0), true
		}
	case *ast.BinaryExpr:
		a, ok1 := exactConst(info, x.X)
		b, ok2 := exactConst(info, x.Y)
		if ok1 && ok2 {
			switch x.Op {
			case token.ADD, token.SUB, token.MUL:
				return constant.BinaryOp(a, x.Op, b), true
			case token.SHL:
				if s, ok := constant.Uint64Val(b); ok && s < 1024 {
					return constant.Shift(a, token.SHL, uint(s)), true
				}
			}
		}
	case *ast.CallExpr:
		// conversion T(c)
		if len(x.Args) == 1 {
			if tv, ok := info.Types[x.Fun]; ok && tv.IsType() {
				return exactConst(info, x.Args[0])
			}
		}
	}
	return nil, false
}

func floatLiteral(e ast.Expr) (*ast.BasicLit, bool) {
	bl, ok := ast.Unparen(e).(*ast.BasicLit)
	return bl, ok && bl.Kind == token.FLOAT
}

func ruleFLOATCONST1(c *Ctx) {
	p := c.P
	n := 0
	for _, f := range p.FuncsIn("json", "jsontext", "jsonwire", "v1", "jsonopts", "jsonflags") {
		if f.Body() == nil {
			continue
		}
		info := f.Info()
		k := 0
		InspectNoLit(f.Body(), func(nd ast.Node) bool {
			be, ok := nd.(*ast.BinaryExpr)
			if !ok || !tokIsCmp(be.Op) {
				return true
			}
			for _, pr := range [][2]ast.Expr{{be.X, be.Y}, {be.Y, be.X}} {
				ft, ct := info.Types[pr[0]], info.Types[pr[1]]
				if ft.Value != nil || ct.Value == nil || ft.Type == nil {
					continue
				}
				b, ok := ft.Type.Underlying().(*types.Basic)
				if !ok || b.Info()&types.IsFloat == 0 {
					continue
				}
				v, ok := exactConst(info, pr[1])
				if !ok {
					continue
				}
				n++
				k++
				exact := true
				// only integer bounds: a decimal fraction such as 1e-6 is a rounded quantity to begin with,
				// and a float literal (1e21) is written as a float on purpose
				if _, isFloatLit := floatLiteral(pr[1]); v.Kind() == constant.Int && !isFloatLit {
					f64, _ := constant.Float64Val(v)
					if b.Kind() == types.Float32 {
						f32, _ := constant.Float32Val(v)
						f64 = float64(f32)
					}
					exact = constant.Compare(constant.MakeFloat64(f64), token.EQL, constant.ToFloat(v))
				}
				c.Oblige(fmt.Sprintf("exact-bound:%s#%d", f.Name, k), be.Pos(), exact,
					"`"+exprString(be)+"` compares a "+b.Name()+" with the constant "+v.ExactString()+", which "+b.Name()+" cannot represent: the compiler rounds it, so the bound tested differs from the bound written (values equal to the rounded constant fall on the wrong side)")
			}
			return true
		})
	}
	c.Floor("comparisons of a float with a constant", n, 6)
	// the float32 range is decided by converting and testing for infinity: values up to half an ulp beyond
	// MaxFloat32 still round to MaxFloat32, so `x > math.MaxFloat32` on a float64 refuses numbers that fit
	k32 := 0
	for _, f := range p.FuncsIn("json", "jsontext", "jsonwire", "v1") {
		if f.Body() == nil {
			continue
		}
		info := f.Info()
		InspectNoLit(f.Body(), func(nd ast.Node) bool {
			be, ok := nd.(*ast.BinaryExpr)
			if !ok || !tokIsCmp(be.Op) {
				return true
			}
			for _, pr := range [][2]ast.Expr{{be.X, be.Y}, {be.Y, be.X}} {
				isMax32 := false
				ast.Inspect(pr[1], func(m ast.Node) bool {
					if o := IdentOrSelObj(info, asExpr(m)); o != nil && o.Pkg() != nil && o.Pkg().Path() == "math" && o.Name() == "MaxFloat32" {
						isMax32 = true
					}
					return true
				})
				if !isMax32 {
					continue
				}
				if t := info.TypeOf(pr[0]); t != nil {
					if b, ok := t.Underlying().(*types.Basic); ok && b.Kind() == types.Float64 && info.Types[pr[0]].Value == nil {
						k32++
						c.Violation(fmt.Sprintf("float32-range-by-conversion:%s#%d", f.Name, k32), be.Pos(), "`"+exprString(be)+"` decides the float32 range by comparing a float64 with MaxFloat32: float64 values within half an ulp above MaxFloat32 convert to MaxFloat32 (finite) and are wrongly treated as out of range; convert and test for infinity instead")
					}
				}
			}
			return true
		})
	}
	if k32 == 0 {
		c.OK("float32-range-by-conversion", token.NoPos, "")
	}
}

// ---- SKIP-1 ---------------------------------------------------------------------

func ruleSKIP1(c *Ctx) {
	p := c.P
	ft := p.Flags()
	legacy := ft.Single["ReportErrorsWithLegacySemantics"]
	if legacy == 0 {
		c.Undecide("jsonflags.ReportErrorsWithLegacySemantics", "flag missing")
		return
	}
	n := 0
	isBefore := func(info *types.Info, e ast.Expr) bool {
		call, ok := ast.Unparen(e).(*ast.CallExpr)
		if !ok {
			return false
		}
		cf := Callee(info, call)
		return cf != nil && cf.Name() == "newUnmarshalErrorBefore"
	}
	for _, f := range unmarshalClosures(p) {
		info := f.Info()
		has := false
		InspectNoLit(f.Body(), func(nd ast.Node) bool {
			if e, ok := nd.(ast.Expr); ok && isBefore(info, e) {
				has = true
			}
			return true
		})
		if !has {
			continue
		}
		type st struct {
			off      bool   // legacy reporting known off
			consumed bool   // a consuming decoder call happened
			held     uint16 // locals holding a Before error
		}
		vars := map[types.Object]uint{}
		bad := map[token.Pos]bool{}
		sites := map[token.Pos]bool{}
		fl := &Flow[st]{Fn: f}
		consumes := func(nd ast.Node) bool {
			for _, call := range CallsIn(nd) {
				if cf := Callee(info, call); cf != nil {
					switch cf.Name() {
					case "SkipValue", "ReadValue", "ReadToken":
						return true
					}
				}
			}
			return false
		}
		fl.Node = func(nd ast.Node, s st) []st {
			if as, ok := nd.(*ast.AssignStmt); ok && len(as.Lhs) == len(as.Rhs) {
				for i, r := range as.Rhs {
					if o := IdentObj(info, as.Lhs[i]); o != nil {
						if isBefore(info, r) {
							if _, ok := vars[o]; !ok && len(vars) < 16 {
								vars[o] = uint(len(vars))
							}
							sites[r.Pos()] = true
							s.held |= 1 << vars[o]
							s.consumed = false // the error is positioned before the value that is next *now*
						} else if k, ok := vars[o]; ok {
							s.held &^= 1 << k
						}
					}
				}
			}
			if consumes(nd) {
				s.consumed = true
			}
			if r, ok := nd.(*ast.ReturnStmt); ok {
				for _, res := range r.Results {
					if isBefore(info, res) {
						sites[res.Pos()] = true
						if !s.off {
							bad[r.Pos()] = true
						}
					}
					if k, ok := vars[IdentObj(info, res)]; ok && s.held&(1<<k) != 0 && !s.off && !s.consumed {
						bad[r.Pos()] = true
					}
				}
				return nil
			}
			return []st{s}
		}
		fl.Leaf = func(e ast.Expr, s st) (t, fs []st) {
			if v, ok := IsFlagGet(info, e); ok && v&^1 == legacy {
				on, off := s, s
				on.off = false
				off.off = true
				return []st{on}, []st{off}
			}
			if consumes(e) {
				s.consumed = true
			}
			return []st{s}, []st{s}
		}
		fl.Run(st{})
		n += len(sites)
		var ps []token.Pos
		for q := range bad {
			ps = append(ps, q)
		}
		sort.Slice(ps, func(i, j int) bool { return ps[i] < ps[j] })
		if len(ps) == 0 {
			c.OK("before-error-not-left-unconsumed:"+f.Name, f.Pos(), "")
			continue
		}
		c.Oblige("before-error-not-left-unconsumed:"+f.Name, ps[0], false,
			"an error positioned before the value is returned while ReportErrorsWithLegacySemantics may be on and the value has not been consumed: the slice/map/struct arshaler treats it as non-fatal, finds the same value again and never terminates (use newUnmarshalErrorBeforeWithSkipping)")
	}
	c.Floor("newUnmarshalErrorBefore sites in unmarshal closures", n, 1)
}

// ---- V1-6 -----------------------------------------------------------------------

func ruleV16(c *Ctx) {
	p := c.P
	n := 0
	truncatesOnError := map[string]string{"appendIndent": "truncates dst to its original length before returning an error"}
	for _, f := range p.FuncsIn("v1") {
		if f.Decl == nil || f.Body() == nil || f.Obj == nil {
			continue
		}
		sig := f.Obj.Type().(*types.Signature)
		var dst *types.Var
		for i := 0; i < sig.Params().Len(); i++ {
			if isPtrToNamed(sig.Params().At(i).Type(), "bytes", "Buffer") {
				dst = sig.Params().At(i)
			}
		}
		if dst == nil {
			continue
		}
		info := f.Info()
		// data variables produced together with an error: v -> (err var, producer)
		type prod struct {
			errv types.Object
			name string
		}
		type st struct {
			pending uint16 // data vars whose error has not been found nil
		}
		idx := map[types.Object]uint{}
		prods := map[types.Object]prod{}
		InspectNoLit(f.Body(), func(nd ast.Node) bool {
			as, ok := nd.(*ast.AssignStmt)
			if !ok || len(as.Rhs) != 1 || len(as.Lhs) < 2 {
				return true
			}
			call, ok := ast.Unparen(as.Rhs[0]).(*ast.CallExpr)
			if !ok {
				return true
			}
			last := IdentObj(info, as.Lhs[len(as.Lhs)-1])
			if last == nil || !isErrorType(last.Type()) {
				return true
			}
			for _, l := range as.Lhs[:len(as.Lhs)-1] {
				if o := IdentObj(info, l); o != nil {
					if _, seen := idx[o]; !seen && len(idx) < 16 {
						idx[o] = uint(len(idx))
					}
					prods[o] = prod{last, CalleeName(info, call)}
				}
			}
			return true
		})
		if len(idx) == 0 {
			continue
		}
		bad := map[token.Pos]string{}
		sites := map[token.Pos]bool{}
		fl := &Flow[st]{Fn: f}
		fl.Node = func(nd ast.Node, s st) []st {
			if as, ok := nd.(*ast.AssignStmt); ok && len(as.Rhs) == 1 && len(as.Lhs) >= 2 {
				if _, isCall := ast.Unparen(as.Rhs[0]).(*ast.CallExpr); isCall {
					for _, l := range as.Lhs[:len(as.Lhs)-1] {
						if k, ok := idx[IdentObj(info, l)]; ok {
							s.pending |= 1 << k
						}
					}
				}
			}
			for _, call := range CallsIn(nd) {
				sel, ok := ast.Unparen(call.Fun).(*ast.SelectorExpr)
				if !ok || IdentObj(info, sel.X) != dst || !strings.HasPrefix(sel.Sel.Name, "Write") || len(call.Args) == 0 {
					continue
				}
				o := IdentObj(info, call.Args[0])
				k, ok := idx[o]
				if !ok {
					continue
				}
				sites[call.Pos()] = true
				if s.pending&(1<<k) != 0 {
					nm := prods[o].name
					if i := strings.LastIndex(nm, "."); i >= 0 {
						nm = nm[i+1:]
					}
					if _, ok := truncatesOnError[nm]; ok {
						continue
					}
					bad[call.Pos()] = o.Name() + " (from " + prods[o].name + ")"
				}
			}
			if _, ok := nd.(*ast.ReturnStmt); ok {
				return nil
			}
			return []st{s}
		}
		fl.Leaf = func(e ast.Expr, s st) (t, fs []st) {
			if v, nonNil, ok := ErrCmp(info, e); ok {
				okS := s
				for o, pr := range prods {
					if pr.errv == v {
						okS.pending &^= 1 << idx[o]
					}
				}
				if nonNil { // err != nil : false branch is the nil one
					return []st{s}, []st{okS}
				}
				return []st{okS}, []st{s}
			}
			return []st{s}, []st{s}
		}
		fl.Run(st{})
		var ps []token.Pos
		for q := range sites {
			ps = append(ps, q)
		}
		sort.Slice(ps, func(i, j int) bool { return ps[i] < ps[j] })
		for i, q := range ps {
			n++
			c.Oblige(fmt.Sprintf("write-after-error-check:%s#%d", f.Name, i+1), q, bad[q] == "",
				"the destination buffer receives "+bad[q]+" on a path where the producer's error has not been found nil: a failing call appends partial or raw input to the caller's buffer")
		}
	}
	c.Floor("buffer writes of fallible results in v1", n, 2)
}

// ---- FLAGJOIN-1 -----------------------------------------------------------------

func ruleFLAGJOIN1(c *Ctx) {
	p := c.P
	n := 0
	vf := p.NamedType("jsonwire", "ValueFlags")
	if vf == nil {
		c.Undecide("jsonwire.ValueFlags", "type missing")
		return
	}
	isVFPtr := func(t types.Type) bool {
		pt, ok := t.(*types.Pointer)
		return ok && types.Identical(pt.Elem(), vf)
	}
	for _, f := range p.FuncsIn("jsonwire", "jsontext", "json") {
		if f.Body() == nil {
			continue
		}
		info := f.Info()
		// (a) no store through a *ValueFlags that is not the method receiver
		var recv *types.Var
		if f.Obj != nil {
			recv = f.Obj.Type().(*types.Signature).Recv()
		}
		k := 0
		hasParam := false
		if f.Obj != nil {
			sig := f.Obj.Type().(*types.Signature)
			for i := 0; i < sig.Params().Len(); i++ {
				if isVFPtr(sig.Params().At(i).Type()) {
					hasParam = true
				}
			}
		}
		InspectNoLit(f.Body(), func(nd ast.Node) bool {
			as, ok := nd.(*ast.AssignStmt)
			if !ok {
				return true
			}
			for _, l := range as.Lhs {
				star, ok := ast.Unparen(l).(*ast.StarExpr)
				if !ok || !isVFPtr(info.TypeOf(star.X)) {
					continue
				}
				if o := IdentObj(info, star.X); o != nil && o == recv {
					continue // ValueFlags' own methods
				}
				if as.Tok == token.OR_ASSIGN {
					continue
				}
				k++
				c.Violation(fmt.Sprintf("no-overwrite:%s#%d", f.Name, k), as.Pos(), "the caller's ValueFlags are overwritten (`"+exprString(l)+" "+as.Tok.String()+" ...`) instead of joined: what an earlier, interrupted part of the scan established (an escape, non-canonical form) is lost when the scan is resumed, and the string is then taken verbatim")
			}
			return true
		})
		if hasParam {
			n++
			if k == 0 {
				c.OK("no-overwrite:"+f.Name, f.Pos(), "")
			}
		}
		// (b) accumulators of resumable scanners live outside the resume loop
		j := 0
		InspectNoLit(f.Body(), func(nd ast.Node) bool {
			call, ok := nd.(*ast.CallExpr)
			if !ok {
				return true
			}
			cf := Callee(info, call)
			if cf == nil || cf.Pkg() == nil || cf.Pkg().Path() != pkgAlias["jsonwire"] || !strings.HasSuffix(cf.Name(), "Resumable") {
				return true
			}
			// innermost enclosing loop
			var loop ast.Node
			var cur ast.Node = call
			for cur != nil && cur != ast.Node(f.Body()) {
				cur = p.Parent(f.File, cur)
				switch cur.(type) {
				case *ast.ForStmt, *ast.RangeStmt:
					loop = cur
				}
				if loop != nil {
					break
				}
			}
			if loop == nil {
				return true
			}
			n++
			j++
			inside := ""
			for _, a := range call.Args {
				e := ast.Unparen(a)
				if u, ok := e.(*ast.UnaryExpr); ok && u.Op == token.AND {
					e = ast.Unparen(u.X)
				}
				id, ok := e.(*ast.Ident)
				if !ok {
					continue
				}
				v, ok := IdentObj(info, id).(*types.Var)
				if !ok || v.IsField() {
					continue
				}
				if _, isC := info.Types[a]; isC && info.Types[a].Value != nil {
					continue
				}
				if v.Pos() > loop.Pos() && v.Pos() < loop.End() {
					// a plain value recomputed every iteration is fine unless it is a carried accumulator:
					// pointers (&x) and the scanner's own state/offset results are carried
					_, isAddr := ast.Unparen(a).(*ast.UnaryExpr)
					if isAddr {
						inside = v.Name()
					}
				}
			}
			c.Oblige(fmt.Sprintf("accumulator-outlives-loop:%s:%s#%d", f.Name, cf.Name(), j), call.Pos(), inside == "",
				"`"+inside+"` is handed by address to the resumable scanner but declared inside the resume loop: every retry after a buffer refill starts from a fresh value and what the earlier attempts recorded is dropped")
			return true
		})
	}
	c.Floor("functions with a *ValueFlags parameter and resumable scanner calls in loops", n, 10)
}

// ---- DEPTH-2 --------------------------------------------------------------------

func ruleDEPTH2(c *Ctx) {
	p := c.P
	errObj := p.Lookup("jsontext", "errMaxDepth")
	kindT := p.NamedType("jsontext", "Kind")
	if errObj == nil || kindT == nil {
		c.Undecide("jsontext.errMaxDepth", "missing")
		return
	}
	hosts := map[*types.Func]bool{}
	for _, f := range p.FuncsIn("jsontext") {
		if f.Decl == nil || f.Body() == nil || f.Obj == nil {
			continue
		}
		info := f.Info()
		InspectNoLit(f.Body(), func(nd ast.Node) bool {
			if id, ok := nd.(*ast.Ident); ok && info.Uses[id] == errObj {
				hosts[f.Obj] = true
			}
			return true
		})
	}
	n := 0
	for _, f := range p.FuncsIn("jsontext") {
		if f.Decl == nil || f.Body() == nil {
			continue
		}
		info := f.Info()
		callsHost := func(nd ast.Node) bool {
			for _, call := range CallsIn(nd) {
				if cf := Callee(info, call); cf != nil && hosts[cf] {
					return true
				}
			}
			return false
		}
		InspectNoLit(f.Body(), func(nd ast.Node) bool {
			sw, ok := nd.(*ast.SwitchStmt)
			if !ok || sw.Tag == nil || !types.Identical(info.TypeOf(sw.Tag), kindT) {
				return true
			}
			for _, st := range sw.Body.List {
				cc := st.(*ast.CaseClause)
				isContainer := byte(0)
				for _, e := range cc.List {
					if v, isC := ConstI64(info, e); isC && (v == '{' || v == '[') {
						isContainer = byte(v)
					}
				}
				if isContainer == 0 {
					continue
				}
				body := &ast.BlockStmt{List: cc.Body, Lbrace: cc.Colon, Rbrace: cc.End()}
				rets := findAll[*ast.ReturnStmt](body)
				delegates := false
				for _, r := range rets {
					if callsHost(r) {
						delegates = true
					}
				}
				if !delegates {
					continue // this dispatch does its own work (token level) and is covered by DEPTH-1
				}
				n++
				var bypass *ast.ReturnStmt
				for _, r := range rets {
					if callsHost(r) {
						continue
					}
					// a return of a non-nil error is not a success
					if len(r.Results) > 0 {
						last := r.Results[len(r.Results)-1]
						if isErrorType(info.TypeOf(last)) && !IsNilIdent(info, last) {
							continue
						}
					}
					bypass = r
				}
				pos := cc.Pos()
				if bypass != nil {
					pos = bypass.Pos()
				}
				c.Oblige(fmt.Sprintf("container-arm-delegates:%s:%c", f.Name, isContainer), pos, bypass == nil,
					"the arm for '"+string(isContainer)+"' can return successfully without calling the function that checks the nesting depth: a container at depth maxNestingDepth+1 is accepted on that path")
			}
			return true
		})
	}
	c.Floor("container arms that delegate to a depth-guard host", n, 4)
}

// ---- NUMWIDTH-1: float32 tokens ---------------------------------------------------

// numwidthTokenFloats: in package jsontext a number token remembers whether it was made from a float32 ('F')
// or a float64 ('f'); every AppendFloat/ParseFloat in a case clause for one of these marks must use that
// width (a clause that covers both marks must not use a constant width).
func numwidthTokenFloats(c *Ctx) {
	p := c.P
	n := 0
	for _, f := range p.FuncsIn("jsontext") {
		if f.Body() == nil {
			continue
		}
		info := f.Info()
		k := 0
		InspectNoLit(f.Body(), func(nd ast.Node) bool {
			call, ok := nd.(*ast.CallExpr)
			if !ok {
				return true
			}
			cf := Callee(info, call)
			if cf == nil || cf.Pkg() == nil || cf.Name() != "AppendFloat" || len(call.Args) != 3 {
				return true
			}
			// enclosing case clause with constant marks
			marks := map[int64]bool{}
			var cur ast.Node = call
			for cur != nil && cur != ast.Node(f.Body()) {
				cur = p.Parent(f.File, cur)
				if cc, ok := cur.(*ast.CaseClause); ok {
					for _, e := range cc.List {
						if v, isC := ConstI64(info, e); isC {
							marks[v] = true
						}
					}
					if len(marks) > 0 {
						break
					}
				}
			}
			if !marks['F'] && !marks['f'] {
				return true
			}
			n++
			k++
			bits, isC := ConstI64(info, call.Args[2])
			ok2 := true
			detail := ""
			switch {
			case !isC:
			case marks['F'] && bits != 32:
				ok2, detail = false, fmt.Sprintf("a float32 token ('F') is formatted with %d bits: it is written as the float64 widening (0.10000000149011612 for float32(0.1)) instead of the shortest float32 decimal", bits)
			case marks['f'] && bits != 64:
				ok2, detail = false, fmt.Sprintf("a float64 token ('f') is formatted with %d bits: digits are lost", bits)
			}
			c.Oblige(fmt.Sprintf("token-float-width:%s#%d", f.Name, k), call.Pos(), ok2, detail)
			return true
		})
	}
	c.Floor("AppendFloat calls on float tokens", n, 4)
}

// ---- CHARSET-1 ------------------------------------------------------------------

func init() {
	register(&Rule{ID: "CHARSET-1", Doc: "character classes are whole alphabets: every closed range test on one byte or rune with character-literal bounds (`lo <= c && c <= hi`, or its complement `c < lo || hi < c`) in the implementation packages spans one of the reviewed alphabets 0-9, 1-9, a-f, A-F, c-f, C-F (low-surrogate nibble), a-z, A-Z — a bound that is off by one ('0'..'8', '\\t'..'\\r') silently changes the grammar", Run: ruleCHARSET1})
}

func ruleCHARSET1(c *Ctx) {
	p := c.P
	n := 0
	alphabets := map[[2]int64]bool{{'0', '9'}: true, {'1', '9'}: true, {'a', 'f'}: true, {'A', 'F'}: true, {'c', 'f'}: true, {'C', 'F'}: true, {'a', 'z'}: true, {'A', 'Z'}: true}
	isCharLit := func(e ast.Expr) (int64, bool) {
		bl, ok := ast.Unparen(e).(*ast.BasicLit)
		if !ok || bl.Kind != token.CHAR {
			return 0, false
		}
		v, _ := constant.Int64Val(constant.MakeFromLiteral(bl.Value, bl.Kind, 0))
		return v, true
	}
	// bound returns (subject text, value, isLower, inclusive) for `lit <= x`, `x >= lit`, `x <= lit`, `lit >= x` and strict forms
	bound := func(e ast.Expr) (subj string, v int64, lower, strict, ok bool) {
		be, isB := ast.Unparen(e).(*ast.BinaryExpr)
		if !isB {
			return
		}
		lv, lok := isCharLit(be.X)
		rv, rok := isCharLit(be.Y)
		switch {
		case lok && !rok:
			subj, v = exprString(be.Y), lv
			switch be.Op {
			case token.LEQ:
				return subj, v, true, false, true
			case token.LSS:
				return subj, v, true, true, true
			case token.GEQ:
				return subj, v, false, false, true
			case token.GTR:
				return subj, v, false, true, true
			}
		case rok && !lok:
			subj, v = exprString(be.X), rv
			switch be.Op {
			case token.GEQ:
				return subj, v, true, false, true
			case token.GTR:
				return subj, v, true, true, true
			case token.LEQ:
				return subj, v, false, false, true
			case token.LSS:
				return subj, v, false, true, true
			}
		}
		return "", 0, false, false, false
	}
	for _, f := range p.FuncsIn("jsonwire", "jsontext", "json", "v1") {
		if f.Body() == nil {
			continue
		}
		k := 0
		InspectNoLit(f.Body(), func(nd ast.Node) bool {
			be, ok := nd.(*ast.BinaryExpr)
			if !ok || (be.Op != token.LAND && be.Op != token.LOR) {
				return true
			}
			s1, v1, lo1, st1, ok1 := bound(be.X)
			s2, v2, lo2, st2, ok2 := bound(be.Y)
			if !ok1 || !ok2 || s1 != s2 || lo1 == lo2 {
				return true
			}
			lo, hi := v1, v2
			stLo, stHi := st1, st2
			if !lo1 {
				lo, hi = v2, v1
				stLo, stHi = st2, st1
			}
			if be.Op == token.LAND {
				// lo <= x && x <= hi
				if stLo {
					lo++
				}
				if stHi {
					hi--
				}
			} else {
				// complement: x < lo' || x > hi'  — the operands are the outside: `x < A` is an upper bound (not lower)
				// here lower==true means `x >= v`/`x > v`, which in an || is the upper outside part
				outHi, outLo := lo, hi // x > outHi-ish , x < outLo-ish
				if stLo {              // x > v : inside ends at v
					outHi = lo
				} else { // x >= v : inside ends at v-1
					outHi = lo - 1
				}
				if stHi { // x < v : inside starts at v
					outLo = hi
				} else {
					outLo = hi + 1
				}
				lo, hi = outLo, outHi
			}
			if lo > hi || hi >= 0x80 || lo < 0x09 {
				return true // code-point ranges (surrogates, planes) are not character classes of the grammar
			}
			n++
			k++
			c.Oblige(fmt.Sprintf("alphabet:%s#%d", f.Name, k), be.Pos(), alphabets[[2]int64{lo, hi}],
				fmt.Sprintf("`%s` spans %q..%q, which is none of the reviewed alphabets (0-9, 1-9, a-f, A-F, c-f, C-F, a-z, A-Z): a bound is off", exprString(be), rune(lo), rune(hi)))
			return true
		})
	}
	c.Floor("character range tests", n, 15)
	// one-sided tests: an ordered comparison of a byte with a letter or digit that has no partner bound on the
	// same subject in the same && / || expression leaves the class open-ended
	m := 0
	for _, f := range p.FuncsIn("jsonwire", "jsontext", "json", "v1") {
		if f.Body() == nil {
			continue
		}
		info := f.Info()
		k := 0
		InspectNoLit(f.Body(), func(nd ast.Node) bool {
			be, ok := nd.(*ast.BinaryExpr)
			if !ok {
				return true
			}
			switch be.Op {
			case token.LSS, token.LEQ, token.GTR, token.GEQ:
			default:
				return true
			}
			s1, v1, _, _, ok1 := bound(be)
			if !ok1 {
				return true
			}
			isAlnum := (v1 >= '0' && v1 <= '9') || (v1 >= 'a' && v1 <= 'z') || (v1 >= 'A' && v1 <= 'Z')
			if !isAlnum {
				return true
			}
			if t := info.TypeOf(be.X); t != nil {
				if b, ok := t.Underlying().(*types.Basic); !ok || (b.Kind() != types.Uint8 && b.Kind() != types.Int32 && b.Kind() != types.UntypedRune) {
					return true
				}
			}
			m++
			paired := false
			if par, ok := p.Parent(f.File, be).(*ast.BinaryExpr); ok && (par.Op == token.LAND || par.Op == token.LOR) {
				other := par.X
				if ast.Unparen(other) == ast.Expr(be) {
					other = par.Y
				}
				if s2, _, _, _, ok2 := bound(other); ok2 && s2 == s1 {
					paired = true
				}
			}
			k++
			c.Oblige(fmt.Sprintf("two-sided:%s#%d", f.Name, k), be.Pos(), paired,
				"`"+exprString(be)+"` bounds the character class on one side only: every byte beyond the letter or digit (punctuation, DEL, non-ASCII) falls into the class as well")
			return true
		})
	}
	c.Floor("ordered comparisons with a letter or digit", m, 30)
}

func asExpr(n ast.Node) ast.Expr {
	e, _ := n.(ast.Expr)
	return e
}
