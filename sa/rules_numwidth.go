package main

import (
	"fmt"
	"go/ast"
	"go/token"
	"go/types"
	"strings"
)

func init() {
	register(&Rule{ID: "NUMWIDTH-1", Doc: "number conversions are done at the width of the Go type: inside an arshaler factory that derives `bits` from t.Bits(), every strconv/jsonwire float or integer parse/format call passes that `bits`; elsewhere a constant width is only used where the Go operand has that width by type (64 for float64 values, 32 only for a value converted from float32); a function with a `bits` parameter forwards it; the integer range tests compare the parsed magnitude against a bound derived from `bits`; the unsigned parser is given the whole literal (a minus sign is never skipped)", Run: ruleNUMWIDTH1})
}

func ruleNUMWIDTH1(c *Ctx) {
	p := c.P
	type target struct {
		pkg, name string
		bitsArg   int // index of the bit-size argument
		valArg    int // index of the value being formatted (-1 for parsers)
	}
	targets := []target{
		{"strconv", "ParseFloat", 1, -1}, {"strconv", "ParseInt", 2, -1}, {"strconv", "ParseUint", 2, -1},
		{"strconv", "AppendFloat", 4, 1}, {"strconv", "FormatFloat", 3, 0},
		{"jsonwire", "AppendFloat", 2, 1}, {"jsonwire", "ParseFloat", 1, -1},
		{"jsontext", "AppendFloat", 2, 1},
	}
	n := 0
	ord := map[string]int{}
	for _, f := range p.FuncsIn("json", "jsontext", "jsonwire", "v1") {
		if f.Body() == nil {
			continue
		}
		info := f.Info()
		decl := f
		if d := p.enclosingDecl(f); d != nil {
			decl = d
		}
		// the factory's width local: single definition X.Bits() on a reflect.Type
		var widthVar *types.Var
		ast.Inspect(decl.Body(), func(nd ast.Node) bool {
			as, ok := nd.(*ast.AssignStmt)
			if !ok || len(as.Lhs) != 1 || len(as.Rhs) != 1 {
				return true
			}
			call, ok := ast.Unparen(as.Rhs[0]).(*ast.CallExpr)
			if !ok {
				return true
			}
			if sel, ok := ast.Unparen(call.Fun).(*ast.SelectorExpr); ok && sel.Sel.Name == "Bits" {
				if t := info.TypeOf(sel.X); t != nil && strings.HasSuffix(t.String(), "reflect.Type") {
					if v, _ := IdentObj(info, as.Lhs[0]).(*types.Var); v != nil && len(defsOf(info, decl.Body(), v)) == 1 {
						widthVar = v
					}
				}
			}
			return true
		})
		InspectNoLit(f.Body(), func(nd ast.Node) bool {
			call, ok := nd.(*ast.CallExpr)
			if !ok {
				return true
			}
			for _, tg := range targets {
				if !FuncCall(info, call, tg.pkg, tg.name) || len(call.Args) <= tg.bitsArg {
					continue
				}
				n++
				bits := ast.Unparen(call.Args[tg.bitsArg])
				okW, why := false, ""
				bv, _ := IdentObj(info, bits).(*types.Var)
				cv, isConst := ConstI64(info, bits)
				switch {
				case widthVar != nil:
					okW = bv == widthVar
					why = "inside a factory that knows the type's width (`" + widthVar.Name() + " := t.Bits()`) the call passes `" + exprString(bits) + "` instead"
				case bv != nil && isParamOf(f, decl, bv):
					okW = true
				case SelField(info, bits) != nil && fieldDerivesFromBits(p, SelField(info, bits)):
					okW = true // the width kept in a struct field that is only ever set from t.Bits()
				case isConst && tg.valArg >= 0:
					val := ast.Unparen(call.Args[tg.valArg])
					from32 := false
					if conv, ok := val.(*ast.CallExpr); ok && len(conv.Args) == 1 {
						if tv, ok := info.Types[conv.Fun]; ok && tv.IsType() {
							if bt, ok := info.TypeOf(conv.Args[0]).Underlying().(*types.Basic); ok && bt.Kind() == types.Float32 {
								from32 = true
							}
						}
					}
					reflFloat := false
					if vc, ok := val.(*ast.CallExpr); ok {
						if sel, ok := ast.Unparen(vc.Fun).(*ast.SelectorExpr); ok && sel.Sel.Name == "Float" {
							reflFloat = true // reflect.Value.Float(): width unknown by type
						}
					}
					switch {
					case reflFloat:
						why = "the operand comes from reflect.Value.Float(), whose width is not known by type; a constant width is wrong for float32"
					case cv == 32:
						okW = from32
						why = "width 32 for an operand that is not converted from a float32"
					case cv == 64:
						okW = !from32
						why = "width 64 for an operand converted from a float32 (shortest form would be computed for the wrong type)"
					default:
						why = fmt.Sprintf("width %d", cv)
					}
				case isConst:
					// parser with a constant width: the result must be used as that width by type (float64/int64): accept 64 only
					okW = cv == 64
					why = fmt.Sprintf("parser called with constant width %d", cv)
				default:
					why = "width argument `" + exprString(bits) + "` is neither the type's width, a forwarded parameter, nor a constant"
				}
				key := fmt.Sprintf("%s:%s.%s", f.Name, tg.pkg, tg.name)
				ord[key]++
				if ord[key] > 1 {
					key = fmt.Sprintf("%s#%d", key, ord[key])
				}
				c.Oblige("width:"+key, call.Pos(), okW, why)
			}
			return true
		})
	}
	c.Floor("width-carrying conversion calls", n, 15)
	numwidthTokenFloats(c)

	// integer range tests and sign handling in the int/uint unmarshalers
	for _, spec := range []struct {
		fn       string
		unsigned bool
	}{{"json.makeIntArshaler:unmarshal", false}, {"json.makeUintArshaler:unmarshal", true}} {
		f := p.Func(spec.fn)
		if f == nil || f.Body() == nil {
			c.Undecide(spec.fn, "function missing")
			continue
		}
		// the parse may sit in a private helper of the closure (extract-method): look through the scope
		holder := f
		var parsed *types.Var
		var parseCall *ast.CallExpr
		p.InspectScope(f, func(g *FuncInfo, nd ast.Node) bool {
			as, ok := nd.(*ast.AssignStmt)
			if !ok || len(as.Rhs) != 1 {
				return true
			}
			if call, ok := ast.Unparen(as.Rhs[0]).(*ast.CallExpr); ok && FuncCall(g.Info(), call, "jsonwire", "ParseUint") && len(as.Lhs) == 2 && parsed == nil {
				parsed, _ = IdentObj(g.Info(), as.Lhs[0]).(*types.Var)
				parseCall = call
				holder = g
			}
			return true
		})
		if parsed == nil {
			c.Violation("range-test:"+spec.fn, f.Pos(), "the integer literal is not parsed with jsonwire.ParseUint (digits only: a fraction or exponent must be refused)")
			continue
		}
		f = holder
		info := f.Info()
		// every ordered comparison of the parsed magnitude is against something derived from the width
		dependsOnBits := func(e ast.Expr, depth int) bool { return derivesFromBits(p, f, e, parsed, depth) }
		nCmp, bad := 0, ""
		InspectNoLit(f.Body(), func(nd ast.Node) bool {
			be, ok := nd.(*ast.BinaryExpr)
			if !ok {
				return true
			}
			switch be.Op {
			case token.GTR, token.GEQ, token.LSS, token.LEQ:
			default:
				return true
			}
			l, r := ast.Unparen(be.X), ast.Unparen(be.Y)
			if IdentObj(info, r) == parsed {
				l, r = r, l
			}
			if IdentObj(info, l) != parsed {
				return true
			}
			nCmp++
			if !dependsOnBits(r, 0) && bad == "" {
				bad = "range test `" + exprString(be) + "` compares against a bound that is not derived from the type's width"
			}
			return true
		})
		if nCmp == 0 {
			bad = "no ordered comparison of the parsed magnitude: out-of-range values would be stored"
		}
		c.Oblige("range-test:"+spec.fn, f.Pos(), bad == "", bad)
		if spec.unsigned {
			arg := ast.Unparen(parseCall.Args[0])
			_, isIdent := arg.(*ast.Ident)
			c.Oblige("unsigned-takes-whole-literal", parseCall.Pos(), isIdent, "ParseUint is given `"+exprString(arg)+"`: a re-sliced literal could skip a minus sign, which must be refused for unsigned types")
		}
	}
}

// isParamOf reports whether v is a parameter of f or of its enclosing declaration.
func isParamOf(f, decl *FuncInfo, v *types.Var) bool {
	for _, fi := range []*FuncInfo{f, decl} {
		if fi == nil {
			continue
		}
		var sig *types.Signature
		if fi.Obj != nil {
			sig, _ = fi.Obj.Type().(*types.Signature)
		} else if fi.Lit != nil {
			if t := fi.Info().TypeOf(fi.Lit); t != nil {
				sig, _ = t.Underlying().(*types.Signature)
			}
		}
		if sig == nil {
			continue
		}
		for i := 0; i < sig.Params().Len(); i++ {
			if sig.Params().At(i) == v {
				return true
			}
		}
	}
	return false
}

// derivesFromBits reports whether expression e, evaluated in function fn,
// mentions a variable whose definitions lead back to a reflect.Type.Bits()
// call — through local definitions and, for a parameter of a helper, through
// the corresponding argument at every call of that helper.
func derivesFromBits(p *Program, fn *FuncInfo, e ast.Expr, skip types.Object, depth int) bool {
	if depth > 6 {
		return false
	}
	info := fn.Info()
	root := fn
	if d := p.enclosingDecl(fn); d != nil {
		root = d
	}
	found := false
	ast.Inspect(e, func(nd ast.Node) bool {
		if found {
			return false
		}
		if call, ok := nd.(*ast.CallExpr); ok {
			if sel, ok := ast.Unparen(call.Fun).(*ast.SelectorExpr); ok && sel.Sel.Name == "Bits" {
				found = true
				return false
			}
		}
		if sel, ok := nd.(*ast.SelectorExpr); ok && depth < 4 {
			if fld := SelField(info, sel); fld != nil && !fld.Exported() && fieldDerivesFromBits(p, fld) {
				found = true
				return false
			}
		}
		id, ok := nd.(*ast.Ident)
		if !ok {
			return true
		}
		v, _ := IdentObj(info, id).(*types.Var)
		if v == nil || v == skip || v.IsField() {
			return true
		}
		for _, d := range defsOf(info, root.Body(), v) {
			if derivesFromBits(p, fn, d, skip, depth+1) {
				found = true
				return false
			}
		}
		// a parameter of a helper: the argument at each call site
		if root.Obj != nil {
			sig := root.Obj.Type().(*types.Signature)
			for i := 0; i < sig.Params().Len(); i++ {
				if sig.Params().At(i) != v {
					continue
				}
				callers := callersOf(p, root.Obj)
				okAll := len(callers) > 0
				for _, cf := range callers {
					cinfo := cf.Info()
					hit := false
					InspectNoLit(cf.Body(), func(x ast.Node) bool {
						if call, ok := x.(*ast.CallExpr); ok && Callee(cinfo, call) == root.Obj && i < len(call.Args) {
							if derivesFromBits(p, cf, call.Args[i], nil, depth+1) {
								hit = true
							}
						}
						return true
					})
					if !hit {
						okAll = false
					}
				}
				if okAll {
					found = true
					return false
				}
			}
		}
		return true
	})
	return found
}

// fieldDerivesFromBits: every value stored into the field (assignment or keyed composite literal) leads back to
// a reflect.Type.Bits() call.
func fieldDerivesFromBits(p *Program, fld *types.Var) bool {
	n, ok := 0, true
	for _, f := range p.FuncsIn("json", "jsontext", "v1") {
		if f.Body() == nil || f.Decl == nil {
			continue
		}
		info := f.Info()
		ast.Inspect(f.Body(), func(nd ast.Node) bool {
			switch x := nd.(type) {
			case *ast.AssignStmt:
				if len(x.Lhs) == len(x.Rhs) {
					for i, l := range x.Lhs {
						if SelField(info, l) == fld {
							n++
							if !derivesFromBits(p, f, x.Rhs[i], nil, 0) {
								ok = false
							}
						}
					}
				}
			case *ast.KeyValueExpr:
				if id, isId := x.Key.(*ast.Ident); isId && info.Uses[id] == fld {
					n++
					if !derivesFromBits(p, f, x.Value, nil, 0) {
						ok = false
					}
				}
			}
			return true
		})
	}
	return n > 0 && ok
}
