package main

import (
	"fmt"
	"go/ast"
	"go/token"
	"go/types"
	"sort"
	"strings"
)

func init() {
	register(&Rule{ID: "FORMAT-1", Doc: "reformatting is wired as documented: Value.format stores the result only after WriteValue succeeded and only when it differs; AppendFormat appends src unchanged on error; the presets Compact, Indent and Canonicalize pass exactly their documented option lists before the caller's options; in reformat* every append to dst is a slice of src, a structural constant, AppendIndent output or the result of ReformatString/ReformatNumber, verbatim strings/numbers are only copied after ConsumeSimpleString/ConsumeSimpleNumber accepted them and numbers not under CanonicalizeNumbers; WriteValue reorders under ReorderRawObjects for objects and arrays; every member comparison used for reordering (the already-sorted test and the sort) is objectMember.Compare, which compares names with CompareUTF16", Run: ruleFORMAT1})
	register(&Rule{ID: "WIDTH-1", Doc: "index arithmetic follows the decoded rune width: in jsonwire, inside the multi-byte branch of a byte-vs-utf8.RuneSelf test (where a rune and its size rn were decoded), no position is advanced by a constant instead of rn", Run: ruleWIDTH1})
	register(&Rule{ID: "CASE-SYM", Doc: "hexadecimal digits are case-insensitive (RFC 8259 section 7): in jsonwire every boolean test that compares a byte with a lower-case hex letter also tests the corresponding upper-case letter (or the byte was case-folded)", Run: ruleCASESYM})
}

func ruleFORMAT1(c *Ctx) {
	p := c.P
	ft := p.Flags()
	// ---- Value.format
	if f := p.Func("jsontext.(*Value).format"); f == nil || f.Body() == nil {
		c.Undecide("jsontext.(*Value).format", "function missing")
	} else {
		info := f.Info()
		recv := f.Obj.Type().(*types.Signature).Recv()
		type st struct {
			wrote tri // WriteValue returned nil on this path
		}
		var errVar types.Object
		bad := ""
		nStores := 0
		fl := &Flow[st]{Fn: f}
		fl.Node = func(nd ast.Node, s st) []st {
			if as, ok := nd.(*ast.AssignStmt); ok {
				if len(as.Rhs) == 1 {
					if call, ok := ast.Unparen(as.Rhs[0]).(*ast.CallExpr); ok {
						if _, ok := MethodCall(info, call, "jsontext", "encoderState", "WriteValue"); ok {
							errVar = IdentObj(info, as.Lhs[0])
							return []st{{wrote: triYes}, {wrote: triNo}}
						}
					}
				}
				for _, l := range as.Lhs {
					if star, ok := ast.Unparen(l).(*ast.StarExpr); ok && IdentObj(info, star.X) == recv {
						nStores++
						if s.wrote != triYes && bad == "" {
							bad = "*v is assigned at " + p.Position(as.Pos()) + " on a path where WriteValue has not succeeded"
						}
						// only under !bytes.Equal
						guarded := false
						for _, cc := range enclosingConds(p, f, as) {
							if u, ok := ast.Unparen(cc.cond).(*ast.UnaryExpr); ok && u.Op == token.NOT && cc.then {
								if call, ok := ast.Unparen(u.X).(*ast.CallExpr); ok && FuncCall(info, call, "bytes", "Equal") {
									guarded = true
								}
							}
						}
						if !guarded && bad == "" {
							bad = "*v is rewritten at " + p.Position(as.Pos()) + " even when the formatted value is identical"
						}
					}
				}
			}
			if _, ok := nd.(*ast.ReturnStmt); ok {
				return nil
			}
			return []st{s}
		}
		fl.Leaf = func(e ast.Expr, s st) (t, fs []st) {
			if v, nonNil, ok := ErrCmp(info, e); ok && errVar != nil && v == errVar && s.wrote != triUnknown {
				failed := s.wrote == triNo
				if failed == nonNil {
					return []st{s}, nil
				}
				return nil, []st{s}
			}
			return []st{s}, []st{s}
		}
		fl.Run(st{})
		if nStores == 0 {
			c.Undecide("jsontext.(*Value).format/store", "no store to *v found")
		} else {
			c.Oblige("format:store-after-success", f.Pos(), bad == "", bad)
		}
	}
	// ---- AppendFormat
	if f := p.Func("jsontext.AppendFormat"); f == nil || f.Body() == nil {
		c.Undecide("jsontext.AppendFormat", "function missing")
	} else {
		info := f.Info()
		sig := f.Obj.Type().(*types.Signature)
		dst, src := sig.Params().At(0), sig.Params().At(1)
		okErr, okSucc := false, false
		for _, r := range Returns(f.Body()) {
			if len(r.Results) != 2 {
				continue
			}
			call, ok := ast.Unparen(r.Results[0]).(*ast.CallExpr)
			if !ok || !IsBuiltin(info, call, "append") || len(call.Args) != 2 || IdentObj(info, call.Args[0]) != dst {
				continue
			}
			if IsNilIdent(info, r.Results[1]) {
				if fld := SelField(info, call.Args[1]); fld != nil && fld.Name() == "Buf" {
					okSucc = true
				}
			} else if IdentObj(info, call.Args[1]) == src {
				// must be on the error path of WriteValue
				for _, cc := range enclosingConds(p, f, r) {
					if _, nonNil, ok := ErrCmp(info, cc.cond); ok && nonNil && cc.then {
						okErr = true
					}
				}
			}
		}
		c.Oblige("appendformat:error-appends-src", f.Pos(), okErr, "on error AppendFormat does not return append(dst, src...)")
		c.Oblige("appendformat:success-appends-output", f.Pos(), okSucc, "on success AppendFormat does not return append(dst, <encoder buffer>...)")
	}
	// ---- presets
	presets := map[string][]string{
		"Compact":      {"AllowDuplicateNames", "AllowInvalidUTF8", "PreserveRawStrings"},
		"Indent":       {"AllowDuplicateNames", "AllowInvalidUTF8", "PreserveRawStrings", "Multiline"},
		"Canonicalize": {"CanonicalizeRawInts", "CanonicalizeRawFloats", "ReorderRawObjects"},
	}
	for _, name := range sortedKeys(presets) {
		f := p.Func("jsontext.(*Value)." + name)
		if f == nil || f.Body() == nil {
			c.Undecide("jsontext.(*Value)."+name, "function missing")
			continue
		}
		info := f.Info()
		var got []string
		okShape := false
		for _, call := range findAll[*ast.CallExpr](f.Body()) {
			if _, ok := MethodCall(info, call, "jsontext", "Value", "format"); ok && len(call.Args) == 2 {
				// first arg: []Options{ X(true), ... }; second: the caller's opts parameter
				if cl, ok := ast.Unparen(call.Args[0]).(*ast.CompositeLit); ok {
					okShape = true
					for _, el := range cl.Elts {
						ec, ok := el.(*ast.CallExpr)
						if !ok || len(ec.Args) != 1 {
							okShape = false
							continue
						}
						tv, isC := info.Types[ec.Args[0]]
						if cf := Callee(info, ec); cf != nil && isC && tv.Value != nil && tv.Value.String() == "true" {
							got = append(got, cf.Name())
						} else {
							okShape = false
						}
					}
				}
				sig := f.Obj.Type().(*types.Signature)
				if sig.Params().Len() != 1 || IdentObj(info, call.Args[1]) != sig.Params().At(0) {
					okShape = false
				}
			}
		}
		want := append([]string(nil), presets[name]...)
		g := append([]string(nil), got...)
		sort.Strings(want)
		sort.Strings(g)
		c.Oblige("preset:"+name, f.Pos(), okShape && strings.Join(g, ",") == strings.Join(want, ","),
			fmt.Sprintf("preset passes %v (documented: %v) before the caller's options", got, presets[name]))
	}
	// ---- reformat*: what may be appended to dst
	for _, nm := range []string{"reformatValue", "reformatObject", "reformatArray"} {
		f := p.Func("jsontext.(*encoderState)." + nm)
		if f == nil || f.Body() == nil {
			c.Undecide("jsontext.(*encoderState)."+nm, "function missing")
			continue
		}
		info := f.Info()
		sig := f.Obj.Type().(*types.Signature)
		dst, src := sig.Params().At(0), sig.Params().At(1)
		var bad []string
		InspectNoLit(f.Body(), func(nd ast.Node) bool {
			call, ok := nd.(*ast.CallExpr)
			if !ok || !IsBuiltin(info, call, "append") || len(call.Args) < 2 || IdentObj(info, call.Args[0]) != dst {
				return true
			}
			for _, a := range call.Args[1:] {
				if _, isC := info.Types[a]; isC && info.Types[a].Value != nil {
					continue // structural constant
				}
				// slice of src
				e := ast.Unparen(a)
				if sl, ok := e.(*ast.SliceExpr); ok && IdentObj(info, sl.X) == src {
					// verbatim copies must follow a ConsumeSimple* acceptance in the enclosing condition
					guarded := false
					for _, cc := range enclosingConds(p, f, call) {
						ast.Inspect(cc.cond, func(m ast.Node) bool {
							if id, ok := m.(*ast.Ident); ok {
								if v := info.Uses[id]; v != nil {
									for _, d := range defsOf(info, f.Body(), v) {
										if c2, ok := ast.Unparen(d).(*ast.CallExpr); ok {
											if cf := Callee(info, c2); cf != nil && strings.HasPrefix(cf.Name(), "ConsumeSimple") {
												guarded = true
											}
										}
									}
								}
							}
							return true
						})
					}
					if !guarded {
						// name copy in reformatObject: guarded by isVerbatim := m > 0 with m from ConsumeSimpleString
						for _, cc := range enclosingConds(p, f, call) {
							if v := IdentObj(info, cc.cond); v != nil {
								for _, d := range defsOf(info, f.Body(), v) {
									ast.Inspect(d, func(m ast.Node) bool {
										if id, ok := m.(*ast.Ident); ok {
											if vv := info.Uses[id]; vv != nil {
												for _, d2 := range defsOf(info, f.Body(), vv) {
													if c2, ok := ast.Unparen(d2).(*ast.CallExpr); ok {
														if cf := Callee(info, c2); cf != nil && strings.HasPrefix(cf.Name(), "ConsumeSimple") {
															guarded = true
														}
													}
												}
											}
										}
										return true
									})
								}
							}
						}
					}
					if !guarded {
						bad = append(bad, "verbatim copy of src at "+p.Position(call.Pos())+" not guarded by ConsumeSimpleString/ConsumeSimpleNumber")
					}
					continue
				}
				bad = append(bad, "appends `"+exprString(a)+"` (neither a constant nor a slice of src) at "+p.Position(call.Pos()))
			}
			return true
		})
		c.Oblige("reformat-appends:"+nm, f.Pos(), len(bad) == 0, strings.Join(bad, "; "))
	}
	// number shortcut guarded by !CanonicalizeNumbers
	if f := p.Func("jsontext.(*encoderState).reformatValue"); f != nil && f.Body() != nil {
		info := f.Info()
		canon := ft.Named["CanonicalizeNumbers"]
		okNum := false
		for _, ifs := range findAll[*ast.IfStmt](f.Body()) {
			usesNum := false
			if as, ok := ifs.Init.(*ast.AssignStmt); ok && len(as.Rhs) == 1 {
				if call, ok := ast.Unparen(as.Rhs[0]).(*ast.CallExpr); ok && FuncCall(info, call, "jsonwire", "ConsumeSimpleNumber") {
					usesNum = true
				}
			}
			if usesNum {
				okNum = hasNegFlagConjunct(info, ifs.Cond, canon&^1)
			}
		}
		c.Oblige("reformat:number-shortcut-guard", f.Pos(), okNum, "the verbatim number shortcut is not guarded by !Flags.Get(CanonicalizeNumbers)")
	}
	// in ReformatNumber a verbatim copy of src[:n] may only be decided by a length test on that same n
	if f := p.Func("jsonwire.ReformatNumber"); f == nil || f.Body() == nil {
		c.Undecide("jsonwire.ReformatNumber", "function missing")
	} else {
		info := f.Info()
		nCopy := 0
		for _, ifs := range findAll[*ast.IfStmt](f.Body()) {
			var copied types.Object
			for _, call := range findAll[*ast.CallExpr](ifs.Body) {
				if IsBuiltin(info, call, "append") && len(call.Args) == 2 && call.Ellipsis != token.NoPos {
					if sl, ok := ast.Unparen(call.Args[1]).(*ast.SliceExpr); ok && sl.Low == nil && sl.High != nil {
						copied = IdentObj(info, sl.High)
					}
				}
			}
			if copied == nil {
				continue
			}
			var tested []types.Object
			ast.Inspect(ifs.Cond, func(nd ast.Node) bool {
				be, ok := nd.(*ast.BinaryExpr)
				if !ok {
					return true
				}
				switch be.Op {
				case token.LSS, token.LEQ, token.GTR, token.GEQ:
					for _, pair := range [][2]ast.Expr{{be.X, be.Y}, {be.Y, be.X}} {
						if tv, ok := info.Types[pair[1]]; ok && tv.Value != nil {
							if o := IdentObj(info, pair[0]); o != nil {
								tested = append(tested, o)
							}
						}
					}
				}
				return true
			})
			if len(tested) == 0 {
				// the decision may be a private predicate over the very slice that is copied:
				// `if !mustCanonicalize(src[:n], flags) { append(dst, src[:n]...) }`
				var copiedExpr ast.Expr
				for _, call := range findAll[*ast.CallExpr](ifs.Body) {
					if IsBuiltin(info, call, "append") && len(call.Args) == 2 && call.Ellipsis != token.NoPos {
						copiedExpr = call.Args[1]
					}
				}
				for _, pc := range findAll[*ast.CallExpr](ifs.Cond) {
					g := p.InlineAny(f)(pc)
					if g == nil || g.Obj == nil || copiedExpr == nil {
						continue
					}
					gsig := g.Obj.Type().(*types.Signature)
					for ai, a := range pc.Args {
						if exprString(a) != exprString(copiedExpr) || ai >= gsig.Params().Len() {
							continue
						}
						pv := gsig.Params().At(ai)
						var others []string
						nLen := 0
						InspectNoLit(g.Body(), func(nd ast.Node) bool {
							be, ok := nd.(*ast.BinaryExpr)
							if !ok {
								return true
							}
							switch be.Op {
							case token.LSS, token.LEQ, token.GTR, token.GEQ:
							default:
								return true
							}
							for _, pair := range [][2]ast.Expr{{be.X, be.Y}, {be.Y, be.X}} {
								if tv, ok := g.Info().Types[pair[1]]; !ok || tv.Value == nil {
									continue
								}
								if lc, ok := ast.Unparen(pair[0]).(*ast.CallExpr); ok && IsBuiltin(g.Info(), lc, "len") && len(lc.Args) == 1 && IdentObj(g.Info(), lc.Args[0]) == pv {
									nLen++
								} else if _, isConst := g.Info().Types[pair[0]]; isConst && g.Info().Types[pair[0]].Value != nil {
									// constant folded comparison
								} else {
									others = append(others, exprString(pair[0]))
								}
							}
							return true
						})
						if nLen > 0 {
							nCopy++
							c.Oblige(fmt.Sprintf("number-verbatim-length#%d", nCopy), ifs.Pos(), len(others) == 0,
								"the verbatim copy of "+exprString(copiedExpr)+" is decided in "+g.Name+" by a length test on `"+strings.Join(others, ", ")+"` instead of on the bytes copied")
						}
					}
				}
				continue
			}
			nCopy++
			okLen := true
			var names []string
			for _, o := range tested {
				if o != copied {
					okLen = false
					names = append(names, o.Name())
				}
			}
			c.Oblige(fmt.Sprintf("number-verbatim-length#%d", nCopy), ifs.Pos(), okLen,
				"the verbatim copy of src[:"+copied.Name()+"] is decided by a length test on `"+strings.Join(names, ", ")+"` instead of on the number of bytes copied (a long literal can slip through)")
		}
		if nCopy == 0 {
			c.Undecide("jsonwire.ReformatNumber/verbatim-copy", "no length-guarded verbatim copy found")
		}
	}
	// WriteValue reorders for both container kinds
	if f := p.Func("jsontext.(*encoderState).WriteValue"); f == nil || f.Body() == nil {
		c.Undecide("jsontext.(*encoderState).WriteValue", "function missing")
	} else {
		info := f.Info()
		kinds := map[int64]bool{}
		// WriteValue and the private helpers its kind dispatch may have been moved into
		for _, g := range p.CalleeClosure(f, 2) {
			if g.Body() == nil || (g != f && g.Decl == nil) {
				continue
			}
			for _, call := range findAll[*ast.CallExpr](g.Body()) {
				if !FuncCall(info, call, "jsontext", "mustReorderObjects") {
					continue
				}
				guard := false
				for _, cc := range enclosingConds(p, g, call) {
					if v, ok := IsFlagGet(info, cc.cond); ok && cc.then && v&^1 == ft.Single["ReorderRawObjects"] {
						guard = true
					}
				}
				if !guard {
					continue
				}
				var x ast.Node = call
				for x != nil && x != ast.Node(g.Body()) {
					x = p.Parent(g.File, x)
					if cc, ok := x.(*ast.CaseClause); ok {
						for _, e := range cc.List {
							if v, ok := ConstI64(info, e); ok {
								kinds[v] = true
							}
						}
						break
					}
				}
			}
		}
		c.Oblige("writevalue:reorder-both-containers", f.Pos(), kinds['{'] && kinds['['], fmt.Sprintf("mustReorderObjects under ReorderRawObjects is called for kinds %v (needs '{' and '[')", kinds))
	}
	// comparator
	if f := p.Func("jsontext.mustReorderObjectsFromDecoder"); f == nil || f.Body() == nil {
		c.Undecide("jsontext.mustReorderObjectsFromDecoder", "function missing")
	} else {
		cmpObj := p.Method("jsontext", "objectMember", "Compare")
		var bad []string
		nCmp := 0
		sorted := false
		// the function and the private helpers it was split into
		p.InspectScope(f, func(g *FuncInfo, nd ast.Node) bool {
			info := g.Info()
			call, ok := nd.(*ast.CallExpr)
			if !ok {
				return true
			}
			cf := Callee(info, call)
			if cf == nil {
				return true
			}
			qn := QualName(cf)
			switch {
			case cf == cmpObj:
				nCmp++
			case qn == "slices.SortFunc" || qn == "slices.SortStableFunc" || qn == "sort.Slice" || qn == "sort.SliceStable":
				sorted = true
				okCmp := false
				if len(call.Args) == 2 {
					if sel, ok := ast.Unparen(call.Args[1]).(*ast.SelectorExpr); ok && info.Uses[sel.Sel] == cmpObj {
						okCmp = true
					}
				}
				if !okCmp {
					bad = append(bad, "members are sorted with `"+exprString(call.Args[len(call.Args)-1])+"` instead of objectMember.Compare")
				}
			case strings.HasSuffix(qn, ".Compare") || strings.HasPrefix(cf.Name(), "Compare"):
				bad = append(bad, "member order decided by "+qn+" at "+p.Position(call.Pos())+" (must be objectMember.Compare, i.e. UTF-16 code unit order)")
			}
			return true
		})
		c.Oblige("reorder:single-comparator", f.Pos(), len(bad) == 0 && sorted && nCmp >= 1, strings.Join(bad, "; "))
	}
	if f := p.Func("jsontext.(objectMember).Compare"); f == nil || f.Body() == nil {
		c.Undecide("jsontext.(objectMember).Compare", "function missing")
	} else {
		info := f.Info()
		okName := false
		var other []string
		for _, call := range findAll[*ast.CallExpr](f.Body()) {
			cf := Callee(info, call)
			if cf == nil {
				continue
			}
			if QualName(cf) == "jsonwire.CompareUTF16" {
				if len(call.Args) == 2 {
					if fld := SelField(info, call.Args[0]); fld != nil && fld.Name() == "name" {
						okName = true
					}
				}
			} else if strings.Contains(cf.Name(), "Compare") {
				other = append(other, QualName(cf))
			}
		}
		c.Oblige("reorder:names-by-utf16", f.Pos(), okName && len(other) == 0, "objectMember.Compare does not order names with jsonwire.CompareUTF16 (other comparators: "+strings.Join(other, ",")+")")
	}
}

func ruleWIDTH1(c *Ctx) {
	p := c.P
	runeSelf := int64(0x80)
	n := 0
	for _, f := range p.FuncsIn("jsonwire") {
		if f.Body() == nil {
			continue
		}
		info := f.Info()
		for _, ifs := range findAll[*ast.IfStmt](f.Body()) {
			// if c := src[i]; c < utf8.RuneSelf { ascii } else { multi-byte }
			be, ok := ast.Unparen(ifs.Cond).(*ast.BinaryExpr)
			if !ok || be.Op != token.LSS {
				continue
			}
			if v, isC := ConstI64(info, be.Y); !isC || v != runeSelf {
				continue
			}
			els, ok := ifs.Else.(*ast.BlockStmt)
			if !ok {
				continue
			}
			// the rune size variable decoded in the else branch
			var rn types.Object
			for _, as := range findAll[*ast.AssignStmt](els) {
				if len(as.Lhs) == 2 && len(as.Rhs) == 1 {
					if call, ok := ast.Unparen(as.Rhs[0]).(*ast.CallExpr); ok {
						if cf := Callee(info, call); cf != nil && cf.Pkg() != nil && cf.Pkg().Path() == "unicode/utf8" && strings.HasPrefix(cf.Name(), "DecodeRune") {
							rn = IdentObj(info, as.Lhs[1])
						}
					}
				}
			}
			if rn == nil {
				continue
			}
			n++
			var bad []string
			for _, as := range findAll[*ast.AssignStmt](els) {
				if len(as.Lhs) != 1 || len(as.Rhs) != 1 || !isIntegerType(info.TypeOf(as.Lhs[0])) {
					continue
				}
				// x = y + K  or x += K with constant K > 0
				var k ast.Expr
				if as.Tok == token.ADD_ASSIGN {
					k = as.Rhs[0]
				} else if b2, ok := ast.Unparen(as.Rhs[0]).(*ast.BinaryExpr); ok && b2.Op == token.ADD && as.Tok == token.ASSIGN {
					k = b2.Y
				}
				if k == nil {
					continue
				}
				if v, isC := ConstI64(info, k); isC && v > 0 {
					bad = append(bad, fmt.Sprintf("`%s` at %s advances by the constant %d inside the multi-byte branch (rune width is %s)", exprString(as.Lhs[0]), p.Position(as.Pos()), v, rn.Name()))
				}
			}
			for _, id := range findAll[*ast.IncDecStmt](els) {
				if id.Tok == token.INC && isIntegerType(info.TypeOf(id.X)) {
					bad = append(bad, fmt.Sprintf("`%s++` at %s inside the multi-byte branch", exprString(id.X), p.Position(id.Pos())))
				}
			}
			c.Oblige(fmt.Sprintf("multibyte-branch:%s@%s", f.Name, exprString(be.X)), ifs.Pos(), len(bad) == 0, strings.Join(bad, "; "))
		}
	}
	c.Floor("ASCII/multi-byte branch pairs in jsonwire", n, 3)
}

func ruleCASESYM(c *Ctx) {
	p := c.P
	n := 0
	for _, f := range p.FuncsIn("jsonwire") {
		if f.Body() == nil || f.Decl == nil {
			continue
		}
		// input recognisers only: output formatters compare against letters they produced themselves
		nm := f.Decl.Name.Name
		if !(strings.HasPrefix(nm, "Consume") || strings.HasPrefix(nm, "Parse") || strings.HasPrefix(nm, "parse") || strings.HasPrefix(nm, "has") || strings.Contains(nm, "Unquote") || strings.HasPrefix(nm, "Reformat")) {
			continue
		}
		info := f.Info()
		// decision constructs: each if condition, each tagged-switch-free `switch { case ... }` as a whole,
		// and any other maximal boolean expression
		type construct struct {
			pos    token.Pos
			consts map[int64]bool
			text   string
		}
		collect := func(e ast.Node, into map[int64]bool) {
			ast.Inspect(e, func(m ast.Node) bool {
				be, ok := m.(*ast.BinaryExpr)
				if !ok || !tokIsCmp(be.Op) {
					return true
				}
				for _, side := range []ast.Expr{be.X, be.Y} {
					if v, isC := ConstI64(info, side); isC {
						if bt, ok := info.TypeOf(side).Underlying().(*types.Basic); ok && bt.Info()&types.IsInteger != 0 {
							into[v] = true
						}
					}
				}
				return true
			})
		}
		var cons []construct
		seenNode := map[ast.Node]bool{}
		InspectNoLit(f.Body(), func(nd ast.Node) bool {
			switch x := nd.(type) {
			case *ast.SwitchStmt:
				if x.Tag == nil {
					cs := construct{pos: x.Pos(), consts: map[int64]bool{}, text: "switch at " + p.Position(x.Pos())}
					for _, st := range x.Body.List {
						for _, e := range st.(*ast.CaseClause).List {
							collect(e, cs.consts)
							seenNode[e] = true
						}
					}
					cons = append(cons, cs)
				}
			case *ast.IfStmt:
				if !seenNode[x.Cond] {
					cs := construct{pos: x.Cond.Pos(), consts: map[int64]bool{}, text: exprString(x.Cond)}
					collect(x.Cond, cs.consts)
					seenNode[x.Cond] = true
					cons = append(cons, cs)
				}
			}
			return true
		})
		k := 0
		for _, g := range cons {
			var lower []int64
			for v := range g.consts {
				if v >= 'a' && v <= 'f' {
					lower = append(lower, v)
				}
			}
			if len(lower) == 0 {
				continue // upper-case-only tests are canonical-form checks, not acceptance tests
			}
			n++
			var miss []string
			for _, l := range lower {
				if !g.consts[l-32] {
					miss = append(miss, fmt.Sprintf("%q without %q", rune(l), rune(l-32)))
				}
			}
			sort.Strings(miss)
			k++
			c.Oblige(fmt.Sprintf("hex-case:%s#%d", f.Name, k), g.pos, len(miss) == 0,
				"lower-case hexadecimal/exponent letter tested without its upper-case counterpart: "+strings.Join(miss, ", ")+" in `"+g.text+"`")
		}
	}
	c.Floor("boolean tests on hexadecimal letters in jsonwire", n, 2)
}
