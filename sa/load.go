package main

import (
	"fmt"
	"go/ast"
	"go/token"
	"go/types"
	"os"
	"path/filepath"
	"sort"
	"strings"

	"golang.org/x/tools/go/cfg"
	"golang.org/x/tools/go/packages"
	"golang.org/x/tools/go/types/typeutil"
)

const modPath = "github.com/go-json-experiment/json"

// goToolDir is the only toolchain that can load /repo (go.mod says go 1.26).
const goToolDir = "/opt/veriftools/go1.26.8/bin"

// implDirs are the implementation directories whose files must all be parsed.
var implDirs = []string{".", "jsontext", "internal", "internal/jsonflags", "internal/jsonopts", "internal/jsonwire", "v1"}

// short package names used in anchors -> import path
var pkgAlias = map[string]string{
	"json":      modPath,
	"jsontext":  modPath + "/jsontext",
	"internal":  modPath + "/internal",
	"jsonflags": modPath + "/internal/jsonflags",
	"jsonopts":  modPath + "/internal/jsonopts",
	"jsonwire":  modPath + "/internal/jsonwire",
	"v1":        modPath + "/v1",
}

// Program is the type-checked program under analysis.
type Program struct {
	Repo          string
	Fset          *token.FileSet
	Pkgs          map[string]*packages.Package // by import path (repo packages only)
	All           []*packages.Package          // roots
	funcs         map[string]*FuncInfo         // by qualified name
	byObj         map[*types.Func]*FuncInfo
	fileOf        map[*ast.File]*packages.Package
	parents       map[ast.Node]ast.Node // lazily built per file
	pfiles        map[*ast.File]bool
	Units         UnitStats
	lits          map[*ast.FuncLit]*FuncInfo
	eff           *Effects
	deliv         map[*types.Func]bool
	txnHelper     map[*types.Func]bool
	txnHelperOuts map[*types.Func][]txnOutcome
}

type UnitStats struct {
	Packages  int `json:"packages"`
	Files     int `json:"files"`
	Functions int `json:"functions"`
	Blocks    int `json:"cfg_blocks"`
	CallSites int `json:"call_sites"`
}

// FuncInfo is one declared function (or function literal) of the repo.
type FuncInfo struct {
	Name string // qualified: pkg.Func or pkg.(*T).M / pkg.(T).M; literals: parent$N
	Decl *ast.FuncDecl
	Lit  *ast.FuncLit
	Obj  *types.Func
	Pkg  *packages.Package
	File *ast.File
	cfg  *cfg.CFG
	prog *Program
}

func (f *FuncInfo) Body() *ast.BlockStmt {
	if f.Decl != nil {
		return f.Decl.Body
	}
	return f.Lit.Body
}

func (f *FuncInfo) Type() *ast.FuncType {
	if f.Decl != nil {
		return f.Decl.Type
	}
	return f.Lit.Type
}

func (f *FuncInfo) Info() *types.Info { return f.Pkg.TypesInfo }

func (f *FuncInfo) Pos() token.Pos {
	if f.Decl != nil {
		return f.Decl.Pos()
	}
	return f.Lit.Pos()
}

// CFG returns the control-flow graph of the function body.
func (f *FuncInfo) CFG() *cfg.CFG {
	if f.cfg == nil && f.Body() != nil {
		info := f.Info()
		f.cfg = cfg.New(f.Body(), func(call *ast.CallExpr) bool {
			if id, ok := ast.Unparen(call.Fun).(*ast.Ident); ok {
				if b, ok := info.Uses[id].(*types.Builtin); ok && b.Name() == "panic" {
					return false
				}
			}
			return true
		})
		f.prog.Units.Blocks += len(f.cfg.Blocks)
	}
	return f.cfg
}

type loadError struct{ msg string }

func (e *loadError) Error() string { return e.msg }

// Load type-checks the repository rooted at repo. overlay maps absolute
// file names to replacement contents (used only by the adequacy self-test).
func Load(repo string, overlay map[string][]byte) (*Program, error) {
	abs, err := filepath.Abs(repo)
	if err != nil {
		return nil, err
	}
	env := os.Environ()
	var env2 []string
	for _, kv := range env {
		if strings.HasPrefix(kv, "PATH=") || strings.HasPrefix(kv, "GOWORK=") || strings.HasPrefix(kv, "GOFLAGS=") ||
			strings.HasPrefix(kv, "GOTOOLCHAIN=") || strings.HasPrefix(kv, "GOPROXY=") || strings.HasPrefix(kv, "GOSUMDB=") ||
			strings.HasPrefix(kv, "GOEXPERIMENT=") || strings.HasPrefix(kv, "GOOS=") || strings.HasPrefix(kv, "GOARCH=") {
			continue
		}
		env2 = append(env2, kv)
	}
	env2 = append(env2,
		"PATH="+goToolDir+":"+os.Getenv("PATH"),
		"GOWORK=off", "GOFLAGS=-mod=mod", "GOTOOLCHAIN=local", "GOPROXY=off", "GOSUMDB=off",
		"GOOS=linux", "GOARCH=amd64", "CGO_ENABLED=0")
	cfgp := &packages.Config{
		Mode:    packages.LoadAllSyntax,
		Dir:     abs,
		Env:     env2,
		Overlay: overlay,
		Tests:   false,
	}
	pkgs, err := packages.Load(cfgp, "./...")
	if err != nil {
		return nil, &loadError{"packages.Load: " + err.Error()}
	}
	p := &Program{
		Repo:   abs,
		Pkgs:   map[string]*packages.Package{},
		funcs:  map[string]*FuncInfo{},
		byObj:  map[*types.Func]*FuncInfo{},
		fileOf: map[*ast.File]*packages.Package{},
		pfiles: map[*ast.File]bool{},
		lits:   map[*ast.FuncLit]*FuncInfo{},
	}
	if len(pkgs) < 9 {
		return nil, &loadError{fmt.Sprintf("only %d packages loaded (expected >= 9)", len(pkgs))}
	}
	var errs []string
	packages.Visit(pkgs, nil, func(pk *packages.Package) {
		for _, e := range pk.Errors {
			errs = append(errs, e.Error())
		}
	})
	if len(errs) > 0 {
		sort.Strings(errs)
		if len(errs) > 10 {
			errs = errs[:10]
		}
		return nil, &loadError{"type/load errors:\n  " + strings.Join(errs, "\n  ")}
	}
	p.All = pkgs
	for _, pk := range pkgs {
		if p.Fset == nil {
			p.Fset = pk.Fset
		}
		p.Pkgs[pk.PkgPath] = pk
		p.Units.Packages++
		for _, f := range pk.Syntax {
			p.fileOf[f] = pk
			p.Units.Files++
			p.indexFile(pk, f)
		}
	}
	// completeness: every non-test .go file in the implementation directories was parsed
	parsed := map[string]bool{}
	for _, pk := range pkgs {
		for _, f := range pk.CompiledGoFiles {
			parsed[f] = true
		}
	}
	for _, d := range implDirs {
		ents, err := os.ReadDir(filepath.Join(abs, d))
		if err != nil {
			return nil, &loadError{"missing implementation directory " + d}
		}
		for _, e := range ents {
			n := e.Name()
			if e.IsDir() || !strings.HasSuffix(n, ".go") || strings.HasSuffix(n, "_test.go") || n == "alias.go" || n == "alias_gen.go" {
				continue
			}
			full := filepath.Join(abs, d, n)
			if !parsed[full] {
				return nil, &loadError{"file not part of the analysed build (moved behind a build tag?): " + filepath.Join(d, n)}
			}
		}
	}
	return p, nil
}

func recvTypeName(t types.Type) (ptr bool, name string) {
	if pt, ok := t.(*types.Pointer); ok {
		ptr = true
		t = pt.Elem()
	}
	if nt, ok := t.(*types.Named); ok {
		return ptr, nt.Obj().Name()
	}
	return ptr, t.String()
}

func shortPkg(path string) string {
	for k, v := range pkgAlias {
		if v == path {
			return k
		}
	}
	return path
}

// QualName gives the anchor name of a function object.
func QualName(fn *types.Func) string {
	if fn == nil {
		return "<nil>"
	}
	pk := ""
	if fn.Pkg() != nil {
		pk = shortPkg(fn.Pkg().Path())
	}
	sig := fn.Type().(*types.Signature)
	if r := sig.Recv(); r != nil {
		ptr, tn := recvTypeName(r.Type())
		if ptr {
			return fmt.Sprintf("%s.(*%s).%s", pk, tn, fn.Name())
		}
		return fmt.Sprintf("%s.(%s).%s", pk, tn, fn.Name())
	}
	return pk + "." + fn.Name()
}

func (p *Program) indexFile(pk *packages.Package, f *ast.File) {
	for _, d := range f.Decls {
		fd, ok := d.(*ast.FuncDecl)
		if !ok {
			continue
		}
		obj, _ := pk.TypesInfo.Defs[fd.Name].(*types.Func)
		if obj == nil {
			continue
		}
		fi := &FuncInfo{Name: QualName(obj), Decl: fd, Obj: obj, Pkg: pk, File: f, prog: p}
		if fd.Name.Name == "init" || fd.Name.Name == "_" {
			// keyed by file and ordinal, never by line (edits elsewhere in the file must not rename it)
			base := fmt.Sprintf("%s[%s]", fi.Name, filepath.Base(p.Fset.Position(fd.Pos()).Filename))
			fi.Name = base
			for n := 2; p.funcs[fi.Name] != nil; n++ {
				fi.Name = fmt.Sprintf("%s#%d", base, n)
			}
		}
		p.funcs[fi.Name] = fi
		p.byObj[obj] = fi
		p.Units.Functions++
		if fd.Body != nil {
			p.indexLits(fi, fd.Body)
		}
	}
	// function literals in package-level var initialisers
	for _, d := range f.Decls {
		gd, ok := d.(*ast.GenDecl)
		if !ok {
			continue
		}
		for _, s := range gd.Specs {
			vs, ok := s.(*ast.ValueSpec)
			if !ok {
				continue
			}
			for i, v := range vs.Values {
				name := "_"
				if i < len(vs.Names) {
					name = vs.Names[i].Name
				}
				holder := &FuncInfo{Name: shortPkg(pk.PkgPath) + ".var:" + name, Pkg: pk, File: f, prog: p}
				p.indexLits(holder, v)
			}
		}
	}
}

func (p *Program) indexLits(parent *FuncInfo, root ast.Node) {
	n := 0
	// role names: a literal assigned to x.sel / ident, or used as a keyed field value, is named after that role
	role := map[*ast.FuncLit]string{}
	ast.Inspect(root, func(x ast.Node) bool {
		switch s := x.(type) {
		case *ast.AssignStmt:
			if len(s.Lhs) == len(s.Rhs) {
				for i, r := range s.Rhs {
					if lit, ok := ast.Unparen(r).(*ast.FuncLit); ok {
						switch l := ast.Unparen(s.Lhs[i]).(type) {
						case *ast.SelectorExpr:
							role[lit] = l.Sel.Name
						case *ast.Ident:
							role[lit] = l.Name
						}
					}
				}
			}
		case *ast.KeyValueExpr:
			if lit, ok := ast.Unparen(s.Value).(*ast.FuncLit); ok {
				if k, ok := s.Key.(*ast.Ident); ok {
					role[lit] = k.Name
				}
			}
		}
		return true
	})
	used := map[string]int{}
	var walk func(parent *FuncInfo, root ast.Node)
	walk = func(parent *FuncInfo, root ast.Node) {
		ast.Inspect(root, func(x ast.Node) bool {
			lit, ok := x.(*ast.FuncLit)
			if !ok {
				return true
			}
			n++
			name := fmt.Sprintf("%s$%d", parent.Name, n)
			if r, ok := role[lit]; ok {
				name = parent.Name + ":" + r
				used[name]++
				if used[name] > 1 {
					name = fmt.Sprintf("%s#%d", name, used[name])
				}
			}
			fi := &FuncInfo{Name: name, Lit: lit, Pkg: parent.Pkg, File: parent.File, prog: p}
			p.lits[lit] = fi
			p.funcs[fi.Name] = fi
			p.Units.Functions++
			walk2 := walk
			walk2(fi, lit.Body)
			return false
		})
	}
	// number literals per top-level parent, nested ones continue the sequence
	walk(parent, root)
}

// Func looks a function up by qualified anchor name.
func (p *Program) Func(name string) *FuncInfo {
	if f := p.funcs[name]; f != nil {
		return f
	}
	// "pkg.factory:role" names a closure by the arshaler field it is stored in; if the closure became a
	// named function or a method value (`unmarshal: a.unmarshal`), resolve the role to that function
	i := strings.LastIndex(name, ":")
	if i < 0 || strings.ContainsAny(name[i+1:], "#$") {
		return nil
	}
	factory, role := p.funcs[name[:i]], name[i+1:]
	if factory == nil || factory.Body() == nil {
		return nil
	}
	info := factory.Info()
	var found *FuncInfo
	resolve := func(e ast.Expr) {
		e = ast.Unparen(e)
		switch x := e.(type) {
		case *ast.FuncLit:
			if found == nil {
				found = p.lits[x]
			}
		case *ast.Ident:
			if fn, ok := info.Uses[x].(*types.Func); ok && found == nil {
				found = p.FuncOf(fn)
			}
		case *ast.SelectorExpr:
			if fn, ok := info.Uses[x.Sel].(*types.Func); ok && found == nil {
				found = p.FuncOf(fn)
			}
		}
	}
	ast.Inspect(factory.Body(), func(n ast.Node) bool {
		switch x := n.(type) {
		case *ast.AssignStmt:
			if len(x.Lhs) == len(x.Rhs) {
				for k, l := range x.Lhs {
					if sel, ok := ast.Unparen(l).(*ast.SelectorExpr); ok && sel.Sel.Name == role {
						resolve(x.Rhs[k])
					}
				}
			}
		case *ast.KeyValueExpr:
			if id, ok := x.Key.(*ast.Ident); ok && id.Name == role {
				resolve(x.Value)
			}
		}
		return true
	})
	return found
}

// FuncOf returns the FuncInfo of a function object declared in the repo.
func (p *Program) FuncOf(fn *types.Func) *FuncInfo {
	if fn == nil {
		return nil
	}
	return p.byObj[fn.Origin()]
}

func (p *Program) LitInfo(l *ast.FuncLit) *FuncInfo { return p.lits[l] }

// AllFuncs returns all functions (declarations and literals) sorted by name.
func (p *Program) AllFuncs() []*FuncInfo {
	var out []*FuncInfo
	for _, f := range p.funcs {
		out = append(out, f)
	}
	sort.Slice(out, func(i, j int) bool { return out[i].Pos() < out[j].Pos() })
	return out
}

// FuncsIn returns functions of the given short package names.
func (p *Program) FuncsIn(pkgs ...string) []*FuncInfo {
	want := map[string]bool{}
	for _, k := range pkgs {
		want[pkgAlias[k]] = true
	}
	var out []*FuncInfo
	for _, f := range p.AllFuncs() {
		if want[f.Pkg.PkgPath] {
			out = append(out, f)
		}
	}
	return out
}

// Pkg returns the package by short name.
func (p *Program) Pkg(short string) *packages.Package { return p.Pkgs[pkgAlias[short]] }

// Lookup finds a package-level object by short package and name.
func (p *Program) Lookup(short, name string) types.Object {
	pk := p.Pkg(short)
	if pk == nil {
		return nil
	}
	return pk.Types.Scope().Lookup(name)
}

// NamedType returns the named type pkg.name.
func (p *Program) NamedType(short, name string) *types.Named {
	o, _ := p.Lookup(short, name).(*types.TypeName)
	if o == nil {
		return nil
	}
	n, _ := o.Type().(*types.Named)
	return n
}

// Field returns the field object of struct type pkg.typ (searching embedded structs too).
func (p *Program) Field(short, typ, field string) *types.Var {
	n := p.NamedType(short, typ)
	if n == nil {
		return nil
	}
	obj, _, _ := types.LookupFieldOrMethod(n, true, n.Obj().Pkg(), field)
	v, _ := obj.(*types.Var)
	return v
}

// Method returns the method object pkg.typ.name
func (p *Program) Method(short, typ, name string) *types.Func {
	n := p.NamedType(short, typ)
	if n == nil {
		return nil
	}
	obj, _, _ := types.LookupFieldOrMethod(n, true, n.Obj().Pkg(), name)
	f, _ := obj.(*types.Func)
	return f
}

// Callee resolves the static callee of a call (function or method), or nil.
func Callee(info *types.Info, call *ast.CallExpr) *types.Func {
	fn, _ := typeutil.Callee(info, call).(*types.Func)
	if fn != nil {
		return fn.Origin()
	}
	return nil
}

// IsBuiltin reports whether call is a call of the named builtin.
func IsBuiltin(info *types.Info, call *ast.CallExpr, name string) bool {
	if id, ok := ast.Unparen(call.Fun).(*ast.Ident); ok {
		if b, ok := info.Uses[id].(*types.Builtin); ok && b.Name() == name {
			return true
		}
	}
	return false
}

// SelField resolves sel to the struct field it selects (promoted fields included).
func SelField(info *types.Info, e ast.Expr) *types.Var {
	sel, ok := ast.Unparen(e).(*ast.SelectorExpr)
	if !ok {
		return nil
	}
	if s := info.Selections[sel]; s != nil && s.Kind() == types.FieldVal {
		v, _ := s.Obj().(*types.Var)
		return v
	}
	return nil
}

// Position renders a position relative to the repo root.
func (p *Program) Position(pos token.Pos) string {
	if !pos.IsValid() {
		return "-"
	}
	ps := p.Fset.Position(pos)
	rel, err := filepath.Rel(p.Repo, ps.Filename)
	if err != nil {
		rel = ps.Filename
	}
	return fmt.Sprintf("%s:%d:%d", rel, ps.Line, ps.Column)
}

// Parent returns the parent node of n within its file.
func (p *Program) Parent(f *ast.File, n ast.Node) ast.Node {
	if !p.pfiles[f] {
		if p.parents == nil {
			p.parents = map[ast.Node]ast.Node{}
		}
		var stack []ast.Node
		ast.Inspect(f, func(x ast.Node) bool {
			if x == nil {
				stack = stack[:len(stack)-1]
				return true
			}
			if len(stack) > 0 {
				p.parents[x] = stack[len(stack)-1]
			}
			stack = append(stack, x)
			return true
		})
		p.pfiles[f] = true
	}
	return p.parents[n]
}

// ConstInt returns the constant integer value of a package-level constant.
func (p *Program) ConstInt(short, name string) (int64, bool) {
	c, _ := p.Lookup(short, name).(*types.Const)
	if c == nil {
		return 0, false
	}
	return constInt64(c)
}
