package main

import (
	"fmt"
	"go/ast"
	"go/constant"
	"go/token"
	"go/types"
	"sort"
	"strings"
)

func init() {
	register(&Rule{ID: "V1-8", Doc: "small v1 parity tables and guards: (a) isLegacyEmpty covers every kind of encoding/json's isEmptyValue (bool, the integer, unsigned and float kinds, string, map, slice, array, pointer, interface); (b) v1.NewDecoder hides a *bytes.Buffer from jsontext behind a wrapper value, not behind a conversion that keeps the dynamic type; (c) in makeMethodArshaler every legacy guard falls back whenever needAddr && forcedAddr, and an arm that mentions NeedObjectName falls back for every object name; (d) the int and uint unmarshal closures guard their legacy Go-syntax parse (strconv.ParseInt / ParseUint) with the same options", Run: ruleV18})
	register(&Rule{ID: "FMTCOMP-1", Doc: "no component of a formatted duration or time is dropped silently: in the append* formatters of arshal_time.go a numeric local that is only read inside one if-block is mentioned by that block's condition (a sub-second remainder whose block is skipped for another reason disappears from the output)", Run: ruleFMTCOMP1})
	register(&Rule{ID: "NILFMT-1", Doc: "the nil-container format flags behave the same for maps and slices: in the marshal closures of makeMapArshaler and makeSliceArshaler the `emitnull` case sets emitNull to true and the `emitempty` case sets it to false (a case without the assignment inherits FormatNilSliceAsNull / FormatNilMapAsNull, although the format is documented to win)", Run: ruleNILFMT1})
	register(&Rule{ID: "ESCFLAG-1", Doc: "a one-shot escape flag of a scanner is cleared on every path of the clause that consumes it: in fields.go consumeTagOption the `inEscape` clause assigns inEscape = false as a direct statement (not under a test of the escaped character)", Run: ruleESCFLAG1})
}

func ruleV18(c *Ctx) {
	p := c.P
	// (a) isLegacyEmpty kinds
	if f := p.Func("json.isLegacyEmpty"); f == nil || f.Body() == nil {
		c.Undecide("json.isLegacyEmpty", "function missing")
	} else {
		info := f.Info()
		got := map[string]bool{}
		for _, cc := range findAllDeepCase(p, f) {
			for _, e := range cc.List {
				if o := IdentOrSelObj(info, e); o != nil && o.Pkg() != nil && o.Pkg().Path() == "reflect" {
					got[o.Name()] = true
				}
			}
		}
		want := []string{"Bool", "Int", "Int8", "Int16", "Int32", "Int64", "Uint", "Uint8", "Uint16", "Uint32", "Uint64", "Uintptr", "Float32", "Float64", "String", "Map", "Slice", "Array", "Pointer", "Interface"}
		var missing []string
		for _, k := range want {
			if !got[k] {
				missing = append(missing, k)
			}
		}
		c.Oblige("legacy-empty-kinds", f.Pos(), len(missing) == 0, "isLegacyEmpty has no case for kind(s) "+strings.Join(missing, ", ")+": encoding/json's isEmptyValue treats them as empty when zero/len 0/nil, so `omitempty` under v1 semantics emits members encoding/json omits")
	}
	// (b) NewDecoder wrapper
	if f := p.Func("v1.NewDecoder"); f == nil || f.Body() == nil {
		c.Undecide("v1.NewDecoder", "function missing")
	} else {
		info := f.Info()
		okWrap, found := false, false
		for _, ifs := range findAll[*ast.IfStmt](f.Body()) {
			isBB := false
			ast.Inspect(ifs, func(m ast.Node) bool {
				if ta, ok := m.(*ast.TypeAssertExpr); ok && ta.Type != nil && isPtrToNamed(info.TypeOf(ta.Type), "bytes", "Buffer") {
					isBB = true
				}
				return true
			})
			if !isBB {
				continue
			}
			found = true
			for _, as := range findAll[*ast.AssignStmt](ifs.Body) {
				for _, r := range as.Rhs {
					if cl, ok := ast.Unparen(r).(*ast.CompositeLit); ok {
						if _, isStruct := info.TypeOf(cl).Underlying().(*types.Struct); isStruct {
							okWrap = true
						}
					}
				}
			}
		}
		if !found {
			c.Undecide("v1.NewDecoder/bytes.Buffer", "no *bytes.Buffer test")
		} else {
			c.Oblige("newdecoder-hides-bytes-buffer", f.Pos(), okWrap, "a *bytes.Buffer reader is not wrapped into a value of another type before it is handed to jsontext.NewDecoder (a conversion to io.Reader keeps the dynamic type): jsontext then takes the buffer's storage as its own and a caller who keeps writing to the buffer between Decode calls gets errors or stale data")
		}
	}
	// (c) legacy guards of the method arshaler arms
	n := 0
	for _, f := range p.FuncsIn("json") {
		if f.Body() == nil {
			continue
		}
		info := f.Info()
		k := 0
		for _, ifs := range findAll[*ast.IfStmt](f.Body()) {
			cs := exprString(ifs.Cond)
			if !strings.Contains(p.Flags().Names(flagsRead(info, ifs.Cond)), "CallMethodsWithLegacySemantics") || !strings.Contains(cs, "forcedAddr") {
				continue
			}
			n++
			k++
			mentionsName := strings.Contains(cs, "NeedObjectName")
			eval := func(needAddr, forced, name bool) tri {
				return boolEval(ifs.Cond, func(e ast.Expr) (bool, bool) {
					if _, ok := IsFlagGet(info, e); ok {
						return true, true
					}
					switch e.(type) {
					case *ast.BinaryExpr, *ast.UnaryExpr:
						return false, false
					}
					s := exprString(e)
					switch {
					case s == "needAddr":
						return needAddr, true
					case strings.HasSuffix(s, ".forcedAddr"):
						return forced, true
					case strings.HasSuffix(s, "NeedObjectName()"):
						return name, true
					}
					return false, false
				})
			}
			ok := eval(true, true, false) == triYes && eval(true, true, true) == triYes
			detail := "the legacy guard does not fall back when needAddr && forcedAddr"
			if ok && mentionsName {
				for _, na := range []bool{false, true} {
					for _, fo := range []bool{false, true} {
						if eval(na, fo, true) != triYes {
							ok = false
							detail = fmt.Sprintf("the legacy guard mentions NeedObjectName but does not fall back for an object name when needAddr=%v, forcedAddr=%v: under v1 semantics a map key of this type is encoded with its MarshalJSON result, which encoding/json never does", na, fo)
						}
					}
				}
			}
			c.Oblige(fmt.Sprintf("legacy-method-guard:%s#%d", f.Name, k), ifs.Pos(), ok, detail)
		}
	}
	c.Floor("legacy guards on forcedAddr in package json", n, 4)
	// (d) int / uint legacy parse guards
	guards := map[string]string{}
	for _, nm := range []string{"json.makeIntArshaler:unmarshal", "json.makeUintArshaler:unmarshal"} {
		f := p.Func(nm)
		if f == nil || f.Body() == nil {
			continue
		}
		info := f.Info()
		InspectNoLit(f.Body(), func(nd ast.Node) bool {
			call, ok := nd.(*ast.CallExpr)
			if !ok || !(FuncCall(info, call, "strconv", "ParseInt") || FuncCall(info, call, "strconv", "ParseUint")) {
				return true
			}
			var fl uint64
			for _, cc := range enclosingConds(p, f, call) {
				fl |= flagsRead(info, cc.cond)
			}
			guards[nm] = p.Flags().Names(fl)
			return true
		})
	}
	if len(guards) == 2 {
		c.Oblige("int-uint-legacy-parse-same-guard", p.Func("json.makeUintArshaler:unmarshal").Pos(), guards["json.makeIntArshaler:unmarshal"] == guards["json.makeUintArshaler:unmarshal"],
			"the legacy Go-syntax parse is guarded by {"+guards["json.makeIntArshaler:unmarshal"]+"} for signed and by {"+guards["json.makeUintArshaler:unmarshal"]+"} for unsigned integers: quoted numbers (map keys, `string` fields) are then parsed by different grammars depending on signedness")
	}
}

func findAllDeepCase(p *Program, f *FuncInfo) []*ast.CaseClause {
	return findAll[*ast.CaseClause](f.Body())
}

func ruleFMTCOMP1(c *Ctx) {
	p := c.P
	n := 0
	for _, f := range p.FuncsIn("json") {
		if f.Decl == nil || f.Obj == nil || f.Body() == nil {
			continue
		}
		nm := f.Obj.Name()
		if !(strings.HasPrefix(nm, "appendDuration") || strings.HasPrefix(nm, "appendTime")) {
			continue
		}
		info := f.Info()
		// numeric locals and where they are read
		reads := map[types.Object][]*ast.IfStmt{} // innermost enclosing if-body per read (nil = outside any if body)
		InspectNoLit(f.Body(), func(nd ast.Node) bool {
			id, ok := nd.(*ast.Ident)
			if !ok {
				return true
			}
			v, ok := info.Uses[id].(*types.Var)
			if !ok || v.IsField() || v.Pkg() == nil {
				return true
			}
			if b, ok := v.Type().Underlying().(*types.Basic); !ok || b.Info()&types.IsNumeric == 0 {
				return true
			}
			if !(f.Body().Pos() <= v.Pos() && v.Pos() < f.Body().End()) {
				return true
			}
			// skip writes
			if as, ok := p.Parent(f.File, id).(*ast.AssignStmt); ok {
				for _, l := range as.Lhs {
					if ast.Unparen(l) == ast.Expr(id) && as.Tok == token.ASSIGN {
						return true
					}
				}
			}
			var inIf *ast.IfStmt
			var cur ast.Node = id
			for cur != nil && cur != ast.Node(f.Body()) {
				par := p.Parent(f.File, cur)
				if ifs, ok := par.(*ast.IfStmt); ok && ifs.Body == cur {
					inIf = ifs
					break
				}
				if ifs, ok := par.(*ast.IfStmt); ok && ifs.Cond == cur {
					return true // a read in a condition formats nothing
				}
				cur = par
			}
			reads[v] = append(reads[v], inIf)
			return true
		})
		var vs []types.Object
		for v := range reads {
			vs = append(vs, v)
		}
		sort.Slice(vs, func(i, j int) bool { return vs[i].Pos() < vs[j].Pos() })
		for _, v := range vs {
			rs := reads[v]
			var only *ast.IfStmt
			all := true
			for _, r := range rs {
				if r == nil {
					all = false
					break
				}
				if only == nil {
					only = r
				} else if only != r {
					all = false
					break
				}
			}
			if !all || only == nil {
				continue
			}
			n++
			mentions := false
			ast.Inspect(only.Cond, func(m ast.Node) bool {
				if id, ok := m.(*ast.Ident); ok && info.Uses[id] == v {
					mentions = true
				}
				return true
			})
			c.Oblige("component-not-dropped:"+f.Name+":"+v.Name(), only.Pos(), mentions, "`"+v.Name()+"` is only formatted inside a block whose condition `"+exprString(only.Cond)+"` does not look at it: when the block is skipped a non-zero "+v.Name()+" silently disappears from the output (and the value no longer round-trips)")
		}
	}
	c.Floor("conditionally formatted components in time formatters", n, 4)
}

func ruleNILFMT1(c *Ctx) {
	p := c.P
	n := 0
	for _, nm := range []string{"json.makeMapArshaler:marshal", "json.makeSliceArshaler:marshal"} {
		f := p.Func(nm)
		if f == nil || f.Body() == nil {
			c.Undecide(nm, "closure missing")
			continue
		}
		for _, g := range p.CalleeClosure(f, 2) {
			if g.Body() == nil {
				continue
			}
			info := g.Info()
			for _, cc := range findAll[*ast.CaseClause](g.Body()) {
				for _, e := range cc.List {
					s, ok := ConstStr(info, e)
					if !ok || (s != "emitnull" && s != "emitempty") || len(cc.List) != 1 {
						continue
					}
					n++
					want := "true"
					if s == "emitempty" {
						want = "false"
					}
					okSet := false
					for _, r := range findAll[*ast.ReturnStmt](&ast.BlockStmt{List: cc.Body}) {
						// the helper form: `return true, nil` out of a function that resolves the flag
						for _, res := range r.Results {
							if tv, ok := info.Types[res]; ok && tv.Value != nil && tv.Value.Kind() == constant.Bool {
								okSet = tv.Value.String() == want
								break
							}
						}
					}
					for _, as := range findAll[*ast.AssignStmt](&ast.BlockStmt{List: cc.Body}) {
						if len(as.Lhs) == 1 && len(as.Rhs) == 1 {
							if tv, ok := info.Types[as.Rhs[0]]; ok && tv.Value != nil && tv.Value.String() == want {
								if v := IdentObj(info, as.Lhs[0]); v != nil {
									if b, ok := v.Type().Underlying().(*types.Basic); ok && b.Kind() == types.Bool {
										okSet = true
									}
								}
							}
						}
					}
					c.Oblige("format-case-sets-flag:"+nm+":"+s, cc.Pos(), okSet, "the `"+s+"` case does not set the nil-handling flag to "+want+": the field's format no longer overrides FormatNil*AsNull, so a nil value is written according to the caller's option instead of the tag")
				}
			}
		}
	}
	c.Floor("emitnull/emitempty cases in the map and slice marshalers", n, 4)
}

func ruleESCFLAG1(c *Ctx) {
	p := c.P
	f := p.Func("json.consumeTagOption")
	if f == nil || f.Body() == nil {
		c.Undecide("json.consumeTagOption", "function missing")
		return
	}
	n := 0
	var clauses []*ast.CaseClause
	var info *types.Info
	for _, g := range p.CalleeClosure(f, 2) {
		if g.Body() != nil && g.File == f.File {
			clauses = append(clauses, findAll[*ast.CaseClause](g.Body())...)
			info = g.Info()
		}
	}
	for _, cc := range clauses {
		if len(cc.List) != 1 {
			continue
		}
		v := IdentObj(info, cc.List[0])
		if v == nil {
			continue
		}
		if b, ok := v.Type().Underlying().(*types.Basic); !ok || b.Kind() != types.Bool {
			continue
		}
		n++
		direct := false
		for _, st := range cc.Body {
			if as, ok := st.(*ast.AssignStmt); ok && len(as.Lhs) == 1 && IdentObj(info, as.Lhs[0]) == v {
				if tv, ok := info.Types[as.Rhs[0]]; ok && tv.Value != nil && tv.Value.String() == "false" {
					direct = true
				}
			}
		}
		c.Oblige("escape-flag-cleared-unconditionally:"+v.Name(), cc.Pos(), direct, "the clause that consumes the character after a backslash only clears `"+v.Name()+"` for some characters: after any other escape the scanner stays in escape mode and the closing quote of a quoted tag value is not recognised")
	}
	if n == 0 {
		c.Undecide("json.consumeTagOption/escape", "no clause on a bool escape flag")
	}
}

func init() {
	register(&Rule{ID: "WS-3", Doc: "no ad-hoc whitespace set: outside the *Whitespace* scanners of jsonwire (WS-2), every boolean expression or case list in jsontext, jsonwire, json and v1 that tests a byte for equality with ' ' and with '\\n' or '\\r' (space and tab alone are the indentation alphabet) holds (or fails) for exactly {0x20, 0x09, 0x0a, 0x0d} — a hand-rolled skip loop that forgets one of the four makes a value with that leading byte an invalid kind", Run: ruleWS3})
	register(&Rule{ID: "KINDDEF-1", Doc: "an unexpected kind is consumed as a value, not as a token: in package json the default clause of a switch over a jsontext.Kind never calls Decoder.ReadToken — for ']' or '}' ReadToken succeeds and closes the enclosing container, where ReadValue reports the syntax error", Run: ruleKINDDEF1})
	register(&Rule{ID: "UNWRITE-4", Doc: "an escaped quote is never taken for an empty string: in encoderState.UnwriteEmptyObjectMember the `\"\"` case returns false whenever the byte before the two quotes is a backslash (in a valid buffer that backslash can only escape the first of the two quotes), whatever else the condition looks at", Run: ruleUNWRITE4})
	register(&Rule{ID: "ERRCMP-1", Doc: "the tokenizer's internal end-of-input sentinels are compared by identity: in jsontext no errors.Is / errors.As has io.ErrUnexpectedEOF or io.EOF as its target (a reader's own error that merely wraps the sentinel would be taken for the tokenizer's `need more input` and swallowed)", Run: ruleERRCMP1})
}

func mentionsLit(info *types.Info, n ast.Node, vals ...int64) bool {
	found := false
	ast.Inspect(n, func(m ast.Node) bool {
		if lit, ok := m.(*ast.BasicLit); ok && lit.Kind == token.CHAR {
			if v, isC := ConstI64(info, lit); isC {
				for _, w := range vals {
					if v == w {
						found = true
					}
				}
			}
		}
		return true
	})
	return found
}

func ruleWS3(c *Ctx) {
	p := c.P
	want := map[int64]bool{' ': true, '\t': true, '\n': true, '\r': true}
	nExpr := 0
	for _, f := range p.FuncsIn("jsonwire", "jsontext", "json", "v1") {
		if f.Body() == nil {
			continue
		}
		if f.Obj != nil && strings.Contains(f.Obj.Name(), "Whitespace") {
			continue // WS-2
		}
		info := f.Info()
		k := 0
		isBool := func(e ast.Expr) bool {
			b, ok := ast.Unparen(e).(*ast.BinaryExpr)
			return ok && (b.Op == token.LAND || b.Op == token.LOR)
		}
		InspectNoLit(f.Body(), func(nd ast.Node) bool {
			switch x := nd.(type) {
			case *ast.BinaryExpr:
				if !isBool(x) {
					return true
				}
				// the largest ||-group (or the whole expression) that mentions ' ' and one of the others
				var groups []ast.Expr
				for _, cj := range conjuncts(x) {
					if mentionsLit(info, cj, ' ') && mentionsLit(info, cj, '\n', '\r') {
						groups = append(groups, cj)
					}
				}
				for _, g := range groups {
					eqOnly := true
					ast.Inspect(g, func(m ast.Node) bool {
						if b, ok := m.(*ast.BinaryExpr); ok && mentionsLit(info, b, ' ') && !isBool(b) && b.Op != token.EQL && b.Op != token.NEQ {
							eqOnly = false
						}
						return true
					})
					if !eqOnly {
						continue
					}
					k++
					nExpr++
					key := fmt.Sprintf("adhoc-whitespace-set:%s#%d", f.Name, k)
					var yes, no, unk int
					var diff []string
					for v := int64(0); v < 256; v++ {
						subj := ""
						switch evalBytePred(info, g, &subj, v) {
						case triYes:
							yes++
							if !want[v] {
								diff = append(diff, fmt.Sprintf("0x%02x", v))
							}
						case triNo:
							no++
							if want[v] {
								diff = append(diff, fmt.Sprintf("0x%02x", v))
							}
						default:
							unk++
						}
					}
					if unk > 0 {
						c.Undecide(key, "byte predicate `"+exprString(g)+"` not decidable")
						continue
					}
					okSet := len(diff) == 0 || len(diff) == 256 // exactly the set, or exactly its complement
					c.Oblige(key, g.Pos(), okSet, "`"+exprString(g)+"` treats byte(s) "+strings.Join(diff, ",")+" differently from RFC 8259 whitespace {0x20,0x09,0x0a,0x0d}")
				}
				return false
			case *ast.BasicLit:
				// a cut-set string such as " \t\n" handed to bytes.TrimLeft and friends
				if x.Kind != token.STRING {
					return true
				}
				sv, ok := ConstStr(info, x)
				if !ok || len(sv) < 2 || len(sv) > 8 {
					return true
				}
				set := map[int64]bool{}
				only := true
				for _, r := range sv {
					set[int64(r)] = true
					if r > ' ' {
						only = false
					}
				}
				if !only || !set[' '] || !(set['\n'] || set['\r']) { // " \t" alone is the indentation alphabet, not JSON whitespace
					return true
				}
				k++
				nExpr++
				var diff []string
				for v := int64(0); v <= ' '; v++ {
					if set[v] != want[v] {
						diff = append(diff, fmt.Sprintf("0x%02x", v))
					}
				}
				c.Oblige(fmt.Sprintf("adhoc-whitespace-set:%s#%d", f.Name, k), x.Pos(), len(diff) == 0, "the cut-set "+x.Value+" differs from RFC 8259 whitespace in "+strings.Join(diff, ","))
			case *ast.CaseClause:
				sp, other := false, false
				vals := map[int64]bool{}
				for _, e := range x.List {
					if v, isC := ConstI64(info, e); isC {
						vals[v] = true
						if v == ' ' {
							sp = true
						}
						if v == '\n' || v == '\r' {
							other = true
						}
					}
				}
				if sp && other {
					k++
					nExpr++
					var diff []string
					for v := range want {
						if !vals[v] {
							diff = append(diff, fmt.Sprintf("0x%02x", v))
						}
					}
					for v := range vals {
						if !want[v] {
							diff = append(diff, fmt.Sprintf("0x%02x", v))
						}
					}
					sort.Strings(diff)
					c.Oblige(fmt.Sprintf("adhoc-whitespace-set:%s#%d", f.Name, k), x.Pos(), len(diff) == 0, "the case list differs from RFC 8259 whitespace in "+strings.Join(diff, ","))
				}
			}
			return true
		})
	}
	c.OK("adhoc-whitespace-set:count", token.NoPos, fmt.Sprintf("ad-hoc whitespace tests outside the scanners: %d (0 on the reviewed tree; the selftest mutant ws3 keeps the rule armed)", nExpr))
}

func ruleKINDDEF1(c *Ctx) {
	p := c.P
	n := 0
	for _, f := range p.FuncsIn("json") {
		if f.Body() == nil {
			continue
		}
		info := f.Info()
		InspectNoLit(f.Body(), func(nd ast.Node) bool {
			sw, ok := nd.(*ast.SwitchStmt)
			if !ok {
				return true
			}
			kindSwitch := sw.Tag != nil && isNamed(info.TypeOf(sw.Tag), pkgAlias["jsontext"], "Kind")
			if !kindSwitch {
				return true
			}
			for _, st := range sw.Body.List {
				cc := st.(*ast.CaseClause)
				if cc.List != nil {
					continue
				}
				n++
				bad := token.NoPos
				for _, s := range cc.Body {
					for _, call := range CallsIn(s) {
						if _, ok := MethodCall(info, call, "jsontext", "Decoder", "ReadToken"); ok {
							bad = call.Pos()
						}
					}
				}
				pos := cc.Pos()
				if bad != token.NoPos {
					pos = bad
				}
				c.Oblige(fmt.Sprintf("kind-default-reads-value:%s@%s", f.Name, exprString(sw.Tag)), pos, bad == token.NoPos, "the default arm of a switch over the next kind advances the decoder with ReadToken: for ']' or '}' that closes the enclosing array or object without an error, so malformed input such as `[]]`-shaped sequences inside an `any` target is accepted and the decoder state no longer matches the caller's")
			}
			return true
		})
	}
	c.Floor("default arms of kind switches in package json", n, 4)
}

func ruleUNWRITE4(c *Ctx) {
	p := c.P
	f := p.Func("jsontext.(*encoderState).UnwriteEmptyObjectMember")
	if f == nil || f.Body() == nil {
		c.Undecide("jsontext.encoderState.UnwriteEmptyObjectMember", "function missing")
		return
	}
	info := f.Info()
	n := 0
	var clauses []*ast.CaseClause
	for _, g := range p.CalleeClosure(f, 2) {
		if g.Body() != nil && g.File == f.File {
			clauses = append(clauses, findAll[*ast.CaseClause](g.Body())...)
		}
	}
	for _, cc := range clauses {
		isEmptyStr := false
		for _, e := range cc.List {
			if s, ok := ConstStr(info, e); ok && s == `""` {
				isEmptyStr = true
			}
		}
		if !isEmptyStr {
			continue
		}
		for _, st := range cc.Body {
			ifs, ok := st.(*ast.IfStmt)
			if !ok {
				continue
			}
			retFalse := false
			for _, r := range findAll[*ast.ReturnStmt](ifs.Body) {
				if len(r.Results) == 1 {
					if tv, ok := info.Types[r.Results[0]]; ok && tv.Value != nil && (tv.Value.String() == "false" || tv.Value.String() == "0") {
						retFalse = true // `return 0` in the helper form that answers with the length of the empty value
					}
				}
			}
			if !retFalse {
				continue
			}
			n++
			r := boolEval(ifs.Cond, func(e ast.Expr) (bool, bool) {
				b, ok := ast.Unparen(e).(*ast.BinaryExpr)
				if !ok || b.Op != token.EQL {
					return false, false
				}
				x, y := b.X, b.Y
				if _, isC := ConstI64(info, x); isC {
					x, y = y, x
				}
				if v, isC := ConstI64(info, y); !isC || v != '\\' {
					return false, false
				}
				ix, ok := ast.Unparen(x).(*ast.IndexExpr)
				if !ok {
					return false, false
				}
				s := strings.ReplaceAll(exprString(ix.Index), " ", "")
				if strings.HasPrefix(s, "len(") && strings.HasSuffix(s, ")-3") {
					return true, true
				}
				return false, false
			})
			c.Oblige("escaped-quote-is-not-empty", ifs.Pos(), r == triYes, "the `\"\"` case does not return false for every buffer whose third byte from the end is a backslash (condition `"+exprString(ifs.Cond)+"`): a string ending in an escaped quote (e.g. `\"\\\\\\\"\"`) is taken for the empty string and the member is dropped by omitempty")
		}
	}
	if n == 0 {
		c.Undecide("UnwriteEmptyObjectMember/empty-string-case", "no `return false` test in the `\"\"` case")
	}
}

func ruleERRCMP1(c *Ctx) {
	p := c.P
	nId := 0
	for _, f := range p.FuncsIn("jsontext") {
		if f.Body() == nil {
			continue
		}
		info := f.Info()
		isSentinel := func(e ast.Expr) bool {
			o := IdentOrSelObj(info, e)
			return o != nil && o.Pkg() != nil && o.Pkg().Path() == "io" && (o.Name() == "ErrUnexpectedEOF" || o.Name() == "EOF")
		}
		InspectNoLit(f.Body(), func(nd ast.Node) bool {
			switch x := nd.(type) {
			case *ast.CallExpr:
				if (FuncCall(info, x, "errors", "Is") || FuncCall(info, x, "errors", "As")) && len(x.Args) == 2 && isSentinel(x.Args[1]) {
					c.Oblige("sentinel-by-identity:"+f.Name, x.Pos(), false, "`"+exprString(x)+"`: the tokenizer uses io.ErrUnexpectedEOF / io.EOF as its own `need more input` / `clean end` signals; matching them with errors.Is also matches an error of the caller's io.Reader that wraps one of them, which is then swallowed (truncated input reported as a clean end) instead of being returned")
				}
			case *ast.BinaryExpr:
				if (x.Op == token.EQL || x.Op == token.NEQ) && (isSentinel(x.X) || isSentinel(x.Y)) {
					nId++
				}
			case *ast.CaseClause:
				for _, e := range x.List {
					if isSentinel(e) {
						nId++
					}
				}
			}
			return true
		})
	}
	c.Oblige("sentinel-by-identity:count", token.NoPos, true, "")
	c.Floor("identity comparisons with io.EOF / io.ErrUnexpectedEOF in jsontext", nId, 8)
}
