package main

import (
	"fmt"
	"go/ast"
	"go/token"
	"go/types"
	"sort"
	"strings"
)

func init() {
	register(&Rule{ID: "V1-8", Doc: "small v1 parity tables and guards: (a) isLegacyEmpty covers every kind of encoding/json's isEmptyValue (bool, the integer, unsigned and float kinds, string, map, slice, array, pointer, interface); (b) v1.NewDecoder hides a *bytes.Buffer from jsontext behind a wrapper value, not behind a conversion that keeps the dynamic type; (c) in makeMethodArshaler every legacy guard falls back whenever needAddr && forcedAddr, and an arm that mentions NeedObjectName falls back for every object name; (d) the int and uint unmarshal closures guard their legacy Go-syntax parse (strconv.ParseInt / ParseUint) with the same options", Run: ruleV18})
	register(&Rule{ID: "FMTCOMP-1", Doc: "no component of a formatted duration or time is dropped silently: in the append* formatters of arshal_time.go a numeric local that is only read inside one if-block is mentioned by that block's condition (a sub-second remainder whose block is skipped for another reason disappears from the output)", Run: ruleFMTCOMP1})
	register(&Rule{ID: "NILFMT-1", Doc: "the nil-container format flags behave the same for maps and slices: in the marshal closures of makeMapArshaler and makeSliceArshaler the `emitnull` case sets emitNull to true and the `emitempty` case sets it to false (a case without the assignment inherits FormatNilSliceAsNull / FormatNilMapAsNull, although the format is documented to win)", Run: ruleNILFMT1})
	register(&Rule{ID: "ESCFLAG-1", Doc: "a one-shot escape flag of a scanner is cleared on every path of the clause that consumes it: in fields.go consumeTagOption the `inEscape` clause assigns inEscape = false as a direct statement (not under a test of the escaped character)", Run: ruleESCFLAG1})
}

func ruleV18(c *Ctx) {
	p := c.P
	// (a) isLegacyEmpty kinds
	if f := p.Func("json.isLegacyEmpty"); f == nil || f.Body() == nil {
		c.Undecide("json.isLegacyEmpty", "function missing")
	} else {
		info := f.Info()
		got := map[string]bool{}
		for _, cc := range findAllDeepCase(p, f) {
			for _, e := range cc.List {
				if o := IdentOrSelObj(info, e); o != nil && o.Pkg() != nil && o.Pkg().Path() == "reflect" {
					got[o.Name()] = true
				}
			}
		}
		want := []string{"Bool", "Int", "Int8", "Int16", "Int32", "Int64", "Uint", "Uint8", "Uint16", "Uint32", "Uint64", "Uintptr", "Float32", "Float64", "String", "Map", "Slice", "Array", "Pointer", "Interface"}
		var missing []string
		for _, k := range want {
			if !got[k] {
				missing = append(missing, k)
			}
		}
		c.Oblige("legacy-empty-kinds", f.Pos(), len(missing) == 0, "isLegacyEmpty has no case for kind(s) "+strings.Join(missing, ", ")+": encoding/json's isEmptyValue treats them as empty when zero/len 0/nil, so `omitempty` under v1 semantics emits members encoding/json omits")
	}
	// (b) NewDecoder wrapper
	if f := p.Func("v1.NewDecoder"); f == nil || f.Body() == nil {
		c.Undecide("v1.NewDecoder", "function missing")
	} else {
		info := f.Info()
		okWrap, found := false, false
		for _, ifs := range findAll[*ast.IfStmt](f.Body()) {
			isBB := false
			ast.Inspect(ifs, func(m ast.Node) bool {
				if ta, ok := m.(*ast.TypeAssertExpr); ok && ta.Type != nil && isPtrToNamed(info.TypeOf(ta.Type), "bytes", "Buffer") {
					isBB = true
				}
				return true
			})
			if !isBB {
				continue
			}
			found = true
			for _, as := range findAll[*ast.AssignStmt](ifs.Body) {
				for _, r := range as.Rhs {
					if cl, ok := ast.Unparen(r).(*ast.CompositeLit); ok {
						if _, isStruct := info.TypeOf(cl).Underlying().(*types.Struct); isStruct {
							okWrap = true
						}
					}
				}
			}
		}
		if !found {
			c.Undecide("v1.NewDecoder/bytes.Buffer", "no *bytes.Buffer test")
		} else {
			c.Oblige("newdecoder-hides-bytes-buffer", f.Pos(), okWrap, "a *bytes.Buffer reader is not wrapped into a value of another type before it is handed to jsontext.NewDecoder (a conversion to io.Reader keeps the dynamic type): jsontext then takes the buffer's storage as its own and a caller who keeps writing to the buffer between Decode calls gets errors or stale data")
		}
	}
	// (c) legacy guards of the method arshaler arms
	n := 0
	for _, f := range p.FuncsIn("json") {
		if f.Lit == nil || f.Body() == nil || !strings.HasPrefix(f.Name, "json.makeMethodArshaler:marshal") {
			continue
		}
		info := f.Info()
		for _, ifs := range findAll[*ast.IfStmt](f.Body()) {
			callsPrev := false
			for _, r := range findAll[*ast.ReturnStmt](ifs.Body) {
				for _, call := range CallsIn(r) {
					if id, ok := ast.Unparen(call.Fun).(*ast.Ident); ok && strings.HasPrefix(id.Name, "prev") {
						callsPrev = true
					}
				}
			}
			if !callsPrev || flagsRead(info, ifs.Cond) == 0 {
				continue
			}
			n++
			mentionsName := strings.Contains(exprString(ifs.Cond), "NeedObjectName")
			eval := func(needAddr, forced, name bool) tri {
				return boolEval(ifs.Cond, func(e ast.Expr) (bool, bool) {
					if _, ok := IsFlagGet(info, e); ok {
						return true, true
					}
					s := exprString(e)
					switch {
					case s == "needAddr":
						return needAddr, true
					case strings.HasSuffix(s, ".forcedAddr"):
						return forced, true
					case strings.HasSuffix(s, "NeedObjectName()"):
						return name, true
					}
					return false, false
				})
			}
			ok := eval(true, true, false) == triYes && eval(true, true, true) == triYes
			detail := "the legacy guard does not fall back when needAddr && forcedAddr"
			if ok && mentionsName {
				for _, na := range []bool{false, true} {
					for _, fo := range []bool{false, true} {
						if eval(na, fo, true) != triYes {
							ok = false
							detail = fmt.Sprintf("the legacy guard mentions NeedObjectName but does not fall back for an object name when needAddr=%v, forcedAddr=%v: under v1 semantics a map key of this type is encoded with its MarshalJSON result, which encoding/json never does", na, fo)
						}
					}
				}
			}
			c.Oblige("legacy-method-guard:"+f.Name, ifs.Pos(), ok, detail)
		}
	}
	c.Floor("legacy guards in method arshaler marshal arms", n, 3)
	// (d) int / uint legacy parse guards
	guards := map[string]string{}
	for _, nm := range []string{"json.makeIntArshaler:unmarshal", "json.makeUintArshaler:unmarshal"} {
		f := p.Func(nm)
		if f == nil || f.Body() == nil {
			continue
		}
		info := f.Info()
		InspectNoLit(f.Body(), func(nd ast.Node) bool {
			call, ok := nd.(*ast.CallExpr)
			if !ok || !(FuncCall(info, call, "strconv", "ParseInt") || FuncCall(info, call, "strconv", "ParseUint")) {
				return true
			}
			var fl uint64
			for _, cc := range enclosingConds(p, f, call) {
				fl |= flagsRead(info, cc.cond)
			}
			guards[nm] = p.Flags().Names(fl)
			return true
		})
	}
	if len(guards) == 2 {
		c.Oblige("int-uint-legacy-parse-same-guard", p.Func("json.makeUintArshaler:unmarshal").Pos(), guards["json.makeIntArshaler:unmarshal"] == guards["json.makeUintArshaler:unmarshal"],
			"the legacy Go-syntax parse is guarded by {"+guards["json.makeIntArshaler:unmarshal"]+"} for signed and by {"+guards["json.makeUintArshaler:unmarshal"]+"} for unsigned integers: quoted numbers (map keys, `string` fields) are then parsed by different grammars depending on signedness")
	}
}

func findAllDeepCase(p *Program, f *FuncInfo) []*ast.CaseClause {
	return findAll[*ast.CaseClause](f.Body())
}

func ruleFMTCOMP1(c *Ctx) {
	p := c.P
	n := 0
	for _, f := range p.FuncsIn("json") {
		if f.Decl == nil || f.Obj == nil || f.Body() == nil {
			continue
		}
		nm := f.Obj.Name()
		if !(strings.HasPrefix(nm, "appendDuration") || strings.HasPrefix(nm, "appendTime")) {
			continue
		}
		info := f.Info()
		// numeric locals and where they are read
		type use struct{ ifs *ast.IfStmt }
		reads := map[types.Object][]*ast.IfStmt{} // innermost enclosing if-body per read (nil = outside any if body)
		InspectNoLit(f.Body(), func(nd ast.Node) bool {
			id, ok := nd.(*ast.Ident)
			if !ok {
				return true
			}
			v, ok := info.Uses[id].(*types.Var)
			if !ok || v.IsField() || v.Pkg() == nil {
				return true
			}
			if b, ok := v.Type().Underlying().(*types.Basic); !ok || b.Info()&types.IsNumeric == 0 {
				return true
			}
			if !(f.Body().Pos() <= v.Pos() && v.Pos() < f.Body().End()) {
				return true
			}
			// skip writes
			if as, ok := p.Parent(f.File, id).(*ast.AssignStmt); ok {
				for _, l := range as.Lhs {
					if ast.Unparen(l) == ast.Expr(id) && as.Tok == token.ASSIGN {
						return true
					}
				}
			}
			var inIf *ast.IfStmt
			var cur ast.Node = id
			for cur != nil && cur != ast.Node(f.Body()) {
				par := p.Parent(f.File, cur)
				if ifs, ok := par.(*ast.IfStmt); ok && ifs.Body == cur {
					inIf = ifs
					break
				}
				if ifs, ok := par.(*ast.IfStmt); ok && ifs.Cond == cur {
					break // a read in a condition is a read outside the body
				}
				cur = par
			}
			reads[v] = append(reads[v], inIf)
			return true
		})
		var vs []types.Object
		for v := range reads {
			vs = append(vs, v)
		}
		sort.Slice(vs, func(i, j int) bool { return vs[i].Pos() < vs[j].Pos() })
		for _, v := range vs {
			rs := reads[v]
			var only *ast.IfStmt
			all := true
			for _, r := range rs {
				if r == nil {
					all = false
					break
				}
				if only == nil {
					only = r
				} else if only != r {
					all = false
					break
				}
			}
			if !all || only == nil {
				continue
			}
			n++
			mentions := false
			ast.Inspect(only.Cond, func(m ast.Node) bool {
				if id, ok := m.(*ast.Ident); ok && info.Uses[id] == v {
					mentions = true
				}
				return true
			})
			c.Oblige("component-not-dropped:"+f.Name+":"+v.Name(), only.Pos(), mentions, "`"+v.Name()+"` is only formatted inside a block whose condition `"+exprString(only.Cond)+"` does not look at it: when the block is skipped a non-zero "+v.Name()+" silently disappears from the output (and the value no longer round-trips)")
		}
	}
	c.Floor("conditionally formatted components in time formatters", n, 1)
}

func ruleNILFMT1(c *Ctx) {
	p := c.P
	n := 0
	for _, nm := range []string{"json.makeMapArshaler:marshal", "json.makeSliceArshaler:marshal"} {
		f := p.Func(nm)
		if f == nil || f.Body() == nil {
			c.Undecide(nm, "closure missing")
			continue
		}
		info := f.Info()
		for _, g := range p.CalleeClosure(f, 2) {
			if g.Body() == nil {
				continue
			}
			for _, cc := range findAll[*ast.CaseClause](g.Body()) {
				for _, e := range cc.List {
					s, ok := ConstStr(info, e)
					if !ok || (s != "emitnull" && s != "emitempty") || len(cc.List) != 1 {
						continue
					}
					n++
					want := "true"
					if s == "emitempty" {
						want = "false"
					}
					okSet := false
					for _, as := range findAll[*ast.AssignStmt](&ast.BlockStmt{List: cc.Body}) {
						if len(as.Lhs) == 1 && len(as.Rhs) == 1 {
							if tv, ok := info.Types[as.Rhs[0]]; ok && tv.Value != nil && tv.Value.String() == want {
								if v := IdentObj(info, as.Lhs[0]); v != nil {
									if b, ok := v.Type().Underlying().(*types.Basic); ok && b.Kind() == types.Bool {
										okSet = true
									}
								}
							}
						}
					}
					c.Oblige("format-case-sets-flag:"+nm+":"+s, cc.Pos(), okSet, "the `"+s+"` case does not set the nil-handling flag to "+want+": the field's format no longer overrides FormatNil*AsNull, so a nil value is written according to the caller's option instead of the tag")
				}
			}
		}
	}
	c.Floor("emitnull/emitempty cases in the map and slice marshalers", n, 4)
}

func ruleESCFLAG1(c *Ctx) {
	p := c.P
	f := p.Func("json.consumeTagOption")
	if f == nil || f.Body() == nil {
		c.Undecide("json.consumeTagOption", "function missing")
		return
	}
	info := f.Info()
	n := 0
	for _, cc := range findAll[*ast.CaseClause](f.Body()) {
		if len(cc.List) != 1 {
			continue
		}
		v := IdentObj(info, cc.List[0])
		if v == nil {
			continue
		}
		if b, ok := v.Type().Underlying().(*types.Basic); !ok || b.Kind() != types.Bool {
			continue
		}
		n++
		direct := false
		for _, st := range cc.Body {
			if as, ok := st.(*ast.AssignStmt); ok && len(as.Lhs) == 1 && IdentObj(info, as.Lhs[0]) == v {
				if tv, ok := info.Types[as.Rhs[0]]; ok && tv.Value != nil && tv.Value.String() == "false" {
					direct = true
				}
			}
		}
		c.Oblige("escape-flag-cleared-unconditionally:"+v.Name(), cc.Pos(), direct, "the clause that consumes the character after a backslash only clears `"+v.Name()+"` for some characters: after any other escape the scanner stays in escape mode and the closing quote of a quoted tag value is not recognised")
	}
	if n == 0 {
		c.Undecide("json.consumeTagOption/escape", "no clause on a bool escape flag")
	}
}
