package main

import (
	"fmt"
	"go/ast"
	"go/token"
	"go/types"
)

func init() {
	register(&Rule{ID: "VERB-1", Doc: "a quoted string is only taken verbatim (returned without unescaping and without replacing ill-formed UTF-8) on the scanner's own verdict about the same bytes: the isVerbatim argument of every jsonwire.UnquoteMayCopy call is `false`, ValueFlags.IsVerbatim() of flags filled by the call that produced those bytes, or ConsumeSimpleString(x) == len(x) on the same x; the cheaper `no backslash` test is accepted only for bytes the encoder itself produced (AppendQuote output / the encoder buffer), which are always valid UTF-8", Run: ruleVERB1})
}

func ruleVERB1(c *Ctx) {
	p := c.P
	encBuf := p.Field("jsontext", "encodeBuffer", "Buf")
	n := 0
	ord := map[string]int{}
	for _, f := range p.FuncsIn("json", "jsontext", "v1", "jsonwire") {
		if f.Body() == nil {
			continue
		}
		info := f.Info()
		decl := f
		if d := p.enclosingDecl(f); d != nil {
			decl = d
		}
		rootVar := func(e ast.Expr) *types.Var {
			for {
				e = ast.Unparen(e)
				switch x := e.(type) {
				case *ast.SliceExpr:
					e = x.X
					continue
				case *ast.Ident:
					v, _ := IdentObj(info, x).(*types.Var)
					return v
				}
				return nil
			}
		}
		mentionsEncBuf := func(e ast.Expr) bool {
			m := false
			ast.Inspect(e, func(nd ast.Node) bool {
				if x, ok := nd.(ast.Expr); ok && SelField(info, x) == encBuf {
					m = true
				}
				return !m
			})
			return m
		}
		encoderProduced := func(e ast.Expr) bool {
			if mentionsEncBuf(e) {
				return true
			}
			if v := rootVar(e); v != nil {
				defs := defsOf(info, decl.Body(), v)
				if len(defs) == 0 {
					return false
				}
				for _, d := range defs {
					if mentionsEncBuf(d) {
						continue
					}
					if call, ok := ast.Unparen(d).(*ast.CallExpr); ok && FuncCall(info, call, "jsonwire", "AppendQuote") {
						continue
					}
					return false
				}
				return true
			}
			return false
		}
		InspectNoLit(f.Body(), func(nd ast.Node) bool {
			call, ok := nd.(*ast.CallExpr)
			if !ok || !FuncCall(info, call, "jsonwire", "UnquoteMayCopy") || len(call.Args) != 2 {
				return true
			}
			n++
			src := call.Args[0]
			var judge func(e ast.Expr, depth int) (bool, string)
			judge = func(e ast.Expr, depth int) (bool, string) {
				e = ast.Unparen(e)
				if tv, ok := info.Types[e]; ok && tv.Value != nil {
					if tv.Value.String() == "false" {
						return true, ""
					}
					return false, "constant true: the bytes would never be unescaped"
				}
				switch x := e.(type) {
				case *ast.CallExpr:
					if cf := Callee(info, x); cf != nil && cf.Name() == "IsVerbatim" {
						// flags must have been filled by a call in this function (passed by address)
						sel, _ := ast.Unparen(x.Fun).(*ast.SelectorExpr)
						if sel == nil {
							return false, "IsVerbatim on an unrecognised receiver"
						}
						fv := IdentObj(info, sel.X)
						filled := false
						ast.Inspect(decl.Body(), func(n2 ast.Node) bool {
							if u, ok := n2.(*ast.UnaryExpr); ok && u.Op == token.AND && fv != nil && IdentObj(info, u.X) == fv {
								filled = true
							}
							return !filled
						})
						if filled {
							return true, ""
						}
						return false, "the ValueFlags consulted were not filled by a scanner call in this function"
					}
				case *ast.BinaryExpr:
					if x.Op == token.EQL {
						l, r := ast.Unparen(x.X), ast.Unparen(x.Y)
						if lc, ok := r.(*ast.CallExpr); ok && FuncCall(info, lc, "jsonwire", "ConsumeSimpleString") {
							l, r = r, l
						}
						if lc, ok := l.(*ast.CallExpr); ok && FuncCall(info, lc, "jsonwire", "ConsumeSimpleString") && len(lc.Args) == 1 {
							if rc, ok := r.(*ast.CallExpr); ok && IsBuiltin(info, rc, "len") && len(rc.Args) == 1 {
								a, b, s := rootVar(lc.Args[0]), rootVar(rc.Args[0]), rootVar(src)
								if a != nil && a == b && a == s && exprString(lc.Args[0]) == exprString(rc.Args[0]) && exprString(lc.Args[0]) == exprString(src) {
									return true, ""
								}
								return false, "ConsumeSimpleString/len are not applied to the bytes being unquoted"
							}
						}
					}
					if x.Op == token.LSS {
						// bytes.IndexByte(b, '\\') < 0
						if ic, ok := ast.Unparen(x.X).(*ast.CallExpr); ok && FuncCall(info, ic, "bytes", "IndexByte") && len(ic.Args) == 2 {
							if v, isC := ConstI64(info, x.Y); isC && v == 0 {
								if ch, isC := ConstI64(info, ic.Args[1]); isC && ch == '\\' {
									if !encoderProduced(src) || !encoderProduced(ic.Args[0]) {
										return false, "`no backslash` only proves verbatim for bytes the encoder produced; decoder input may also hold ill-formed UTF-8 that must be replaced"
									}
									if exprString(ic.Args[0]) != exprString(src) {
										return false, "the backslash test is not applied to the bytes being unquoted"
									}
									return true, ""
								}
							}
						}
					}
				case *ast.Ident:
					v, _ := IdentObj(info, x).(*types.Var)
					if v == nil || depth > 1 {
						return false, "unrecognised"
					}
					defs := defsOf(info, decl.Body(), v)
					if len(defs) == 0 {
						return false, "isVerbatim comes from outside this function"
					}
					for _, d := range defs {
						if ok, why := judge(d, depth+1); !ok {
							return false, why
						}
					}
					return true, ""
				}
				return false, "not one of the accepted derivations"
			}
			ok2, why := judge(call.Args[1], 0)
			key := f.Name + ":" + exprString(src)
			ord[key]++
			if ord[key] > 1 {
				key += "#" + string(rune('0'+ord[key]))
			}
			c.Oblige("verbatim-arg:"+key, call.Pos(), ok2, "UnquoteMayCopy("+exprString(src)+", "+exprString(call.Args[1])+"): "+why)
			return true
		})
	}
	c.Floor("jsonwire.UnquoteMayCopy call sites", n, 12)
	// the other way round: bytes a Decoder handed out (a raw token) reach encoder output unchecked only if the
	// scanner accepts them as a simple string in full; every other raw string goes through ReformatString, which
	// re-validates it under the *encoder's* options (the Decoder may have been more permissive)
	if f := p.Func("jsontext.(Token).appendString"); f == nil || f.Body() == nil {
		c.Undecide("jsontext.(Token).appendString", "function missing")
	} else {
		nRet := 0
		p.InspectScope(f, func(g *FuncInfo, nd ast.Node) bool {
			info := g.Info()
			r, ok := nd.(*ast.ReturnStmt)
			if !ok || len(r.Results) == 0 {
				return true
			}
			call, ok := ast.Unparen(r.Results[0]).(*ast.CallExpr)
			if !ok || !IsBuiltin(info, call, "append") || len(call.Args) != 2 || call.Ellipsis == token.NoPos {
				return true
			}
			// the appended bytes come from previousBuffer()
			src, _ := IdentObj(info, call.Args[1]).(*types.Var)
			if src == nil {
				return true
			}
			fromRaw := false
			for _, d := range defsOf(info, g.Body(), src) {
				if dc, ok := ast.Unparen(d).(*ast.CallExpr); ok {
					if cf := Callee(info, dc); cf != nil && cf.Name() == "previousBuffer" {
						fromRaw = true
					}
				}
			}
			if !fromRaw {
				return true
			}
			nRet++
			// innermost condition: every disjunct is ConsumeSimpleString(src) == len(src)
			conds := enclosingConds(p, g, r)
			okGuard := false
			why := "the verbatim copy is not guarded at all"
			if len(conds) > 0 && conds[0].then {
				okGuard = true
				var split func(e ast.Expr) []ast.Expr
				split = func(e ast.Expr) []ast.Expr {
					e = ast.Unparen(e)
					if be, ok := e.(*ast.BinaryExpr); ok && be.Op == token.LOR {
						return append(split(be.X), split(be.Y)...)
					}
					return []ast.Expr{e}
				}
				for _, d := range split(conds[0].cond) {
					good := false
					if be, ok := d.(*ast.BinaryExpr); ok && be.Op == token.EQL {
						l, rr := ast.Unparen(be.X), ast.Unparen(be.Y)
						if lc, ok := rr.(*ast.CallExpr); ok && FuncCall(info, lc, "jsonwire", "ConsumeSimpleString") {
							l, rr = rr, l
						}
						if lc, ok := l.(*ast.CallExpr); ok && FuncCall(info, lc, "jsonwire", "ConsumeSimpleString") && len(lc.Args) == 1 && IdentObj(info, lc.Args[0]) == src {
							if rc, ok := rr.(*ast.CallExpr); ok && IsBuiltin(info, rc, "len") && len(rc.Args) == 1 && IdentObj(info, rc.Args[0]) == src {
								good = true
							}
						}
					}
					if !good {
						okGuard = false
						why = "the verbatim copy also happens under `" + exprString(d) + "`, which does not prove the bytes are a simple (escape-free, valid UTF-8) string"
					}
				}
			}
			c.Oblige(fmt.Sprintf("raw-token-verbatim-only-if-simple#%d", nRet), r.Pos(), okGuard, why)
			return true
		})
		if nRet == 0 {
			c.Undecide("jsontext.(Token).appendString/verbatim", "no verbatim copy of a raw token found")
		}
	}
}
