package main

import (
	"fmt"
	"go/ast"
	"go/token"
	"go/types"
	"sort"
	"strings"
)

func init() {
	register(&Rule{ID: "FLAGPAIR-1", Doc: "two flags are combined the same way everywhere: a pair of single flags that some site requires together (`Get(A) && Get(B)`) is nowhere tested as any-of (`Get(A|B)`, which is true when either is set) outside a negation — the `simplification` of a conjunction into one masked Get silently weakens it", Run: ruleFLAGPAIR1})
	register(&Rule{ID: "NS-4", Doc: "a namespace is disabled on the object that was just opened, never on its parent: in every function, each Tokens.Last.DisableNamespace() is preceded on all paths by the coder call that opens the object (WriteToken / ReadToken in the same function); `Last` is the enclosing frame until then", Run: ruleNS4})
	register(&Rule{ID: "UNSUP-1", Doc: "`unsupported` is recognised the same way everywhere: every test of an error against errors.ErrUnsupported in package json uses errors.Is (the dispatcher that falls through to the next candidate does); an identity comparison in the sanitiser of non-skippable functions would let a wrapped ErrUnsupported through and the dispatcher would then skip a function that already consumed input", Run: ruleUNSUP1})
	register(&Rule{ID: "CTRL-1", Doc: "the control-character boundary is drawn in one place: every ordered comparison of a byte, rune or code unit with the constant 0x20 (' ') in jsonwire/jsontext separates `< 0x20` from `>= 0x20`; a comparison that puts 0x20 itself on the control side (`> ' '`, `<= ' '`) disagrees with the escape table and the other recognisers", Run: ruleCTRL1})
	register(&Rule{ID: "WITHIN-1", Doc: "the `inside a user (un)marshal call` mark is always taken off again: on every path from Flags.Set(WithinArshalCall|1) to a return of the same function, Flags.Set(WithinArshalCall|0) (or Clear) is executed; otherwise a caller-owned coder stays locked and a later Reset panics", Run: ruleWITHIN1})
	register(&Rule{ID: "UNWRITE-3", Doc: "taking back an empty member removes whatever separators were written, whatever options produced them: in UnwriteEmptyObjectMember none of the Trim* steps between cutting the value and storing the buffer back is conditional on an option", Run: ruleUNWRITE3})
	register(&Rule{ID: "INDEX-1", Doc: "a search result is tested against `not found`, not against position zero: the result of bytes/strings Index* is never compared with `> 0` or `<= 0` (a match at offset 0 would count as no match)", Run: ruleINDEX1})
	register(&Rule{ID: "ESCSET-1", Doc: "decoder and encoder agree on which control characters have a short escape: the characters whose \\uXXXX spelling the string scanner marks non-canonical are exactly those for which appendEscapedASCII emits a two-character escape (\\b \\f \\n \\r \\t)", Run: ruleESCSET1})
	register(&Rule{ID: "DEADFIELD-1", Doc: "no dead latch: an unexported struct field of the implementation packages that is read somewhere is also written somewhere (assignment, composite literal, address taken, or a method with pointer receiver on it); a field that is only ever read can only hold its zero value, so the test that reads it — for example the v1 Encoder's sticky error — has silently stopped working", Run: ruleDEADFIELD1})
}

// ---- FLAGPAIR-1 ----------------------------------------------------------------

func ruleFLAGPAIR1(c *Ctx) {
	p := c.P
	ft := p.Flags()
	type site struct {
		f   *FuncInfo
		pos token.Pos
	}
	conj := map[[2]uint64][]site{}
	anyof := map[[2]uint64][]site{}
	pairKey := func(a, b uint64) [2]uint64 {
		if a > b {
			a, b = b, a
		}
		return [2]uint64{a, b}
	}
	singles := func(mask uint64) []uint64 {
		var out []uint64
		for b := uint64(2); b != 0; b <<= 1 {
			if mask&b != 0 {
				out = append(out, b)
			}
		}
		return out
	}
	nGet := 0
	for _, f := range p.FuncsIn("json", "jsontext", "v1", "jsonopts") {
		if f.Body() == nil {
			continue
		}
		info := f.Info()
		InspectNoLit(f.Body(), func(nd ast.Node) bool {
			switch x := nd.(type) {
			case *ast.CallExpr:
				m, _, v, ok := FlagCall(info, x)
				if !ok || m != "Get" {
					return true
				}
				nGet++
				mask := v &^ 1
				if mask&(mask-1) == 0 {
					return true
				}
				// a named any-of mask (AnyWhitespace, AnyEscape, TagFlags, ...) is any-of by definition
				if len(x.Args) == 1 {
					if o := IdentOrSelObj(info, x.Args[0]); o != nil {
						return true
					}
				}
				// under a negation it reads "none of them"
				if u, ok := p.Parent(f.File, x).(*ast.UnaryExpr); ok && u.Op == token.NOT {
					return true
				}
				ss := singles(mask)
				for i := 0; i < len(ss); i++ {
					for j := i + 1; j < len(ss); j++ {
						k := pairKey(ss[i], ss[j])
						anyof[k] = append(anyof[k], site{f, x.Pos()})
					}
				}
			case *ast.BinaryExpr:
				if x.Op != token.LAND {
					return true
				}
				if par, ok := p.Parent(f.File, x).(*ast.BinaryExpr); ok && par.Op == token.LAND {
					return true // handled at the top of the chain
				}
				var ops []ast.Expr
				var flat func(e ast.Expr)
				flat = func(e ast.Expr) {
					if b, ok := ast.Unparen(e).(*ast.BinaryExpr); ok && b.Op == token.LAND {
						flat(b.X)
						flat(b.Y)
						return
					}
					ops = append(ops, ast.Unparen(e))
				}
				flat(x)
				var pos []uint64
				for _, o := range ops {
					if call, ok := o.(*ast.CallExpr); ok {
						if m, _, v, ok := FlagCall(info, call); ok && m == "Get" {
							mask := v &^ 1
							if mask&(mask-1) == 0 {
								pos = append(pos, mask)
							}
						}
					}
				}
				for i := 0; i < len(pos); i++ {
					for j := i + 1; j < len(pos); j++ {
						if pos[i] != pos[j] {
							k := pairKey(pos[i], pos[j])
							conj[k] = append(conj[k], site{f, x.Pos()})
						}
					}
				}
			}
			return true
		})
	}
	c.Floor("Flags.Get calls", nGet, 100)
	var keys [][2]uint64
	for k := range conj {
		keys = append(keys, k)
	}
	sort.Slice(keys, func(i, j int) bool {
		if keys[i][0] != keys[j][0] {
			return keys[i][0] < keys[j][0]
		}
		return keys[i][1] < keys[j][1]
	})
	for _, k := range keys {
		name := ft.Names(k[0]) + "+" + ft.Names(k[1])
		as := anyof[k]
		if len(as) == 0 {
			c.OK("pair:"+name, conj[k][0].pos, "")
			continue
		}
		var where []string
		for _, s := range as {
			where = append(where, s.f.Name+" at "+p.Position(s.pos))
		}
		c.ViolationW("pair:"+name, as[0].pos, "the flags "+name+" are required together at "+p.Position(conj[k][0].pos)+" but tested as any-of (one masked Get) elsewhere: the masked form is true when only one of them is set", strings.Join(where, "; "))
	}
}

// ---- WITHIN-1 ------------------------------------------------------------------

func ruleWITHIN1(c *Ctx) {
	p := c.P
	ft := p.Flags()
	within := ft.Single["WithinArshalCall"]
	if within == 0 {
		c.Undecide("jsonflags.WithinArshalCall", "flag missing")
		return
	}
	n := 0
	for _, f := range p.FuncsIn("json", "v1") {
		if f.Body() == nil {
			continue
		}
		info := f.Info()
		sets := false
		InspectNoLit(f.Body(), func(nd ast.Node) bool {
			if call, ok := nd.(*ast.CallExpr); ok {
				if m, _, v, ok := FlagCall(info, call); ok && m == "Set" && v&^1 == within && v&1 == 1 {
					sets = true
				}
			}
			return true
		})
		if !sets {
			continue
		}
		n++
		type st struct{ on bool }
		bad := ""
		fl := &Flow[st]{Fn: f}
		visit := func(nd ast.Node, s st) st {
			for _, call := range CallsIn(nd) {
				if m, _, v, ok := FlagCall(info, call); ok && v&^1 == within {
					switch {
					case m == "Set" && v&1 == 1:
						s.on = true
					case m == "Set" && v&1 == 0, m == "Clear":
						s.on = false
					}
				}
			}
			return s
		}
		fl.Node = func(nd ast.Node, s st) []st {
			s = visit(nd, s)
			if r, ok := nd.(*ast.ReturnStmt); ok {
				if s.on && bad == "" {
					bad = "returns at " + p.Position(r.Pos()) + " with WithinArshalCall still set on the caller's coder"
				}
				return nil
			}
			return []st{s}
		}
		fl.Leaf = func(e ast.Expr, s st) (t, fs []st) {
			s = visit(e, s)
			// `if !wasWithin { clear }` with wasWithin := Flags.Get(WithinArshalCall): where the mark was already
			// on before this bracket (a nested call) leaving it on is the restoration
			if v := IdentObj(info, e); v != nil {
				for _, d := range defsOf(info, f.Body(), v) {
					if gv, isGet := IsFlagGet(info, d); isGet && gv&^1 == within {
						was := s
						was.on = false
						return []st{was}, []st{s}
					}
				}
			}
			return []st{s}, []st{s}
		}
		fl.Run(st{})
		c.Oblige("mark-removed:"+f.Name, f.Pos(), bad == "", bad)
	}
	c.Floor("functions that mark a coder as inside a user call", n, 4)
}

// ---- UNWRITE-3 -----------------------------------------------------------------

func ruleUNWRITE3(c *Ctx) {
	p := c.P
	f := p.Func("jsontext.(*encoderState).UnwriteEmptyObjectMember")
	if f == nil || f.Body() == nil {
		c.Undecide("jsontext.(*encoderState).UnwriteEmptyObjectMember", "function missing")
		return
	}
	n := 0
	ord := map[string]int{}
	p.InspectScope(f, func(g *FuncInfo, nd ast.Node) bool {
		call, ok := nd.(*ast.CallExpr)
		if !ok {
			return true
		}
		cf := Callee(g.Info(), call)
		if cf == nil || cf.Pkg() == nil || cf.Pkg().Path() != pkgAlias["jsonwire"] || !strings.HasPrefix(cf.Name(), "TrimSuffix") {
			return true
		}
		n++
		var fl uint64
		for _, cc := range enclosingConds(p, g, call) {
			fl |= flagsRead(g.Info(), cc.cond)
		}
		ord[cf.Name()]++
		c.Oblige(fmt.Sprintf("unconditional:%s#%d", cf.Name(), ord[cf.Name()]), call.Pos(), fl == 0,
			cf.Name()+" runs only under option(s) "+p.Flags().Names(fl)+": separators written because of another option (SpaceAfterComma, indentation, ...) would be left behind when the member is retracted")
		return true
	})
	c.Floor("Trim steps of UnwriteEmptyObjectMember", n, 5)
}

// ---- INDEX-1 -------------------------------------------------------------------

func ruleINDEX1(c *Ctx) {
	p := c.P
	n := 0
	for _, f := range p.FuncsIn("json", "jsontext", "jsonwire", "v1", "jsonopts", "internal") {
		if f.Body() == nil {
			continue
		}
		info := f.Info()
		k := 0
		isIndexCall := func(e ast.Expr) (*ast.CallExpr, bool) {
			call, ok := ast.Unparen(e).(*ast.CallExpr)
			if !ok {
				return nil, false
			}
			cf := Callee(info, call)
			if cf == nil || cf.Pkg() == nil {
				return nil, false
			}
			if (cf.Pkg().Path() == "bytes" || cf.Pkg().Path() == "strings") && strings.HasPrefix(cf.Name(), "Index") || strings.HasPrefix(cf.Name(), "LastIndex") && (cf.Pkg().Path() == "bytes" || cf.Pkg().Path() == "strings") {
				return call, true
			}
			return nil, false
		}
		InspectNoLit(f.Body(), func(nd ast.Node) bool {
			be, ok := nd.(*ast.BinaryExpr)
			if !ok {
				return true
			}
			l, r, op := be.X, be.Y, be.Op
			if _, isIdx := isIndexCall(r); isIdx {
				l, r = r, l
				switch op {
				case token.LSS:
					op = token.GTR
				case token.GTR:
					op = token.LSS
				case token.LEQ:
					op = token.GEQ
				case token.GEQ:
					op = token.LEQ
				}
			}
			call, isIdx := isIndexCall(l)
			if !isIdx {
				return true
			}
			v, isC := ConstI64(info, r)
			if !isC {
				return true
			}
			n++
			k++
			bad := v == 0 && (op == token.GTR || op == token.LEQ)
			c.Oblige(fmt.Sprintf("found-test:%s#%d", f.Name, k), be.Pos(), !bad, "`"+exprString(be)+"` treats a match at offset 0 as `not found` (result of "+exprString(call.Fun)+")")
			return true
		})
	}
	c.Floor("comparisons of an Index* result with a constant", n, 4)
}

// ---- ESCSET-1 ------------------------------------------------------------------

func ruleESCSET1(c *Ctx) {
	p := c.P
	enc := p.Func("jsonwire.appendEscapedASCII")
	dec := p.Func("jsonwire.ConsumeStringResumable")
	nonCanon := p.Lookup("jsonwire", "stringNonCanonical")
	if enc == nil || dec == nil || nonCanon == nil {
		c.Undecide("jsonwire.appendEscapedASCII / ConsumeStringResumable / stringNonCanonical", "missing")
		return
	}
	// encoder: control characters with their own (non-default) case
	encSet := map[int64]bool{}
	for _, sw := range findAll[*ast.SwitchStmt](enc.Body()) {
		for _, st := range sw.Body.List {
			cc := st.(*ast.CaseClause)
			for _, e := range cc.List {
				if v, ok := ConstI64(enc.Info(), e); ok && v < 0x20 {
					encSet[v] = true
				}
			}
		}
	}
	// decoder: case lists of control characters whose body joins stringNonCanonical, in the scanner or its private helpers
	decSet := map[int64]bool{}
	for _, g := range p.CalleeClosure(dec, 2) {
		for _, sw := range findAll[*ast.SwitchStmt](g.Body()) {
			for _, st := range sw.Body.List {
				cc := st.(*ast.CaseClause)
				joins := false
				for _, call := range findAll[*ast.CallExpr](&ast.BlockStmt{List: cc.Body}) {
					if len(call.Args) == 1 && IdentObj(g.Info(), call.Args[0]) == nonCanon {
						joins = true
					}
				}
				// only the flat body of the clause (not nested default logic)
				if !joins || len(cc.Body) != 1 {
					continue
				}
				for _, e := range cc.List {
					if v, ok := ConstI64(g.Info(), e); ok && v < 0x20 && v > 0 {
						decSet[v] = true
					}
				}
			}
		}
	}
	// the same set spelled as comparisons (`v1 == '\b' || v1 == '\f' || ...`) guarding that join
	joinsNonCanon := func(g *FuncInfo, body []ast.Stmt) bool {
		if len(body) != 1 {
			return false
		}
		// in a boolean predicate split off the scanner (`isCanonical…`), `return false` is the same verdict
		if g != dec && g.Obj != nil {
			if sig, ok := g.Obj.Type().(*types.Signature); ok && sig.Results().Len() == 1 {
				if bt, ok := sig.Results().At(0).Type().(*types.Basic); ok && bt.Kind() == types.Bool {
					if r, ok := body[0].(*ast.ReturnStmt); ok && len(r.Results) == 1 {
						if tv, ok := g.Info().Types[r.Results[0]]; ok && tv.Value != nil && tv.Value.String() == "false" {
							return true
						}
					}
				}
			}
		}
		for _, call := range findAll[*ast.CallExpr](&ast.BlockStmt{List: body}) {
			if len(call.Args) == 1 && IdentObj(g.Info(), call.Args[0]) == nonCanon {
				return true
			}
		}
		return false
	}
	for _, g := range p.CalleeClosure(dec, 2) {
		for _, bg := range boolGroupsIn(p, g) {
			if bg.neq || len(bg.consts) < 2 {
				continue
			}
			allCtl := true
			for k := range bg.consts {
				if k <= 0 || k >= 0x20 {
					allCtl = false
				}
			}
			if !allCtl {
				continue
			}
			var body []ast.Stmt
			switch par := p.Parent(g.File, bg.expr).(type) {
			case *ast.CaseClause:
				body = par.Body
			case *ast.IfStmt:
				if par.Cond == bg.expr {
					body = par.Body.List
				}
			}
			if joinsNonCanon(g, body) {
				for k := range bg.consts {
					decSet[k] = true
				}
			}
		}
	}
	show := func(m map[int64]bool) string {
		var ks []int
		for k := range m {
			ks = append(ks, int(k))
		}
		sort.Ints(ks)
		var out []string
		for _, k := range ks {
			out = append(out, fmt.Sprintf("%q", rune(k)))
		}
		return strings.Join(out, " ")
	}
	if len(encSet) < 3 || len(decSet) < 3 {
		c.Undecide("short-escape sets", fmt.Sprintf("encoder set {%s}, decoder set {%s}", show(encSet), show(decSet)))
		return
	}
	c.Oblige("short-escape-sets-agree", dec.Pos(), show(encSet) == show(decSet),
		"appendEscapedASCII has short escapes for {"+show(encSet)+"} but the scanner marks the \\uXXXX spelling non-canonical only for {"+show(decSet)+"}")
}

// ---- DEADFIELD-1 ---------------------------------------------------------------

func ruleDEADFIELD1(c *Ctx) {
	p := c.P
	pkgs := []string{"json", "jsontext", "v1", "jsonopts", "jsonwire", "jsonflags", "internal"}
	reads := map[*types.Var]token.Pos{}
	writes := map[*types.Var]bool{}
	mine := map[*types.Package]bool{}
	for _, s := range pkgs {
		if pk := p.Pkg(s); pk != nil {
			mine[pk.Types] = true
		}
	}
	for _, short := range pkgs {
		pk := p.Pkg(short)
		if pk == nil {
			continue
		}
		info := pk.TypesInfo
		for _, file := range pk.Syntax {
			parents := map[ast.Node]ast.Node{}
			var stack []ast.Node
			ast.Inspect(file, func(n ast.Node) bool {
				if n == nil {
					stack = stack[:len(stack)-1]
					return true
				}
				if len(stack) > 0 {
					parents[n] = stack[len(stack)-1]
				}
				stack = append(stack, n)
				return true
			})
			ast.Inspect(file, func(n ast.Node) bool {
				switch x := n.(type) {
				case *ast.CompositeLit:
					// every field of a struct literal counts as written (keyed or positional)
					if t := info.TypeOf(x); t != nil {
						if st, ok := t.Underlying().(*types.Struct); ok {
							if len(x.Elts) > 0 {
								if _, keyed := x.Elts[0].(*ast.KeyValueExpr); !keyed {
									for i := 0; i < st.NumFields(); i++ {
										writes[st.Field(i).Origin()] = true
									}
								}
							}
							for _, e := range x.Elts {
								if kv, ok := e.(*ast.KeyValueExpr); ok {
									if id, ok := kv.Key.(*ast.Ident); ok {
										if fv, _ := info.Uses[id].(*types.Var); fv != nil {
											writes[fv.Origin()] = true
										}
									}
								}
							}
						}
					}
				case *ast.SelectorExpr:
					sel := info.Selections[x]
					if sel == nil || sel.Kind() != types.FieldVal {
						return true
					}
					fv, _ := sel.Obj().(*types.Var)
					if fv != nil {
						fv = fv.Origin()
					}
					if fv == nil || fv.Exported() || fv.Pkg() == nil || !mine[fv.Pkg()] {
						return true
					}
					// classify by climbing through index/slice/selector/paren/star to the statement
					var cur ast.Node = x
					written := false
					for {
						par := parents[cur]
						switch y := par.(type) {
						case *ast.ParenExpr, *ast.IndexExpr, *ast.SliceExpr, *ast.StarExpr:
							if ie, ok := y.(*ast.IndexExpr); ok && ie.X != cur {
								par = nil
							}
							if par != nil {
								cur = par
								continue
							}
						case *ast.SelectorExpr:
							// x.f.g: a write through f.g is a write into the value held by f (struct field) — count as write of f too
							cur = par
							continue
						case *ast.AssignStmt:
							for _, l := range y.Lhs {
								if l == cur {
									written = true
								}
							}
						case *ast.IncDecStmt:
							written = true
						case *ast.UnaryExpr:
							if y.Op == token.AND {
								written = true
							}
						case *ast.CallExpr:
							// method call with pointer receiver on the field (x.f.m()) or the field passed to append/copy as destination
							if cs, ok := ast.Unparen(y.Fun).(*ast.SelectorExpr); ok && ast.Expr(cs) == cur {
								if ms := info.Selections[cs]; ms != nil && ms.Kind() == types.MethodVal {
									if sig, ok := ms.Obj().Type().(*types.Signature); ok && sig.Recv() != nil {
										if _, ptr := sig.Recv().Type().(*types.Pointer); ptr {
											written = true
										}
									}
								}
							}
						case *ast.RangeStmt:
							if y.Key == cur || y.Value == cur {
								written = true
							}
						}
						break
					}
					if written {
						writes[fv] = true
					} else if _, seen := reads[fv]; !seen {
						reads[fv] = x.Pos()
					}
				}
				return true
			})
		}
	}
	var fields []*types.Var
	for fv := range reads {
		fields = append(fields, fv)
	}
	sort.Slice(fields, func(i, j int) bool { return fields[i].Pos() < fields[j].Pos() })
	n := 0
	for _, fv := range fields {
		n++
		name := fv.Pkg().Name() + "." + fieldOwner(p, fv) + "." + fv.Name()
		if why, ok := deadFieldReviewed[name]; ok {
			c.OK("written:"+name, fv.Pos(), "reviewed: "+why)
			continue
		}
		c.Oblige("written:"+name, reads[fv], writes[fv], "field `"+name+"` is read (first at "+p.Position(reads[fv])+") but nothing in the implementation ever assigns it: it can only hold its zero value, so whatever it was meant to remember is lost")
	}
	c.Floor("unexported struct fields that are read", n, 60)
}

// deadFieldReviewed: fields that are legitimately never assigned (one reason each).
var deadFieldReviewed = map[string]string{}

func fieldOwner(p *Program, fv *types.Var) string {
	for _, pk := range p.All {
		if pk.Types != fv.Pkg() {
			continue
		}
		sc := pk.Types.Scope()
		for _, nm := range sc.Names() {
			if tn, ok := sc.Lookup(nm).(*types.TypeName); ok {
				if st, ok := tn.Type().Underlying().(*types.Struct); ok {
					for i := 0; i < st.NumFields(); i++ {
						if st.Field(i) == fv {
							return tn.Name()
						}
					}
				}
			}
		}
	}
	return "?"
}

// ---- NS-4 ----------------------------------------------------------------------

func ruleNS4(c *Ctx) {
	p := c.P
	n := 0
	for _, f := range p.FuncsIn("json", "v1") {
		if f.Body() == nil {
			continue
		}
		info := f.Info()
		has := false
		InspectNoLit(f.Body(), func(nd ast.Node) bool {
			if call, ok := nd.(*ast.CallExpr); ok {
				if _, ok := MethodCall(info, call, "jsontext", "stateEntry", "DisableNamespace"); ok {
					has = true
				}
			}
			return true
		})
		if !has {
			continue
		}
		type st struct{ opened bool }
		k := 0
		bad := map[token.Pos]bool{}
		sites := map[token.Pos]bool{}
		fl := &Flow[st]{Fn: f}
		visit := func(nd ast.Node, s st) st {
			for _, call := range CallsIn(nd) {
				if _, ok := MethodCall(info, call, "jsontext", "stateEntry", "DisableNamespace"); ok {
					sites[call.Pos()] = true
					if !s.opened {
						bad[call.Pos()] = true
					}
					continue
				}
				if cf := Callee(info, call); cf != nil && cf.Pkg() != nil && cf.Pkg().Path() == pkgAlias["jsontext"] && (cf.Name() == "WriteToken" || cf.Name() == "ReadToken") {
					s.opened = true
				}
			}
			return s
		}
		fl.Node = func(nd ast.Node, s st) []st {
			s = visit(nd, s)
			if _, ok := nd.(*ast.ReturnStmt); ok {
				return nil
			}
			return []st{s}
		}
		fl.Leaf = func(e ast.Expr, s st) (t, fs []st) { s = visit(e, s); return []st{s}, []st{s} }
		fl.Run(st{})
		var ps []token.Pos
		for ps1 := range sites {
			ps = append(ps, ps1)
		}
		sort.Slice(ps, func(i, j int) bool { return ps[i] < ps[j] })
		for _, ps1 := range ps {
			n++
			k++
			c.Oblige(fmt.Sprintf("disable-after-open:%s#%d", f.Name, k), ps1, !bad[ps1], "DisableNamespace() is reached on a path where this function has not yet written/read the token that opens the object: Tokens.Last is still the enclosing object, whose duplicate-name check would be switched off")
		}
	}
	c.Floor("DisableNamespace call sites", n, 5)
}

// ---- UNSUP-1 -------------------------------------------------------------------

func ruleUNSUP1(c *Ctx) {
	unsupSkippableRegistered(c)
	p := c.P
	nIs, k := 0, 0
	isUnsup := func(info *types.Info, e ast.Expr) bool {
		o := IdentOrSelObj(info, e)
		return o != nil && o.Pkg() != nil && o.Pkg().Path() == "errors" && o.Name() == "ErrUnsupported"
	}
	for _, f := range p.FuncsIn("json", "v1") {
		if f.Body() == nil {
			continue
		}
		info := f.Info()
		InspectNoLit(f.Body(), func(nd ast.Node) bool {
			switch x := nd.(type) {
			case *ast.CallExpr:
				if FuncCall(info, x, "errors", "Is") && len(x.Args) == 2 && isUnsup(info, x.Args[1]) {
					nIs++
				}
			case *ast.BinaryExpr:
				if (x.Op == token.EQL || x.Op == token.NEQ) && (isUnsup(info, x.X) || isUnsup(info, x.Y)) {
					k++
					c.Violation(fmt.Sprintf("identity-test:%s#%d", f.Name, k), x.Pos(), "`"+exprString(x)+"` compares with errors.ErrUnsupported by identity while the dispatcher uses errors.Is: a wrapped ErrUnsupported is treated differently by the two")
				}
			}
			return true
		})
	}
	if k == 0 {
		c.OK("identity-test", token.NoPos, "")
	}
	c.Floor("errors.Is(err, errors.ErrUnsupported) tests", nIs, 6)
}

// ---- CTRL-1 --------------------------------------------------------------------

func ruleCTRL1(c *Ctx) {
	p := c.P
	n := 0
	for _, f := range p.FuncsIn("jsonwire", "jsontext") {
		if f.Body() == nil {
			continue
		}
		info := f.Info()
		k := 0
		ast.Inspect(f.Body(), func(nd ast.Node) bool {
			be, ok := nd.(*ast.BinaryExpr)
			if !ok {
				return true
			}
			op := be.Op
			var other ast.Expr
			if v, isC := ConstI64(info, be.Y); isC && v == 0x20 {
				other = be.X
			} else if v, isC := ConstI64(info, be.X); isC && v == 0x20 {
				other = be.Y
				switch op {
				case token.LSS:
					op = token.GTR
				case token.GTR:
					op = token.LSS
				case token.LEQ:
					op = token.GEQ
				case token.GEQ:
					op = token.LEQ
				}
			} else {
				return true
			}
			switch op {
			case token.LSS, token.GEQ, token.GTR, token.LEQ:
			default:
				return true
			}
			// only character-like operands (byte, rune, uint16 code unit)
			bt, ok := info.TypeOf(other).Underlying().(*types.Basic)
			if !ok || bt.Info()&types.IsInteger == 0 {
				return true
			}
			switch bt.Kind() {
			case types.Uint8, types.Int32, types.Uint16, types.UntypedRune:
			default:
				return true
			}
			n++
			k++
			c.Oblige(fmt.Sprintf("boundary:%s#%d", f.Name, k), be.Pos(), op == token.LSS || op == token.GEQ,
				"`"+exprString(be)+"` puts U+0020 on the control-character side; everywhere else control characters are `< 0x20`")
			return true
		})
	}
	c.Floor("comparisons with the control-character boundary", n, 4)
}
