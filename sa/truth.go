package main

import (
	"go/ast"
	"go/constant"
	"go/token"
	"go/types"
)

// TruthTable decides the boolean function computed by a small predicate
// function, independent of how it is spelled (nested ifs, early returns,
// tagless switches, bool locals, one return expression). atom recognises the
// atomic conditions (index < 16; neg = the expression is the negation of the
// atom). For every valuation accepted by valid, the function body is walked
// with the generic flow engine, atoms replaced by their value; the result is
// triYes/triNo if every reachable return yields that constant and triUnknown
// otherwise (a condition that is not an atom, or a non-boolean return).
func TruthTable(f *FuncInfo, nAtoms int, atom func(e ast.Expr) (idx int, neg, ok bool), valid func(v uint) bool) map[uint]tri {
	return TruthTableCase(f, nAtoms, atom, nil, valid)
}

// TruthTableCase is TruthTable with an additional recogniser for tagged
// switches: caseAtom maps `tag == val` of a case clause to an atom (the
// clause matches iff the atom holds; with several values per clause the first
// one matches).
func TruthTableCase(f *FuncInfo, nAtoms int, atom func(e ast.Expr) (idx int, neg, ok bool), caseAtom func(tag, val ast.Expr) (idx int, ok bool), valid func(v uint) bool) map[uint]tri {
	info := f.Info()
	out := map[uint]tri{}
	// bool locals
	slots := map[*types.Var]uint{}
	slot := func(id *ast.Ident) (uint, bool) {
		v, _ := IdentObj(info, id).(*types.Var)
		if v == nil || v.IsField() {
			return 0, false
		}
		if b, ok := v.Type().Underlying().(*types.Basic); !ok || b.Kind() != types.Bool {
			return 0, false
		}
		i, ok := slots[v]
		if !ok {
			if len(slots) >= 16 {
				return 0, false
			}
			i = uint(len(slots))
			slots[v] = i
		}
		return i, true
	}
	type st struct{ known, val uint16 }
	for v := uint(0); v < 1<<uint(nAtoms); v++ {
		if valid != nil && !valid(v) {
			continue
		}
		var eval func(e ast.Expr, s st) tri
		eval = func(e ast.Expr, s st) tri {
			e = ast.Unparen(e)
			if i, neg, ok := atom(e); ok {
				r := v&(1<<uint(i)) != 0
				if neg {
					r = !r
				}
				if r {
					return triYes
				}
				return triNo
			}
			if tv, ok := info.Types[e]; ok && tv.Value != nil && tv.Value.Kind() == constant.Bool {
				if constant.BoolVal(tv.Value) {
					return triYes
				}
				return triNo
			}
			switch x := e.(type) {
			case *ast.Ident:
				if i, ok := slot(x); ok && s.known&(1<<i) != 0 {
					if s.val&(1<<i) != 0 {
						return triYes
					}
					return triNo
				}
			case *ast.UnaryExpr:
				if x.Op == token.NOT {
					switch eval(x.X, s) {
					case triYes:
						return triNo
					case triNo:
						return triYes
					}
				}
			case *ast.BinaryExpr:
				switch x.Op {
				case token.LAND:
					a, b := eval(x.X, s), eval(x.Y, s)
					if a == triNo || b == triNo {
						return triNo
					}
					if a == triYes && b == triYes {
						return triYes
					}
				case token.LOR:
					a, b := eval(x.X, s), eval(x.Y, s)
					if a == triYes || b == triYes {
						return triYes
					}
					if a == triNo && b == triNo {
						return triNo
					}
				case token.EQL, token.NEQ:
					if t := info.TypeOf(x.X); t != nil {
						if bt, ok := t.Underlying().(*types.Basic); ok && bt.Info()&types.IsBoolean != 0 {
							a, b := eval(x.X, s), eval(x.Y, s)
							if a != triUnknown && b != triUnknown {
								if (a == b) == (x.Op == token.EQL) {
									return triYes
								}
								return triNo
							}
						}
					}
				}
			}
			return triUnknown
		}
		results := map[tri]bool{}
		fl := &Flow[st]{Fn: f}
		fl.Node = func(n ast.Node, s st) []st {
			switch x := n.(type) {
			case *ast.AssignStmt:
				if len(x.Lhs) == len(x.Rhs) {
					vals := make([]tri, len(x.Rhs))
					for i, r := range x.Rhs {
						vals[i] = eval(r, s)
					}
					for i, l := range x.Lhs {
						if id, ok := ast.Unparen(l).(*ast.Ident); ok {
							if sl, ok := slot(id); ok {
								s.known &^= 1 << sl
								s.val &^= 1 << sl
								if x.Tok == token.ASSIGN || x.Tok == token.DEFINE {
									switch vals[i] {
									case triYes:
										s.known |= 1 << sl
										s.val |= 1 << sl
									case triNo:
										s.known |= 1 << sl
									}
								}
							}
						}
					}
				} else {
					for _, l := range x.Lhs {
						if id, ok := ast.Unparen(l).(*ast.Ident); ok {
							if sl, ok := slot(id); ok {
								s.known &^= 1 << sl
							}
						}
					}
				}
			case *ast.DeclStmt:
				if gd, ok := x.Decl.(*ast.GenDecl); ok {
					for _, sp := range gd.Specs {
						if vs, ok := sp.(*ast.ValueSpec); ok {
							for i, nm := range vs.Names {
								if sl, ok := slot(nm); ok {
									s.known |= 1 << sl
									s.val &^= 1 << sl
									if i < len(vs.Values) {
										switch eval(vs.Values[i], s) {
										case triYes:
											s.val |= 1 << sl
										case triUnknown:
											s.known &^= 1 << sl
										}
									}
								}
							}
						}
					}
				}
			case *ast.ReturnStmt:
				if len(x.Results) == 1 {
					results[eval(x.Results[0], s)] = true
				} else {
					results[triUnknown] = true
				}
				return nil
			}
			return []st{s}
		}
		fl.Leaf = func(e ast.Expr, s st) (t, fs []st) {
			switch eval(e, s) {
			case triYes:
				return []st{s}, nil
			case triNo:
				return nil, []st{s}
			}
			// a branch on something that is not an atom: both outcomes; the
			// function is determined by the atoms only if they agree
			return []st{s}, []st{s}
		}
		if caseAtom != nil {
			fl.Case = func(tag, val ast.Expr, s st) (t, fs []st) {
				if i, ok := caseAtom(tag, val); ok {
					if v&(1<<uint(i)) != 0 {
						return []st{s}, nil
					}
					return nil, []st{s}
				}
				return []st{s}, []st{s}
			}
		}
		fl.Run(st{})
		switch {
		case results[triUnknown] || len(results) != 1:
			out[v] = triUnknown
		case results[triYes]:
			out[v] = triYes
		default:
			out[v] = triNo
		}
	}
	return out
}
