package main

import (
	"encoding/json"
	"fmt"
	"os"
	"strings"
)

const goEnvPrefix = "GOFLAGS=-mod=mod GOPROXY=off GOSUMDB=off GOTOOLCHAIN=local GOWORK=off"

// cmdManifest prints MANIFEST.json generated from the property table.
func cmdManifest() int {
	type level struct {
		Category  string `json:"category"`
		Text      string `json:"text"`
		DesignRef string `json:"design_ref"`
	}
	type check struct {
		PropertyID   string `json:"property_id"`
		QuickCmd     string `json:"quick_cmd"`
		ThoroughCmd  string `json:"thorough_cmd"`
		EvidenceFile string `json:"evidence_file"`
		ReplayCmd    string `json:"replay_cmd_template"`
		Engine       string `json:"engine"`
		Level        level  `json:"level_claimed"`
		LevelNote    string `json:"level_note"`
		Technique    string `json:"technique"`
	}
	type na struct {
		PropertyID string `json:"property_id"`
		Reason     string `json:"reason"`
	}
	var checks []check
	nas := []na{}
	all := []string{"C01", "C02", "C03", "C04", "C05", "C06", "C07", "C08", "C09", "C10", "C11", "C12", "C13", "C14", "C15", "C16", "C17", "C18", "C19", "C20"}
	var served []string
	for _, id := range all {
		pd, ok := props[id]
		if !ok || len(pd.Rules) == 0 {
			r := notApplicable[id]
			if r == "" {
				r = "no sound static rule for this property has been built (yet); nothing is claimed"
			}
			nas = append(nas, na{id, r})
			continue
		}
		served = append(served, id)
		checks = append(checks, check{
			PropertyID:   id,
			QuickCmd:     "bin/jsonsa check -property " + id + " -tier quick -repo /repo",
			ThoroughCmd:  "bin/jsonsa check -property " + id + " -tier thorough -repo /repo",
			EvidenceFile: "/verif/evidence/" + id + ".json",
			ReplayCmd:    "bin/jsonsa explain {path}",
			Engine:       "jsonsa",
			Level: level{
				Category: "other",
				Text: "Static analysis of /repo's current source (nothing is executed). Decides structural necessary conditions of the property, not the behaviour as a whole: " +
					pd.Decided + " Not decided: " + pd.NotDecided,
				DesignRef: "DESIGN.md §3 " + id + " (rules: " + strings.Join(pd.Rules, ", ") + " in §2)",
			},
			LevelNote: "Trusted base: go/types, go/cfg, go/packages (x/tools v0.50.0), go1.26.8, and the rule definitions in /verif/sa. " +
				"Analysed configuration: default build, linux/amd64. Each rule quantifies over all paths/call sites/table rows of the current tree; value-level behaviour (arithmetic, equality of outputs) is out of reach and not claimed.",
			Technique: "static analysis: " + pd.Technique,
		})
	}
	doc := map[string]any{
		"version":   1,
		"setup_cmd": "cd /verif/sa && " + goEnvPrefix + " /opt/veriftools/go1.26.8/bin/go build -o /verif/bin/jsonsa .",
		"hooks": map[string]any{
			"guard":            "verif",
			"enable":           "no hooks: the checker only reads /repo's source (go/packages with the default build tags); nothing in /repo is instrumented",
			"baseline_off_cmd": "cd /repo && " + goEnvPrefix + " /opt/veriftools/go1.26.8/bin/go test -vet=off -count=1 ./...",
			"source_commits":   []string{},
			"add_only":         true,
		},
		"engines": []map[string]any{{
			"name": "jsonsa", "path": "/verif/sa", "serves_properties": served,
			"kind_free_text": "repository-specific static analyser: go/packages type-checked syntax, go/cfg path-sensitive dataflow over finite atom sets, constant/table evaluation, sibling-implementation matrices; thorough tier adds in-memory mutation adequacy runs",
		}},
		"checks":         checks,
		"not_applicable": nas,
		"notes":          "Technique family: static analysis only. Every check re-loads and re-type-checks /repo's working tree on each run. Exit 0 = all obligations discharged (or listed in known_findings.json as open findings, printed as KNOWN-FINDING lines); exit 1 + VIOLATION line = an obligation failed; exit 2 + UNDECIDED line = a subject anchor is missing or the tree does not type-check (never reported as a violation).",
	}
	b, _ := json.MarshalIndent(doc, "", " ")
	fmt.Println(string(b))
	_ = os.Stdout
	return 0
}

var notApplicable = map[string]string{}
