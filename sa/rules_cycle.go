package main

import (
	"fmt"
	"go/ast"
	"go/token"
	"go/types"
	"sort"
	"strings"
)

func init() {
	register(&Rule{ID: "CYCLE-1", Doc: "every marshal recursion makes progress or checks for cycles: a marshal closure/helper that dispatches to the marshaler of another type without a successful WriteToken(BeginObject|BeginArray) before it on every path (so that the depth limit bounds the recursion) must either be the interface case (its dynamic value is never an interface) or guard visitPointer with a disjunct that does not depend on the token depth and covers pointer and interface element kinds; wrappers that call only the previously composed function of the same type are finite chains. Also: startDetectingCyclesAfter < maxNestingDepth; every successful visitPointer is followed by defer leavePointer with the same arguments; SeenPointers is used nowhere else", Run: ruleCYCLE1})
}

// marshalerSig returns the signature of json.marshaler.
func marshalerSig(p *Program) *types.Signature {
	tn, _ := p.Lookup("json", "marshaler").(*types.TypeName)
	if tn == nil {
		return nil
	}
	sig, _ := types.Unalias(tn.Type()).Underlying().(*types.Signature)
	return sig
}

func unmarshalerSig(p *Program) *types.Signature {
	tn, _ := p.Lookup("json", "unmarshaler").(*types.TypeName)
	if tn == nil {
		return nil
	}
	sig, _ := types.Unalias(tn.Type()).Underlying().(*types.Signature)
	return sig
}

// enclosingDecl returns the top-level function declaration containing f.
func (p *Program) enclosingDecl(f *FuncInfo) *FuncInfo {
	if f.Decl != nil {
		return f
	}
	var n ast.Node = f.Lit
	for n != nil {
		n = p.Parent(f.File, n)
		if fd, ok := n.(*ast.FuncDecl); ok {
			if o, _ := f.Info().Defs[fd.Name].(*types.Func); o != nil {
				return p.byObj[o]
			}
		}
	}
	return nil
}

// defsOf finds the expressions assigned to local variable v anywhere in root.
func defsOf(info *types.Info, root ast.Node, v types.Object) []ast.Expr {
	var out []ast.Expr
	ast.Inspect(root, func(n ast.Node) bool {
		switch s := n.(type) {
		case *ast.AssignStmt:
			for i, l := range s.Lhs {
				if IdentObj(info, l) == v {
					if len(s.Lhs) == len(s.Rhs) {
						out = append(out, s.Rhs[i])
					} else if len(s.Rhs) == 1 {
						out = append(out, s.Rhs[0])
					}
				}
			}
		case *ast.ValueSpec:
			for i, nm := range s.Names {
				if info.Defs[nm] == v && i < len(s.Values) {
					out = append(out, s.Values[i])
				}
			}
		}
		return true
	})
	return out
}

type cycNode struct {
	f       *FuncInfo
	isLit   bool
	entryIn bool // entry fact "a container was pushed": AND over callers (helpers only)
	np      bool // has a non-progress dispatch
	npSites []token.Pos
	callers int
}

type cycS struct{ pushed bool }

func ruleCYCLE1(c *Ctx) {
	p := c.P
	msig := marshalerSig(p)
	if msig == nil {
		c.Undecide("json.marshaler", "type missing")
		return
	}
	// constants
	sd, ok1 := p.ConstInt("json", "startDetectingCyclesAfter")
	mx, ok2 := p.ConstInt("jsontext", "maxNestingDepth")
	if !ok1 || !ok2 {
		c.Undecide("constants startDetectingCyclesAfter/maxNestingDepth", "missing")
	} else {
		c.Oblige("const:startDetectingCyclesAfter<maxNestingDepth", p.Lookup("json", "startDetectingCyclesAfter").Pos(), sd < mx && sd >= 0, fmt.Sprintf("%d vs %d", sd, mx))
	}

	encPtr := types.NewPointer(p.NamedType("jsontext", "Encoder"))
	isDispatchType := func(t types.Type) bool {
		s, ok := types.Unalias(t).Underlying().(*types.Signature)
		return ok && types.Identical(s, msig)
	}
	// nodes: marshal closures
	nodes := map[*FuncInfo]*cycNode{}
	for _, f := range p.FuncsIn("json") {
		if f.Lit != nil {
			if t := f.Info().TypeOf(f.Lit); t != nil && isDispatchType(t) {
				nodes[f] = &cycNode{f: f, isLit: true}
			}
		}
	}
	if !c.Floor("marshal closures", len(nodes), 15) {
		return
	}
	hasEncParam := func(fn *types.Func) bool {
		sig := fn.Type().(*types.Signature)
		for i := 0; i < sig.Params().Len(); i++ {
			if types.Identical(sig.Params().At(i).Type(), encPtr) {
				return true
			}
		}
		return false
	}
	containsDispatch := func(f *FuncInfo) bool {
		found := false
		InspectNoLit(f.Body(), func(n ast.Node) bool {
			if call, ok := n.(*ast.CallExpr); ok && Callee(f.Info(), call) == nil {
				if t := f.Info().TypeOf(call.Fun); t != nil && isDispatchType(t) {
					found = true
				}
			}
			return !found
		})
		return found
	}
	// helpers: named functions of package json with an Encoder parameter, reachable by static calls from nodes,
	// that dispatch (directly or through other helpers)
	for changed := true; changed; {
		changed = false
		for f := range nodes {
			InspectNoLit(f.Body(), func(n ast.Node) bool {
				call, ok := n.(*ast.CallExpr)
				if !ok {
					return true
				}
				cf := Callee(f.Info(), call)
				if cf == nil || cf.Pkg() == nil || cf.Pkg().Path() != pkgAlias["json"] || !hasEncParam(cf) {
					return true
				}
				hf := p.FuncOf(cf)
				if hf == nil || hf.Body() == nil || nodes[hf] != nil {
					return true
				}
				nodes[hf] = &cycNode{f: hf, entryIn: true}
				changed = true
				return true
			})
		}
	}
	// drop helpers that neither dispatch nor call helpers that do (iteratively)
	for changed := true; changed; {
		changed = false
		for f, nd := range nodes {
			if nd.isLit {
				continue
			}
			keep := containsDispatch(f)
			InspectNoLit(f.Body(), func(n ast.Node) bool {
				if call, ok := n.(*ast.CallExpr); ok {
					if cf := Callee(f.Info(), call); cf != nil {
						if hf := p.FuncOf(cf); hf != nil && nodes[hf] != nil && hf != f {
							keep = true
						}
					}
				}
				return true
			})
			if !keep {
				delete(nodes, f)
				changed = true
			}
		}
	}

	// prevComposition: is the dispatched function value the previously composed marshaler of the same type?
	prevComposition := func(f *FuncInfo, fun ast.Expr) bool {
		v := IdentObj(f.Info(), fun)
		if v == nil {
			return false
		}
		decl := p.enclosingDecl(f)
		if decl == nil || decl == f {
			return false
		}
		defs := defsOf(f.Info(), decl.Body(), v)
		if len(defs) == 0 && decl.Obj != nil {
			// the previous composition handed in as a parameter of a constructor function:
			// every call of the constructor passes `X.marshal` of the arshaler its caller is wrapping
			dsig := decl.Obj.Type().(*types.Signature)
			for i := 0; i < dsig.Params().Len(); i++ {
				if dsig.Params().At(i) != v {
					continue
				}
				callers := callersOf(p, decl.Obj)
				okAll := len(callers) > 0
				for _, cf := range callers {
					cdecl := cf
					if d := p.enclosingDecl(cf); d != nil {
						cdecl = d
					}
					InspectNoLit(cf.Body(), func(nd ast.Node) bool {
						call, isCall := nd.(*ast.CallExpr)
						if !isCall || Callee(cf.Info(), call) != decl.Obj || i >= len(call.Args) {
							return true
						}
						sel, isSel := ast.Unparen(call.Args[i]).(*ast.SelectorExpr)
						if !isSel || sel.Sel.Name != "marshal" {
							okAll = false
							return true
						}
						xo, _ := IdentObj(cf.Info(), sel.X).(*types.Var)
						isParam := false
						if cdecl.Obj != nil && xo != nil {
							cs := cdecl.Obj.Type().(*types.Signature)
							for j := 0; j < cs.Params().Len(); j++ {
								if cs.Params().At(j) == xo {
									isParam = true
								}
							}
						}
						if !isParam {
							okAll = false
						}
						return true
					})
				}
				return okAll
			}
			return false
		}
		if len(defs) != 1 {
			return false
		}
		sel, ok := ast.Unparen(defs[0]).(*ast.SelectorExpr)
		if !ok || sel.Sel.Name != "marshal" {
			return false
		}
		// X must be a parameter of the factory (the arshaler being wrapped)
		xo, _ := IdentObj(f.Info(), sel.X).(*types.Var)
		if xo == nil {
			return false
		}
		dsig := decl.Obj.Type().(*types.Signature)
		for i := 0; i < dsig.Params().Len(); i++ {
			if dsig.Params().At(i) == xo {
				return true
			}
		}
		return false
	}

	isBeginToken := func(info *types.Info, e ast.Expr) bool {
		o := IdentOrSelObj(info, e)
		return o != nil && (o == p.Lookup("jsontext", "BeginObject") || o == p.Lookup("jsontext", "BeginArray"))
	}

	// analysis of one node: which dispatch sites are reached without a pushed container
	type site struct {
		pos    token.Pos
		helper *FuncInfo // static call to a helper node (nil: dynamic dispatch)
		pushed bool
	}
	analyse := func(nd *cycNode) []site {
		f := nd.f
		info := f.Info()
		var sites []site
		seen := map[string]bool{}
		pushVar := map[types.Object]bool{} // error variables holding the result of WriteToken(Begin*)
		fl := &Flow[cycS]{Fn: f}
		record := func(n ast.Node, s cycS) {
			for _, call := range CallsIn(n) {
				cf := Callee(info, call)
				if cf == nil {
					if t := info.TypeOf(call.Fun); t != nil && isDispatchType(t) && !prevComposition(f, call.Fun) {
						k := fmt.Sprint(call.Pos(), s.pushed)
						if !seen[k] {
							seen[k] = true
							sites = append(sites, site{call.Pos(), nil, s.pushed})
						}
					}
					continue
				}
				if hf := p.FuncOf(cf); hf != nil && nodes[hf] != nil {
					k := fmt.Sprint(call.Pos(), s.pushed)
					if !seen[k] {
						seen[k] = true
						sites = append(sites, site{call.Pos(), hf, s.pushed})
					}
				}
			}
		}
		isPushCall := func(e ast.Expr) bool {
			call, ok := ast.Unparen(e).(*ast.CallExpr)
			if !ok || len(call.Args) != 1 {
				return false
			}
			if _, ok := MethodCall(info, call, "jsontext", "Encoder", "WriteToken"); !ok {
				return false
			}
			return isBeginToken(info, call.Args[0])
		}
		fl.Node = func(n ast.Node, s cycS) []cycS {
			record(n, s)
			if as, ok := n.(*ast.AssignStmt); ok && len(as.Rhs) == 1 && isPushCall(as.Rhs[0]) && len(as.Lhs) == 1 {
				if v := IdentObj(info, as.Lhs[0]); v != nil {
					pushVar[v] = true
				}
			}
			if _, ok := n.(*ast.ReturnStmt); ok {
				return nil
			}
			return []cycS{s}
		}
		fl.Leaf = func(e ast.Expr, s cycS) (t, fs []cycS) {
			record(e, s)
			if v, nonNil, ok := ErrCmp(info, e); ok && pushVar[v] {
				// err != nil after err := enc.WriteToken(Begin*): false branch means the container was pushed
				okS := cycS{pushed: true}
				if nonNil {
					return []cycS{s}, []cycS{okS}
				}
				return []cycS{okS}, []cycS{s}
			}
			return []cycS{s}, []cycS{s}
		}
		fl.Run(cycS{pushed: nd.entryIn})
		return sites
	}

	// fixpoint on helper entry facts and np flags
	var all []*cycNode
	for _, nd := range nodes {
		all = append(all, nd)
	}
	sort.Slice(all, func(i, j int) bool { return all[i].f.Pos() < all[j].f.Pos() })
	siteCache := map[*cycNode][]site{}
	for iter := 0; iter < 10; iter++ {
		changed := false
		entry := map[*FuncInfo]bool{}
		called := map[*FuncInfo]bool{}
		for _, nd := range all {
			ss := analyse(nd)
			siteCache[nd] = ss
			np := false
			nd.npSites = nil
			for _, s := range ss {
				if s.helper != nil {
					if !called[s.helper] {
						called[s.helper] = true
						entry[s.helper] = true
					}
					entry[s.helper] = entry[s.helper] && s.pushed
					if !s.pushed && nodes[s.helper].np {
						np = true
						nd.npSites = append(nd.npSites, s.pos)
					}
				} else if !s.pushed {
					np = true
					nd.npSites = append(nd.npSites, s.pos)
				}
			}
			if np != nd.np {
				nd.np = np
				changed = true
			}
		}
		for _, nd := range all {
			if nd.isLit {
				continue
			}
			e := called[nd.f] && entry[nd.f]
			if e != nd.entryIn {
				nd.entryIn = e
				changed = true
			}
		}
		if !changed {
			break
		}
	}

	// which factory serves which reflect.Kind (read from makeDefaultArshaler)
	factoryKinds := map[*types.Func][]string{}
	if mda := p.Func("json.makeDefaultArshaler"); mda != nil {
		info := mda.Info()
		for _, sw := range findAll[*ast.SwitchStmt](mda.Body()) {
			for _, st := range sw.Body.List {
				cc := st.(*ast.CaseClause)
				var kinds []string
				for _, e := range cc.List {
					if o := IdentOrSelObj(info, e); o != nil {
						kinds = append(kinds, o.Name())
					}
				}
				if cc.List == nil {
					kinds = []string{"default"}
				}
				for _, call := range findAll[*ast.CallExpr](&ast.BlockStmt{List: cc.Body}) {
					if cf := Callee(info, call); cf != nil && strings.HasPrefix(cf.Name(), "make") {
						factoryKinds[cf] = append(factoryKinds[cf], kinds...)
					}
				}
			}
		}
	} else {
		c.Undecide("json.makeDefaultArshaler", "function missing")
	}

	nNP := 0
	for _, nd := range all {
		f := nd.f
		if !nd.np {
			c.OK("progress:"+f.Name, f.Pos(), fmt.Sprintf("%d dispatch sites, all after a successful Begin token or same-type wrappers", len(siteCache[nd])))
			continue
		}
		nNP++
		// interface-like?
		decl := p.enclosingDecl(f)
		ifaceLike := false
		var kinds []string
		if decl != nil {
			kinds = factoryKinds[decl.Obj]
			for _, k := range kinds {
				if k == "Interface" {
					ifaceLike = true
				}
			}
		}
		if !nd.isLit {
			sig := f.Obj.Type().(*types.Signature)
			for i := 0; i < sig.Params().Len(); i++ {
				if types.IsInterface(sig.Params().At(i).Type()) {
					ifaceLike = true
				}
			}
		}
		var where []string
		for _, ps := range nd.npSites {
			where = append(where, p.Position(ps))
		}
		if ifaceLike {
			c.OK("np-interface:"+f.Name, f.Pos(), "dispatches on the dynamic (never interface) type without pushing; relies on the guarded pointer case")
			continue
		}
		ok, detail := depthIndependentGuard(p, f, decl)
		c.obligeW("np-guard:"+f.Name, nd.npSites[0], ok,
			"dispatches to another type's marshaler without pushing a container and without a depth-independent cycle check: "+detail,
			fmt.Sprintf("closure for kinds %v -> non-progress dispatch at %s", kinds, strings.Join(where, ", ")))
	}
	c.Floor("non-progress marshal nodes (pointer, interface, any)", nNP, 2)

	// visit/leave pairing, SeenPointers access
	seenField := p.Field("jsontext", "encoderState", "SeenPointers")
	if seenField == nil {
		c.Undecide("jsontext.encoderState.SeenPointers", "field missing")
		return
	}
	nVisit := 0
	for _, f := range p.FuncsIn("json", "jsontext", "v1") {
		if f.Body() == nil {
			continue
		}
		info := f.Info()
		// any mention of SeenPointers must be &X.SeenPointers as first argument of visitPointer/leavePointer
		InspectNoLit(f.Body(), func(n ast.Node) bool {
			sel, ok := n.(*ast.SelectorExpr)
			if !ok || SelField(info, sel) != seenField {
				return true
			}
			par := p.Parent(f.File, sel)
			okUse := false
			if u, isU := par.(*ast.UnaryExpr); isU && u.Op == token.AND {
				if call, isCall := p.Parent(f.File, u).(*ast.CallExpr); isCall && len(call.Args) > 0 && call.Args[0] == ast.Expr(u) {
					if FuncCall(info, call, "json", "visitPointer") || FuncCall(info, call, "json", "leavePointer") {
						okUse = true
					}
				}
			}
			if !okUse {
				c.Violation("seenpointers-use:"+f.Name, sel.Pos(), "SeenPointers used outside visitPointer/leavePointer")
			}
			return true
		})
		// pairing
		for _, ifs := range findAll[*ast.IfStmt](f.Body()) {
			as, ok := ifs.Init.(*ast.AssignStmt)
			if !ok || len(as.Rhs) != 1 {
				continue
			}
			call, ok := ast.Unparen(as.Rhs[0]).(*ast.CallExpr)
			if !ok || !FuncCall(info, call, "json", "visitPointer") {
				continue
			}
			nVisit++
			// the statement following the if must be `defer leavePointer(sameArgs)`
			okPair := false
			par := p.Parent(f.File, ifs)
			var list []ast.Stmt
			switch b := par.(type) {
			case *ast.BlockStmt:
				list = b.List
			case *ast.CaseClause:
				list = b.Body
			}
			for i, st := range list {
				if st == ast.Stmt(ifs) && i+1 < len(list) {
					if d, isDefer := list[i+1].(*ast.DeferStmt); isDefer && FuncCall(info, d.Call, "json", "leavePointer") &&
						len(d.Call.Args) == len(call.Args) {
						same := true
						for j := range call.Args {
							if exprString(call.Args[j]) != exprString(d.Call.Args[j]) {
								same = false
							}
						}
						okPair = same
					}
				}
			}
			// the error branch must return
			retErr := len(findAll[*ast.ReturnStmt](ifs.Body)) > 0
			c.Oblige("visit-leave:"+f.Name, ifs.Pos(), okPair && retErr, "visitPointer is not immediately followed by defer leavePointer with the same arguments (or its error is not returned)")
		}
	}
	c.Floor("visitPointer sites", nVisit, 4)
}

// depthIndependentGuard checks the visitPointer guard of closure f.
func depthIndependentGuard(p *Program, f *FuncInfo, decl *FuncInfo) (bool, string) {
	info := f.Info()
	var visit *ast.CallExpr
	InspectNoLit(f.Body(), func(n ast.Node) bool {
		if call, ok := n.(*ast.CallExpr); ok && visit == nil && FuncCall(info, call, "json", "visitPointer") {
			visit = call
		}
		return true
	})
	if visit == nil {
		return false, "no visitPointer call"
	}
	// innermost enclosing if (within the closure) whose body contains the call
	var guard *ast.IfStmt
	var n ast.Node = visit
	for n != nil && n != ast.Node(f.Body()) {
		par := p.Parent(f.File, n)
		if ifs, ok := par.(*ast.IfStmt); ok && ifs.Body == n {
			guard = ifs
			break
		}
		n = par
	}
	if guard == nil {
		return true, "unconditional visit"
	}
	var disjuncts []ast.Expr
	var split func(e ast.Expr)
	split = func(e ast.Expr) {
		e = ast.Unparen(e)
		if be, ok := e.(*ast.BinaryExpr); ok && be.Op == token.LOR {
			split(be.X)
			split(be.Y)
			return
		}
		disjuncts = append(disjuncts, e)
	}
	split(guard.Cond)
	depthDep := func(e ast.Expr) bool {
		dep := false
		ast.Inspect(e, func(n ast.Node) bool {
			if call, ok := n.(*ast.CallExpr); ok {
				if cf := Callee(info, call); cf != nil {
					qn := QualName(cf)
					if qn == "jsontext.(stateMachine).Depth" || qn == "jsontext.(stateMachine).DepthLength" || qn == "jsontext.(*Encoder).StackDepth" {
						dep = true
					}
				}
			}
			return !dep
		})
		return dep
	}
	// expand captured bool locals transitively through their definitions
	expand := func(e ast.Expr) []ast.Expr {
		out := []ast.Expr{e}
		seen := map[*types.Var]bool{}
		for i := 0; i < len(out); i++ {
			ast.Inspect(out[i], func(n ast.Node) bool {
				id, ok := n.(*ast.Ident)
				if !ok {
					return true
				}
				v, _ := info.Uses[id].(*types.Var)
				if v == nil || v.IsField() || decl == nil || seen[v] {
					return true
				}
				if b, ok := v.Type().Underlying().(*types.Basic); !ok || b.Kind() != types.Bool {
					return true
				}
				seen[v] = true
				out = append(out, defsOf(info, decl.Body(), v)...)
				return true
			})
		}
		return out
	}
	for _, d := range disjuncts {
		if depthDep(d) {
			continue
		}
		kinds := map[string]bool{}
		neq := false
		for _, x := range expand(d) {
			if depthDep(x) {
				neq = true
			}
			ast.Inspect(x, func(n ast.Node) bool {
				be, ok := n.(*ast.BinaryExpr)
				if !ok || (be.Op != token.EQL && be.Op != token.NEQ) {
					return true
				}
				for _, side := range []ast.Expr{be.X, be.Y} {
					if o := IdentOrSelObj(info, side); o != nil && o.Pkg() != nil && o.Pkg().Path() == "reflect" {
						if _, isConst := o.(*types.Const); isConst {
							if be.Op == token.NEQ {
								neq = true
							}
							kinds[o.Name()] = true
						}
					}
				}
				return true
			})
		}
		if neq {
			continue
		}
		if len(kinds) == 0 || (kinds["Pointer"] && kinds["Interface"]) {
			return true, "depth-independent disjunct: " + exprString(d)
		}
	}
	return false, "the visitPointer guard `" + exprString(guard.Cond) + "` has no disjunct that is independent of the token depth and covers pointer and interface element kinds"
}
