package main

import (
	"fmt"
	"go/ast"
	"go/token"
	"go/types"
	"strings"
)

func init() {
	register(&Rule{ID: "SHARE-2", Doc: "a function does not grow a caller's option slice in place: no append whose first operand is one of the function's own slice parameters with a non-byte element type (variadic Options, lists of functions) — with spare capacity the append writes into the caller's backing array and silently rewrites a longer list that shares it; append-style byte APIs (`dst []byte`) are the documented exception", Run: ruleSHARE2})
	register(&Rule{ID: "GUARD-2", Doc: "an index is guarded by the strict bound on the same expression: in `E <op> len(s) && … s[E] …` the comparison is `E < len(s)` (`E <= len(s)` lets E == len(s) through), and in `v > 0 && … s[v] …` where s[v-1] is not used the lower bound is `v >= 0` (`v > 0` needlessly excludes index 0, e.g. the last byte of a one-byte slice)", Run: ruleGUARD2})
	register(&Rule{ID: "OPT-8", Doc: "an option's value is never taken from GetOption's presence result: every call of GetOption binds its first result (the value); `_, ok := GetOption(..)` followed by a use of ok as the setting compares against whether the option was ever specified", Run: ruleOPT8})
	register(&Rule{ID: "FMTNUM-1", Doc: "numbers are formatted from the float by the shortest-digits routine only: in jsonwire no integer formatting (strconv.AppendInt/AppendUint/FormatInt/FormatUint) is applied to a value converted from a float64 — above 2^53 the integer conversion prints the exact binary value instead of the ECMA-262 shortest digits, so two spellings of one number canonicalise differently", Run: ruleFMTNUM1})
}

func ruleSHARE2(c *Ctx) {
	p := c.P
	n, k := 0, 0
	for _, f := range p.FuncsIn("json", "jsontext", "v1", "jsonopts") {
		if f.Body() == nil {
			continue
		}
		info := f.Info()
		params := map[types.Object]bool{}
		if ft := f.Type(); ft != nil && ft.Params != nil {
			for _, fld := range ft.Params.List {
				for _, nm := range fld.Names {
					if v := info.Defs[nm]; v != nil {
						if sl, ok := v.Type().Underlying().(*types.Slice); ok {
							if b, isB := sl.Elem().Underlying().(*types.Basic); isB && (b.Kind() == types.Uint8 || b.Kind() == types.Int32) {
								continue
							}
							params[v] = true
						}
					}
				}
			}
		}
		if len(params) == 0 {
			continue
		}
		n++
		// a parameter that was re-assigned from a copy is no longer the caller's slice
		InspectNoLit(f.Body(), func(nd ast.Node) bool {
			call, ok := nd.(*ast.CallExpr)
			if !ok || !IsBuiltin(info, call, "append") || len(call.Args) < 2 {
				return true
			}
			v := IdentObj(info, call.Args[0])
			if v == nil || !params[v] {
				return true
			}
			k++
			c.Violation(fmt.Sprintf("no-append-to-parameter:%s#%d", f.Name, k), call.Pos(), "append(`"+v.Name()+"`, …) extends the caller's slice in place when it has spare capacity: a longer list the caller built on the same backing array (e.g. `pretty := append(base, Multiline(true))`) is overwritten by this call")
			return true
		})
	}
	if k == 0 {
		c.OK("no-append-to-parameter", token.NoPos, "")
	}
	c.Floor("functions with non-byte slice parameters", n, 8)
}

func ruleGUARD2(c *Ctx) {
	p := c.P
	n := 0
	for _, f := range p.FuncsIn("json", "jsontext", "jsonwire", "v1") {
		if f.Body() == nil {
			continue
		}
		info := f.Info()
		k := 0
		InspectNoLit(f.Body(), func(nd ast.Node) bool {
			be, ok := nd.(*ast.BinaryExpr)
			if !ok || be.Op != token.LAND {
				return true
			}
			// only the top of an && chain
			if par, ok := p.Parent(f.File, be).(*ast.BinaryExpr); ok && par.Op == token.LAND {
				return true
			}
			cjs := conjuncts(be)
			for gi, g := range cjs {
				cmp, ok := g.(*ast.BinaryExpr)
				if !ok {
					continue
				}
				rest := cjs[gi+1:]
				if len(rest) == 0 {
					continue
				}
				indexedBy := func(idx string) (slices []string) {
					for _, r := range rest {
						ast.Inspect(r, func(m ast.Node) bool {
							if ix, ok := m.(*ast.IndexExpr); ok && exprString(ix.Index) == idx {
								if _, isMap := info.TypeOf(ix.X).Underlying().(*types.Map); !isMap {
									slices = append(slices, exprString(ix.X))
								}
							}
							return true
						})
					}
					return
				}
				// (a) E <op> len(s) with s[E] to the right
				lenOf := func(e ast.Expr) (string, bool) {
					call, ok := ast.Unparen(e).(*ast.CallExpr)
					if !ok || !IsBuiltin(info, call, "len") || len(call.Args) != 1 {
						return "", false
					}
					return exprString(call.Args[0]), true
				}
				if s, isL := lenOf(cmp.Y); isL && (cmp.Op == token.LSS || cmp.Op == token.LEQ) {
					for _, sl := range indexedBy(exprString(cmp.X)) {
						if sl == s {
							n++
							k++
							c.Oblige(fmt.Sprintf("strict-upper-bound:%s#%d", f.Name, k), cmp.Pos(), cmp.Op == token.LSS,
								"`"+exprString(cmp)+"` admits "+exprString(cmp.X)+" == len("+s+"), and "+s+"["+exprString(cmp.X)+"] is then out of range (a panic on input that ends exactly there)")
							break
						}
					}
				}
				if s, isL := lenOf(cmp.X); isL && (cmp.Op == token.GTR || cmp.Op == token.GEQ) {
					for _, sl := range indexedBy(exprString(cmp.Y)) {
						if sl == s {
							n++
							k++
							c.Oblige(fmt.Sprintf("strict-upper-bound:%s#%d", f.Name, k), cmp.Pos(), cmp.Op == token.GTR,
								"`"+exprString(cmp)+"` admits "+exprString(cmp.Y)+" == len("+s+"), and "+s+"["+exprString(cmp.Y)+"] is then out of range")
							break
						}
					}
				}
				// (b) v > 0 with s[v] (and no s[v-1]) to the right, v an identifier
				if v, isC := ConstI64(info, cmp.Y); isC && v == 0 && (cmp.Op == token.GTR || cmp.Op == token.GEQ) {
					if id, ok := ast.Unparen(cmp.X).(*ast.Ident); ok {
						direct := indexedBy(id.Name)
						prev := indexedBy(id.Name + " - 1")
						prev = append(prev, indexedBy(id.Name+"-1")...)
						if len(direct) > 0 && len(prev) == 0 {
							// only when v is a last-index (len(s)-1) — otherwise `v > 0` may be a genuine requirement
							isLast := false
							if o := IdentObj(info, id); o != nil {
								for _, d := range defsOf(info, f.Body(), o) {
									if strings.HasPrefix(strings.ReplaceAll(exprString(d), " ", ""), "len(") && strings.HasSuffix(strings.ReplaceAll(exprString(d), " ", ""), ")-1") {
										isLast = true
									}
								}
							}
							if isLast {
								n++
								k++
								c.Oblige(fmt.Sprintf("inclusive-lower-bound:%s#%d", f.Name, k), cmp.Pos(), cmp.Op == token.GEQ,
									"`"+exprString(cmp)+"` excludes index 0 although "+direct[0]+"["+id.Name+"] only needs "+id.Name+" >= 0: a one-element "+direct[0]+" is never matched")
							}
						}
					}
				}
			}
			return true
		})
	}
	c.Floor("bound checks in front of an index by the same expression", n, 3)
}

func ruleOPT8(c *Ctx) {
	p := c.P
	n, k := 0, 0
	for _, f := range p.FuncsIn("json", "jsontext", "v1") {
		if f.Body() == nil {
			continue
		}
		info := f.Info()
		InspectNoLit(f.Body(), func(nd ast.Node) bool {
			as, ok := nd.(*ast.AssignStmt)
			if !ok || len(as.Lhs) != 2 || len(as.Rhs) != 1 {
				return true
			}
			call, ok := ast.Unparen(as.Rhs[0]).(*ast.CallExpr)
			if !ok {
				return true
			}
			cf := Callee(info, call)
			if cf == nil || cf.Name() != "GetOption" {
				return true
			}
			n++
			first, _ := as.Lhs[0].(*ast.Ident)
			second, _ := as.Lhs[1].(*ast.Ident)
			if first != nil && first.Name == "_" && second != nil && second.Name != "_" {
				k++
				c.Violation(fmt.Sprintf("value-not-presence:%s#%d", f.Name, k), as.Pos(), "`"+exprString(as.Lhs[0])+", "+second.Name+" := GetOption(…)` drops the option's value and keeps only whether it was ever specified; using `"+second.Name+"` as the setting makes the decision independent of the value last set")
			}
			return true
		})
	}
	if k == 0 {
		c.OK("value-not-presence", token.NoPos, "")
	}
	c.Floor("GetOption calls with both results bound", n, 8)
}

func ruleFMTNUM1(c *Ctx) {
	p := c.P
	n, k := 0, 0
	for _, f := range p.FuncsIn("jsonwire") {
		if f.Body() == nil {
			continue
		}
		info := f.Info()
		InspectNoLit(f.Body(), func(nd ast.Node) bool {
			call, ok := nd.(*ast.CallExpr)
			if !ok {
				return true
			}
			cf := Callee(info, call)
			if cf == nil || cf.Pkg() == nil || cf.Pkg().Path() != "strconv" {
				return true
			}
			switch cf.Name() {
			case "AppendFloat", "FormatFloat":
				n++
				return true
			case "AppendInt", "AppendUint", "FormatInt", "FormatUint", "Itoa":
			default:
				return true
			}
			n++
			fromFloat := false
			for _, a := range call.Args {
				ast.Inspect(a, func(m ast.Node) bool {
					conv, ok := m.(*ast.CallExpr)
					if !ok || len(conv.Args) != 1 {
						return true
					}
					if tv, ok := info.Types[conv.Fun]; ok && tv.IsType() {
						if at := info.TypeOf(conv.Args[0]); at != nil {
							if b, ok := at.Underlying().(*types.Basic); ok && b.Info()&types.IsFloat != 0 {
								fromFloat = true
							}
						}
					}
					return true
				})
			}
			if fromFloat {
				k++
				c.Violation(fmt.Sprintf("no-integer-formatting-of-floats:%s#%d", f.Name, k), call.Pos(), "strconv."+cf.Name()+" is applied to a value converted from a float64: beyond 2^53 it prints the exact binary value (…456768) where the shortest-digits form (…456800) is required, so a plain integer literal and its 1.23e18 spelling no longer produce the same bytes")
			}
			return true
		})
	}
	if k == 0 {
		c.OK("no-integer-formatting-of-floats", token.NoPos, "")
	}
	c.Floor("strconv number formatting calls in jsonwire", n, 1)
}

func init() {
	register(&Rule{ID: "SHAREDVAL-1", Doc: "a value built once per Go type and handed to every destination of that type has no room to grow: every reflect.MakeSlice evaluated in an arshaler factory outside its closures (the shared `emptySlice`) has constant length 0 and capacity 0 — with spare capacity all destinations that received it share one backing array and the next decode overwrites the first element of each", Run: ruleSHAREDVAL1})
}

func ruleSHAREDVAL1(c *Ctx) {
	p := c.P
	n := 0
	for _, f := range p.FuncsIn("json") {
		if f.Decl == nil || f.Body() == nil {
			continue
		}
		info := f.Info()
		k := 0
		InspectNoLit(f.Body(), func(nd ast.Node) bool {
			call, ok := nd.(*ast.CallExpr)
			if !ok || !FuncCall(info, call, "reflect", "MakeSlice") || len(call.Args) != 3 {
				return true
			}
			// only values kept in a variable that a closure of this factory uses
			as, ok := p.Parent(f.File, call).(*ast.AssignStmt)
			if !ok || len(as.Lhs) != 1 {
				return true
			}
			v := IdentObj(info, as.Lhs[0])
			captured := false
			ast.Inspect(f.Body(), func(m ast.Node) bool {
				if lit, ok := m.(*ast.FuncLit); ok {
					ast.Inspect(lit, func(q ast.Node) bool {
						if id, ok := q.(*ast.Ident); ok && info.Uses[id] == v {
							captured = true
						}
						return true
					})
					return false
				}
				return true
			})
			if !captured {
				return true
			}
			n++
			k++
			l, okL := ConstI64(info, call.Args[1])
			cp, okC := ConstI64(info, call.Args[2])
			c.Oblige(fmt.Sprintf("shared-slice-has-no-capacity:%s#%d", f.Name, k), call.Pos(), okL && okC && l == 0 && cp == 0,
				"`"+exprString(call)+"` is created once per type and stored into every destination that decodes an empty array: with capacity to spare, the slice arshaler reuses that shared backing array for the next decode and the destinations overwrite each other")
			return true
		})
	}
	c.Floor("per-type shared slices", n, 1)
}

// numconvRangeUsesSource: in Token.Int / Token.Uint the clause that reports a range error for a float token looks at the
// float itself, not only at the saturated integer (MinInt64 is the exact conversion of -2^63, not a sign of saturation).
func numconvRangeUsesSource(c *Ctx) {
	p := c.P
	n := 0
	for _, name := range []string{"jsontext.(Token).Int", "jsontext.(Token).Uint"} {
		f := p.Func(name)
		if f == nil || f.Body() == nil {
			c.Undecide(name, "function missing")
			continue
		}
		// the accessor and the private phases it may have been split into
		for _, g := range p.CalleeClosure(f, 2) {
			if g.Body() == nil {
				continue
			}
			info := g.Info()
			// integer locals converted from a float local/parameter: i64 := conv(f64)
			srcOf := map[types.Object]types.Object{}
			ast.Inspect(g.Body(), func(nd ast.Node) bool {
				as, ok := nd.(*ast.AssignStmt)
				if !ok || len(as.Rhs) != 1 || len(as.Lhs) < 1 {
					return true
				}
				call, ok := ast.Unparen(as.Rhs[0]).(*ast.CallExpr)
				if !ok || len(call.Args) != 1 {
					return true
				}
				src := IdentObj(info, call.Args[0])
				dst := IdentObj(info, as.Lhs[0])
				if src == nil || dst == nil {
					return true
				}
				if b, ok := src.Type().Underlying().(*types.Basic); !ok || b.Info()&types.IsFloat == 0 {
					return true
				}
				if b, ok := dst.Type().Underlying().(*types.Basic); ok && b.Info()&types.IsInteger != 0 {
					srcOf[dst] = src
				}
				return true
			})
			if len(srcOf) == 0 {
				continue
			}
			check := func(conds []ast.Expr, body ast.Node, pos token.Pos) {
				isRange := false
				ast.Inspect(body, func(m ast.Node) bool {
					if o := IdentOrSelObj(info, asExpr(m)); o != nil && o.Name() == "ErrRange" {
						isRange = true
					}
					return true
				})
				if !isRange {
					return
				}
				var ints []types.Object
				usesFloat := map[types.Object]bool{}
				for _, e := range conds {
					ast.Inspect(e, func(m ast.Node) bool {
						if id, ok := m.(*ast.Ident); ok {
							o := info.Uses[id]
							if _, isInt := srcOf[o]; isInt {
								ints = append(ints, o)
							}
							usesFloat[o] = true
						}
						return true
					})
				}
				if len(ints) == 0 {
					return
				}
				n++
				ok := true
				for _, iv := range ints {
					if !usesFloat[srcOf[iv]] {
						ok = false
					}
				}
				c.Oblige("range-error-looks-at-the-float:"+name, pos, ok, "the test that reports strconv.ErrRange only compares the converted integer with the bounds: MinInt64 (and 0 for unsigned) are exact conversions of in-range floats, so an in-range value is reported as out of range")
			}
			ast.Inspect(g.Body(), func(nd ast.Node) bool {
				switch x := nd.(type) {
				case *ast.CaseClause:
					if len(x.List) > 0 {
						check(x.List, &ast.BlockStmt{List: x.Body}, x.Pos())
					}
				case *ast.IfStmt:
					check([]ast.Expr{x.Cond}, x.Body, x.Pos())
				}
				return true
			})
		}
	}
	c.Floor("range-error tests for float tokens", n, 2)
}

// ptrRuneErrorDistinguished: Pointer.IsValid tells a decoding error from an encoded U+FFFD.
func ptrRuneErrorDistinguished(c *Ctx) {
	p := c.P
	f := p.Func("jsontext.(Pointer).IsValid")
	if f == nil || f.Body() == nil {
		c.Undecide("jsontext.(Pointer).IsValid", "function missing")
		return
	}
	info := f.Info()
	n := 0
	InspectNoLit(f.Body(), func(nd ast.Node) bool {
		be, ok := nd.(*ast.BinaryExpr)
		if !ok || be.Op != token.EQL {
			return true
		}
		isRE := func(e ast.Expr) bool {
			if v, ok := ConstI64(info, e); ok && v == 0xFFFD {
				return true
			}
			return false
		}
		if !isRE(be.Y) && !isRE(be.X) {
			return true
		}
		n++
		// conjoined (same && chain) with something that looks at the bytes: HasPrefix / a width
		var top ast.Node = be
		for {
			par := p.Parent(f.File, top)
			if pb, ok := par.(*ast.BinaryExpr); ok && pb.Op == token.LAND {
				top = par
				continue
			}
			if _, ok := par.(*ast.ParenExpr); ok {
				top = par
				continue
			}
			break
		}
		checked := false
		if top != ast.Node(be) {
			s := exprString(top.(ast.Expr))
			checked = strings.Contains(s, "HasPrefix") || strings.Contains(s, "DecodeRune") || strings.Contains(s, "RuneLen") || strings.Contains(s, "ValidString")
		}
		c.Oblige("isvalid-distinguishes-encoded-ufffd", be.Pos(), checked, "a ranged rune equal to U+FFFD is taken for invalid UTF-8 without looking at the bytes: a pointer whose token really contains U+FFFD (which is what StackPointer produces for a name with ill-formed bytes) is reported invalid")
		return true
	})
	if n == 0 {
		c.Undecide("jsontext.(Pointer).IsValid/ufffd", "no U+FFFD test found")
	}
}

func init() {
	register(&Rule{ID: "DEPTH-3", Doc: "the marshal fast paths obey the depth limit: wherever package json writes a whole container (`{}` / `[]`) straight into the encoder buffer — a MayAppendDelim call for '{' or '[' — the branch is conditional on a depth test of the state machine (AtMaxDepth / Depth); the token path refuses the 10001st level in pushObject/pushArray, which these branches bypass", Run: ruleDEPTH3})
}

func ruleDEPTH3(c *Ctx) {
	p := c.P
	n := 0
	for _, f := range p.FuncsIn("json") {
		if f.Body() == nil {
			continue
		}
		info := f.Info()
		k := 0
		InspectNoLit(f.Body(), func(nd ast.Node) bool {
			call, ok := nd.(*ast.CallExpr)
			if !ok || len(call.Args) != 2 {
				return true
			}
			if _, ok := MethodCall(info, call, "jsontext", "stateMachine", "MayAppendDelim"); !ok {
				return true
			}
			v, isC := ConstI64(info, call.Args[1])
			if !isC || (v != '{' && v != '[') {
				return true
			}
			n++
			k++
			guarded := false
			for _, cc := range dominatingConds(p, f, call) {
				ast.Inspect(cc.cond, func(m ast.Node) bool {
					if c2, ok := m.(*ast.CallExpr); ok {
						if sel, ok := ast.Unparen(c2.Fun).(*ast.SelectorExpr); ok {
							switch sel.Sel.Name {
							case "AtMaxDepth", "Depth", "DepthLength":
								guarded = true
							}
						}
					}
					return true
				})
			}
			c.Oblige(fmt.Sprintf("container-fast-path-checks-depth:%s#%d", f.Name, k), call.Pos(), guarded,
				"an empty container is appended directly to the buffer without consulting the nesting depth: a Go value nested 10001 deep whose innermost container is empty marshals without error into JSON that the library's own decoder refuses")
			return true
		})
	}
	c.Floor("direct container writes in the marshal fast paths", n, 3)
}

// ptrMismatchNotLiftedTwice: appendStackPointer(where=+1) already answers with the enclosing object when the object
// expects a name (its documented special case); wrapSyntacticError may therefore take Parent() of that pointer in its
// object arm only when the object does not expect a name (the pointer then designates a member).
func ptrMismatchNotLiftedTwice(c *Ctx) {
	p := c.P
	f := p.Func("jsontext.wrapSyntacticError")
	if f == nil || f.Body() == nil {
		c.Undecide("jsontext.wrapSyntacticError", "function missing")
		return
	}
	n := 0
	var scopeClauses []*ast.CaseClause
	clauseFn := map[*ast.CaseClause]*FuncInfo{}
	for _, g := range p.CalleeClosure(f, 2) {
		if g.Body() == nil {
			continue
		}
		for _, cc := range findAll[*ast.CaseClause](g.Body()) {
			scopeClauses = append(scopeClauses, cc)
			clauseFn[cc] = g
		}
	}
	for _, cc := range scopeClauses {
		f := clauseFn[cc]
		info := f.Info()
		isObjArm := false
		for _, e := range cc.List {
			if call, ok := ast.Unparen(e).(*ast.CallExpr); ok {
				if cf := Callee(info, call); cf != nil && cf.Name() == "isObject" {
					isObjArm = true
				}
			}
		}
		if !isObjArm {
			continue
		}
		for _, call := range findAll[*ast.CallExpr](&ast.BlockStmt{List: cc.Body}) {
			cf := Callee(info, call)
			if cf == nil || cf.Name() != "Parent" {
				continue
			}
			n++
			guarded := false
			for _, cnd := range enclosingConds(p, f, call) {
				s := exprString(cnd.cond)
				if strings.Contains(s, "NeedObjectName") || strings.Contains(s, "needObjectValue") {
					guarded = true
				}
			}
			c.Oblige("mismatch-object-pointer-not-lifted-twice", call.Pos(), guarded, "in the object arm the pointer computed with where=+1 is lifted with Parent() unconditionally; after a member value the pointer already designates the object (appendStackPointer's special case for an expected name), so the error is attributed to the grandparent: `{\"x\":{\"a\":1]` reports \"\" where the value path reports \"/x\"")
		}
	}
	if n == 0 {
		c.OK("mismatch-object-pointer-not-lifted-twice", f.Pos(), "no Parent() in the object arm")
	}
}

// unsupSkippableRegistered: a caller function that may decline with ErrUnsupported (its wrapper contains the
// errors.Is(err, errors.ErrUnsupported) fall-through) is registered with maySkip: true, so that lookup keeps
// collecting the candidates after it; a wrapper that turns ErrUnsupported into an error (wrapErrUnsupported) is not.
func unsupSkippableRegistered(c *Ctx) {
	p := c.P
	n := 0
	for _, f := range p.FuncsIn("json") {
		if f.Decl == nil || f.Body() == nil {
			continue
		}
		info := f.Info()
		// composite literals with a maySkip-bearing type
		var lits []*ast.CompositeLit
		InspectNoLit(f.Body(), func(nd ast.Node) bool {
			if cl, ok := nd.(*ast.CompositeLit); ok {
				if st, ok := info.TypeOf(cl).Underlying().(*types.Struct); ok {
					for i := 0; i < st.NumFields(); i++ {
						if st.Field(i).Name() == "maySkip" {
							lits = append(lits, cl)
						}
					}
				}
			}
			return true
		})
		if len(lits) == 0 {
			continue
		}
		fallsThrough, sanitises := false, false
		ast.Inspect(f.Body(), func(nd ast.Node) bool {
			if call, ok := nd.(*ast.CallExpr); ok {
				if FuncCall(info, call, "errors", "Is") && len(call.Args) == 2 {
					if o := IdentOrSelObj(info, call.Args[1]); o != nil && o.Name() == "ErrUnsupported" {
						fallsThrough = true
					}
				}
				if cf := Callee(info, call); cf != nil && cf.Name() == "wrapErrUnsupported" {
					sanitises = true
				}
			}
			return true
		})
		for _, cl := range lits {
			n++
			set := false
			for _, el := range cl.Elts {
				if kv, ok := el.(*ast.KeyValueExpr); ok {
					if id, ok := kv.Key.(*ast.Ident); ok && id.Name == "maySkip" {
						if tv, ok := info.Types[kv.Value]; ok && tv.Value != nil && tv.Value.String() == "true" {
							set = true
						}
					}
				}
			}
			switch {
			case fallsThrough && !sanitises:
				c.Oblige("skippable-registered:"+f.Name, cl.Pos(), set, "the wrapper lets ErrUnsupported fall through to the next candidate but the function is registered without maySkip: lookup stops collecting candidates after it, so the functions listed after it are never consulted when it declines")
			case sanitises && !fallsThrough:
				c.Oblige("skippable-registered:"+f.Name, cl.Pos(), !set, "the wrapper turns ErrUnsupported into an error (the function cannot skip) but it is registered with maySkip: true")
			default:
				c.OK("skippable-registered:"+f.Name, cl.Pos(), "")
			}
		}
	}
	c.Floor("registrations of caller functions", n, 4)
}

func init() {
	register(&Rule{ID: "WITHIN-2", Doc: "the `inside a user (un)marshal call` mark is restored, not cleared: every Flags.Set(WithinArshalCall|0) is conditional on a local that holds the flag's value from before the matching Set(WithinArshalCall|1) — a user method that calls MarshalEncode/UnmarshalDecode on the same coder for a value that itself has a method runs the bracket a second time, and an unconditional clear switches the protection off for the rest of the outer method (Reset from within is then accepted)", Run: ruleWITHIN2})
}

func ruleWITHIN2(c *Ctx) {
	p := c.P
	ft := p.Flags()
	within := ft.Single["WithinArshalCall"]
	if within == 0 {
		c.Undecide("jsonflags.WithinArshalCall", "flag missing")
		return
	}
	n := 0
	for _, f := range p.FuncsIn("json", "v1") {
		if f.Body() == nil {
			continue
		}
		info := f.Info()
		k := 0
		InspectNoLit(f.Body(), func(nd ast.Node) bool {
			call, ok := nd.(*ast.CallExpr)
			if !ok {
				return true
			}
			m, _, v, ok := FlagCall(info, call)
			if !ok || m != "Set" || v&^1 != within || v&1 != 0 {
				return true
			}
			n++
			k++
			restored := false
			for _, cc := range enclosingConds(p, f, call) {
				// if !wasWithin { clear }   with   wasWithin := X.Flags.Get(WithinArshalCall)
				ast.Inspect(cc.cond, func(m ast.Node) bool {
					id, ok := m.(*ast.Ident)
					if !ok {
						return true
					}
					if v := IdentObj(info, id); v != nil {
						for _, d := range defsOf(info, f.Body(), v) {
							if gv, isGet := IsFlagGet(info, d); isGet && gv&^1 == within {
								restored = true
							}
						}
					}
					return true
				})
			}
			c.Oblige(fmt.Sprintf("mark-restored-not-cleared:%s#%d", f.Name, k), call.Pos(), restored, "Flags.Set(WithinArshalCall|0) is unconditional: when this bracket runs nested inside another user call on the same coder, the mark is off for the remainder of the outer call and Encoder.Reset/Decoder.Reset from within no longer panics")
			return true
		})
	}
	c.Floor("places that take the WithinArshalCall mark off", n, 4)
}
