package main

import (
	"fmt"
	"go/ast"
	"go/token"
	"go/types"
	"sort"
)

func init() {
	register(&Rule{ID: "FP-1", Doc: "fast-path protocol, pairing: in package json every store to encoderState.Buf is followed on every path by exactly one Tokens.Last.Increment() before the next Buf store or any exit, and no Increment happens without a preceding store", Run: func(c *Ctx) { ruleFP(c, "FP-1") }})
	register(&Rule{ID: "FP-2", Doc: "fast-path protocol, position guard: a value fast path (store built on Tokens.MayAppendDelim) is only reached where Tokens.Last.NeedObjectName() is known false (directly or through a local `stringify := NeedObjectName() || ...` tested negated); the member-name fast path (manual delimiter) is dominated by Tokens.Last.DisableNamespace() and followed by exactly one Names.ReplaceLastQuotedOffset before the Increment", Run: func(c *Ctx) { ruleFP(c, "FP-2") }})
	register(&Rule{ID: "FP-3", Doc: "fast-path protocol, formatting guard: value fast paths are only reached where Flags.Get(AnyWhitespace) is known false and are built on Tokens.MayAppendDelim(x.Buf, K) of the same encoder with a constant non-closing kind K; the name fast path consults SpaceAfterComma and Multiline itself", Run: func(c *Ctx) { ruleFP(c, "FP-3") }})
	register(&Rule{ID: "FP-4", Doc: "fast-path protocol, delivery: after the Increment of a value fast path every path reaches `if x.NeedFlush() { return x.Flush() }` before returning; WriteToken, WriteValue and AppendRaw end the same way (there is no final flush in MarshalWrite, so this is what delivers a top-level value)", Run: func(c *Ctx) { ruleFP(c, "FP-4") }})
	register(&Rule{ID: "STALE-3", Doc: "encoder local buffer is written back before anyone else writes: between `b := x.Buf` and `x.Buf = b` no call that may write x.Buf (per the recomputed effect summaries, or any call that receives the encoder and cannot be resolved)", Run: ruleSTALE3})
}

// fpS is the path state of the fast-path protocol analysis.
type fpS struct {
	need    tri   // Tokens.Last.NeedObjectName()
	ws      tri   // Flags.Get(AnyWhitespace)
	phase   int8  // 0 idle, 1 value store pending Increment, 2 value incremented (needs flush check), 3 NeedFlush true (must return Flush), 4 name store pending Increment
	disNS   bool  // DisableNamespace() executed
	replace int8  // ReplaceLastQuotedOffset calls since the name store
	boolNeg uint8 // bitmask of tracked stringify-like locals known false
}

type fpFinding struct {
	rule, construct, detail string
	pos                     token.Pos
}

type fpAnalysis struct {
	p        *Program
	f        *FuncInfo
	info     *types.Info
	bufField *types.Var
	findings []fpFinding
	stores   map[token.Pos]string // store position -> kind ("value"/"name")
	locals   map[*types.Var]uint8 // bool locals defined as NeedObjectName() || ... -> bit
	storeIdx map[token.Pos]int
	bound    map[types.Object]ast.Expr // parameters of walked helpers -> arguments
	scope    []*FuncInfo
}

func (a *fpAnalysis) report(rule, construct string, pos token.Pos, detail string) {
	a.findings = append(a.findings, fpFinding{rule, construct, detail, pos})
}

func isEncoderState(t types.Type) bool { return isNamed(t, pkgAlias["jsontext"], "encoderState") }

// bufStore recognises X.Buf = rhs and returns X's string and rhs.
func (a *fpAnalysis) bufStore(st *ast.AssignStmt) (x ast.Expr, rhs ast.Expr, ok bool) {
	for i, l := range st.Lhs {
		if f := SelField(a.info, l); f != nil && f == a.bufField && i < len(st.Rhs) && len(st.Lhs) == len(st.Rhs) {
			return ast.Unparen(l).(*ast.SelectorExpr).X, st.Rhs[i], true
		}
	}
	return nil, nil, false
}

// mayAppendDelimIn finds a Tokens.MayAppendDelim call reachable from e through local definitions.
func (a *fpAnalysis) mayAppendDelimIn(e ast.Expr, depth int, seen map[types.Object]bool) *ast.CallExpr {
	var found *ast.CallExpr
	ast.Inspect(e, func(n ast.Node) bool {
		if found != nil {
			return false
		}
		switch x := n.(type) {
		case *ast.CallExpr:
			if _, ok := MethodCall(a.info, x, "jsontext", "stateMachine", "MayAppendDelim"); ok {
				found = x
				return false
			}
		case *ast.Ident:
			if depth > 0 {
				if v, ok := a.info.Uses[x].(*types.Var); ok && !v.IsField() && !seen[v] && isByteSlice(v.Type()) {
					seen[v] = true
					for _, d := range defsOf(a.info, a.f.Body(), v) {
						if c := a.mayAppendDelimIn(d, depth-1, seen); c != nil {
							found = c
							return false
						}
					}
				}
			}
		}
		return true
	})
	return found
}

func (a *fpAnalysis) calls(n ast.Node, s fpS) fpS {
	for _, call := range CallsIn(n) {
		if _, ok := MethodCall(a.info, call, "jsontext", "stateEntry", "DisableNamespace"); ok {
			s.disNS = true
		}
		if _, ok := MethodCall(a.info, call, "jsontext", "objectNameStack", "ReplaceLastQuotedOffset"); ok {
			if s.phase == 4 && s.replace < 3 {
				s.replace++
			}
		}
		if _, ok := MethodCall(a.info, call, "jsontext", "stateEntry", "Increment"); ok {
			switch s.phase {
			case 1:
				s.phase = 2
			case 4:
				if s.replace != 1 {
					a.report("FP-2", "name-offset:"+a.f.Name, call.Pos(), fmt.Sprintf("member-name fast path recorded the name offset %d times before the Increment (expected exactly once)", s.replace))
				}
				s.phase, s.replace = 0, 0
			default:
				a.report("FP-1", "increment-without-store:"+a.f.Name, call.Pos(), "Tokens.Last.Increment() without a preceding Buf store on this path")
			}
			s.need = triUnknown
			continue
		}
		// any other encoder operation changes the position atoms
		if cf := Callee(a.info, call); cf != nil && cf.Pkg() != nil && cf.Pkg().Path() == pkgAlias["jsontext"] {
			sig := cf.Type().(*types.Signature)
			if sig.Recv() != nil {
				_, tn := recvTypeName(sig.Recv().Type())
				if (tn == "Encoder" || tn == "encoderState") && cf.Name() != "NeedFlush" && cf.Name() != "AppendIndent" {
					s.need = triUnknown
				}
			}
		} else if cf == nil {
			// dynamic call receiving the encoder
			for _, arg := range call.Args {
				if t := a.info.TypeOf(arg); t != nil && isNamed(t, pkgAlias["jsontext"], "Encoder") {
					s.need = triUnknown
				}
			}
		}
	}
	return s
}

func (a *fpAnalysis) atExit(s fpS, pos token.Pos, viaFlush bool) {
	switch s.phase {
	case 1, 4:
		a.report("FP-1", "store-without-increment:"+a.f.Name, pos, "a path leaves the function (or stores Buf again) after a Buf store without Tokens.Last.Increment()")
	case 2:
		a.report("FP-4", "no-flush-check:"+a.f.Name, pos, "value fast path returns without consulting NeedFlush()")
	case 3:
		if !viaFlush {
			a.report("FP-4", "no-flush:"+a.f.Name, pos, "NeedFlush() was true but the path does not return Flush()")
		}
	}
}

func (a *fpAnalysis) node(n ast.Node, s fpS) []fpS {
	switch st := n.(type) {
	case *ast.ReturnStmt:
		viaFlush := false
		if len(st.Results) == 1 {
			if call, ok := ast.Unparen(st.Results[0]).(*ast.CallExpr); ok {
				if _, ok := MethodCall(a.info, call, "jsontext", "encoderState", "Flush"); ok {
					viaFlush = true
				}
			}
		}
		s = a.calls(st, s)
		a.atExit(s, st.Pos(), viaFlush)
		return nil
	case *ast.AssignStmt:
		s = a.calls(st, s)
		// stringify-like locals
		if len(st.Lhs) == 1 && len(st.Rhs) == 1 {
			if v, _ := IdentObj(a.info, st.Lhs[0]).(*types.Var); v != nil {
				if bit, ok := a.locals[v]; ok {
					s.boolNeg &^= bit
				}
			}
		}
		if x, rhs, ok := a.bufStore(st); ok {
			if s.phase == 1 || s.phase == 4 {
				a.atExit(s, st.Pos(), false)
			}
			mad := a.mayAppendDelimIn(rhs, 3, map[types.Object]bool{})
			idx := a.storeIdx[st.Pos()]
			key := fmt.Sprintf("%s#%d", a.f.Name, idx)
			if mad != nil {
				a.stores[st.Pos()] = "value"
				if s.need != triNo {
					a.report("FP-2", "value-at-name-position:"+key, st.Pos(), "value fast path reachable where Tokens.Last.NeedObjectName() is not known to be false")
				}
				if s.ws != triNo {
					a.report("FP-3", "whitespace-unguarded:"+key, st.Pos(), "value fast path reachable where Flags.Get(AnyWhitespace) is not known to be false")
				}
				// MayAppendDelim(x.Buf, K)
				okArgs := len(mad.Args) == 2
				if okArgs {
					k, isC := a.constI64(mad.Args[1])
					okArgs = isC && k != '}' && k != ']' && k > 0
					// first argument: X.Buf or a local alias of it
					first := ast.Unparen(mad.Args[0])
					if SelField(a.info, first) == a.bufField {
						okArgs = okArgs && exprString(first.(*ast.SelectorExpr).X) == exprString(x)
					} else if v, _ := IdentObj(a.info, first).(*types.Var); v != nil {
						al := false
						for _, d := range defsOf(a.info, a.bodyAt(st.Pos()), v) {
							if SelField(a.info, d) == a.bufField {
								al = true
							}
						}
						okArgs = okArgs && al
					} else {
						okArgs = false
					}
					// receiver: X.Tokens
					if recv, ok := MethodCall(a.info, mad, "jsontext", "stateMachine", "MayAppendDelim"); ok {
						if sel, isSel := ast.Unparen(recv).(*ast.SelectorExpr); !isSel || exprString(sel.X) != exprString(x) {
							okArgs = false
						}
					}
				}
				if !okArgs {
					a.report("FP-3", "delim-args:"+key, st.Pos(), "the stored buffer is not built on X.Tokens.MayAppendDelim(X.Buf, K) of the same encoder with a constant value kind K")
				}
				s.phase = 1
			} else {
				a.stores[st.Pos()] = "name"
				if !s.disNS {
					a.report("FP-2", "name-without-disabled-namespace:"+key, st.Pos(), "member-name fast path (manual delimiter, no duplicate check) reachable without Tokens.Last.DisableNamespace()")
				}
				s.phase, s.replace = 4, 0
			}
		}
		return []fpS{s}
	case *ast.DeferStmt:
		return []fpS{s}
	}
	return []fpS{a.calls(n, s)}
}

func (a *fpAnalysis) leaf(e ast.Expr, s fpS) (t, f []fpS) {
	// X.Tokens.Last.NeedObjectName()
	if call, ok := e.(*ast.CallExpr); ok {
		if _, ok := MethodCall(a.info, call, "jsontext", "stateEntry", "NeedObjectName"); ok {
			st, sf := s, s
			st.need, sf.need = triYes, triNo
			switch s.need {
			case triYes:
				return []fpS{s}, nil
			case triNo:
				return nil, []fpS{s}
			}
			return []fpS{st}, []fpS{sf}
		}
		if m, _, v, ok := FlagCall(a.info, call); ok && m == "Get" {
			anyWS := a.p.Flags().Named["AnyWhitespace"]
			if v&^1 == anyWS&^1 && anyWS != 0 {
				st, sf := s, s
				st.ws, sf.ws = triYes, triNo
				return []fpS{st}, []fpS{sf}
			}
		}
		if _, ok := MethodCall(a.info, call, "jsontext", "encoderState", "NeedFlush"); ok {
			st, sf := s, s
			if s.phase == 2 {
				st.phase, sf.phase = 3, 0
			}
			return []fpS{st}, []fpS{sf}
		}
	}
	// stringify-like local: false implies NeedObjectName() false
	if v, _ := IdentObj(a.info, e).(*types.Var); v != nil {
		if _, ok := a.locals[v]; ok {
			sf := s
			sf.need = triNo
			return []fpS{s}, []fpS{sf}
		}
	}
	s = a.calls(e, s)
	return []fpS{s}, []fpS{s}
}

// stringifyLocals finds bool locals whose (single) definition is a disjunction containing NeedObjectName().
func (a *fpAnalysis) stringifyLocals() {
	a.locals = map[*types.Var]uint8{}
	InspectNoLit(a.f.Body(), func(n ast.Node) bool {
		as, ok := n.(*ast.AssignStmt)
		if !ok || len(as.Lhs) != 1 || len(as.Rhs) != 1 {
			return true
		}
		v, _ := IdentObj(a.info, as.Lhs[0]).(*types.Var)
		if v == nil {
			return true
		}
		if b, ok := v.Type().Underlying().(*types.Basic); !ok || b.Kind() != types.Bool {
			return true
		}
		// top-level disjuncts
		has := false
		var split func(e ast.Expr)
		split = func(e ast.Expr) {
			e = ast.Unparen(e)
			if be, ok := e.(*ast.BinaryExpr); ok && be.Op == token.LOR {
				split(be.X)
				split(be.Y)
				return
			}
			if call, ok := e.(*ast.CallExpr); ok {
				if _, ok := MethodCall(a.info, call, "jsontext", "stateEntry", "NeedObjectName"); ok {
					has = true
				}
			}
		}
		split(as.Rhs[0])
		if has && len(defsOf(a.info, a.f.Body(), v)) == 1 {
			a.locals[v] = 1 << uint(len(a.locals)%8)
		}
		return true
	})
}

// constI64 evaluates a constant, looking through parameters of a walked helper to the
// argument the caller passed.
func (a *fpAnalysis) constI64(e ast.Expr) (int64, bool) {
	for depth := 0; depth < 4; depth++ {
		e = ast.Unparen(e)
		if v, ok := ConstI64(a.info, e); ok {
			return v, true
		}
		// T(x): a conversion of something constant
		if call, ok := e.(*ast.CallExpr); ok && len(call.Args) == 1 {
			if tv, ok := a.info.Types[call.Fun]; ok && tv.IsType() {
				e = call.Args[0]
				continue
			}
		}
		// s[i] with s a (bound) string constant and i a constant
		if ix, ok := e.(*ast.IndexExpr); ok {
			if i, ok := ConstI64(a.info, ix.Index); ok {
				se := ast.Expr(ix.X)
				for d2 := 0; d2 < 4; d2++ {
					if str, ok := ConstStr(a.info, se); ok {
						if int(i) < len(str) {
							return int64(str[i]), true
						}
						return 0, false
					}
					arg, ok := a.bound[IdentObj(a.info, se)]
					if !ok {
						break
					}
					se = arg
				}
			}
			return 0, false
		}
		o := IdentObj(a.info, e)
		arg, ok := a.bound[o]
		if o == nil || !ok {
			return 0, false
		}
		e = arg
	}
	return 0, false
}

// bodyAt returns the body of the function (subject or walked helper) that contains pos.
func (a *fpAnalysis) bodyAt(pos token.Pos) ast.Node {
	for _, g := range a.scope {
		if b := g.Body(); b != nil && b.Pos() <= pos && pos <= b.End() {
			if g != a.f {
				return b
			}
		}
	}
	return a.f.Body()
}

func ruleFP(c *Ctx, which string) {
	p := c.P
	bufField := p.Field("jsontext", "encodeBuffer", "Buf")
	if bufField == nil {
		c.Undecide("jsontext.encodeBuffer.Buf", "field missing")
		return
	}
	type subj struct {
		f      *FuncInfo
		stores []token.Pos
	}
	var subjects []subj
	for _, f := range p.FuncsIn("json", "v1") {
		if f.Body() == nil {
			continue
		}
		var ss []token.Pos
		hasInc := false
		InspectNoLit(f.Body(), func(n ast.Node) bool {
			switch x := n.(type) {
			case *ast.AssignStmt:
				for _, l := range x.Lhs {
					if SelField(f.Info(), l) == bufField {
						ss = append(ss, x.Pos())
					}
				}
			case *ast.CallExpr:
				if _, ok := MethodCall(f.Info(), x, "jsontext", "stateEntry", "Increment"); ok {
					hasInc = true
				}
			}
			return true
		})
		if len(ss) > 0 || hasInc {
			subjects = append(subjects, subj{f, ss})
		}
	}
	// a private helper that holds a fast path (unexported declaration, called only from this package)
	// is analysed inside its callers, where its guards are: its stores are attributed to them
	isHelper := map[*FuncInfo]bool{}
	for _, s := range subjects {
		if s.f.Decl != nil && s.f.Obj != nil && !ast.IsExported(s.f.Obj.Name()) && s.f.Decl.Recv == nil && len(s.stores) > 0 {
			if cs := callersOf(p, s.f.Obj); len(cs) > 0 {
				isHelper[s.f] = true
			}
		}
	}
	if len(isHelper) > 0 {
		var kept []subj
		have := map[*FuncInfo]bool{}
		for _, s := range subjects {
			if !isHelper[s.f] {
				kept = append(kept, s)
				have[s.f] = true
			}
		}
		for h := range isHelper {
			var hs subj
			for _, s := range subjects {
				if s.f == h {
					hs = s
				}
			}
			for _, cf := range callersOf(p, h.Obj) {
				if !have[cf] {
					kept = append(kept, subj{cf, nil})
					have[cf] = true
				}
				for i := range kept {
					if kept[i].f == cf {
						kept[i].stores = append(kept[i].stores, hs.stores...)
					}
				}
			}
		}
		sort.Slice(kept, func(i, j int) bool { return kept[i].f.Pos() < kept[j].f.Pos() })
		subjects = kept
	}
	total := 0
	for _, s := range subjects {
		total += len(s.stores)
	}
	if !c.Floor("direct encoderState.Buf stores outside jsontext", total, 6) {
		return
	}
	for _, s := range subjects {
		f := s.f
		a := &fpAnalysis{p: p, f: f, info: f.Info(), bufField: bufField, stores: map[token.Pos]string{}, storeIdx: map[token.Pos]int{}, bound: map[types.Object]ast.Expr{}, scope: p.CalleeClosure(f, 2)}
		sort.Slice(s.stores, func(i, j int) bool { return s.stores[i] < s.stores[j] })
		for i, ps := range s.stores {
			a.storeIdx[ps] = i + 1
		}
		a.stringifyLocals()
		fl := &Flow[fpS]{Fn: f}
		fl.Inline = func(call *ast.CallExpr) *FuncInfo {
			if g := p.InlineAny(f)(call); g != nil && isHelper[g] {
				return g
			}
			return nil
		}
		fl.Bind = func(callee *FuncInfo, call *ast.CallExpr, s fpS) fpS {
			if callee.Obj != nil {
				sig := callee.Obj.Type().(*types.Signature)
				for i := 0; i < sig.Params().Len() && i < len(call.Args); i++ {
					a.bound[sig.Params().At(i)] = call.Args[i]
				}
			}
			return s
		}
		fl.Node = a.node
		fl.Leaf = a.leaf
		fl.Run(fpS{})
		// implicit exits are materialised as return statements by go/cfg; nothing else to do
		byConstruct := map[string]fpFinding{}
		for _, fd := range a.findings {
			if fd.rule != which {
				continue
			}
			if _, dup := byConstruct[fd.construct]; !dup {
				byConstruct[fd.construct] = fd
			}
		}
		for _, k := range sortedKeys(byConstruct) {
			fd := byConstruct[k]
			c.Violation(fd.construct, fd.pos, fd.detail)
		}
		// one discharged obligation per store (per rule) when nothing was reported for this function
		if len(byConstruct) == 0 {
			for i, ps := range s.stores {
				kind := a.stores[ps]
				if kind == "" {
					kind = "unreached"
				}
				c.OK(fmt.Sprintf("%s#%d", f.Name, i+1), ps, kind+" fast path")
			}
		}
		// name fast path must consult SpaceAfterComma and Multiline (FP-3)
		if which == "FP-3" {
			for _, ps := range s.stores {
				if a.stores[ps] != "name" {
					continue
				}
				ft := p.Flags()
				seenComma, seenMulti := false, false
				// in the function (subject or walked helper) that holds the store
				holder := f
				for _, g := range a.scope {
					if b := g.Body(); b != nil && g != f && b.Pos() <= ps && ps <= b.End() {
						holder = g
					}
				}
				InspectNoLit(holder.Body(), func(n ast.Node) bool {
					if call, ok := n.(*ast.CallExpr); ok && call.Pos() < ps {
						if m, _, v, ok := FlagCall(holder.Info(), call); ok && m == "Get" {
							if v&^1 == ft.Single["SpaceAfterComma"] {
								seenComma = true
							}
							if v&^1 == ft.Single["Multiline"] {
								seenMulti = true
							}
						}
					}
					return true
				})
				c.Oblige("name-path-whitespace:"+f.Name, ps, seenComma && seenMulti, "the member-name fast path does not consult SpaceAfterComma and Multiline before writing the name")
			}
		}
	}
	if which == "FP-4" {
		// the token-level writers end with `if NeedFlush() { return Flush() }`,
		// written out or through a helper method that ends that way itself
		deliv := p.deliveryFuncs()
		memo := map[*FuncInfo]string{}
		var check func(f *FuncInfo) string
		check = func(f *FuncInfo) string {
			if r, ok := memo[f]; ok {
				return r
			}
			memo[f] = "" // recursion guard
			// every store to e.Buf must be followed, on every path to a nil return, by the NeedFlush check
			type st struct{ stored, checked bool }
			bad := ""
			flushRet := false
			info := f.Info()
			viaHelper := func(r *ast.ReturnStmt) bool {
				if len(r.Results) != 1 {
					return false
				}
				call, ok := ast.Unparen(r.Results[0]).(*ast.CallExpr)
				if !ok {
					return false
				}
				cf := Callee(info, call)
				if cf == nil || !deliv[cf] || cf.Name() == "Flush" {
					return false
				}
				g := p.FuncOf(cf)
				return g != nil && g != f && check(g) == ""
			}
			fl := &Flow[st]{Fn: f}
			fl.Node = func(n ast.Node, s st) []st {
				switch x := n.(type) {
				case *ast.AssignStmt:
					for _, l := range x.Lhs {
						if SelField(info, l) == bufField {
							s.stored, s.checked = true, false
						}
					}
				case *ast.ReturnStmt:
					if viaHelper(x) {
						flushRet = true
						return nil
					}
					if s.stored && !s.checked && bad == "" {
						bad = "returns after committing Buf without consulting NeedFlush() at " + p.Position(x.Pos())
					}
					return nil
				}
				return []st{s}
			}
			fl.Leaf = func(e ast.Expr, s st) (t, fs []st) {
				if call, ok := e.(*ast.CallExpr); ok {
					if _, ok := MethodCall(info, call, "jsontext", "encoderState", "NeedFlush"); ok {
						s.checked = true
						return []st{s}, []st{s}
					}
				}
				return []st{s}, []st{s}
			}
			fl.Run(st{})
			// and the true branch returns Flush
			for _, ifs := range findAll[*ast.IfStmt](f.Body()) {
				if call, ok := ast.Unparen(ifs.Cond).(*ast.CallExpr); ok {
					if _, ok := MethodCall(info, call, "jsontext", "encoderState", "NeedFlush"); ok {
						for _, r := range findAll[*ast.ReturnStmt](ifs.Body) {
							if len(r.Results) == 1 {
								if c2, ok := ast.Unparen(r.Results[0]).(*ast.CallExpr); ok {
									if _, ok := MethodCall(info, c2, "jsontext", "encoderState", "Flush"); ok {
										flushRet = true
									}
								}
							}
						}
					}
				}
			}
			if bad == "" && !flushRet {
				bad = "no `if NeedFlush() { return Flush() }`"
			}
			memo[f] = bad
			return bad
		}
		for _, nm := range []string{"jsontext.(*encoderState).WriteToken", "jsontext.(*encoderState).WriteValue", "jsontext.(*encoderState).AppendRaw"} {
			f := p.Func(nm)
			if f == nil || f.Body() == nil {
				c.Undecide(nm, "function missing")
				continue
			}
			bad := check(f)
			c.Oblige("delivery:"+nm, f.Pos(), bad == "", bad)
		}
	}
}

// deliveryFuncs is the set of encoderState methods whose error result can only
// be the result of (*encoderState).Flush: Flush itself and helpers every one of
// whose returns is `nil` or a call to a member of the set.
func (p *Program) deliveryFuncs() map[*types.Func]bool {
	if p.deliv != nil {
		return p.deliv
	}
	set := map[*types.Func]bool{}
	p.deliv = set
	if m := p.Method("jsontext", "encoderState", "Flush"); m != nil {
		set[m] = true
	}
	for changed := true; changed; {
		changed = false
		for _, f := range p.FuncsIn("jsontext") {
			if f.Decl == nil || f.Obj == nil || f.Body() == nil || set[f.Obj] {
				continue
			}
			sig := f.Obj.Type().(*types.Signature)
			if sig.Recv() == nil || !isNamed(sig.Recv().Type(), pkgAlias["jsontext"], "encoderState") || sig.Results().Len() != 1 || !isErrorType(sig.Results().At(0).Type()) {
				continue
			}
			all, some := true, false
			InspectNoLit(f.Body(), func(n ast.Node) bool {
				r, ok := n.(*ast.ReturnStmt)
				if !ok {
					return true
				}
				if len(r.Results) != 1 {
					all = false
					return true
				}
				e := ast.Unparen(r.Results[0])
				if IsNilIdent(f.Info(), e) {
					return true
				}
				if call, ok := e.(*ast.CallExpr); ok {
					if cf := Callee(f.Info(), call); cf != nil && set[cf] {
						some = true
						return true
					}
				}
				all = false
				return true
			})
			if all && some {
				set[f.Obj] = true
				changed = true
			}
		}
	}
	return set
}

// ---- STALE-3 -----------------------------------------------------------------

func ruleSTALE3(c *Ctx) {
	p := c.P
	eff := p.Effects()
	bufField := p.Field("jsontext", "encodeBuffer", "Buf")
	if bufField == nil {
		c.Undecide("jsontext.encodeBuffer.Buf", "field missing")
		return
	}
	n := 0
	for _, f := range p.FuncsIn("json", "jsontext", "v1") {
		if f.Body() == nil {
			continue
		}
		info := f.Info()
		// locals defined as X.Buf (alias) and later stored back
		alias := map[*types.Var]bool{}
		InspectNoLit(f.Body(), func(nd ast.Node) bool {
			as, ok := nd.(*ast.AssignStmt)
			if !ok || len(as.Lhs) != len(as.Rhs) {
				return true
			}
			for i, r := range as.Rhs {
				r = ast.Unparen(r)
				if sl, isSl := r.(*ast.SliceExpr); isSl {
					r = ast.Unparen(sl.X)
				}
				if SelField(info, r) == bufField {
					if v, _ := IdentObj(info, as.Lhs[i]).(*types.Var); v != nil && !v.IsField() {
						alias[v] = true
					}
				}
			}
			return true
		})
		storesBack := false
		// storeBackCall: a call handing the alias to a method that stores that parameter into Buf
		storeBackCall := func(call *ast.CallExpr) bool {
			cf := Callee(info, call)
			if cf == nil {
				return false
			}
			idx := bufStoreParam(p, cf, bufField)
			if idx < 0 || idx >= len(call.Args) {
				return false
			}
			v, _ := IdentObj(info, call.Args[idx]).(*types.Var)
			return v != nil && alias[v]
		}
		InspectNoLit(f.Body(), func(nd ast.Node) bool {
			if call, ok := nd.(*ast.CallExpr); ok && storeBackCall(call) {
				storesBack = true
			}
			if as, ok := nd.(*ast.AssignStmt); ok {
				for i, l := range as.Lhs {
					if SelField(info, l) == bufField && i < len(as.Rhs) {
						if v, _ := IdentObj(info, as.Rhs[i]).(*types.Var); v != nil && alias[v] {
							storesBack = true
						}
					}
				}
			}
			return true
		})
		if len(alias) == 0 || !storesBack {
			continue
		}
		n++
		type st struct {
			open  bool
			dirty token.Pos // a foreign Buf write happened while the alias was open
		}
		bad := ""
		fl := &Flow[st]{Fn: f}
		mayWriteBuf := func(call *ast.CallExpr) (bool, string) {
			cf := Callee(info, call)
			if cf == nil {
				for _, arg := range call.Args {
					t := info.TypeOf(arg)
					if t != nil && (isNamed(t, pkgAlias["jsontext"], "Encoder") || isNamed(t, pkgAlias["jsontext"], "encoderState")) {
						if _, isPtr := t.(*types.Pointer); isPtr {
							return true, "dynamic call receiving the encoder"
						}
					}
				}
				return false, ""
			}
			if w, ok := eff.writes[cf]; ok && (w[bufField] || eff.unknown[cf]) {
				return true, QualName(cf)
			}
			// public Encoder methods are thin wrappers around encoderState methods of the same name
			sig := cf.Type().(*types.Signature)
			if sig.Recv() != nil && isNamed(sig.Recv().Type(), pkgAlias["jsontext"], "Encoder") {
				if m := p.Method("jsontext", "encoderState", cf.Name()); m != nil {
					if w := eff.writes[m]; w[bufField] {
						return true, QualName(cf)
					}
				}
			}
			// functions of package json that take the encoder: conservatively may write
			if cf.Pkg() != nil && cf.Pkg().Path() != pkgAlias["jsontext"] {
				for i := 0; i < sig.Params().Len(); i++ {
					if isNamed(sig.Params().At(i).Type(), pkgAlias["jsontext"], "Encoder") {
						if p.FuncOf(cf) != nil {
							return true, QualName(cf)
						}
					}
				}
			}
			return false, ""
		}
		who := map[token.Pos]string{}
		fl.Node = func(nd ast.Node, s st) []st {
			for _, call := range CallsIn(nd) {
				if storeBackCall(call) {
					if s.open && s.dirty != token.NoPos && bad == "" {
						bad = fmt.Sprintf("%s may write Buf at %s between taking a local alias of Buf and storing it back at %s", who[s.dirty], p.Position(s.dirty), p.Position(call.Pos()))
					}
					s.open, s.dirty = false, token.NoPos
					if _, isRet := nd.(*ast.ReturnStmt); isRet {
						return nil
					}
					return []st{s}
				}
			}
			if s.open && s.dirty == token.NoPos {
				for _, call := range CallsIn(nd) {
					if w, wh := mayWriteBuf(call); w {
						s.dirty = call.Pos()
						who[call.Pos()] = wh
						break
					}
				}
			}
			switch x := nd.(type) {
			case *ast.AssignStmt:
				if len(x.Lhs) == len(x.Rhs) {
					for i, r := range x.Rhs {
						r = ast.Unparen(r)
						if sl, isSl := r.(*ast.SliceExpr); isSl {
							r = ast.Unparen(sl.X)
						}
						if SelField(info, r) == bufField {
							if v, _ := IdentObj(info, x.Lhs[i]).(*types.Var); v != nil && alias[v] {
								s.open, s.dirty = true, token.NoPos
							}
						}
						if SelField(info, x.Lhs[i]) == bufField {
							if v, _ := IdentObj(info, x.Rhs[i]).(*types.Var); v != nil && alias[v] && s.open && s.dirty != token.NoPos && bad == "" {
								bad = fmt.Sprintf("%s may write Buf at %s between taking a local alias of Buf and storing it back at %s", who[s.dirty], p.Position(s.dirty), p.Position(x.Pos()))
							}
							s.open, s.dirty = false, token.NoPos
						}
					}
				}
			case *ast.ReturnStmt:
				return nil
			}
			return []st{s}
		}
		fl.Leaf = func(e ast.Expr, s st) (t, fs []st) {
			if s.open && s.dirty == token.NoPos {
				for _, call := range CallsIn(e) {
					if w, wh := mayWriteBuf(call); w {
						s.dirty = call.Pos()
						who[call.Pos()] = wh
						break
					}
				}
			}
			return []st{s}, []st{s}
		}
		fl.Run(st{})
		c.Oblige(f.Name, f.Pos(), bad == "", bad)
	}
	c.Floor("functions that alias Buf locally and store it back", n, 4)
}

// bufStoreParam returns the index of the parameter of cf that cf stores into
// Buf (`recv.Buf = param` as a direct statement), or -1.
func bufStoreParam(p *Program, cf *types.Func, bufField *types.Var) int {
	g := p.FuncOf(cf)
	if g == nil || g.Body() == nil {
		return -1
	}
	sig := cf.Type().(*types.Signature)
	idx := -1
	InspectNoLit(g.Body(), func(nd ast.Node) bool {
		as, ok := nd.(*ast.AssignStmt)
		if !ok || len(as.Lhs) != len(as.Rhs) {
			return true
		}
		for i, l := range as.Lhs {
			if SelField(g.Info(), l) != bufField {
				continue
			}
			v, _ := IdentObj(g.Info(), as.Rhs[i]).(*types.Var)
			for j := 0; v != nil && j < sig.Params().Len(); j++ {
				if sig.Params().At(j) == v {
					idx = j
				}
			}
		}
		return true
	})
	return idx
}
