package main

import (
	"fmt"
	"go/ast"
	"go/types"
	"sort"
	"strings"
)

func init() {
	register(&Rule{ID: "V1-1", Doc: "every entry from package v1 into the v2 API runs under the v1 defaults: calls to jsonv2.Marshal*/Unmarshal* carry DefaultOptionsV1() or the Encoder/Decoder's opts field (or a coder built from it); opts fields are only ever assigned DefaultOptionsV1() or JoinOptions(<same field>, ...); the syntax-only helpers (Valid, Compact, Indent) pass the explicit legacy set ReportErrorsWithLegacySemantics, AllowDuplicateNames, AllowInvalidUTF8 (and PreserveRawStrings when formatting)", Run: ruleV11})
	register(&Rule{ID: "V1-2", Doc: "every v1 default is reachable and effective: each flag of DefaultV1Flags has an exported option constructor and is read (Flags.Get) at least once in json, jsontext or jsonwire", Run: ruleV12})
	register(&Rule{ID: "V1-3", Doc: "v1 leaves the target untouched on a syntax error: in unmarshalDecode, under ReportErrorsWithLegacySemantics, CheckNextValue is called and its error returned on every path before the first arshaler dispatch", Run: ruleV13})
	register(&Rule{ID: "V1-4", Doc: "the v1 streaming Decoder's offset-adjustment flags are reset together: every Decoder method that consumes input (ReadToken/ReadValue) and clears one of its boolean state fields clears the same set of fields as its siblings", Run: ruleV14})
}

func ruleV11(c *Ctx) {
	p := c.P
	v1 := p.Pkg("v1")
	if v1 == nil {
		c.Undecide("v1", "package missing")
		return
	}
	defV1 := p.Lookup("v1", "DefaultOptionsV1")
	isOptsField := func(info *types.Info, e ast.Expr) bool {
		f := SelField(info, e)
		return f != nil && f.Name() == "opts" && f.Pkg() != nil && f.Pkg().Path() == pkgAlias["v1"]
	}
	isDefCall := func(info *types.Info, e ast.Expr) bool {
		call, ok := ast.Unparen(e).(*ast.CallExpr)
		return ok && defV1 != nil && IdentOrSelObj(info, call.Fun) == defV1
	}
	v2Entry := map[string]bool{"Marshal": true, "MarshalWrite": true, "MarshalEncode": true, "Unmarshal": true, "UnmarshalRead": true, "UnmarshalDecode": true}
	n := 0
	for _, f := range p.FuncsIn("v1") {
		if f.Body() == nil {
			continue
		}
		info := f.Info()
		InspectNoLit(f.Body(), func(nd ast.Node) bool {
			call, ok := nd.(*ast.CallExpr)
			if !ok {
				return true
			}
			cf := Callee(info, call)
			if cf == nil || cf.Pkg() == nil {
				return true
			}
			// (a) v2 marshal/unmarshal entry points
			if cf.Pkg().Path() == pkgAlias["json"] && v2Entry[cf.Name()] && cf.Type().(*types.Signature).Recv() == nil {
				n++
				okOpts := false
				for _, a := range call.Args {
					if isDefCall(info, a) || isOptsField(info, a) {
						okOpts = true
					}
				}
				if !okOpts && len(call.Args) > 0 {
					// coder argument built from opts in this function
					if v := IdentObj(info, call.Args[0]); v != nil {
						for _, d := range defsOf(info, f.Body(), v) {
							if dc, ok := ast.Unparen(d).(*ast.CallExpr); ok {
								for _, a := range dc.Args {
									if isDefCall(info, a) || isOptsField(info, a) {
										okOpts = true
									}
								}
							}
						}
					}
				}
				c.Oblige(fmt.Sprintf("v2-entry:%s->%s", f.Name, cf.Name()), call.Pos(), okOpts, "call into the v2 API without DefaultOptionsV1() / the coder's opts field")
			}
			// coder constructors
			if cf.Pkg().Path() == pkgAlias["jsontext"] && (cf.Name() == "NewDecoder" || cf.Name() == "NewEncoder") {
				n++
				okOpts := false
				for _, a := range call.Args {
					if isDefCall(info, a) || isOptsField(info, a) {
						okOpts = true
					}
				}
				c.Oblige(fmt.Sprintf("v2-coder:%s->%s", f.Name, cf.Name()), call.Pos(), okOpts, "jsontext coder constructed without the v1 defaults")
			}
			// (c) syntax-only helpers
			if cf.Pkg().Path() == pkgAlias["jsontext"] && cf.Name() == "AppendFormat" {
				n++
				have := map[string]bool{}
				for _, a := range call.Args {
					if ac, ok := ast.Unparen(a).(*ast.CallExpr); ok && len(ac.Args) == 1 {
						if tv, ok := info.Types[ac.Args[0]]; ok && tv.Value != nil && tv.Value.String() == "true" {
							if o := IdentOrSelObj(info, ac.Fun); o != nil {
								have[o.Name()] = true
							}
						}
					}
				}
				var miss []string
				for _, w := range []string{"ReportErrorsWithLegacySemantics", "AllowDuplicateNames", "AllowInvalidUTF8", "PreserveRawStrings"} {
					if !have[w] {
						miss = append(miss, w)
					}
				}
				c.Oblige("syntax-helper:"+f.Name+"->AppendFormat", call.Pos(), len(miss) == 0, "legacy formatting without "+strings.Join(miss, ", "))
			}
			return true
		})
		// checkValid-like: a buffered decoder obtained without options must get the legacy flags set
		InspectNoLit(f.Body(), func(nd ast.Node) bool {
			as, ok := nd.(*ast.AssignStmt)
			if !ok || len(as.Rhs) != 1 {
				return true
			}
			get, ok := poolGetCall(info, as.Rhs[0])
			if !ok || !strings.Contains(get, "Decoder") {
				return true
			}
			call := ast.Unparen(as.Rhs[0]).(*ast.CallExpr)
			hasOpts := false
			for _, a := range call.Args[1:] {
				if isDefCall(info, a) || isOptsField(info, a) {
					hasOpts = true
				}
			}
			if hasOpts {
				return true
			}
			n++
			ft := p.Flags()
			want := ft.Single["ReportErrorsWithLegacySemantics"] | ft.Single["AllowDuplicateNames"] | ft.Single["AllowInvalidUTF8"]
			var set uint64
			InspectNoLit(f.Body(), func(m ast.Node) bool {
				if cl, ok := m.(*ast.CallExpr); ok {
					if mm, _, v, ok := FlagCall(info, cl); ok && mm == "Set" && v&1 == 1 {
						set |= v &^ 1
					}
				}
				return true
			})
			c.Oblige("syntax-helper:"+f.Name+"->"+get, as.Pos(), set&want == want, "legacy validation decoder lacks flags "+ft.Names(want&^set))
			return true
		})
	}
	c.Floor("entries from v1 into the v2 API", n, 8)
	// (b) opts fields
	nStores := 0
	for _, f := range p.FuncsIn("v1") {
		if f.Body() == nil {
			continue
		}
		info := f.Info()
		for _, fs := range fieldStores(info, f.Body(), false) {
			if fs.Field.Name() != "opts" || fs.Field.Pkg() == nil || fs.Field.Pkg().Path() != pkgAlias["v1"] || !fs.Whole {
				continue
			}
			nStores++
			as, _ := fs.Stmt.(*ast.AssignStmt)
			okStore := false
			if as != nil && len(as.Lhs) == 1 && len(as.Rhs) == 1 {
				r := as.Rhs[0]
				if isDefCall(info, r) {
					okStore = true
				}
				if rc, ok := ast.Unparen(r).(*ast.CallExpr); ok {
					if cf := Callee(info, rc); cf != nil && cf.Name() == "JoinOptions" && len(rc.Args) >= 1 && exprString(rc.Args[0]) == exprString(as.Lhs[0]) {
						okStore = true
					}
				}
			}
			c.Oblige("opts-store:"+f.Name, fs.Stmt.Pos(), okStore, "the coder's options are replaced by something other than DefaultOptionsV1() or JoinOptions(<same field>, ...), losing the v1 defaults")
		}
	}
	c.Floor("stores to the v1 coders' opts fields", nStores, 4)
	// DefaultOptionsV1 returns &jsonopts.DefaultOptionsV1
	if f := p.Func("v1.DefaultOptionsV1"); f == nil {
		c.Undecide("v1.DefaultOptionsV1", "function missing")
	} else {
		ok := false
		for _, r := range Returns(f.Body()) {
			if len(r.Results) == 1 {
				if u, isU := ast.Unparen(r.Results[0]).(*ast.UnaryExpr); isU {
					if o := IdentOrSelObj(f.Info(), u.X); o != nil && o == p.Lookup("jsonopts", "DefaultOptionsV1") {
						ok = true
					}
				}
			}
		}
		c.Oblige("DefaultOptionsV1-returns-v1-defaults", f.Pos(), ok, "v1.DefaultOptionsV1 does not return &jsonopts.DefaultOptionsV1")
	}
}

func ruleV12(c *Ctx) {
	p := c.P
	ft := p.Flags()
	d1 := ft.Named["DefaultV1Flags"]
	if d1 == 0 {
		c.Undecide("jsonflags.DefaultV1Flags", "missing")
		return
	}
	// constructors (silent enumeration: reuse OPT-2's scan without reporting)
	sub := &Ctx{Report: NewReport(p), P: p, Tier: c.Tier}
	sub.curRule = "V1-2"
	ctors := map[uint64]string{}
	for _, k := range boolCtors(sub) {
		if k.Fn.Obj != nil && k.Fn.Obj.Exported() {
			ctors[k.Flag] = k.Fn.Name
		}
	}
	reads := map[uint64]int{}
	for _, f := range p.FuncsIn("json", "jsontext", "jsonwire") {
		if f.Body() == nil {
			continue
		}
		ast.Inspect(f.Body(), func(nd ast.Node) bool {
			if call, ok := nd.(*ast.CallExpr); ok {
				if m, _, v, ok := FlagCall(f.Info(), call); ok && m == "Get" {
					for b := uint64(2); b != 0 && b <= v; b <<= 1 {
						if v&b != 0 {
							reads[b]++
						}
					}
				}
			}
			return true
		})
	}
	var names []string
	for n, v := range ft.Single {
		if v&d1 != 0 {
			names = append(names, n)
		}
	}
	sort.Strings(names)
	for _, n := range names {
		v := ft.Single[n]
		c.Oblige("constructor:"+n, p.Lookup("jsonflags", n).Pos(), ctors[v] != "", "v1 default flag has no exported option constructor")
		c.Oblige("effective:"+n, p.Lookup("jsonflags", n).Pos(), reads[v] > 0, "v1 default flag is never read by the implementation (the option would have no effect)")
	}
	c.Floor("v1 default flags", len(names), 15)
}

func init() {
	register(&Rule{ID: "V1-5", Doc: "test-then-set guards test what they set: wherever an option is joined into a coder's options under `if v, _ := GetOption(opts, X); ...`, the constructor joined inside the guarded block is the same X (a guard copied from the neighbouring method makes the second call a no-op when the first option is already on)", Run: ruleV15})
}

func ruleV15(c *Ctx) {
	p := c.P
	n := 0
	for _, f := range p.FuncsIn("v1", "json", "jsontext") {
		if f.Body() == nil {
			continue
		}
		info := f.Info()
		k := 0
		for _, ifs := range findAll[*ast.IfStmt](f.Body()) {
			as, ok := ifs.Init.(*ast.AssignStmt)
			if !ok || len(as.Rhs) != 1 {
				continue
			}
			call, ok := ast.Unparen(as.Rhs[0]).(*ast.CallExpr)
			if !ok || len(call.Args) != 2 {
				continue
			}
			if cf := Callee(info, call); cf == nil || cf.Name() != "GetOption" {
				continue
			}
			tested := IdentOrSelObj(info, call.Args[1])
			if tested == nil {
				continue
			}
			// constructors joined inside the guarded block
			var joined []types.Object
			for _, jc := range findAll[*ast.CallExpr](ifs.Body) {
				if cf := Callee(info, jc); cf == nil || cf.Name() != "JoinOptions" {
					continue
				}
				for _, a := range jc.Args {
					if ac, ok := ast.Unparen(a).(*ast.CallExpr); ok {
						if o := IdentOrSelObj(info, ac.Fun); o != nil {
							joined = append(joined, o)
						}
					}
				}
			}
			if len(joined) == 0 {
				continue
			}
			n++
			k++
			okSame := false
			var names []string
			for _, o := range joined {
				names = append(names, o.Name())
				if o == tested {
					okSame = true
				}
			}
			c.Oblige(fmt.Sprintf("guard-tests-what-it-sets:%s#%d", f.Name, k), ifs.Pos(), okSame,
				"the guard reads option `"+tested.Name()+"` but the block joins `"+strings.Join(names, ", ")+"`: once `"+tested.Name()+"` is set the block never runs")
		}
	}
	c.Floor("test-then-set option guards", n, 3)
}

func ruleV13(c *Ctx) {
	p := c.P
	ft := p.Flags()
	legacy := ft.Single["ReportErrorsWithLegacySemantics"]
	f := p.Func("json.unmarshalDecode")
	if f == nil || f.Body() == nil {
		c.Undecide("json.unmarshalDecode", "function missing")
		return
	}
	info := f.Info()
	usig := unmarshalerSig(p)
	type st struct {
		legacy  tri
		checked bool
	}
	bad := ""
	nDispatch := 0
	var chkErr types.Object
	fl := &Flow[st]{Fn: f}
	fl.Node = func(nd ast.Node, s st) []st {
		for _, call := range CallsIn(nd) {
			if _, ok := MethodCall(info, call, "jsontext", "decoderState", "CheckNextValue"); ok {
				s.checked = true
				if as, ok := nd.(*ast.AssignStmt); ok && len(as.Lhs) == 1 {
					chkErr = IdentObj(info, as.Lhs[0])
				}
			}
			if Callee(info, call) == nil {
				if sg, ok := types.Unalias(info.TypeOf(call.Fun)).Underlying().(*types.Signature); ok && usig != nil && types.Identical(sg, usig) {
					nDispatch++
					if s.legacy != triNo && !s.checked && bad == "" {
						bad = "arshaler dispatched at " + p.Position(call.Pos()) + " on a path where legacy error semantics may be on and the next value was not syntax-checked first"
					}
				}
			}
		}
		if _, ok := nd.(*ast.ReturnStmt); ok {
			return nil
		}
		return []st{s}
	}
	fl.Leaf = func(e ast.Expr, s st) (t, fs []st) {
		if v, ok := IsFlagGet(info, e); ok && v&^1 == legacy {
			s1, s2 := s, s
			s1.legacy, s2.legacy = triYes, triNo
			return []st{s1}, []st{s2}
		}
		return []st{s}, []st{s}
	}
	fl.Run(st{})
	if nDispatch == 0 {
		c.Undecide("json.unmarshalDecode/dispatch", "no arshaler dispatch found")
		return
	}
	c.Oblige("syntax-check-before-dispatch", f.Pos(), bad == "", bad)
	// the error of CheckNextValue is returned (not dropped)
	retErr := false
	if chkErr != nil {
		for _, ifs := range findAll[*ast.IfStmt](f.Body()) {
			if v, nonNil, ok := ErrCmp(info, ifs.Cond); ok && v == chkErr && nonNil {
				for _, r := range findAll[*ast.ReturnStmt](ifs.Body) {
					if len(r.Results) == 1 && !IsNilIdent(info, r.Results[0]) {
						retErr = true
					}
				}
			}
		}
	}
	c.Oblige("syntax-check-error-returned", f.Pos(), retErr, "the error of CheckNextValue is not returned before the target is touched")
	// the pre-validation is told whether this is the last value, exactly as the caller of unmarshalDecode was
	// (trailing garbage after the last value must be found before the target is written)
	var lastParam *types.Var
	if f.Obj != nil {
		sig := f.Obj.Type().(*types.Signature)
		for i := 0; i < sig.Params().Len(); i++ {
			if b, ok := sig.Params().At(i).Type().(*types.Basic); ok && b.Kind() == types.Bool {
				lastParam = sig.Params().At(i)
			}
		}
	}
	okLast, nChk := true, 0
	InspectNoLit(f.Body(), func(nd ast.Node) bool {
		if call, ok := nd.(*ast.CallExpr); ok {
			if _, ok := MethodCall(info, call, "jsontext", "decoderState", "CheckNextValue"); ok && len(call.Args) == 1 {
				nChk++
				if lastParam == nil || IdentObj(info, call.Args[0]) != lastParam {
					okLast = false
				}
			}
		}
		return true
	})
	c.Oblige("syntax-check-covers-trailing-input", f.Pos(), nChk > 0 && okLast, "CheckNextValue is not given unmarshalDecode's own `last` argument: with a constant, trailing bytes after the final value are only noticed after the target was modified")
}

func ruleV14(c *Ctx) {
	p := c.P
	decT := p.NamedType("v1", "Decoder")
	if decT == nil {
		c.Undecide("v1.Decoder", "type missing")
		return
	}
	sets := map[string]string{}
	var pos = map[string]*FuncInfo{}
	for _, f := range p.FuncsIn("v1") {
		if f.Decl == nil || f.Body() == nil || f.Obj == nil {
			continue
		}
		sig := f.Obj.Type().(*types.Signature)
		if sig.Recv() == nil || !isNamed(sig.Recv().Type(), pkgAlias["v1"], "Decoder") {
			continue
		}
		info := f.Info()
		consumes := false
		InspectNoLit(f.Body(), func(nd ast.Node) bool {
			if call, ok := nd.(*ast.CallExpr); ok {
				if cf := Callee(info, call); cf != nil && cf.Pkg() != nil && cf.Pkg().Path() == pkgAlias["jsontext"] && (cf.Name() == "ReadToken" || cf.Name() == "ReadValue") {
					// only direct statements of the method (not in the error branch of More)
					consumes = true
				}
			}
			return true
		})
		if !consumes {
			continue
		}
		cleared := map[string]bool{}
		for _, fs := range fieldStores(info, f.Body(), false) {
			if b, ok := fs.Field.Type().Underlying().(*types.Basic); !ok || b.Kind() != types.Bool {
				continue
			}
			if as, ok := fs.Stmt.(*ast.AssignStmt); ok && len(as.Lhs) == 1 && len(as.Rhs) == 1 {
				if tv, ok := info.Types[as.Rhs[0]]; ok && tv.Value != nil && tv.Value.String() == "false" {
					cleared[fs.Field.Name()] = true
				}
			}
		}
		if len(cleared) == 0 {
			continue
		}
		sets[f.Name] = strings.Join(sortedKeys(cleared), ",")
		pos[f.Name] = f
	}
	if !c.Floor("v1.Decoder methods that consume input and clear state flags", len(sets), 2) {
		return
	}
	// all must agree with the largest set
	best := ""
	for _, s := range sets {
		if len(s) > len(best) {
			best = s
		}
	}
	for _, name := range sortedKeys(sets) {
		c.Oblige("flags-reset-together:"+name, pos[name].Pos(), sets[name] == best, "clears {"+sets[name]+"} while a sibling consuming method clears {"+best+"} (a stale flag skews InputOffset)")
	}
}
