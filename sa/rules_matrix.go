package main

import (
	"fmt"
	"go/ast"
	"go/token"
	"go/types"
	"sort"
	"strings"
)

func init() {
	register(&Rule{ID: "MATRIX", Doc: "sibling recognisers agree on which checks exist and which option controls them: every name-accepting path (ReadToken, ReadValue, consumeObject, WriteToken, WriteValue, AppendRaw, reformatObject) inserts the name into the current namespace under exactly !AllowDuplicateNames (and isActiveNamespace on the token paths) and fails with ErrDuplicateName; every ConsumeString* call validates UTF-8 unless exactly AllowInvalidUTF8; every jsonwire.AppendQuote on an output path receives the coder's/options' real flags (two reviewed exceptions); a non-string token at a name position yields ErrNonStringName in every state-machine method that can start a value", Run: ruleMATRIX})
	register(&Rule{ID: "EOF-1", Doc: "a clean end of stream is only reported between top-level values and only on the scanner's own verdict: every place that produces io.EOF is guarded by depth == 1, and inside jsontext the guard compares the error for identity with io.ErrUnexpectedEOF (the scanner's sentinel) — never with errors.Is/As, which would also match a failing reader's error that fetch wrapped", Run: ruleEOF1})
	register(&Rule{ID: "POS-1", Doc: "error positions that claim to be after a value are only built after a value was consumed: newUnmarshalErrorAfter* is only called at points dominated by a consuming decoder call (ReadToken, ReadValue, SkipValue or a nested unmarshal dispatch); helpers inherit the fact from all their call sites", Run: rulePOS1})
	register(&Rule{ID: "PANIC-1", Doc: "explicit panics are classified: every panic in the implementation packages is either an internal invariant (message starts with BUG or unreachable) or a documented API-misuse panic from the reviewed list, and no function has more panic sites than when it was reviewed", Run: rulePANIC1})
}

func ruleMATRIX(c *Ctx) {
	p := c.P
	ft := p.Flags()
	allowDup := ft.Single["AllowDuplicateNames"]
	allowUTF := ft.Single["AllowInvalidUTF8"]
	// O2: duplicate names
	type impl struct {
		name  string
		token bool // token-level path: also needs isActiveNamespace and NeedObjectName
	}
	impls := []impl{
		{"jsontext.(*decoderState).ReadToken", true}, {"jsontext.(*decoderState).ReadValue", true},
		{"jsontext.(*decoderState).consumeObject", false},
		{"jsontext.(*encoderState).WriteToken", true}, {"jsontext.(*encoderState).WriteValue", true},
		{"jsontext.(*encoderState).AppendRaw", true}, {"jsontext.(*encoderState).reformatObject", false},
	}
	dupErr := p.Lookup("jsontext", "ErrDuplicateName")
	for _, im := range impls {
		f := p.Func(im.name)
		if f == nil || f.Body() == nil {
			c.Undecide(im.name, "function missing")
			continue
		}
		// the insertQuoted call may sit in a private helper of the subject (extract-method): follow the call chain
		type link struct {
			fn   *FuncInfo
			call *ast.CallExpr
		}
		var chain []link // from the subject down to the function that holds the insert; chain[i].call is the call made in chain[i].fn
		var ins *ast.CallExpr
		inl0 := p.InlineHelpers(f)
		inl := func(call *ast.CallExpr) *FuncInfo {
			g := inl0(call)
			if g == nil {
				return nil
			}
			for _, other := range impls {
				if other.name != im.name && other.name == g.Name {
					return nil // another name-accepting path, checked under its own name
				}
			}
			return g
		}
		var search func(fn *FuncInfo, path []link, depth int) bool
		search = func(fn *FuncInfo, path []link, depth int) bool {
			found := false
			InspectNoLit(fn.Body(), func(nd ast.Node) bool {
				if call, ok := nd.(*ast.CallExpr); ok && !found {
					if _, ok := MethodCall(fn.Info(), call, "jsontext", "objectNamespace", "insertQuoted"); ok {
						ins, chain, found = call, append([]link{}, path...), true
						chain = append(chain, link{fn, call})
					}
				}
				return !found
			})
			if found || depth >= 3 {
				return found
			}
			InspectNoLit(fn.Body(), func(nd ast.Node) bool {
				if call, ok := nd.(*ast.CallExpr); ok && !found {
					if g := inl(call); g != nil {
						if search(g, append(path, link{fn, call}), depth+1) {
							found = true
						}
					}
				}
				return !found
			})
			return found
		}
		search(f, nil, 0)
		if ins == nil {
			c.Violation("O2-duplicates:"+im.name, f.Pos(), "this name-accepting path never inserts the name into the namespace (duplicate names would be accepted)")
			continue
		}
		holderFn := chain[len(chain)-1].fn
		subject := f
		f = holderFn // the local analysis below runs in the function that holds the insert
		info := f.Info()
		// conditions: the innermost boolean expression containing the call, plus enclosing ifs
		var flags uint64
		active, needName := false, false
		note := func(e ast.Expr) {
			flags |= flagsRead(info, e)
			ast.Inspect(e, func(nd ast.Node) bool {
				if call, ok := nd.(*ast.CallExpr); ok {
					if _, ok := MethodCall(info, call, "jsontext", "stateEntry", "isActiveNamespace"); ok {
						active = true
					}
					if _, ok := MethodCall(info, call, "jsontext", "stateEntry", "NeedObjectName"); ok {
						needName = true
					}
				}
				return true
			})
		}
		// the if statement whose condition contains the call
		var holder *ast.IfStmt
		var x ast.Node = ins
		for x != nil && x != ast.Node(f.Body()) {
			par := p.Parent(f.File, x)
			if ifs, ok := par.(*ast.IfStmt); ok && ifs.Cond == x {
				holder = ifs
				break
			}
			if e, ok := par.(ast.Expr); ok {
				x = e
				continue
			}
			break
		}
		var problems []string
		if holder == nil {
			problems = append(problems, "the result of insertQuoted is not tested")
		} else {
			note(holder.Cond)
			for _, cc := range dominatingConds(p, f, holder) {
				note(cc.cond)
			}
			// conditions around the calls that lead from the subject to the helper
			for _, l := range chain[:len(chain)-1] {
				for _, cc := range enclosingConds(p, l.fn, l.call) {
					note(cc.cond)
				}
			}
			// failure branch mentions ErrDuplicateName
			usesErr := false
			ast.Inspect(holder.Body, func(nd ast.Node) bool {
				if id, ok := nd.(*ast.Ident); ok && info.Uses[id] == dupErr {
					usesErr = true
				}
				return true
			})
			if !usesErr {
				problems = append(problems, "a rejected insert does not produce ErrDuplicateName")
			}
		}
		if flags != allowDup {
			problems = append(problems, "the duplicate check is controlled by "+ft.Names(flags)+" instead of exactly AllowDuplicateNames")
		}
		if im.token && !(active && needName) {
			problems = append(problems, "token-level path lacks the NeedObjectName()/isActiveNamespace() conditions")
		}
		// the isVerbatim argument: constant, ValueFlags.IsVerbatim(), `m > 0` with m from ConsumeSimpleString, or `safeASCII || !NeedEscape(...)`; single definition
		if len(ins.Args) == 2 {
			verb := ast.Unparen(ins.Args[1])
			okVerb := verbatimArgOK(p, f, verb)
			if !okVerb && len(chain) > 1 {
				// a parameter of the helper: judge the argument at the call that enters it
				if pv, _ := IdentObj(info, verb).(*types.Var); pv != nil && f.Obj != nil {
					sig := f.Obj.Type().(*types.Signature)
					for i := 0; i < sig.Params().Len(); i++ {
						if sig.Params().At(i) != pv {
							continue
						}
						l := chain[len(chain)-2]
						if i < len(l.call.Args) {
							okVerb = verbatimArgOK(p, l.fn, l.call.Args[i])
						}
					}
				}
			}
			if !okVerb {
				problems = append(problems, "the isVerbatim argument `"+exprString(verb)+"` is not derived solely from the scanner's own verdict (ConsumeSimpleString / ValueFlags.IsVerbatim / NeedEscape): a name that still needs unquoting would be compared raw")
			}
		}
		_ = subject
		c.Oblige("O2-duplicates:"+im.name, ins.Pos(), len(problems) == 0, strings.Join(problems, "; "))
	}
	// O3: UTF-8
	nCS, nAQ := 0, 0
	for _, f := range p.FuncsIn("json", "jsontext", "jsonwire", "v1") {
		if f.Body() == nil {
			continue
		}
		info := f.Info()
		InspectNoLit(f.Body(), func(nd ast.Node) bool {
			call, ok := nd.(*ast.CallExpr)
			if !ok {
				return true
			}
			cf := Callee(info, call)
			if cf == nil || cf.Pkg() == nil || cf.Pkg().Path() != pkgAlias["jsonwire"] {
				return true
			}
			switch cf.Name() {
			case "ConsumeString", "ConsumeStringResumable":
				nCS++
				last := call.Args[len(call.Args)-1]
				okArg := false
				if u, ok := ast.Unparen(last).(*ast.UnaryExpr); ok && u.Op == token.NOT {
					if v, ok := IsFlagGet(info, u.X); ok && v&^1 == allowUTF {
						okArg = true
					}
				}
				// a local defined once as !Flags.Get(AllowInvalidUTF8) (hoisted out of a loop)
				if lv, _ := IdentObj(info, last).(*types.Var); lv != nil {
					nDef, okDef := 0, false
					InspectNoLit(f.Body(), func(m ast.Node) bool {
						if as, isAs := m.(*ast.AssignStmt); isAs && len(as.Lhs) == len(as.Rhs) {
							for i, l := range as.Lhs {
								if IdentObj(info, l) == lv {
									nDef++
									if u, ok := ast.Unparen(as.Rhs[i]).(*ast.UnaryExpr); ok && u.Op == token.NOT {
										if v, ok := IsFlagGet(info, u.X); ok && v&^1 == allowUTF {
											okDef = true
										}
									}
								}
							}
						}
						return true
					})
					if nDef == 1 && okDef {
						okArg = true
					}
				}
				// pure forwarding of the caller's own validateUTF8 parameter inside jsonwire
				if pv, _ := IdentObj(info, last).(*types.Var); pv != nil && f.Obj != nil {
					sig := f.Obj.Type().(*types.Signature)
					for i := 0; i < sig.Params().Len(); i++ {
						if sig.Params().At(i) == pv {
							okArg = true
						}
					}
				}
				c.Oblige(fmt.Sprintf("O3-utf8:%s->%s", f.Name, cf.Name()), call.Pos(), okArg, "validateUTF8 argument is `"+exprString(last)+"`, expected !Flags.Get(AllowInvalidUTF8)")
			case "AppendQuote":
				nAQ++
				last := call.Args[len(call.Args)-1]
				okArg := false
				reason := ""
				if u, ok := ast.Unparen(last).(*ast.UnaryExpr); ok && u.Op == token.AND {
					if fld := SelField(info, u.X); fld != nil && fld.Name() == "Flags" {
						okArg = true
					}
					if _, isLit := ast.Unparen(u.X).(*ast.CompositeLit); isLit {
						switch f.Name {
						case "jsontext.AppendQuote":
							okArg, reason = true, "exception: public helper documented to quote under default options"
						case "json.parseFieldOptions":
							okArg, reason = true, "exception: canonical pre-quoting of struct names; emission is guarded by !nameNeedEscape (SINK-1)"
						}
					}
				}
				if pv, _ := IdentObj(info, last).(*types.Var); pv != nil && f.Obj != nil {
					sig := f.Obj.Type().(*types.Signature)
					for i := 0; i < sig.Params().Len(); i++ {
						if sig.Params().At(i) == pv {
							okArg = true
						}
					}
				}
				if okArg && reason != "" {
					c.OK(fmt.Sprintf("O3-quote-flags:%s", f.Name), call.Pos(), reason)
				} else {
					c.Oblige(fmt.Sprintf("O3-quote-flags:%s", f.Name), call.Pos(), okArg, "AppendQuote is given `"+exprString(last)+"` instead of the coder's/options' flags (escape and UTF-8 options would be ignored)")
				}
			}
			return true
		})
	}
	c.Floor("ConsumeString* call sites", nCS, 3)
	c.Floor("jsonwire.AppendQuote call sites", nAQ, 8)
	// O5: name position accepts strings only: every stateMachine method that starts a non-string value rejects NeedObjectName with ErrNonStringName
	nonStr := p.Lookup("jsontext", "ErrNonStringName")
	for _, m := range []string{"appendLiteral", "pushObject", "pushArray"} {
		f := p.Func("jsontext.(*stateMachine)." + m)
		if f == nil || f.Body() == nil {
			c.Undecide("jsontext.(*stateMachine)."+m, "method missing")
			continue
		}
		ok := nameGuardOK(p, f, nonStr)
		c.Oblige("O5-string-names:"+m, f.Pos(), ok, "a non-string token at a name position is not rejected with ErrNonStringName")
	}
	if f := p.Func("jsontext.(*stateMachine).appendNumber"); f != nil && f.Body() != nil {
		delegates := false
		for _, call := range findAll[*ast.CallExpr](f.Body()) {
			if _, ok := MethodCall(f.Info(), call, "jsontext", "stateMachine", "appendLiteral"); ok {
				delegates = true
			}
		}
		if !delegates {
			// must have its own NeedObjectName guard
			ok := nameGuardOK(p, f, nonStr)
			c.Oblige("O5-string-names:appendNumber", f.Pos(), ok, "numbers at a name position are not rejected")
		} else {
			c.OK("O5-string-names:appendNumber", f.Pos(), "delegates to appendLiteral")
		}
	}
}

func rulePOS1(c *Ctx) {
	p := c.P
	usig := unmarshalerSig(p)
	isAfter := func(fn *types.Func) bool {
		return fn != nil && fn.Pkg() != nil && fn.Pkg().Path() == pkgAlias["json"] && strings.HasPrefix(fn.Name(), "newUnmarshalErrorAfter")
	}
	// nodes: unmarshal closures and named helpers of package json with a *jsontext.Decoder parameter
	type node struct {
		f       *FuncInfo
		entry   bool
		callers int
	}
	nodes := map[*FuncInfo]*node{}
	for _, f := range p.FuncsIn("json") {
		if f.Body() == nil {
			continue
		}
		uses := false
		InspectNoLit(f.Body(), func(nd ast.Node) bool {
			if call, ok := nd.(*ast.CallExpr); ok && isAfter(Callee(f.Info(), call)) {
				uses = true
			}
			return true
		})
		if !uses {
			continue
		}
		if f.Obj != nil && isAfter(f.Obj) {
			continue // the constructors themselves
		}
		nodes[f] = &node{f: f, entry: f.Lit == nil}
	}
	// pass-through helpers: unexported functions that only call a node carry the caller's fact along
	for changed := true; changed; {
		changed = false
		for _, f := range p.FuncsIn("json") {
			if f.Body() == nil || nodes[f] != nil || f.Decl == nil || f.Obj == nil || ast.IsExported(f.Obj.Name()) || isAfter(f.Obj) {
				continue
			}
			calls := false
			InspectNoLit(f.Body(), func(nd ast.Node) bool {
				if call, ok := nd.(*ast.CallExpr); ok {
					if cf := Callee(f.Info(), call); cf != nil {
						if hf := p.FuncOf(cf); hf != nil && nodes[hf] != nil && hf.Decl != nil {
							calls = true
						}
					}
				}
				return !calls
			})
			if calls && len(callersOf(p, f.Obj)) > 0 {
				nodes[f] = &node{f: f, entry: true}
				changed = true
			}
		}
	}
	if !c.Floor("functions that build after-value errors", len(nodes), 10) {
		return
	}
	isConsume := func(info *types.Info, call *ast.CallExpr) bool {
		cf := Callee(info, call)
		if cf == nil {
			if t := info.TypeOf(call.Fun); t != nil {
				if sg, ok := types.Unalias(t).Underlying().(*types.Signature); ok {
					if usig != nil && types.Identical(sg, usig) {
						return true
					}
					// user callbacks receiving the decoder / bytes after ReadValue are covered by ReadValue itself
					if hasParamNamed(sg, "jsontext", "Decoder") {
						return true
					}
				}
			}
			return false
		}
		if cf.Pkg() != nil && cf.Pkg().Path() == pkgAlias["jsontext"] {
			switch cf.Name() {
			case "ReadToken", "ReadValue", "SkipValue":
				return true
			}
		}
		if cf.Pkg() != nil && cf.Pkg().Path() == pkgAlias["json"] {
			switch cf.Name() {
			case "unmarshalValueAny", "unmarshalObjectAny", "unmarshalArrayAny":
				return true
			}
		}
		return false
	}
	type st struct{ read bool }
	results := map[*FuncInfo]string{}
	for iter := 0; iter < 6; iter++ {
		changed := false
		entrySeen := map[*FuncInfo]bool{}
		entryAll := map[*FuncInfo]bool{}
		for _, nd := range nodes {
			f := nd.f
			info := f.Info()
			bad := ""
			fl := &Flow[st]{Fn: f}
			visit := func(n ast.Node, s st) st {
				for _, call := range CallsIn(n) {
					cf := Callee(info, call)
					if isAfter(cf) {
						if !s.read && bad == "" {
							bad = fmt.Sprintf("%s called at %s on a path where no token or value has been consumed yet (offset and pointer of the \"previous\" value are meaningless)", cf.Name(), p.Position(call.Pos()))
						}
						continue
					}
					if cf != nil {
						if hf := p.FuncOf(cf); hf != nil && nodes[hf] != nil && hf != f {
							if !entrySeen[hf] {
								entrySeen[hf] = true
								entryAll[hf] = true
							}
							entryAll[hf] = entryAll[hf] && s.read
						}
					}
					if isConsume(info, call) {
						s.read = true
					}
				}
				return s
			}
			fl.Node = func(n ast.Node, s st) []st {
				s = visit(n, s)
				if _, ok := n.(*ast.ReturnStmt); ok {
					return nil
				}
				return []st{s}
			}
			fl.Leaf = func(e ast.Expr, s st) (t, fs []st) { s = visit(e, s); return []st{s}, []st{s} }
			entry := false
			if f.Lit == nil {
				entry = nd.entry
			}
			fl.Run(st{read: entry})
			results[f] = bad
		}
		for f, nd := range nodes {
			if f.Lit != nil {
				continue
			}
			e := entrySeen[f] && entryAll[f]
			if e != nd.entry {
				nd.entry = e
				changed = true
			}
		}
		if !changed {
			break
		}
	}
	var fs []*FuncInfo
	for f := range nodes {
		fs = append(fs, f)
	}
	sort.Slice(fs, func(i, j int) bool { return fs[i].Pos() < fs[j].Pos() })
	for _, f := range fs {
		c.Oblige("after-means-after:"+f.Name, f.Pos(), results[f] == "", results[f])
	}
}

var dumpPanicLeads bool

// reviewed panic sites: function -> number of panic calls (by class); a function may lose panics but not gain them
var panicBudget = map[string]int{}

var misusePhrases = []string{
	"jsontext: invalid nil", "jsontext: cannot reset", "invalid JSON token kind", "invalid JSON token", "invalid jsontext.Token",
	"illegal AppendFloat bit size", "unauthorized call to Export", "json: invalid character", "unknown option", "input type %v must be",
}

func rulePANIC1(c *Ctx) {
	p := c.P
	n := 0
	counts := map[string]int{}
	leads := map[string]int{}
	for _, f := range p.FuncsIn("json", "jsontext", "internal", "jsonflags", "jsonopts", "jsonwire", "v1") {
		if f.Body() == nil {
			continue
		}
		info := f.Info()
		k := 0
		InspectNoLit(f.Body(), func(nd ast.Node) bool {
			call, ok := nd.(*ast.CallExpr)
			if !ok || !IsBuiltin(info, call, "panic") || len(call.Args) != 1 {
				return true
			}
			n++
			k++
			counts[f.Name]++
			// leading string constant of the message
			msg := ""
			var lead func(e ast.Expr) string
			lead = func(e ast.Expr) string {
				e = ast.Unparen(e)
				if s, ok := ConstStr(info, e); ok {
					return s
				}
				switch x := e.(type) {
				case *ast.BinaryExpr:
					if x.Op == token.ADD {
						return lead(x.X)
					}
				case *ast.CallExpr:
					if cf := Callee(info, x); cf != nil && cf.Pkg() != nil && cf.Pkg().Path() == "fmt" && len(x.Args) > 0 {
						return lead(x.Args[0])
					}
				}
				return ""
			}
			msg = lead(call.Args[0])
			class := ""
			switch {
			case strings.HasPrefix(msg, "BUG") || strings.HasPrefix(msg, "unreachable"):
				class = "invariant"
			default:
				for _, ph := range misusePhrases {
					if strings.HasPrefix(msg, ph) {
						class = "documented misuse"
					}
				}
			}
			leads[pkgOfName(f.Name)+"|"+msg]++
			key := fmt.Sprintf("panic:%s#%d", f.Name, k)
			c.Oblige(key, call.Pos(), class != "", "unclassified panic (message `"+msg+"`): neither an internal invariant (BUG/unreachable) nor a documented API-misuse panic")
			return true
		})
	}
	c.Floor("explicit panic sites", n, 30)
	// budget: no package gains panic sites relative to the reviewed tree (per package, so that
	// moving a panic into an extracted helper is not news; every site is classified above)
	pkgOf := func(fn string) string {
		if i := strings.Index(fn, "."); i > 0 {
			return fn[:i]
		}
		return fn
	}
	if dumpPanicLeads {
		fmt.Println("var panicLeadTable = map[string]int{")
		for _, k := range sortedKeys(leads) {
			fmt.Printf("\t%q: %d,\n", k, leads[k])
		}
		fmt.Println("}")
	}
	// a package may only gain panic sites that repeat a message it already had when the panics were reviewed
	// (splitting a function duplicates its final `panic("invalid ...")`; a panic with a new message is news)
	perPkgNew := map[string][]string{}
	pkgsSeen := map[string]bool{}
	for k := range leads {
		pk := k[:strings.Index(k, "|")]
		pkgsSeen[pk] = true
		if _, known := panicLeadTable[k]; !known {
			perPkgNew[pk] = append(perPkgNew[pk], "`"+k[strings.Index(k, "|")+1:]+"`")
		}
	}
	_ = pkgOf
	for _, pk := range sortedKeys(pkgsSeen) {
		sort.Strings(perPkgNew[pk])
		c.Oblige("panic-budget:"+pk, token.NoPos, len(perPkgNew[pk]) == 0, "package "+pk+" has explicit panics with messages that were not there when the panics were reviewed: "+strings.Join(perPkgNew[pk], ", "))
	}
}

func pkgOfName(fn string) string {
	if i := strings.Index(fn, "."); i > 0 {
		return fn[:i]
	}
	return fn
}

// nameGuardOK checks, path-sensitively and independent of the if/switch form,
// that a stateMachine method returns nil only on paths where NeedObjectName()
// was tested and false, and returns ErrNonStringName wherever it was true.
func nameGuardOK(p *Program, f *FuncInfo, nonStr types.Object) bool {
	info := f.Info()
	type st struct{ need tri }
	ok, nret := true, 0
	fl := &Flow[st]{Fn: f}
	fl.Node = func(n ast.Node, s st) []st {
		if r, isRet := n.(*ast.ReturnStmt); isRet {
			nret++
			if len(r.Results) != 1 {
				ok = false
				return nil
			}
			res := ast.Unparen(r.Results[0])
			switch {
			case IsNilIdent(info, res):
				if s.need != triNo {
					ok = false
				}
			case s.need == triYes:
				if nonStr == nil || IdentObj(info, res) != nonStr {
					ok = false
				}
			}
			return nil
		}
		return []st{s}
	}
	fl.Leaf = func(e ast.Expr, s st) (t, fs []st) {
		if call, isCall := ast.Unparen(e).(*ast.CallExpr); isCall {
			if _, isNeed := MethodCall(info, call, "jsontext", "stateEntry", "NeedObjectName"); isNeed {
				return []st{{triYes}}, []st{{triNo}}
			}
		}
		return []st{s}, []st{s}
	}
	fl.Run(st{})
	return ok && nret > 0
}

// verbatimArgOK judges an isVerbatim argument in the context of function fn:
// a constant, ValueFlags.IsVerbatim(), `m > 0` with m from ConsumeSimpleString,
// `safeASCII || !NeedEscape(..)`, or a local all of whose definitions are such.
func verbatimArgOK(p *Program, fn *FuncInfo, e ast.Expr) bool {
	info := fn.Info()
	var judge func(e ast.Expr, depth int) bool
	judge = func(e ast.Expr, depth int) bool {
		e = ast.Unparen(e)
		if tv, ok := info.Types[e]; ok && tv.Value != nil {
			return true
		}
		switch x := e.(type) {
		case *ast.CallExpr:
			if cf := Callee(info, x); cf != nil && cf.Name() == "IsVerbatim" {
				return true
			}
		case *ast.BinaryExpr:
			if x.Op == token.GTR {
				if v := IdentObj(info, x.X); v != nil {
					for _, d := range defsOf(info, fn.Body(), v) {
						if dc, ok := ast.Unparen(d).(*ast.CallExpr); ok && FuncCall(info, dc, "jsonwire", "ConsumeSimpleString") {
							return true
						}
					}
				}
			}
			if x.Op == token.LOR {
				if u, ok := ast.Unparen(x.Y).(*ast.UnaryExpr); ok && u.Op == token.NOT {
					if nc, ok := ast.Unparen(u.X).(*ast.CallExpr); ok && FuncCall(info, nc, "jsonwire", "NeedEscape") {
						return true
					}
				}
			}
		case *ast.Ident:
			v := IdentObj(info, x)
			if v == nil || depth > 1 {
				return false
			}
			defs := defsOf(info, fn.Body(), v)
			if len(defs) == 0 {
				return false
			}
			for _, d := range defs {
				if judge(d, depth+1) {
					continue
				}
				// one result of a repo helper: judge what the helper returns in that position
				if !resultOK(p, fn, v, d) {
					return false
				}
			}
			return true
		}
		return false
	}
	return judge(e, 0)
}

// resultOK: v is assigned from one result of a call to a repo function; every
// return statement of that function must yield an acceptable isVerbatim value
// in that position.
func resultOK(p *Program, fn *FuncInfo, v types.Object, def ast.Expr) bool {
	info := fn.Info()
	call, ok := ast.Unparen(def).(*ast.CallExpr)
	if !ok {
		return false
	}
	cf := Callee(info, call)
	if cf == nil {
		return false
	}
	g := p.FuncOf(cf)
	if g == nil || g.Body() == nil {
		return false
	}
	idx := -1
	ast.Inspect(fn.Body(), func(n ast.Node) bool {
		if as, ok := n.(*ast.AssignStmt); ok && len(as.Rhs) == 1 && ast.Unparen(as.Rhs[0]) == ast.Expr(call) {
			for i, l := range as.Lhs {
				if IdentObj(info, l) == v {
					idx = i
				}
			}
		}
		return true
	})
	if idx < 0 {
		return false
	}
	nret, okAll := 0, true
	InspectNoLit(g.Body(), func(n ast.Node) bool {
		if r, ok := n.(*ast.ReturnStmt); ok {
			nret++
			if idx >= len(r.Results) || !verbatimArgOK(p, g, r.Results[idx]) {
				okAll = false
			}
		}
		return true
	})
	return nret > 0 && okAll
}

func ruleEOF1(c *Ctx) {
	p := c.P
	// EOF only at depth 1: every `err = io.EOF` / `return io.EOF` in jsontext decode paths and the arshal wrappers is guarded by Depth()==1 / prevDepth == 1
	nEOF := 0
	perFunc := map[*FuncInfo]int{}
	for _, f := range p.FuncsIn("jsontext", "json") {
		if f.Body() == nil {
			continue
		}
		info := f.Info()
		eofObj := func(e ast.Expr) bool {
			o := IdentOrSelObj(info, e)
			return o != nil && o.Pkg() != nil && o.Pkg().Path() == "io" && o.Name() == "EOF"
		}
		InspectNoLit(f.Body(), func(nd ast.Node) bool {
			var site ast.Node
			switch x := nd.(type) {
			case *ast.AssignStmt:
				if len(x.Rhs) == 1 && len(x.Lhs) == 1 && eofObj(x.Rhs[0]) && isErrorType(info.TypeOf(x.Lhs[0])) {
					site = x
				}
			case *ast.ReturnStmt:
				for _, r := range x.Results {
					if eofObj(r) {
						site = x
					}
				}
			}
			if site == nil {
				return true
			}
			nEOF++
			perFunc[f]++
			guarded := false
			identity, viaIs := false, false
			for _, cc := range enclosingConds(p, f, site) {
				ast.Inspect(cc.cond, func(m ast.Node) bool {
					if call, ok := m.(*ast.CallExpr); ok && (FuncCall(info, call, "errors", "Is") || FuncCall(info, call, "errors", "As")) {
						for _, a := range call.Args {
							if o := IdentOrSelObj(info, a); o != nil && o.Pkg() != nil && o.Pkg().Path() == "io" && o.Name() == "ErrUnexpectedEOF" {
								viaIs = true
							}
						}
					}
					be, ok := m.(*ast.BinaryExpr)
					if !ok || be.Op != token.EQL {
						return true
					}
					for _, side := range []ast.Expr{be.X, be.Y} {
						if o := IdentOrSelObj(info, side); o != nil && o.Pkg() != nil && o.Pkg().Path() == "io" && o.Name() == "ErrUnexpectedEOF" {
							identity = true
						}
					}
					if v, isC := ConstI64(info, be.Y); isC && v == 1 {
						if call, ok := ast.Unparen(be.X).(*ast.CallExpr); ok {
							if cf := Callee(info, call); cf != nil && cf.Name() == "Depth" {
								guarded = true
							}
						}
						if _, isSel := ast.Unparen(be.X).(*ast.SelectorExpr); isSel {
							// the depth may be kept in a field of a local struct: `prev.depth, prev.length = X.DepthLength()`
							want := exprString(be.X)
							InspectNoLit(f.Body(), func(q ast.Node) bool {
								as, ok := q.(*ast.AssignStmt)
								if !ok || len(as.Rhs) != 1 {
									return true
								}
								for i, l := range as.Lhs {
									if exprString(l) != want || (len(as.Lhs) > 1 && i != 0) {
										continue
									}
									if call, ok := ast.Unparen(as.Rhs[0]).(*ast.CallExpr); ok {
										if cf := Callee(info, call); cf != nil && (cf.Name() == "DepthLength" || cf.Name() == "Depth") {
											guarded = true
										}
									}
								}
								return true
							})
						}
						if v2 := IdentObj(info, be.X); v2 != nil {
							for _, d := range defsOf(info, f.Body(), v2) {
								if call, ok := ast.Unparen(d).(*ast.CallExpr); ok {
									if cf := Callee(info, call); cf != nil && (cf.Name() == "DepthLength" || cf.Name() == "Depth") {
										guarded = true
									}
								}
							}
						}
					}
					return true
				})
			}
			c.Oblige(fmt.Sprintf("eof-at-boundary:%s@%d", f.Name, perFunc[f]), site.Pos(), guarded, "io.EOF is produced without a depth == 1 guard (EOF inside a value must be io.ErrUnexpectedEOF)")
			if f.Pkg != nil && f.Pkg.PkgPath == pkgAlias["jsontext"] && (identity || viaIs) {
				// the scanner's own sentinel, not a reader's error that merely wraps it (fetch reports reader failures as *ioError, which unwraps)
				c.Oblige(fmt.Sprintf("eof-from-own-sentinel:%s@%d", f.Name, perFunc[f]), site.Pos(), identity && !viaIs,
					"a clean io.EOF is derived with errors.Is/As from io.ErrUnexpectedEOF: a failing reader whose error wraps ErrUnexpectedEOF would end the stream silently; the conversion must test identity with the scanner's own sentinel")
			}
			return true
		})
	}
	c.Floor("places that introduce io.EOF", nEOF, 4)
	// the boolean form of the same verdict: AtEOF (used by package json to answer io.EOF early) must be the
	// identity test too — `err != nil` would turn any read failure into a clean end of stream
	if f := p.Func("jsontext.(*decoderState).AtEOF"); f == nil || f.Body() == nil {
		c.Undecide("jsontext.(*decoderState).AtEOF", "function missing")
	} else {
		info := f.Info()
		okAll, nret := true, 0
		InspectNoLit(f.Body(), func(nd ast.Node) bool {
			r, ok := nd.(*ast.ReturnStmt)
			if !ok || len(r.Results) != 1 {
				return true
			}
			nret++
			res := ast.Unparen(r.Results[0])
			if tv, ok := info.Types[res]; ok && tv.Value != nil && tv.Value.String() == "false" {
				return true
			}
			be, ok := res.(*ast.BinaryExpr)
			identity := false
			if ok && be.Op == token.EQL {
				for _, side := range []ast.Expr{be.X, be.Y} {
					if o := IdentOrSelObj(info, side); o != nil && o.Pkg() != nil && o.Pkg().Path() == "io" && o.Name() == "ErrUnexpectedEOF" {
						identity = true
					}
				}
			}
			if !identity {
				okAll = false
			}
			return true
		})
		c.Oblige("ateof-own-sentinel", f.Pos(), nret > 0 && okAll, "AtEOF does not answer with an identity test against io.ErrUnexpectedEOF: a transient read error would be reported to callers as a clean end of stream")
	}
}
