package main

import (
	"fmt"
	"go/ast"
	"go/token"
	"go/types"
	"strings"
)

func init() {
	register(&Rule{ID: "NULL-1", Doc: "a JSON null zeroes its destination: every null branch of an unmarshal closure (a jsontext.Kind compared with 'n', in switch or if form) calls a zeroing setter on the destination (SetZero, SetBool(false), SetInt(0), ..., *p = zero) unless guarded by MergeWithLegacySemantics, and returns nil; the only exception is the invalid-type closure, which has nothing to zero; a quoted null (`string(val) == \"null\"`, the v1 `,string` case) is a null branch too; and wherever a null branch zeroes a bool/number/string destination with a typed setter, the zeroing is under a MergeWithLegacySemantics test (v1: null leaves a non-nil-able value unchanged)", Run: ruleNULL1})
	register(&Rule{ID: "MERGE-1", Doc: "container merge semantics are wired as documented: the slice closure zeroes each reused element (the guard starts true and is cleared only right after Value.Grow) and trims to the number of elements on every exit after it expanded the length; the array closure zero-fills the missing tail; the map closure seeds the scratch value from the existing entry (unless MergeWithLegacySemantics), stores every decoded entry back, and records every stored key in the duplicate-tracking set when that set exists", Run: ruleMERGE1})
	register(&Rule{ID: "ANYPATH-1", Doc: "the untyped fast paths are entered only under their documented guards: unmarshalValueAny requires a nil `any` destination, no AllowDuplicateNames/FormatTag and no caller function that applies to any-representable types; marshalValueAny requires `any`, no StringifyNumbers/TagFlags and no such caller function; the fromAny marker is the OR over all joined function lists and is computed by castableToFromAny for each function's own type; both routes parse numbers with 64 bits and build strings through makeString", Run: ruleANYPATH1})
	register(&Rule{ID: "INTERN-1", Doc: "the string cache can only return an equal string: every return of makeString is string(b) of its argument or a cache entry on a path where the entry was compared equal to string(b) (or was just stored from it)", Run: ruleINTERN1})
}

// unmarshalClosures returns the unmarshaler-typed function literals of package json.
func unmarshalClosures(p *Program) []*FuncInfo {
	usig := unmarshalerSig(p)
	var out []*FuncInfo
	for _, f := range p.FuncsIn("json", "v1") {
		if f.Lit == nil {
			continue
		}
		if t := f.Info().TypeOf(f.Lit); t != nil {
			if s, ok := t.Underlying().(*types.Signature); ok && usig != nil && types.Identical(s, usig) {
				out = append(out, f)
			}
		}
	}
	return out
}

// zeroes reports whether body contains a zeroing of the destination and whether it is conditional on options.
func zeroes(p *Program, f *FuncInfo, body ast.Node) (found bool, guardFlags uint64) {
	found, guardFlags = zeroesIn(p, f, body)
	// the zeroing may live in a private helper called from the branch (extract-method)
	for _, g := range helpersCalledIn(p, f, body) {
		fz, fg := zeroesIn(p, g, g.Body())
		found = found || fz
		guardFlags |= fg
	}
	return
}

// helpersCalledIn lists the private helpers (unexported, same package, with a body, or a local
// closure variable) called inside node n of function f, transitively to depth 2.
func helpersCalledIn(p *Program, f *FuncInfo, n ast.Node) []*FuncInfo {
	inl := p.InlineAny(f)
	var out []*FuncInfo
	seen := map[*FuncInfo]bool{}
	var visit func(g *FuncInfo, n ast.Node, depth int)
	visit = func(g *FuncInfo, n ast.Node, depth int) {
		ast.Inspect(n, func(x ast.Node) bool {
			if _, ok := x.(*ast.FuncLit); ok {
				return false
			}
			if call, ok := x.(*ast.CallExpr); ok {
				var h *FuncInfo
				if g == f {
					h = inl(call)
				} else {
					h = p.InlineAny(g)(call)
				}
				if h != nil && !seen[h] && h != f {
					seen[h] = true
					out = append(out, h)
					if depth < 2 {
						visit(h, h.Body(), depth+1)
					}
				}
			}
			return true
		})
	}
	visit(f, n, 1)
	return out
}

// zeroSite is one statement that zeroes an unmarshal destination.
type zeroSite struct {
	pos    token.Pos
	scalar bool      // a typed scalar setter (SetBool/SetInt/SetUint/SetFloat/SetString): the destination cannot be nil-able
	flags  uint64    // option flags read by the conditions around it (inside body)
	conds  []condCtx // those conditions
	info   *types.Info
}

func zeroesIn(p *Program, f *FuncInfo, body ast.Node) (found bool, guardFlags uint64) {
	for _, z := range zeroSitesIn(p, f, body) {
		found = true
		guardFlags |= z.flags
	}
	return
}

func zeroSitesIn(p *Program, f *FuncInfo, body ast.Node) (out []zeroSite) {
	info := f.Info()
	var lastConds []condCtx
	guards := func(x ast.Node) (fl uint64) {
		lastConds = nil
		for _, cc := range enclosingConds(p, f, x) {
			if within(body, cc.cond) {
				fl |= flagsRead(info, cc.cond)
				lastConds = append(lastConds, cc)
			}
		}
		return
	}
	ast.Inspect(body, func(n ast.Node) bool {
		switch x := n.(type) {
		case *ast.FuncLit:
			return false
		case *ast.CallExpr:
			sel, ok := ast.Unparen(x.Fun).(*ast.SelectorExpr)
			if !ok {
				return true
			}
			isZero, scalar := false, false
			switch sel.Sel.Name {
			case "SetZero":
				isZero = len(x.Args) == 0
			case "SetBool":
				if len(x.Args) == 1 {
					if tv, ok := info.Types[x.Args[0]]; ok && tv.Value != nil && tv.Value.String() == "false" {
						isZero, scalar = true, true
					}
				}
			case "SetInt", "SetUint", "SetFloat":
				if len(x.Args) == 1 {
					if tv, ok := info.Types[x.Args[0]]; ok && tv.Value != nil && (tv.Value.String() == "0") {
						isZero, scalar = true, true
					}
				}
			case "SetString":
				if len(x.Args) == 1 {
					if s, ok := ConstStr(info, x.Args[0]); ok && s == "" {
						isZero, scalar = true, true
					}
				}
			}
			if isZero {
				fl := guards(x)
				out = append(out, zeroSite{x.Pos(), scalar, fl, lastConds, info})
			}
		case *ast.AssignStmt:
			// *p = 0 / *p = ""
			if len(x.Lhs) == 1 && len(x.Rhs) == 1 {
				if _, isStar := ast.Unparen(x.Lhs[0]).(*ast.StarExpr); isStar {
					isZ := false
					if tv, ok := info.Types[x.Rhs[0]]; ok && tv.Value != nil && (tv.Value.String() == "0" || tv.Value.String() == `""`) {
						isZ = true
					}
					if cl, ok := ast.Unparen(x.Rhs[0]).(*ast.CompositeLit); ok && len(cl.Elts) == 0 {
						isZ = true
					}
					if isZ {
						fl := guards(x)
						out = append(out, zeroSite{x.Pos(), false, fl, lastConds, info})
					}
				}
			}
		}
		return true
	})
	return
}

func within(outer ast.Node, inner ast.Node) bool {
	return outer.Pos() <= inner.Pos() && inner.End() <= outer.End()
}

func ruleNULL1(c *Ctx) {
	p := c.P
	ft := p.Flags()
	merge := ft.Single["MergeWithLegacySemantics"]
	kindT := p.NamedType("jsontext", "Kind")
	n, ns := 0, 0
	for _, f := range unmarshalClosures(p) {
		info := f.Info()
		type branch struct {
			body ast.Node
			pos  token.Pos
		}
		var branches []branch
		InspectNoLit(f.Body(), func(nd ast.Node) bool {
			switch x := nd.(type) {
			case *ast.SwitchStmt:
				if x.Tag == nil || kindT == nil || !types.Identical(info.TypeOf(x.Tag), kindT) {
					return true
				}
				for _, st := range x.Body.List {
					cc := st.(*ast.CaseClause)
					for _, e := range cc.List {
						if v, ok := ConstI64(info, e); ok && v == 'n' && len(cc.List) == 1 {
							branches = append(branches, branch{&ast.BlockStmt{List: cc.Body, Lbrace: cc.Colon, Rbrace: cc.End()}, cc.Pos()})
						}
					}
				}
			case *ast.IfStmt:
				if be, ok := ast.Unparen(x.Cond).(*ast.BinaryExpr); ok && be.Op == token.EQL {
					if v, isC := ConstI64(info, be.Y); isC && v == 'n' && kindT != nil && types.Identical(info.TypeOf(be.X), kindT) {
						branches = append(branches, branch{x.Body, x.Pos()})
					}
				}
				// a quoted null (`,string` under v1 semantics): `string(val) == "null"`, possibly after an option test
				for _, cj := range conjuncts(x.Cond) {
					if be, ok := cj.(*ast.BinaryExpr); ok && be.Op == token.EQL {
						if sv, isS := ConstStr(info, be.Y); isS && sv == "null" {
							branches = append(branches, branch{x.Body, x.Pos()})
						}
					}
				}
			case *ast.CaseClause:
				// tagless switch: case val.Kind() == 'n':
				if len(x.List) == 1 {
					if be, ok := ast.Unparen(x.List[0]).(*ast.BinaryExpr); ok && be.Op == token.EQL {
						if v, isC := ConstI64(info, be.Y); isC && v == 'n' && kindT != nil && types.Identical(info.TypeOf(be.X), kindT) {
							branches = append(branches, branch{&ast.BlockStmt{List: x.Body, Lbrace: x.Colon, Rbrace: x.End()}, x.Pos()})
						}
					}
				}
			}
			return true
		})
		for i, b := range branches {
			n++
			key := fmt.Sprintf("null-branch:%s#%d", f.Name, i+1)
			found, guards := zeroes(p, f, b.body)
			retNil := false
			for _, r := range findAll[*ast.ReturnStmt](b.body) {
				if len(r.Results) == 1 && IsNilIdent(info, r.Results[0]) {
					retNil = true
				}
				// `return helper(..)` where the helper can return nil
				if len(r.Results) == 1 {
					if call, ok := ast.Unparen(r.Results[0]).(*ast.CallExpr); ok {
						if h := p.InlineAny(f)(call); h != nil {
							for _, hr := range findAll[*ast.ReturnStmt](h.Body()) {
								if len(hr.Results) == 1 && IsNilIdent(h.Info(), hr.Results[0]) {
									retNil = true
								}
							}
						}
					}
				}
			}
			if strings.HasPrefix(f.Name, "json.makeInvalidArshaler") {
				c.OK(key, b.pos, "exception: the invalid-type closure has no representable destination to zero")
				continue
			}
			ok := found && retNil && guards&^merge == 0
			detail := ""
			switch {
			case !found:
				detail = "the null branch does not zero the destination"
			case !retNil:
				detail = "the null branch does not return nil"
			case guards&^merge != 0:
				detail = "zeroing is conditional on option(s) other than MergeWithLegacySemantics: " + ft.Names(guards&^merge)
			}
			c.Oblige(key, b.pos, ok, detail)
			// a scalar destination keeps its value on null under v1 merge semantics (encoding/json: "null has no effect")
			sites := zeroSitesIn(p, f, b.body)
			for _, g := range helpersCalledIn(p, f, b.body) {
				sites = append(sites, zeroSitesIn(p, g, g.Body())...)
			}
			// the option can only suppress the zeroing, never enable it: evaluating the conditions around the zeroing
			// statements with MergeWithLegacySemantics on must not make zeroing more certain than with it off
			if len(sites) > 0 && !strings.HasPrefix(f.Name, "json.makeInvalidArshaler") {
				rank := func(t tri) int {
					switch t {
					case triYes:
						return 2
					case triNo:
						return 0
					}
					return 1
				}
				best := func(mergeOn bool) int {
					b := 0
					for _, z := range sites {
						r := 2
						for _, cc := range z.conds {
							t := boolEval(cc.cond, func(e ast.Expr) (bool, bool) {
								if v, ok := IsFlagGet(z.info, e); ok && v&^1 == merge {
									return mergeOn, true
								}
								return false, false
							})
							if !cc.then {
								switch t {
								case triYes:
									t = triNo
								case triNo:
									t = triYes
								}
							}
							if rank(t) < r {
								r = rank(t)
							}
						}
						if r > b {
							b = r
						}
					}
					return b
				}
				on, off := best(true), best(false)
				c.Oblige(fmt.Sprintf("merge-only-suppresses-zeroing:%s#%d", f.Name, i+1), b.pos, on <= off,
					"the null branch is more certain to zero the destination with MergeWithLegacySemantics on than with it off: the option test is inverted, so under the default v2 semantics a null may leave the old value in place")
			}
			nScalar, unguarded := 0, token.NoPos
			for _, z := range sites {
				if z.scalar {
					nScalar++
					if z.flags&merge == 0 && unguarded == token.NoPos {
						unguarded = z.pos
					}
				}
			}
			if nScalar > 0 {
				ns++
				pos := b.pos
				if unguarded != token.NoPos {
					pos = unguarded
				}
				c.Oblige(fmt.Sprintf("scalar-null-keeps-under-merge:%s#%d", f.Name, i+1), pos, unguarded == token.NoPos,
					"a bool/number/string destination is zeroed by a null without consulting MergeWithLegacySemantics: under v1 semantics a null (bare or quoted) must leave a non-nil-able value unchanged, as the sibling arshalers do")
			}
		}
	}
	quotedNullDepth(c)
	c.Floor("null branches in unmarshal closures", n, 12)
	c.Floor("null branches zeroing a scalar", ns, 8)
}

func callsMethodNamed(info *types.Info, n ast.Node, name string) []*ast.CallExpr {
	var out []*ast.CallExpr
	ast.Inspect(n, func(x ast.Node) bool {
		if _, ok := x.(*ast.FuncLit); ok {
			return false
		}
		if call, ok := x.(*ast.CallExpr); ok {
			if sel, ok := ast.Unparen(call.Fun).(*ast.SelectorExpr); ok && sel.Sel.Name == name {
				out = append(out, call)
			}
		}
		return true
	})
	return out
}

func ruleMERGE1(c *Ctx) {
	p := c.P
	ft := p.Flags()
	merge := ft.Single["MergeWithLegacySemantics"]
	// ---- map: an interface-typed key is only used after its *dynamic* type was found comparable
	if f := p.Func("json.makeMapArshaler:unmarshal"); f != nil && f.Body() != nil {
		dyn, static := 0, 0
		p.InspectScope(f, func(g *FuncInfo, nd ast.Node) bool {
			call, ok := nd.(*ast.CallExpr)
			if !ok {
				return true
			}
			sel, ok := ast.Unparen(call.Fun).(*ast.SelectorExpr)
			if !ok || sel.Sel.Name != "Comparable" {
				return true
			}
			viaElem := false
			ast.Inspect(sel.X, func(m ast.Node) bool {
				if c2, ok := m.(*ast.CallExpr); ok {
					if s2, ok := ast.Unparen(c2.Fun).(*ast.SelectorExpr); ok && s2.Sel.Name == "Elem" {
						viaElem = true
					}
				}
				return true
			})
			if viaElem {
				dyn++
			} else {
				static++
			}
			return true
		})
		c.Oblige("map:incomparable-dynamic-key-rejected", f.Pos(), dyn > 0 && static == 0,
			"the map unmarshaler does not test the dynamic type of an interface key (K.Elem().Type().Comparable()) before using it as a key: an unhashable value stored by a user unmarshaler would panic in reflect")
	}
	// ---- slice
	if f := p.Func("json.makeSliceArshaler:unmarshal"); f == nil {
		c.Undecide("json.makeSliceArshaler:unmarshal", "closure missing")
	} else {
		// the element loop may have been moved into a private helper of the closure
		closureF := f
		for _, g := range p.CalleeClosure(closureF, 2) {
			if g != closureF && g.Decl != nil && len(callsMethodNamed(g.Info(), g.Body(), "Grow")) > 0 {
				f = g
			}
		}
		info := f.Info()
		// the variable guarding v.SetZero()
		var guard types.Object
		for _, call := range callsMethodNamed(info, f.Body(), "SetZero") {
			for _, cc := range enclosingConds(p, f, call) {
				for _, cj := range conjuncts(cc.cond) {
					if v := IdentObj(info, cj); v != nil {
						if b, ok := v.Type().Underlying().(*types.Basic); ok && b.Kind() == types.Bool {
							guard = v
						}
					}
				}
			}
		}
		if guard == nil {
			c.Violation("slice:zero-reused-elements", f.Pos(), "no boolean guard around the per-element SetZero was found (elements of a reused slice would keep stale contents or be cleared unconditionally)")
		} else {
			okInit, okClear := false, true
			why := ""
			InspectNoLit(f.Body(), func(nd ast.Node) bool {
				as, ok := nd.(*ast.AssignStmt)
				if !ok || len(as.Lhs) != 1 || len(as.Rhs) != 1 || IdentObj(info, as.Lhs[0]) != guard {
					return true
				}
				tv, isC := info.Types[as.Rhs[0]]
				switch {
				case as.Tok == token.DEFINE:
					okInit = isC && tv.Value != nil && tv.Value.String() == "true"
					if !okInit {
						why = "the guard is initialised with `" + exprString(as.Rhs[0]) + "` instead of true (the cleanliness of reused elements and spare capacity is unknown)"
					}
				default:
					// cleared only in a block that calls Grow
					list, idx := stmtListOf(p, f, as)
					grown := false
					for i := 0; i < idx && list != nil; i++ {
						if len(callsMethodNamed(info, list[i], "Grow")) > 0 {
							grown = true
						}
					}
					if !(isC && tv.Value != nil && tv.Value.String() == "false" && grown) {
						okClear = false
						why = "the guard is changed at " + p.Position(as.Pos()) + " other than to false right after Value.Grow"
					}
				}
				return true
			})
			c.Oblige("slice:zero-reused-elements", f.Pos(), okInit && okClear, why)
			// the SetZero may additionally depend only on MergeWithLegacySemantics
			for _, call := range callsMethodNamed(info, f.Body(), "SetZero") {
				var fl uint64
				for _, cc := range enclosingConds(p, f, call) {
					fl |= flagsRead(info, cc.cond)
				}
				if len(enclosingConds(p, f, call)) > 0 && usesObjInConds(info, enclosingConds(p, f, call), guard) {
					c.Oblige("slice:zero-guard-options", call.Pos(), fl&^merge == 0, "element zeroing depends on option(s) "+ft.Names(fl&^merge))
				}
			}
		}
		// trim on every exit after expansion (analysed from the closure, walking the helper in place)
		f = closureF
		info = f.Info()
		var counter types.Object
		counters := map[types.Object]bool{}
		for _, g := range p.CalleeClosure(f, 2) {
			InspectNoLit(g.Body(), func(nd ast.Node) bool {
				if id, ok := nd.(*ast.IncDecStmt); ok && id.Tok == token.INC {
					counter = IdentObj(g.Info(), id.X)
					counters[counter] = true
				}
				return true
			})
		}
		// a variable that receives the helper's element count
		InspectNoLit(f.Body(), func(nd ast.Node) bool {
			as, ok := nd.(*ast.AssignStmt)
			if !ok || len(as.Rhs) != 1 {
				return true
			}
			call, ok := ast.Unparen(as.Rhs[0]).(*ast.CallExpr)
			if !ok {
				return true
			}
			if h := p.InlineAny(f)(call); h != nil && h.Obj != nil {
				hs := h.Obj.Type().(*types.Signature)
				for i, l := range as.Lhs {
					if i < hs.Results().Len() && counters[hs.Results().At(i)] {
						counters[IdentObj(info, l)] = true
					}
				}
			}
			return true
		})
		type st struct{ expanded, trimmed bool }
		bad := ""
		fl := &Flow[st]{Fn: f, Inline: p.InlineAny(f)}
		visit := func(nd ast.Node, s st) st {
			for _, call := range CallsIn(nd) {
				sel, ok := ast.Unparen(call.Fun).(*ast.SelectorExpr)
				if !ok {
					continue
				}
				switch sel.Sel.Name {
				case "SetLen":
					if len(call.Args) == 1 && counter != nil && counters[IdentObj(info, call.Args[0])] {
						s.trimmed = true
					} else {
						s.expanded, s.trimmed = true, false
					}
				case "Set":
					if len(call.Args) == 1 {
						if v := IdentObj(info, call.Args[0]); v != nil && strings.Contains(strings.ToLower(v.Name()), "empty") {
							s.trimmed = true
						}
					}
				}
			}
			return s
		}
		fl.Node = func(nd ast.Node, s st) []st {
			s = visit(nd, s)
			if r, ok := nd.(*ast.ReturnStmt); ok {
				if s.expanded && !s.trimmed && bad == "" {
					bad = "returns at " + p.Position(r.Pos()) + " with the slice still expanded to its capacity (stale elements become visible)"
				}
				return nil
			}
			return []st{s}
		}
		fl.Leaf = func(e ast.Expr, s st) (t, fs []st) { s = visit(e, s); return []st{s}, []st{s} }
		fl.Run(st{})
		c.Oblige("slice:trim-on-every-exit", f.Pos(), bad == "" && counter != nil, bad)
	}
	// ---- array: zero-fill of the missing tail
	if f := p.Func("json.makeArrayArshaler:unmarshal"); f == nil {
		c.Undecide("json.makeArrayArshaler:unmarshal", "closure missing")
	} else {
		info := f.Info()
		okFill := false
		for _, fs := range findAll[*ast.ForStmt](f.Body()) {
			be, ok := fs.Cond.(*ast.BinaryExpr)
			if !ok || be.Op != token.LSS {
				continue
			}
			if len(callsMethodNamed(info, fs.Body, "SetZero")) > 0 && fs.Post != nil {
				okFill = true
			}
		}
		c.Oblige("array:zero-fill-tail", f.Pos(), okFill, "no loop that zeroes the array elements the input did not mention")
		// each present element is zeroed before decoding unless legacy merge
		okElem := false
		extraElem := ""
		for _, call := range callsMethodNamed(info, f.Body(), "SetZero") {
			var fl uint64
			cs := enclosingConds(p, f, call)
			for _, cc := range cs {
				fl |= flagsRead(info, cc.cond)
			}
			if fl == merge {
				okElem = true
				// ... and on nothing else: a shortcut keyed on the element kind has to get pointers and interfaces right
				for _, cc := range cs {
					for _, at := range condAtoms(cc.cond) {
						if _, isFlag := IsFlagGet(info, at); !isFlag && typeDerived(p, f, at) {
							extraElem = exprString(at)
						}
					}
				}
			}
		}
		c.Oblige("array:zero-each-element", f.Pos(), okElem, "array elements are not zeroed before decoding under !MergeWithLegacySemantics")
		if okElem {
			c.Oblige("array:zero-depends-only-on-option", f.Pos(), extraElem == "", "zeroing an array element before decoding is additionally conditional on `"+extraElem+"`: for the element types that condition leaves out (pointers, interfaces) the new element is merged into the old one instead of replacing it")
		}
	}
	// ---- [N]byte from a binary string: the tail beyond the decoded bytes is always cleared
	if f := p.Func("json.makeBytesArshaler:unmarshal"); f == nil {
		c.Undecide("json.makeBytesArshaler:unmarshal", "closure missing")
	} else {
		found, uncond := false, false
		// the clearing may sit in a private helper of the closure (extract-method)
		outer := f
		for _, f := range p.CalleeClosure(outer, 2) {
			info := f.Info()
			for _, call := range findAll[*ast.CallExpr](f.Body()) {
				if !IsBuiltin(info, call, "clear") {
					continue
				}
				found = true
				var fl uint64
				for _, cc := range enclosingConds(p, f, call) {
					fl |= flagsRead(info, cc.cond)
					// also: not inside a length-mismatch error branch
					if be, ok := ast.Unparen(cc.cond).(*ast.BinaryExpr); ok && be.Op == token.LAND {
						fl |= flagsRead(info, be)
					}
				}
				inErr := false
				for _, cc := range enclosingConds(p, f, call) {
					ast.Inspect(cc.cond, func(nd ast.Node) bool {
						if be, ok := nd.(*ast.BinaryExpr); ok && be.Op == token.NEQ {
							if c1, ok := ast.Unparen(be.X).(*ast.CallExpr); ok && IsBuiltin(info, c1, "len") {
								inErr = true
							}
						}
						return true
					})
				}
				if fl == 0 && !inErr {
					uncond = true
				}
			}
		}
		c.Oblige("bytearray:zero-tail", f.Pos(), found && uncond, "the bytes of a [N]byte beyond the decoded data are not cleared unconditionally (stale bytes of the previous value would survive a shorter input)")
	}
	// ---- map
	if f := p.Func("json.makeMapArshaler:unmarshal"); f == nil {
		c.Undecide("json.makeMapArshaler:unmarshal", "closure missing")
	} else {
		info := f.Info()
		// seeds scratch from existing entry
		seeded := false
		extraCond := ""
		for _, call := range callsMethodNamed(info, f.Body(), "Set") {
			if len(call.Args) != 1 {
				continue
			}
			// v.Set(v2) where v2 := va.MapIndex(...)
			if v2 := IdentObj(info, call.Args[0]); v2 != nil {
				for _, d := range defsOf(info, f.Body(), v2) {
					if len(callsMethodNamed(info, d, "MapIndex")) > 0 {
						var fl uint64
						for _, cc := range enclosingConds(p, f, call) {
							fl |= flagsRead(info, cc.cond)
						}
						if fl&^merge&^ft.Single["AllowDuplicateNames"] == 0 {
							seeded = true
						}
						// the seeding depends on nothing but the option and whether an entry exists: a shortcut keyed on
						// the element type (skip the copy for kinds that `do not merge`) has to get every pointer/interface
						// nesting right and is not accepted without review
						for _, cc := range enclosingConds(p, f, call) {
							var atoms func(e ast.Expr)
							atoms = func(e ast.Expr) {
								e = ast.Unparen(e)
								switch x := e.(type) {
								case *ast.BinaryExpr:
									if x.Op == token.LAND || x.Op == token.LOR {
										atoms(x.X)
										atoms(x.Y)
										return
									}
								case *ast.UnaryExpr:
									if x.Op == token.NOT {
										atoms(x.X)
										return
									}
								case *ast.CallExpr:
									if _, ok := IsFlagGet(info, x); ok {
										return
									}
									if sel, ok := ast.Unparen(x.Fun).(*ast.SelectorExpr); ok && sel.Sel.Name == "IsValid" {
										return
									}
								}
								if typeDerived(p, f, e) {
									extraCond = exprString(e)
								}
							}
							atoms(cc.cond)
						}
					}
				}
			}
		}
		c.Oblige("map:seed-from-existing-entry", f.Pos(), seeded, "the scratch value is not initialised from the existing map entry (objects would replace instead of merge)")
		if seeded {
			c.Oblige("map:seed-depends-only-on-option", f.Pos(), extraCond == "", "seeding the scratch value from the existing entry is additionally conditional on `"+extraCond+"`: for the element types that condition leaves out, a second object for the same key replaces the entry instead of merging into it")
		}
		// SetMapIndex on the destination right after the value unmarshal, and seen tracking right after that
		var stores []*ast.CallExpr
		for _, call := range callsMethodNamed(info, f.Body(), "SetMapIndex") {
			if sel, ok := ast.Unparen(call.Fun).(*ast.SelectorExpr); ok {
				if v, _ := IdentObj(info, sel.X).(*types.Var); v != nil {
					// destination = the addressableValue parameter of the closure
					if lt, ok := info.TypeOf(f.Lit).Underlying().(*types.Signature); ok && lt.Params().Len() >= 2 && lt.Params().At(1) == v {
						stores = append(stores, call)
					}
				}
			}
		}
		if len(stores) == 0 {
			c.Violation("map:store-back", f.Pos(), "decoded entries are never stored back into the destination map")
		}
		// seen set
		var seen types.Object
		for _, call := range callsMethodNamed(info, f.Body(), "MakeMap") {
			if as, ok := p.Parent(f.File, call).(*ast.AssignStmt); ok && len(as.Lhs) == 1 {
				if v := IdentObj(info, as.Lhs[0]); v != nil && isNamed(v.Type(), "reflect", "Value") {
					seen = v
				}
			}
		}
		for i, stc := range stores {
			list, idx := stmtListOf(p, f, stc)
			key := fmt.Sprintf("#%d", i+1)
			okPrev := false
			if list != nil && idx > 0 {
				// previous statement is the value unmarshal (a dispatch) possibly assigned to err
				usig := unmarshalerSig(p)
				for _, call := range CallsIn(list[idx-1]) {
					if Callee(info, call) == nil {
						if sg, ok := types.Unalias(info.TypeOf(call.Fun)).Underlying().(*types.Signature); ok && usig != nil && types.Identical(sg, usig) {
							okPrev = true
						}
					}
				}
			}
			c.Oblige("map:store-back"+key, stc.Pos(), okPrev, "the entry is not stored back immediately after (and regardless of the outcome of) the value unmarshal")
			if seen != nil {
				okSeen := false
				if list != nil && idx+1 < len(list) {
					if ifs, ok := list[idx+1].(*ast.IfStmt); ok {
						condOK := false
						if call, ok := ast.Unparen(ifs.Cond).(*ast.CallExpr); ok {
							if sel, ok := ast.Unparen(call.Fun).(*ast.SelectorExpr); ok && sel.Sel.Name == "IsValid" && IdentObj(info, sel.X) == seen {
								condOK = true
							}
						}
						rec := false
						for _, call := range callsMethodNamed(info, ifs.Body, "SetMapIndex") {
							if sel, ok := ast.Unparen(call.Fun).(*ast.SelectorExpr); ok && IdentObj(info, sel.X) == seen {
								rec = true
							}
						}
						okSeen = condOK && rec
					}
				}
				c.Oblige("map:record-stored-key"+key, stc.Pos(), okSeen, "a key stored into a pre-populated map is not recorded in the duplicate-tracking set right after the store (a second occurrence of a new key would be accepted)")
			}
		}
		if seen == nil {
			c.Violation("map:duplicate-tracking-set", f.Pos(), "no duplicate-tracking set for pre-populated maps")
		} else {
			// created exactly under !AllowDuplicateNames && Len() > 0
			okCreate := false
			for _, call := range callsMethodNamed(info, f.Body(), "MakeMap") {
				if as, ok := p.Parent(f.File, call).(*ast.AssignStmt); ok && len(as.Lhs) == 1 && IdentObj(info, as.Lhs[0]) == seen {
					for _, cc := range enclosingConds(p, f, as) {
						if cc.then && hasNegFlagConjunct(info, cc.cond, ft.Single["AllowDuplicateNames"]) && flagsRead(info, cc.cond) == ft.Single["AllowDuplicateNames"] {
							okCreate = true
						}
					}
				}
			}
			c.Oblige("map:duplicate-tracking-set", f.Pos(), okCreate, "the duplicate-tracking set is not created under exactly !AllowDuplicateNames (and a non-empty destination)")
		}
	}
}

func usesObjInConds(info *types.Info, cs []condCtx, o types.Object) bool {
	for _, cc := range cs {
		if usesObj(info, cc.cond, o) {
			return true
		}
	}
	return false
}

func ruleANYPATH1(c *Ctx) {
	p := c.P
	ft := p.Flags()
	fromAny := p.Field("json", "typedArshalers", "fromAny")
	// guards
	check := func(closure, helper string, wantFlags uint64, needNil bool) {
		f := p.Func(closure)
		if f == nil {
			c.Undecide(closure, "closure missing")
			return
		}
		info := f.Info()
		var site *ast.CallExpr
		InspectNoLit(f.Body(), func(nd ast.Node) bool {
			if call, ok := nd.(*ast.CallExpr); ok && FuncCall(info, call, "json", helper) {
				site = call
			}
			return true
		})
		if site == nil {
			c.Undecide(closure+"->"+helper, "fast-path call not found")
			return
		}
		conds := enclosingConds(p, f, site)
		var all []ast.Expr
		for _, cc := range conds {
			if cc.then {
				all = append(all, conjuncts(cc.cond)...)
			}
		}
		var negFlags uint64
		anyType, fromAnyOK, nilOK := false, false, false
		for _, cj := range all {
			if u, ok := cj.(*ast.UnaryExpr); ok && u.Op == token.NOT {
				if v, ok := IsFlagGet(info, u.X); ok {
					negFlags |= v &^ 1
				}
			}
			if be, ok := cj.(*ast.BinaryExpr); ok && be.Op == token.EQL {
				if o := IdentObj(info, be.Y); o != nil && o == p.Lookup("json", "anyType") {
					anyType = true
				}
			}
			// (X == nil || !X.(*T).fromAny)
			if be, ok := cj.(*ast.BinaryExpr); ok && be.Op == token.LOR {
				l, r := ast.Unparen(be.X), ast.Unparen(be.Y)
				if lb, ok := l.(*ast.BinaryExpr); ok && lb.Op == token.EQL && IsNilIdent(info, lb.Y) {
					if u, ok := r.(*ast.UnaryExpr); ok && u.Op == token.NOT && fromAny != nil && SelField(info, u.X) == fromAny {
						fromAnyOK = true
					}
				}
			}
			if call, ok := cj.(*ast.CallExpr); ok {
				if sel, ok := ast.Unparen(call.Fun).(*ast.SelectorExpr); ok && sel.Sel.Name == "IsNil" {
					nilOK = true
				}
			}
			// X.IsNil() || <value points back to itself>: a self-pointing value has nothing to merge into
			// (finding F14); every other disjunct must be such a test
			if ds := disjuncts(cj); len(ds) > 1 {
				sawNil, rest := false, true
				for _, d := range ds {
					if call, ok := ast.Unparen(d).(*ast.CallExpr); ok {
						if sel, ok := ast.Unparen(call.Fun).(*ast.SelectorExpr); ok && sel.Sel.Name == "IsNil" {
							sawNil = true
							continue
						}
					}
					if !isSelfPointerTest(p, f, d) {
						rest = false
					}
				}
				if sawNil && rest {
					nilOK = true
				}
			}
		}
		var problems []string
		if negFlags&wantFlags != wantFlags {
			problems = append(problems, "missing !Flags.Get("+ft.Names(wantFlags&^negFlags)+")")
		}
		if !anyType {
			problems = append(problems, "missing t == anyType")
		}
		if !fromAnyOK {
			problems = append(problems, "missing (no caller functions || !fromAny)")
		}
		if needNil && !nilOK {
			problems = append(problems, "missing va.IsNil() (the fast path does not merge)")
		}
		c.Oblige("guard:"+closure+"->"+helper, site.Pos(), len(problems) == 0, strings.Join(problems, "; "))
	}
	check("json.makeInterfaceArshaler:unmarshal", "unmarshalValueAny", ft.Single["AllowDuplicateNames"]|ft.Single["FormatTag"], true)
	check("json.makeInterfaceArshaler:marshal", "marshalValueAny", ft.Single["StringifyNumbers"]|ft.Named["TagFlags"], false)

	// fromAny is accumulated with OR and computed by castableToFromAny(t) with the function's own type
	if fromAny == nil {
		c.Undecide("json.typedArshalers.fromAny", "field missing")
	} else {
		nStores := 0
		for _, f := range p.FuncsIn("json") {
			if f.Body() == nil || f.Decl == nil {
				continue
			}
			info := f.Info()
			for _, fs := range fieldStores(info, f.Body(), true) {
				if fs.Field != fromAny {
					continue
				}
				nStores++
				as := fs.Stmt.(*ast.AssignStmt)
				okOr := false
				if len(as.Lhs) == 1 && len(as.Rhs) == 1 {
					if be, ok := ast.Unparen(as.Rhs[0]).(*ast.BinaryExpr); ok && be.Op == token.LOR {
						if exprString(be.X) == exprString(as.Lhs[0]) || exprString(be.Y) == exprString(as.Lhs[0]) {
							okOr = true
						}
					}
				}
				c.Oblige("fromAny-accumulates:"+f.Name, as.Pos(), okOr, "fromAny is overwritten instead of OR-ed when joining function lists (an earlier any-applicable function would be skipped by the fast path)")
			}
			for _, cl := range findAllDeep[*ast.CompositeLit](f.Body()) {
				for _, el := range cl.Elts {
					kv, ok := el.(*ast.KeyValueExpr)
					if !ok {
						continue
					}
					k, _ := kv.Key.(*ast.Ident)
					if k == nil || info.Uses[k] != fromAny {
						continue
					}
					nStores++
					okCall := false
					if call, ok := ast.Unparen(kv.Value).(*ast.CallExpr); ok && FuncCall(info, call, "json", "castableToFromAny") && len(call.Args) == 1 {
						// same t as the typ: field of the function entry
						okCall = true
						ast.Inspect(cl, func(nd ast.Node) bool {
							if kv2, ok := nd.(*ast.KeyValueExpr); ok {
								if k2, _ := kv2.Key.(*ast.Ident); k2 != nil && k2.Name == "typ" {
									if exprString(kv2.Value) != exprString(call.Args[0]) {
										okCall = false
									}
								}
							}
							return true
						})
						// also the typFnc variable declared nearby: typ: t
						for _, cl2 := range findAllDeep[*ast.CompositeLit](f.Body()) {
							for _, el2 := range cl2.Elts {
								if kv2, ok := el2.(*ast.KeyValueExpr); ok {
									if k2, _ := kv2.Key.(*ast.Ident); k2 != nil && k2.Name == "typ" && exprString(kv2.Value) != exprString(call.Args[0]) {
										okCall = false
									}
								}
							}
						}
					}
					c.Oblige("fromAny-computed:"+f.Name, kv.Pos(), okCall, "fromAny is not castableToFromAny(t) of the function's own type")
				}
			}
		}
		c.Floor("stores to typedArshalers.fromAny", nStores, 5)
	}
	// castableToFromAny covers the six natural any types
	if f := p.Func("json.castableToFromAny"); f == nil {
		c.Undecide("json.castableToFromAny", "function missing")
	} else {
		info := f.Info()
		got := map[string]bool{}
		for _, cl := range findAll[*ast.CompositeLit](f.Body()) {
			for _, el := range cl.Elts {
				if o := IdentObj(info, el); o != nil {
					got[o.Name()] = true
				}
			}
		}
		var miss []string
		for _, w := range []string{"anyType", "boolType", "stringType", "float64Type", "mapStringAnyType", "sliceAnyType"} {
			if !got[w] {
				miss = append(miss, w)
			}
		}
		c.Oblige("castableToFromAny:any-types", f.Pos(), len(miss) == 0, "does not consider "+strings.Join(miss, ","))
	}
	// same primitives on both routes: ParseFloat(_, 64) in the any route; makeString for strings
	if f := p.Func("json.unmarshalValueAny"); f == nil {
		c.Undecide("json.unmarshalValueAny", "function missing")
	} else {
		ok64, okStr := false, false
		// the function and the private helpers it delegates scalar kinds to
		var anyCalls []*ast.CallExpr
		info := f.Info()
		for _, g := range p.CalleeClosure(f, 2) {
			if g != f && (g.Name == "json.unmarshalObjectAny" || g.Name == "json.unmarshalArrayAny" || g.Name == "json.makeString") {
				continue
			}
			anyCalls = append(anyCalls, findAll[*ast.CallExpr](g.Body())...)
		}
		for _, call := range anyCalls {
			if FuncCall(info, call, "strconv", "ParseFloat") && len(call.Args) == 2 {
				if v, isC := ConstI64(info, call.Args[1]); isC && v == 64 {
					ok64 = true
				} else {
					c.Violation("any-number-bits", call.Pos(), "numbers destined for float64 are parsed with bit size `"+exprString(call.Args[1])+"`")
				}
			}
			if FuncCall(info, call, "json", "makeString") {
				okStr = true
			}
		}
		c.Oblige("any-number-bits", f.Pos(), ok64, "no strconv.ParseFloat(_, 64) in the untyped route")
		c.Oblige("any-strings-via-makeString", f.Pos(), okStr, "strings of the untyped route are not built by makeString")
	}
	// the untyped object route checks duplicates itself
	if f := p.Func("json.unmarshalObjectAny"); f == nil {
		c.Undecide("json.unmarshalObjectAny", "function missing")
	} else {
		info := f.Info()
		okDup := false
		for _, ifs := range findAll[*ast.IfStmt](f.Body()) {
			// if _, ok := obj[name]; ok { ... newDuplicateNameError ... return }
			if as, ok := ifs.Init.(*ast.AssignStmt); ok && len(as.Rhs) == 1 {
				if _, isIdx := ast.Unparen(as.Rhs[0]).(*ast.IndexExpr); isIdx {
					for _, call := range findAll[*ast.CallExpr](ifs.Body) {
						if (FuncCall(info, call, "json", "newDuplicateNameError") || wrapsCall(p, f, call, "json", "newDuplicateNameError")) && len(findAll[*ast.ReturnStmt](ifs.Body)) > 0 {
							okDup = true
						}
					}
				}
			}
		}
		c.Oblige("any-object-duplicates", f.Pos(), okDup, "the untyped object route does not reject a name that is already in the map")
	}
}

func ruleINTERN1(c *Ctx) {
	p := c.P
	f := p.Func("json.makeString")
	if f == nil || f.Body() == nil {
		c.Undecide("json.makeString", "function missing")
		return
	}
	info := f.Info()
	sig := f.Obj.Type().(*types.Signature)
	if sig.Params().Len() != 2 {
		c.Undecide("json.makeString/signature", "expected (cache, b)")
		return
	}
	bParam := sig.Params().At(1)
	isStringOfB := func(e ast.Expr) bool {
		call, ok := ast.Unparen(e).(*ast.CallExpr)
		if !ok || len(call.Args) != 1 {
			return false
		}
		if tv, ok := info.Types[call.Fun]; !ok || !tv.IsType() {
			return false
		}
		return IdentObj(info, call.Args[0]) == bParam
	}
	// state: set of locals known equal to string(b)
	type st struct{ eq uint64 }
	idx := map[types.Object]uint{}
	bit := func(o types.Object) uint64 {
		if o == nil {
			return 0
		}
		i, ok := idx[o]
		if !ok {
			i = uint(len(idx))
			idx[o] = i
		}
		return 1 << i
	}
	bad := ""
	nRet := 0
	fl := &Flow[st]{Fn: f}
	fl.Node = func(nd ast.Node, s st) []st {
		switch x := nd.(type) {
		case *ast.AssignStmt:
			if len(x.Lhs) == len(x.Rhs) {
				for i, l := range x.Lhs {
					if v := IdentObj(info, l); v != nil {
						if isStringOfB(x.Rhs[i]) || (IdentObj(info, x.Rhs[i]) != nil && s.eq&bit(IdentObj(info, x.Rhs[i])) != 0) {
							s.eq |= bit(v)
						} else {
							s.eq &^= bit(v)
						}
					}
				}
			}
		case *ast.ReturnStmt:
			nRet++
			if len(x.Results) == 1 {
				r := x.Results[0]
				ok := isStringOfB(r)
				if v := IdentObj(info, r); v != nil && s.eq&bit(v) != 0 {
					ok = true
				}
				if !ok && bad == "" {
					bad = "returns `" + exprString(r) + "` at " + p.Position(x.Pos()) + " which is not known to equal string(b) on this path"
				}
			}
			return nil
		}
		return []st{s}
	}
	fl.Leaf = func(e ast.Expr, s st) (t, fs []st) {
		// s == string(b)
		if be, ok := e.(*ast.BinaryExpr); ok && be.Op == token.EQL {
			for _, pair := range [][2]ast.Expr{{be.X, be.Y}, {be.Y, be.X}} {
				if v := IdentObj(info, pair[0]); v != nil && isStringOfB(pair[1]) {
					st1 := s
					st1.eq |= bit(v)
					return []st{st1}, []st{s}
				}
			}
		}
		return []st{s}, []st{s}
	}
	fl.Run(st{})
	if nRet == 0 {
		c.Undecide("json.makeString/returns", "no return found")
		return
	}
	c.Oblige("cache-returns-equal-string", f.Pos(), bad == "", bad)
}

// condAtoms splits a condition into its atoms (operands of &&, ||, !).
func condAtoms(e ast.Expr) []ast.Expr {
	e = ast.Unparen(e)
	switch x := e.(type) {
	case *ast.BinaryExpr:
		if x.Op == token.LAND || x.Op == token.LOR {
			return append(condAtoms(x.X), condAtoms(x.Y)...)
		}
	case *ast.UnaryExpr:
		if x.Op == token.NOT {
			return condAtoms(x.X)
		}
	}
	return []ast.Expr{e}
}

// typeDerived reports whether the condition atom e depends on the reflected Go type of the value: it calls
// Kind/Elem/Implements/Comparable on something, or mentions a local (of the closure or of its enclosing factory)
// one of whose assignments has such a right-hand side or sits under a switch/if on such an expression.
func typeDerived(p *Program, f *FuncInfo, e ast.Expr) bool {
	info := f.Info()
	typeCall := func(n ast.Node) bool {
		found := false
		ast.Inspect(n, func(m ast.Node) bool {
			if call, ok := m.(*ast.CallExpr); ok {
				if sel, ok := ast.Unparen(call.Fun).(*ast.SelectorExpr); ok {
					switch sel.Sel.Name {
					case "Kind", "Elem", "Implements", "Comparable", "Key", "NumMethod":
						found = true
					}
				}
			}
			return !found
		})
		return found
	}
	if typeCall(e) {
		return true
	}
	root := ast.Node(f.Body())
	file := f.File
	if d := p.enclosingDecl(f); d != nil && d.Body() != nil {
		root = d.Body()
	}
	derived := false
	ast.Inspect(e, func(m ast.Node) bool {
		id, ok := m.(*ast.Ident)
		if !ok {
			return true
		}
		v, ok := IdentObj(info, id).(*types.Var)
		if !ok || v.IsField() {
			return true
		}
		ast.Inspect(root, func(q ast.Node) bool {
			as, ok := q.(*ast.AssignStmt)
			if !ok {
				return true
			}
			for i, l := range as.Lhs {
				if IdentObj(info, l) != types.Object(v) {
					continue
				}
				if i < len(as.Rhs) && typeCall(as.Rhs[i]) {
					derived = true
				}
				// control dependence on a type test
				var cur ast.Node = as
				for cur != nil && cur != root {
					cur = p.Parent(file, cur)
					switch x := cur.(type) {
					case *ast.SwitchStmt:
						if x.Tag != nil && typeCall(x.Tag) {
							derived = true
						}
					case *ast.IfStmt:
						if typeCall(x.Cond) {
							derived = true
						}
					case *ast.CaseClause:
						for _, ce := range x.List {
							if typeCall(ce) {
								derived = true
							}
						}
					}
				}
			}
			return true
		})
		return true
	})
	return derived
}
