package main

import (
	"fmt"
	"go/ast"
	"go/constant"
	"go/token"
	"go/types"
	"math/bits"
	"sort"
	"strings"
)

// FlagTable is the constant table of package jsonflags, read from the code.
type FlagTable struct {
	Single map[string]uint64 // exported single-bit flags by name
	Named  map[string]uint64 // every Bools constant (including composites and unexported)
	byBit  map[uint64]string
}

func (p *Program) Flags() *FlagTable {
	ft := &FlagTable{Single: map[string]uint64{}, Named: map[string]uint64{}, byBit: map[uint64]string{}}
	pk := p.Pkg("jsonflags")
	if pk == nil {
		return ft
	}
	bools := p.NamedType("jsonflags", "Bools")
	sc := pk.Types.Scope()
	for _, n := range sc.Names() {
		c, ok := sc.Lookup(n).(*types.Const)
		if !ok {
			continue
		}
		if bools == nil || !types.Identical(c.Type(), bools) {
			// untyped composite constants such as AllFlags are still typed Bools via operands;
			// accept any integer constant
			if b, ok := c.Type().Underlying().(*types.Basic); !ok || b.Info()&types.IsInteger == 0 {
				continue
			}
		}
		v, ok := constUint64(c)
		if !ok {
			continue
		}
		ft.Named[n] = v
		if bits.OnesCount64(v) == 1 && c.Exported() {
			ft.Single[n] = v
			ft.byBit[v] = n
		}
	}
	return ft
}

// Names renders a flag set symbolically.
func (ft *FlagTable) Names(v uint64) string {
	var out []string
	for b := uint64(1); b != 0 && b <= v; b <<= 1 {
		if v&b != 0 {
			if n, ok := ft.byBit[b]; ok {
				out = append(out, n)
			} else if b == 1 {
				out = append(out, "1")
			} else {
				out = append(out, fmt.Sprintf("bit%d", bits.TrailingZeros64(b)))
			}
		}
	}
	if len(out) == 0 {
		return "0"
	}
	return strings.Join(out, "|")
}

// ConstU64 returns the constant unsigned value of an expression, if constant.
func ConstU64(info *types.Info, e ast.Expr) (uint64, bool) {
	tv, ok := info.Types[e]
	if !ok || tv.Value == nil {
		return 0, false
	}
	v := constant.ToInt(tv.Value)
	if v.Kind() != constant.Int {
		return 0, false
	}
	return constant.Uint64Val(v)
}

// ConstI64 returns the constant signed value of an expression, if constant.
func ConstI64(info *types.Info, e ast.Expr) (int64, bool) {
	tv, ok := info.Types[e]
	if !ok || tv.Value == nil {
		return 0, false
	}
	v := constant.ToInt(tv.Value)
	if v.Kind() != constant.Int {
		return 0, false
	}
	return constant.Int64Val(v)
}

// ConstStr returns the constant string value of an expression.
func ConstStr(info *types.Info, e ast.Expr) (string, bool) {
	tv, ok := info.Types[e]
	if !ok || tv.Value == nil || tv.Value.Kind() != constant.String {
		return "", false
	}
	return constant.StringVal(tv.Value), true
}

func isNamed(t types.Type, pkgPath, name string) bool {
	if t == nil {
		return false
	}
	if p, ok := t.(*types.Pointer); ok {
		t = p.Elem()
	}
	n, ok := t.(*types.Named)
	if !ok {
		if a, ok := t.(*types.Alias); ok {
			return isNamed(types.Unalias(a), pkgPath, name)
		}
		return false
	}
	o := n.Obj()
	return o.Name() == name && o.Pkg() != nil && o.Pkg().Path() == pkgPath
}

// FlagCall recognises X.Set/Get/Has/Clear(c) on a jsonflags.Flags value and
// returns the method name, the receiver expression and the constant argument.
func FlagCall(info *types.Info, call *ast.CallExpr) (method string, recv ast.Expr, val uint64, ok bool) {
	fn := Callee(info, call)
	if fn == nil || fn.Pkg() == nil || fn.Pkg().Path() != pkgAlias["jsonflags"] {
		return "", nil, 0, false
	}
	sig := fn.Type().(*types.Signature)
	if sig.Recv() == nil || !isNamed(sig.Recv().Type(), pkgAlias["jsonflags"], "Flags") {
		return "", nil, 0, false
	}
	sel, isSel := ast.Unparen(call.Fun).(*ast.SelectorExpr)
	if !isSel {
		return "", nil, 0, false
	}
	if len(call.Args) == 1 {
		if v, isConst := ConstU64(info, call.Args[0]); isConst {
			return fn.Name(), sel.X, v, true
		}
	}
	return fn.Name(), sel.X, 0, fn.Name() == "Join"
}

// IsFlagGet reports whether e (after stripping parens) is X.Flags.Get(c)
// with c containing any of the bits in mask; neg handling is the caller's.
func IsFlagGet(info *types.Info, e ast.Expr) (val uint64, ok bool) {
	call, isCall := ast.Unparen(e).(*ast.CallExpr)
	if !isCall {
		return 0, false
	}
	m, _, v, ok := FlagCall(info, call)
	if !ok || m != "Get" {
		return 0, false
	}
	return v, true
}

// MethodCall matches a call to the method pkgShort.(typ).name (pointer or
// value receiver) and returns the receiver expression.
func MethodCall(info *types.Info, call *ast.CallExpr, pkgShort, typ, name string) (recv ast.Expr, ok bool) {
	fn := Callee(info, call)
	if fn == nil || fn.Name() != name || fn.Pkg() == nil || fn.Pkg().Path() != pkgAlias[pkgShort] {
		return nil, false
	}
	sig := fn.Type().(*types.Signature)
	if sig.Recv() == nil {
		return nil, false
	}
	_, tn := recvTypeName(sig.Recv().Type())
	if tn != typ {
		return nil, false
	}
	if sel, isSel := ast.Unparen(call.Fun).(*ast.SelectorExpr); isSel {
		return sel.X, true
	}
	return nil, true
}

// FuncCall matches a call to the package-level function pkgShort.name.
func FuncCall(info *types.Info, call *ast.CallExpr, pkgShort, name string) bool {
	fn := Callee(info, call)
	if fn == nil || fn.Name() != name || fn.Pkg() == nil {
		return false
	}
	path := pkgAlias[pkgShort]
	if path == "" {
		path = pkgShort
	}
	if fn.Pkg().Path() != path {
		return false
	}
	return fn.Type().(*types.Signature).Recv() == nil
}

// CalleeName returns the qualified name of the static callee ("" if dynamic).
func CalleeName(info *types.Info, call *ast.CallExpr) string {
	fn := Callee(info, call)
	if fn == nil {
		return ""
	}
	return QualName(fn)
}

// InspectNoLit walks n without descending into function literals.
func InspectNoLit(n ast.Node, f func(ast.Node) bool) {
	ast.Inspect(n, func(x ast.Node) bool {
		if _, ok := x.(*ast.FuncLit); ok && x != n {
			return false
		}
		return f(x)
	})
}

// Returns lists the return statements of a function body (not nested literals).
func Returns(body *ast.BlockStmt) []*ast.ReturnStmt {
	var out []*ast.ReturnStmt
	InspectNoLit(body, func(n ast.Node) bool {
		if r, ok := n.(*ast.ReturnStmt); ok {
			out = append(out, r)
		}
		return true
	})
	return out
}

// sortedKeys returns the sorted keys of a string-keyed map.
func sortedKeys[V any](m map[string]V) []string {
	out := make([]string, 0, len(m))
	for k := range m {
		out = append(out, k)
	}
	sort.Strings(out)
	return out
}

// enclosingFuncName gives a stable name for messages.
func (f *FuncInfo) String() string { return f.Name }

// StmtOfKind finds statements of a given kind.
func findAll[T ast.Node](root ast.Node) []T {
	var out []T
	InspectNoLit(root, func(n ast.Node) bool {
		if t, ok := n.(T); ok {
			out = append(out, t)
		}
		return true
	})
	return out
}

// findAllDeep is findAll that also descends into function literals.
func findAllDeep[T ast.Node](root ast.Node) []T {
	var out []T
	ast.Inspect(root, func(n ast.Node) bool {
		if t, ok := n.(T); ok {
			out = append(out, t)
		}
		return true
	})
	return out
}

// assignedFields lists (field object, lhs expression, stmt) for every store
// whose left-hand side selects a struct field (x.F = v, x.F[i] = v, x.F += v, x.F++).
type fieldStore struct {
	Field *types.Var
	LHS   ast.Expr // the selector x.F
	Stmt  ast.Stmt
	Whole bool // the field itself is assigned (not an element/subfield of it)
}

func fieldStores(info *types.Info, root ast.Node, deep bool) []fieldStore {
	var out []fieldStore
	add := func(lhs ast.Expr, st ast.Stmt) {
		whole := true
		e := ast.Unparen(lhs)
		for {
			if f := SelField(info, e); f != nil {
				out = append(out, fieldStore{Field: f, LHS: e, Stmt: st, Whole: whole})
				// also record outer fields: x.A.B = v writes into A
				whole = false
				e = ast.Unparen(e.(*ast.SelectorExpr).X)
				continue
			}
			switch x := e.(type) {
			case *ast.IndexExpr:
				e, whole = ast.Unparen(x.X), false
				continue
			case *ast.SliceExpr:
				e, whole = ast.Unparen(x.X), false
				continue
			case *ast.StarExpr:
				e, whole = ast.Unparen(x.X), false
				continue
			}
			return
		}
	}
	walk := InspectNoLit
	if deep {
		walk = func(n ast.Node, f func(ast.Node) bool) { ast.Inspect(n, f) }
	}
	walk(root, func(n ast.Node) bool {
		switch s := n.(type) {
		case *ast.AssignStmt:
			for _, l := range s.Lhs {
				add(l, s)
			}
		case *ast.IncDecStmt:
			add(s.X, s)
		}
		return true
	})
	return out
}

func tokIsCmp(t token.Token) bool {
	switch t {
	case token.EQL, token.NEQ, token.LSS, token.LEQ, token.GTR, token.GEQ:
		return true
	}
	return false
}
