// Command jsonsa decides structural clauses of the C01-C20 properties of
// go-json-experiment/json by static analysis of /repo's current source.
package main

import (
	"encoding/json"
	"flag"
	"fmt"
	"go/ast"
	"os"
	"path/filepath"
	"sort"
	"strconv"
	"strings"
	"time"
)

func usage() {
	fmt.Fprintln(os.Stderr, `usage:
  jsonsa check -property Cxx [-tier quick|thorough] [-repo /repo] [-verif /verif]
  jsonsa explain <violations.json>
  jsonsa selftest [-property Cxx] [-repo /repo]     (adequacy run: in-memory mutants)
  jsonsa rules`)
	os.Exit(2)
}

func main() {
	// go/packages resolves the "go" command through this process's PATH; the default
	// go (1.23) cannot load a go 1.26 module, so the pinned newer toolchain goes first.
	os.Setenv("PATH", goToolDir+":"+os.Getenv("PATH"))
	os.Setenv("GOWORK", "off")
	os.Setenv("GOTOOLCHAIN", "local")
	if len(os.Args) < 2 {
		usage()
	}
	switch os.Args[1] {
	case "check":
		os.Exit(cmdCheck(os.Args[2:]))
	case "explain":
		os.Exit(cmdExplain(os.Args[2:]))
	case "selftest":
		os.Exit(cmdSelftest(os.Args[2:]))
	case "effects":
		p, err := Load("/repo", nil)
		if err != nil {
			fmt.Println(err)
			os.Exit(2)
		}
		e := p.Effects()
		for _, f := range e.funcs {
			if _, ok := e.writes[f.Obj]; ok {
				fmt.Printf("W %-50s %v unknown=%v pure=%s\n", f.Name, e.Writes(f.Obj), e.unknown[f.Obj], e.pure[f.Obj])
			} else {
				fmt.Printf("R %-50s recvMut=%v\n", f.Name, e.recvMut[f.Obj])
			}
		}
	case "panicbudget":
		root := "/repo"
		if len(os.Args) > 2 {
			root = os.Args[2]
		}
		p, err := Load(root, nil)
		if err != nil {
			fmt.Println(err)
			os.Exit(2)
		}
		counts := map[string]int{}
		for _, f := range p.FuncsIn("json", "jsontext", "internal", "jsonflags", "jsonopts", "jsonwire", "v1") {
			if f.Body() == nil {
				continue
			}
			InspectNoLit(f.Body(), func(nd ast.Node) bool {
				if call, ok := nd.(*ast.CallExpr); ok && IsBuiltin(f.Info(), call, "panic") {
					counts[f.Name]++
				}
				return true
			})
		}
		for _, k := range sortedKeys(counts) {
			fmt.Printf("\t%q: %d,\n", k, counts[k])
		}
		// message leads per package (for panicLeadTable)
		dumpPanicLeads = true
		rep := RunRules(p, "quick", []string{"PANIC-1"})
		_ = rep
	case "manifest":
		os.Exit(cmdManifest())
	case "rules":
		var ids []string
		for id := range ruleRegistry {
			ids = append(ids, id)
		}
		sort.Strings(ids)
		for _, id := range ids {
			fmt.Printf("%-12s %s\n", id, ruleRegistry[id].Doc)
		}
		for _, p := range propOrder {
			fmt.Printf("%s: %s\n", p, strings.Join(props[p].Rules, " "))
		}
	default:
		usage()
	}
}

func verifDirDefault() string {
	if d := os.Getenv("VERIF_DIR"); d != "" {
		return d
	}
	exe, err := os.Executable()
	if err == nil {
		d := filepath.Dir(filepath.Dir(exe))
		if _, err := os.Stat(filepath.Join(d, "properties.jsonl")); err == nil {
			return d
		}
	}
	return "/verif"
}

type violationsDoc struct {
	Property   string            `json:"property"`
	Tier       string            `json:"tier"`
	Repo       string            `json:"repo"`
	Rules      []string          `json:"rules"`
	Violations []Obligation      `json:"violations"`
	Undecided  []Undecided       `json:"undecided,omitempty"`
	RuleDocs   map[string]string `json:"rule_docs"`
}

func cmdCheck(args []string) int {
	fs := flag.NewFlagSet("check", flag.ExitOnError)
	prop := fs.String("property", "", "property id (C01..C20)")
	tier := fs.String("tier", os.Getenv("VERIF_TIER"), "quick or thorough")
	repo := fs.String("repo", "/repo", "repository root")
	verif := fs.String("verif", verifDirDefault(), "verif directory (evidence, known findings)")
	verbose := fs.Bool("v", false, "print every obligation")
	fs.Parse(args)
	if *tier == "" {
		*tier = "quick"
	}
	if *tier != "quick" && *tier != "thorough" {
		fmt.Fprintln(os.Stderr, "bad tier")
		return 2
	}
	pd, ok := props[*prop]
	if !ok {
		fmt.Fprintf(os.Stderr, "unknown or unclaimed property %q\n", *prop)
		return 2
	}
	seed, _ := strconv.Atoi(os.Getenv("VERIF_SEED"))
	start := time.Now()
	evPath := filepath.Join(*verif, "evidence", *prop+".json")
	os.Remove(evPath)

	fail := func(msg string) int {
		fmt.Printf("UNDECIDED property=%s rule=load anchor=program reason=%q\n", *prop, msg)
		fmt.Fprintln(os.Stderr, msg)
		ev := Evidence{PropertyID: *prop, Tier: *tier, Seed: seed, Level: "other",
			Coverage: map[string]any{"explanation": "the program could not be loaded/type-checked; nothing was decided: " + msg,
				"obligations": 0, "discharged": 0, "exhaustive": false},
			Assumptions: []string{}, WallS: time.Since(start).Seconds(), Violations: 0}
		writeJSON(evPath, ev)
		return 2
	}

	p, err := Load(*repo, nil)
	if err != nil {
		return fail(err.Error())
	}
	rep := RunRules(p, *tier, pd.Rules)

	if *verbose {
		for _, o := range rep.Obligations {
			fmt.Printf("  [%v] %s %s @%s %s\n", o.OK, o.Rule, o.Construct, o.Pos, o.Detail)
		}
	}
	known, err := loadKnownFindings(filepath.Join(*verif, "known_findings.json"))
	if err != nil {
		return fail("known_findings.json: " + err.Error())
	}
	var viol []Obligation
	nOK := 0
	for i := range rep.Obligations {
		o := &rep.Obligations[i]
		if o.OK {
			nOK++
			continue
		}
		matched := false
		for _, k := range known {
			if k.Status == "open" && k.Rule == o.Rule && k.Construct == o.Construct && (k.Property == *prop || k.Property == "" || strings.Contains(k.Property, *prop)) {
				fmt.Printf("KNOWN-FINDING: property=%s rule=%s construct=%s %s\n", *prop, o.Rule, o.Construct, k.What)
				o.Known = true
				matched = true
				break
			}
		}
		if !matched {
			viol = append(viol, *o)
		}
	}

	// adequacy run (thorough only): never changes the verdict
	var adequacy []MutantResult
	var seedRes []SeedResult
	var ctlRes []ControlResult
	if *tier == "thorough" {
		adequacy = runMutants(*repo, *prop, pd.Rules, "thorough")
		base := map[string]bool{}
		for _, o := range rep.Obligations {
			if !o.OK {
				base[o.Rule+"|"+o.Construct] = true
			}
		}
		seedRes = runSeeds(*repo, *verif, *prop, pd.Rules, "thorough", base)
		ctlRes = runControls(*repo, *verif, pd.Rules, "thorough", base)
	}

	// evidence
	distinct := map[string]bool{}
	byRule := map[string][2]int{}
	for _, o := range rep.Obligations {
		distinct[o.Rule+"|"+o.Construct] = true
		c := byRule[o.Rule]
		c[0]++
		if o.OK || o.Known {
			c[1]++
		}
		byRule[o.Rule] = c
	}
	var samples []any
	perRule := map[string]int{}
	for _, o := range rep.Obligations {
		if perRule[o.Rule] < 6 || !o.OK {
			perRule[o.Rule]++
			samples = append(samples, o)
		}
	}
	ruleDocs := map[string]string{}
	var ruleSummary []string
	for _, id := range pd.Rules {
		if r := ruleRegistry[id]; r != nil {
			if r.Thorough && *tier != "thorough" {
				ruleDocs[id] = "(thorough tier only) " + r.Doc
				continue
			}
			ruleDocs[id] = r.Doc
			c := byRule[id]
			ruleSummary = append(ruleSummary, fmt.Sprintf("%s %d/%d", id, c[1], c[0]))
		}
	}
	nKnown := 0
	for _, o := range rep.Obligations {
		if o.Known {
			nKnown++
		}
	}
	cov := map[string]any{
		"explanation": "STATIC ANALYSIS of " + *repo + " (type-checked syntax, go/cfg path rules, constant tables" +
			map[bool]string{true: ", SSA/VTA", false: ""}[*tier == "thorough"] + "); nothing is executed. " +
			"Decided (structural necessary conditions only): " + pd.Decided + " NOT decided: " + pd.NotDecided,
		"obligations":         len(rep.Obligations),
		"discharged":          nOK + nKnown,
		"known_findings":      nKnown,
		"evaluations":         len(rep.Obligations),
		"distinct_nontrivial": len(distinct),
		"rule": "one obligation per (rule, construct) pair found in the current tree by enumerating every matching function, " +
			"call site, path or table row; an obligation is non-trivial when the rule had at least one site/path to examine; " +
			"rules with too few sites report UNDECIDED instead of passing vacuously",
		"samples":      samples,
		"rules":        ruleDocs,
		"per_rule":     ruleSummary,
		"units":        p.Units,
		"exhaustive":   true,
		"checker_cmd":  "bin/jsonsa check -property " + *prop + " -tier " + *tier + " -repo " + *repo,
		"trusted_base": []string{"go/types, go/cfg, go/packages (x/tools v0.50.0)", "go1.26.8 toolchain", "the rule definitions in /verif/sa"},
		"undecided":    rep.Undecided,
		"build_config": "linux/amd64, default build (files guarded by !goexperiment.jsonv2 || !go1.25); the goexperiment.jsonv2 configuration only re-exports the standard library and is out of scope",
	}
	if adequacy != nil {
		cov["adequacy_mutants"] = adequacy
		k, m, s := 0, 0, 0
		for _, a := range adequacy {
			switch a.Outcome {
			case "selftest-killed":
				k++
			case "selftest-missed":
				m++
			default:
				s++
			}
		}
		cov["adequacy_summary"] = fmt.Sprintf("killed=%d missed=%d skipped=%d", k, m, s)
	}
	if seedRes != nil {
		cov["adequacy_seeded_changes"] = seedRes
		for _, sr := range seedRes {
			if sr.Outcome != "selftest-killed" {
				fmt.Fprintf(os.Stderr, "adequacy: stored seeded change %s: %s %s\n", sr.ID, sr.Outcome, sr.Note)
			}
		}
	}
	if ctlRes != nil {
		cov["negative_controls"] = ctlRes
		cov["negative_controls_rule"] = "stored sets of behaviour-preserving refactorings (/verif/refactors/*/all.diff, written by independent agents, suite-passing) replayed as overlays; the rules must report nothing new on them"
		for _, cr := range ctlRes {
			if cr.Outcome != "control-silent" {
				fmt.Fprintf(os.Stderr, "negative control %s: %s %v %s\n", cr.ID, cr.Outcome, cr.By, cr.Note)
			}
		}
	}
	ev := Evidence{PropertyID: *prop, Tier: *tier, Seed: seed, Level: "other", Coverage: cov,
		Assumptions: append([]string{
			"the analysed build configuration is the one that ships the implementation (default build tags, linux/amd64)",
			"callee resolution is static (go/types) for direct calls; calls through func values are treated by the rule-specific summaries named in DESIGN.md",
			"standard-library functions behave as documented",
		}, pd.Assumptions...),
		WallS: time.Since(start).Seconds(), Violations: len(viol)}
	if err := writeJSON(evPath, ev); err != nil {
		fmt.Fprintln(os.Stderr, "cannot write evidence:", err)
		return 2
	}

	fmt.Printf("property=%s tier=%s rules=%d obligations=%d discharged=%d known=%d violations=%d undecided=%d units={pkgs:%d files:%d funcs:%d} wall=%.1fs\n",
		*prop, *tier, len(pd.Rules), len(rep.Obligations), nOK, nKnown, len(viol), len(rep.Undecided),
		p.Units.Packages, p.Units.Files, p.Units.Functions, time.Since(start).Seconds())
	fmt.Println("  " + strings.Join(ruleSummary, "  "))

	if len(viol) > 0 {
		vp := filepath.Join(*verif, "out", *prop+".violations.json")
		doc := violationsDoc{Property: *prop, Tier: *tier, Repo: *repo, Rules: pd.Rules, Violations: viol, Undecided: rep.Undecided, RuleDocs: ruleDocs}
		writeJSON(vp, doc)
		for _, v := range viol {
			fmt.Printf("  violation rule=%s construct=%s at %s: %s\n", v.Rule, v.Construct, v.Pos, v.Detail)
			if v.Witness != "" {
				fmt.Printf("    witness: %s\n", v.Witness)
			}
		}
		fmt.Printf("VIOLATION property=%s replay=%s\n", *prop, vp)
		return 1
	}
	if len(rep.Undecided) > 0 {
		for _, u := range rep.Undecided {
			fmt.Printf("UNDECIDED property=%s rule=%s anchor=%s reason=%q\n", *prop, u.Rule, u.Anchor, u.Why)
		}
		return 2
	}
	return 0
}

func cmdExplain(args []string) int {
	if len(args) < 1 {
		usage()
	}
	b, err := os.ReadFile(args[0])
	if err != nil {
		fmt.Fprintln(os.Stderr, err)
		return 2
	}
	var doc violationsDoc
	if err := json.Unmarshal(b, &doc); err != nil {
		fmt.Fprintln(os.Stderr, err)
		return 2
	}
	repo := doc.Repo
	if repo == "" {
		repo = "/repo"
	}
	p, err := Load(repo, nil)
	if err != nil {
		fmt.Println("load failed:", err)
		return 2
	}
	ruleSet := map[string]bool{}
	for _, v := range doc.Violations {
		ruleSet[v.Rule] = true
	}
	var ids []string
	for id := range ruleSet {
		ids = append(ids, id)
	}
	sort.Strings(ids)
	rep := RunRules(p, doc.Tier, ids)
	n := 0
	for _, o := range rep.Obligations {
		if o.OK {
			continue
		}
		n++
		fmt.Printf("rule %s: %s\n  construct: %s\n  at: %s\n  what: %s\n", o.Rule, ruleRegistry[o.Rule].Doc, o.Construct, o.Pos, o.Detail)
		if o.Witness != "" {
			fmt.Printf("  witness: %s\n", o.Witness)
		}
	}
	if n == 0 {
		fmt.Println("no violation of the recorded rules on the current tree")
		return 0
	}
	return 1
}
