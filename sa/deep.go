package main

// Deep holds the whole-program artefacts (SSA, call graph) used by the
// thorough tier. Built lazily.
type Deep struct{}
