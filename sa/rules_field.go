package main

import (
	"go/ast"
	"go/token"
	"go/types"
	"slices"
	"strings"
)

func init() {
	register(&Rule{ID: "FIELD-1", Doc: "struct tag options are consumed where the documentation says and fields are resolved in the documented order: omitzero/omitempty/nameNeedEscape are read by the struct marshal closure, string/format by both closures, casing by matchFoldedName, embed and hasName by makeStructFields; the dominance sort compares name, then depth, then explicit-name, and keeps a field only if it dominates; the unmarshal closure consults the exact-name index before the folded index, reports ambiguity, and reaches ErrUnknownName only under RejectUnknownMembers with no embedded fallback; matchFoldedName honours casing and the two case options as documented", Run: ruleFIELD1})
}

func ruleFIELD1(c *Ctx) {
	p := c.P
	ft := p.Flags()
	foT := p.NamedType("json", "fieldOptions")
	if foT == nil {
		c.Undecide("json.fieldOptions", "type missing")
		return
	}
	st := foT.Underlying().(*types.Struct)
	readers := map[string]map[string]bool{} // field -> functions reading it (selector on the right-hand side / in conditions)
	for _, f := range p.FuncsIn("json") {
		if f.Body() == nil {
			continue
		}
		info := f.Info()
		lhs := map[ast.Expr]bool{}
		InspectNoLit(f.Body(), func(nd ast.Node) bool {
			if as, ok := nd.(*ast.AssignStmt); ok {
				for _, l := range as.Lhs {
					lhs[ast.Unparen(l)] = true
				}
			}
			return true
		})
		InspectNoLit(f.Body(), func(nd ast.Node) bool {
			sel, ok := nd.(*ast.SelectorExpr)
			if !ok || lhs[sel] {
				return true
			}
			if fld := SelField(info, sel); fld != nil {
				for i := 0; i < st.NumFields(); i++ {
					if st.Field(i) == fld {
						if readers[fld.Name()] == nil {
							readers[fld.Name()] = map[string]bool{}
						}
						readers[fld.Name()][f.Name] = true
					}
				}
			}
			return true
		})
	}
	want := map[string][]string{
		"omitzero":       {"json.makeStructArshaler:marshal"},
		"omitempty":      {"json.makeStructArshaler:marshal"},
		"nameNeedEscape": {"json.makeStructArshaler:marshal"},
		"string":         {"json.makeStructArshaler:marshal", "json.makeStructArshaler:unmarshal"},
		"format":         {"json.makeStructArshaler:marshal", "json.makeStructArshaler:unmarshal"},
		"casing":         {"json.(*structField).matchFoldedName"},
		"embed":          {"json.makeStructFields"},
		"hasName":        {"json.makeStructFields"},
	}
	for _, fld := range sortedKeys(want) {
		var miss []string
		for _, fn := range want[fld] {
			if !readers[fld][fn] {
				// closures nested in makeStructFields count for it
				found := false
				for r := range readers[fld] {
					if strings.HasPrefix(r, fn) {
						found = true
					}
				}
				// or a private helper of that function reads it (extract-method)
				if wf := p.Func(fn); wf != nil && !found {
					for _, g := range p.CalleeClosure(wf, 2) {
						if readers[fld][g.Name] {
							found = true
						}
					}
				}
				if !found {
					miss = append(miss, fn)
				}
			}
		}
		var pos token.Pos
		for i := 0; i < st.NumFields(); i++ {
			if st.Field(i).Name() == fld {
				pos = st.Field(i).Pos()
			}
		}
		if pos == token.NoPos {
			c.Undecide("json.fieldOptions."+fld, "field missing")
			continue
		}
		c.Oblige("option-consumed:"+fld, pos, len(miss) == 0, "tag option `"+fld+"` is not read by "+strings.Join(miss, ", ")+" (it would have no effect there)")
	}
	// every field of fieldOptions is read somewhere (a parsed option nobody consults)
	for i := 0; i < st.NumFields(); i++ {
		n := st.Field(i).Name()
		if _, listed := want[n]; listed {
			continue
		}
		c.Oblige("option-consumed:"+n, st.Field(i).Pos(), len(readers[n]) > 0, "parsed tag datum `"+n+"` is never read")
	}

	// marshal closure: omitzero condition includes the per-field flag and the global option
	if f := p.Func("json.makeStructArshaler:marshal"); f == nil {
		c.Undecide("json.makeStructArshaler:marshal", "closure missing")
	} else {
		info := f.Info()
		okZero, okEmptyLegacy, okEmptyV2 := false, false, false
		for _, ifs := range findAll[*ast.IfStmt](f.Body()) {
			cond := ifs.Cond
			usesField := func(name string) bool {
				u := false
				ast.Inspect(cond, func(nd ast.Node) bool {
					if e, ok := nd.(ast.Expr); ok {
						if fld := SelField(info, e); fld != nil && fld.Name() == name {
							u = true
						}
					}
					return true
				})
				return u
			}
			fr := flagsRead(info, cond)
			hasContinue := false
			for _, b := range findAll[*ast.BranchStmt](ifs.Body) {
				if b.Tok == token.CONTINUE {
					hasContinue = true
				}
			}
			if !hasContinue {
				continue
			}
			if usesField("omitzero") && fr&ft.Single["OmitZeroStructFields"] != 0 {
				// (f.omitzero || Get(OmitZeroStructFields)) && zero
				cj := conjuncts(cond)
				if len(cj) >= 2 {
					if be, ok := ast.Unparen(cj[0]).(*ast.BinaryExpr); ok && be.Op == token.LOR {
						okZero = true
					}
				}
			}
			if usesField("omitempty") && fr&ft.Single["OmitEmptyWithLegacySemantics"] != 0 {
				if hasNegFlagConjunct(info, cond, ft.Single["OmitEmptyWithLegacySemantics"]) {
					okEmptyV2 = true
				} else {
					okEmptyLegacy = true
				}
			}
		}
		c.Oblige("marshal:omitzero-condition", f.Pos(), okZero, "no `(f.omitzero || OmitZeroStructFields) && isZero` skip in the struct marshaler")
		c.Oblige("marshal:omitempty-conditions", f.Pos(), okEmptyLegacy && okEmptyV2, "omitempty is not applied both for legacy (isLegacyEmpty) and v2 (isEmpty / unwrite) semantics")
		// slow path: UnwriteEmptyObjectMember guarded by f.omitempty && !legacy
		okUnwrite := false
		for _, call := range findAll[*ast.CallExpr](f.Body()) {
			if _, ok := MethodCall(info, call, "jsontext", "encoderState", "UnwriteEmptyObjectMember"); ok {
				for _, cc := range enclosingConds(p, f, call) {
					uses := false
					ast.Inspect(cc.cond, func(nd ast.Node) bool {
						if e, ok := nd.(ast.Expr); ok {
							if fld := SelField(info, e); fld != nil && fld.Name() == "omitempty" {
								uses = true
							}
						}
						return true
					})
					if uses && hasNegFlagConjunct(info, cc.cond, ft.Single["OmitEmptyWithLegacySemantics"]) {
						okUnwrite = true
					}
				}
			}
		}
		c.Oblige("marshal:unwrite-only-for-omitempty", f.Pos(), okUnwrite, "UnwriteEmptyObjectMember is not limited to omitempty fields under v2 semantics")
		// a field counts as written only once its member survived: the seen-set insertion that backs the
		// duplicate check against embedded-fallback names comes after the point where the member may be taken back
		var unwritePos, insertPos token.Pos
		p.InspectScope(f, func(g *FuncInfo, nd ast.Node) bool {
			call, ok := nd.(*ast.CallExpr)
			if !ok || g != f {
				return true
			}
			if cf := Callee(info, call); cf != nil {
				switch {
				case cf.Name() == "UnwriteEmptyObjectMember":
					unwritePos = call.Pos()
				case cf.Name() == "insert" && cf.Type().(*types.Signature).Recv() != nil:
					if _, rn := recvTypeName(cf.Type().(*types.Signature).Recv().Type()); rn == "uintSet" && insertPos == token.NoPos {
						insertPos = call.Pos()
					}
				}
			}
			return true
		})
		if unwritePos != token.NoPos && insertPos != token.NoPos {
			c.Oblige("marshal:seen-recorded-after-unwrite", insertPos, insertPos > unwritePos, "the field is entered into the seen set before the point where its empty member may be taken back (UnwriteEmptyObjectMember): an omitted member still reserves its name, and an embedded-fallback member of that name is refused as a duplicate")
		}
	}

	// unmarshal closure: exact before folded, ambiguity, unknown
	if f := p.Func("json.makeStructArshaler:unmarshal"); f == nil {
		c.Undecide("json.makeStructArshaler:unmarshal", "closure missing")
	} else {
		// the two lookups may live together in a private helper of the closure (extract-method)
		outer := f
		p.InspectScope(outer, func(g *FuncInfo, nd ast.Node) bool {
			if call, ok := nd.(*ast.CallExpr); ok {
				if cf := Callee(g.Info(), call); cf != nil && cf.Name() == "lookupByFoldedName" {
					f = g
				}
			}
			return true
		})
		info := f.Info()
		var exactPos, foldPos token.Pos
		InspectNoLit(f.Body(), func(nd ast.Node) bool {
			switch x := nd.(type) {
			case *ast.IndexExpr:
				if fld := SelField(info, x.X); fld != nil && fld.Name() == "byActualName" && exactPos == token.NoPos {
					exactPos = x.Pos()
				}
			case *ast.CallExpr:
				if cf := Callee(info, x); cf != nil && cf.Name() == "lookupByFoldedName" && foldPos == token.NoPos {
					foldPos = x.Pos()
				}
			}
			return true
		})
		okOrder := exactPos != token.NoPos && foldPos != token.NoPos && exactPos < foldPos
		// path-sensitively: wherever the folded index is consulted, the exact lookup's result is known to be nil
		if okOrder {
			type st struct{ exactNil tri }
			var exactVar types.Object
			nFold, bad := 0, false
			fl := &Flow[st]{Fn: f}
			isExact := func(e ast.Expr) bool {
				if ix, ok := ast.Unparen(e).(*ast.IndexExpr); ok {
					if fld := SelField(info, ix.X); fld != nil && fld.Name() == "byActualName" {
						return true
					}
				}
				return false
			}
			visitCalls := func(n ast.Node, s st) {
				for _, call := range CallsIn(n) {
					if cf := Callee(info, call); cf != nil && cf.Name() == "lookupByFoldedName" {
						nFold++
						if s.exactNil != triYes {
							bad = true
						}
					}
				}
			}
			fl.Node = func(n ast.Node, s st) []st {
				if as, ok := n.(*ast.AssignStmt); ok && len(as.Lhs) == len(as.Rhs) {
					for i, r := range as.Rhs {
						if isExact(r) {
							exactVar = IdentObj(info, as.Lhs[i])
							s.exactNil = triUnknown
						}
					}
				}
				if rs, ok := n.(*ast.RangeStmt); ok {
					visitCalls(rs.X, s)
					return []st{s}
				}
				visitCalls(n, s)
				if _, ok := n.(*ast.ReturnStmt); ok {
					return nil
				}
				return []st{s}
			}
			fl.Leaf = func(e ast.Expr, s st) (t, fs []st) {
				visitCalls(e, s)
				if be, ok := ast.Unparen(e).(*ast.BinaryExpr); ok && (be.Op == token.EQL || be.Op == token.NEQ) && IsNilIdent(info, be.Y) && exactVar != nil && IdentObj(info, be.X) == exactVar {
					if be.Op == token.EQL {
						return []st{{triYes}}, []st{{triNo}}
					}
					return []st{{triNo}}, []st{{triYes}}
				}
				return []st{s}, []st{s}
			}
			fl.Run(st{})
			okOrder = nFold > 0 && !bad
		}
		c.Oblige("unmarshal:exact-name-first", outer.Pos(), okOrder, "the folded-name index is consulted before (or regardless of) the exact-name index")
		f = outer
		info = f.Info()
		ambiguous, unknownGuard := false, false
		// the closure and the private helpers it was split into
		type callIn struct {
			g    *FuncInfo
			call *ast.CallExpr
		}
		var scopeCalls []callIn
		for _, g := range p.CalleeClosure(f, 2) {
			for _, call := range findAll[*ast.CallExpr](g.Body()) {
				scopeCalls = append(scopeCalls, callIn{g, call})
			}
		}
		for _, sc := range scopeCalls {
			f, info, call := sc.g, sc.g.Info(), sc.call
			for _, a := range call.Args {
				o := IdentObj(info, a)
				if o == nil {
					continue
				}
				switch o.Name() {
				case "errAmbiguousName":
					ambiguous = true
				case "ErrUnknownName":
					for _, cc := range enclosingConds(p, f, call) {
						fr := flagsRead(info, cc.cond)
						fb := false
						ast.Inspect(cc.cond, func(nd ast.Node) bool {
							if be, ok := nd.(*ast.BinaryExpr); ok && be.Op == token.EQL && IsNilIdent(info, be.Y) {
								if fld := SelField(info, be.X); fld != nil && fld.Name() == "embeddedFallback" {
									fb = true
								}
							}
							return true
						})
						if fr&ft.Single["RejectUnknownMembers"] != 0 && fb {
							unknownGuard = true
						}
					}
				}
			}
		}
		c.Oblige("unmarshal:ambiguity-reported", f.Pos(), ambiguous, "several case-insensitive matches are not reported as ambiguous")
		c.Oblige("unmarshal:unknown-name-guard", f.Pos(), unknownGuard, "ErrUnknownName is not limited to RejectUnknownMembers with no embedded fallback")
	}

	// dominance comparator in makeStructFields
	if f := p.Func("json.makeStructFields"); f == nil || f.Body() == nil {
		c.Undecide("json.makeStructFields", "function missing")
	} else {
		info := f.Info()
		// makeStructFields and the private phases it may have been split into
		var scopeBodies []ast.Node
		for _, g := range p.CalleeClosure(f, 2) {
			if g.Decl != nil && g.Body() != nil {
				scopeBodies = append(scopeBodies, g.Body())
			}
		}
		allCalls := func() []*ast.CallExpr {
			var out []*ast.CallExpr
			for _, b := range scopeBodies {
				out = append(out, findAllDeep[*ast.CallExpr](b)...)
			}
			return out
		}
		allIfs := func() []*ast.IfStmt {
			var out []*ast.IfStmt
			for _, b := range scopeBodies {
				out = append(out, findAllDeep[*ast.IfStmt](b)...)
			}
			return out
		}
		okCmp := false
		got := ""
		for _, call := range allCalls() {
			if cf := Callee(info, call); cf == nil || QualName(cf) != "slices.SortStableFunc" || len(call.Args) != 2 {
				continue
			}
			lit, ok := ast.Unparen(call.Args[1]).(*ast.FuncLit)
			if !ok {
				continue
			}
			for _, r := range Returns(lit.Body) {
				if len(r.Results) != 1 {
					continue
				}
				or, ok := ast.Unparen(r.Results[0]).(*ast.CallExpr)
				if !ok {
					continue
				}
				var keys []string
				for _, a := range or.Args {
					k := "?"
					ast.Inspect(a, func(nd ast.Node) bool {
						if e, ok := nd.(ast.Expr); ok {
							if fld := SelField(info, e); fld != nil {
								switch fld.Name() {
								case "name", "index", "hasName":
									if k == "?" {
										k = fld.Name()
									}
								}
							}
						}
						return true
					})
					keys = append(keys, k)
				}
				got = strings.Join(keys, ",")
				okCmp = got == "name,index,hasName"
			}
		}
		c.Oblige("fields:dominance-order", f.Pos(), okCmp, "candidate fields are ordered by ["+got+"], documented order is name, then depth (index length), then explicit name")
		// keep only dominant
		okKeep := false
		for _, ifs := range allIfs() {
			uses := map[string]bool{}
			ast.Inspect(ifs.Cond, func(nd ast.Node) bool {
				if e, ok := nd.(ast.Expr); ok {
					if fld := SelField(info, e); fld != nil {
						uses[fld.Name()] = true
					}
				}
				return true
			})
			n1 := false
			ast.Inspect(ifs.Cond, func(nd ast.Node) bool {
				if be, ok := nd.(*ast.BinaryExpr); ok && be.Op == token.EQL {
					if v, isC := ConstI64(info, be.Y); isC && v == 1 {
						n1 = true
					}
				}
				return true
			})
			if uses["index"] && uses["hasName"] && n1 {
				okKeep = true
			}
		}
		c.Oblige("fields:keep-only-dominant", f.Pos(), okKeep, "no `n == 1 || depth differs || explicit-name differs` test when collapsing same-named fields")
		// final order: by index (depth-first); ids by breadth-first order
		finalIdx := false
		for _, call := range allCalls() {
			if cf := Callee(info, call); cf != nil && QualName(cf) == "slices.Compare" && len(call.Args) == 2 {
				if fld := SelField(info, call.Args[0]); fld != nil && fld.Name() == "index" {
					finalIdx = true
				}
			}
		}
		c.Oblige("fields:emitted-in-declaration-order", f.Pos(), finalIdx, "the flattened fields are not finally ordered by their index path")
		// the IsZero-method closure is installed whatever the tag says (OmitZeroStructFields can ask for it on any
		// field), and the same-struct name conflict is checked however the name was obtained
		mentionsField := func(gi *types.Info, e ast.Node, name string) bool {
			found := false
			ast.Inspect(e, func(m ast.Node) bool {
				if sel, ok := m.(*ast.SelectorExpr); ok {
					if fv := SelField(gi, sel); fv != nil && fv.Name() == name {
						found = true
					}
				}
				return true
			})
			return found
		}
		// conditions governing a statement: enclosing ifs, own case clause and the earlier clauses of a tagless switch
		governing := func(g *FuncInfo, nd ast.Node) []ast.Expr {
			var out []ast.Expr
			for _, cc := range enclosingConds(p, g, nd) {
				out = append(out, cc.cond)
			}
			var cur ast.Node = nd
			for cur != nil && cur != ast.Node(g.Body()) {
				par := p.Parent(g.File, cur)
				if cc, ok := par.(*ast.CaseClause); ok {
					if sw, ok := p.Parent(g.File, p.Parent(g.File, cc)).(*ast.SwitchStmt); ok && sw.Tag == nil {
						for _, st := range sw.Body.List {
							c2 := st.(*ast.CaseClause)
							if c2.Pos() >= cc.Pos() {
								break
							}
							out = append(out, c2.List...)
						}
					}
				}
				cur = par
			}
			return out
		}
		nIsZero, okIsZero, whyIsZero := 0, true, ""
		nConf, okConf := 0, true
		for _, g := range p.CalleeClosure(f, 2) {
			if g.Body() == nil {
				continue
			}
			gi := g.Info()
			InspectNoLit(g.Body(), func(nd ast.Node) bool {
				switch x := nd.(type) {
				case *ast.AssignStmt:
					for _, l := range x.Lhs {
						if fv := SelField(gi, l); fv != nil && fv.Name() == "isZero" {
							nIsZero++
							for _, cond := range governing(g, x) {
								if mentionsField(gi, cond, "omitzero") {
									okIsZero = false
									whyIsZero = "store at " + p.Position(x.Pos()) + " is governed by `" + exprString(cond) + "`"
								}
							}
						}
					}
				case *ast.IfStmt:
					// if j, ok := index[f.name]; ok { report }
					as, ok := x.Init.(*ast.AssignStmt)
					if !ok || len(as.Rhs) != 1 {
						return true
					}
					ix, ok := ast.Unparen(as.Rhs[0]).(*ast.IndexExpr)
					if !ok {
						return true
					}
					mt, ok := gi.TypeOf(ix.X).Underlying().(*types.Map)
					if !ok {
						return true
					}
					if b, ok := mt.Key().Underlying().(*types.Basic); !ok || b.Kind() != types.String {
						return true
					}
					if fv := SelField(gi, ix.Index); fv == nil || fv.Name() != "name" {
						return true
					}
					reports := false
					ast.Inspect(x.Body, func(m ast.Node) bool {
						if a2, ok := m.(*ast.AssignStmt); ok {
							for _, l := range a2.Lhs {
								if t := gi.TypeOf(l); t != nil && strings.HasSuffix(t.String(), "SemanticError") {
									reports = true
								}
							}
						}
						return true
					})
					if !reports {
						return true
					}
					nConf++
					conds := append(governing(g, x), x.Cond)
					for _, cond := range conds {
						if mentionsField(gi, cond, "hasName") {
							okConf = false
						}
					}
				}
				return true
			})
		}
		if nIsZero == 0 {
			c.Undecide("json.makeStructFields/isZero", "no store into structField.isZero")
		} else {
			c.Oblige("fields:iszero-method-installed-for-every-field", f.Pos(), okIsZero, "the IsZero-method test is only installed for fields tagged omitzero ("+whyIsZero+"): under OmitZeroStructFields the other fields are judged by reflect's zero test instead of their IsZero method")
		}
		if nConf == 0 {
			c.Undecide("json.makeStructFields/name-conflict", "no same-struct name conflict check found")
		} else {
			c.Oblige("fields:name-conflict-checked-for-every-field", f.Pos(), okConf, "the same-struct JSON name conflict is only checked for fields with an explicit name: a tagged field and a later untagged Go field of that name are silently merged")
		}
		// whether the embedded structs of an embedded struct are visited must not depend on whether that type was
		// reached before through a different path: the second arm of a diamond then lists the shared type's direct
		// fields (which cancel) but not the fields of the types embedded in it (which escape the tie rule)
		for _, g := range p.CalleeClosure(f, 2) {
			if g.Body() == nil {
				continue
			}
			gi := g.Info()
			ast.Inspect(g.Body(), func(nd ast.Node) bool {
				cl, ok := nd.(*ast.CompositeLit)
				if !ok {
					return true
				}
				st, ok := gi.TypeOf(cl).Underlying().(*types.Struct)
				if !ok {
					return true
				}
				idx := -1
				for i := 0; i < st.NumFields(); i++ {
					if st.Field(i).Name() == "visitChildren" {
						idx = i
					}
				}
				if idx < 0 {
					return true
				}
				var val ast.Expr
				for i, el := range cl.Elts {
					if kv, ok := el.(*ast.KeyValueExpr); ok {
						if id, ok := kv.Key.(*ast.Ident); ok && id.Name == "visitChildren" {
							val = kv.Value
						}
					} else if i == idx {
						val = el
					}
				}
				if val == nil {
					return true
				}
				if tv, ok := gi.Types[val]; ok && tv.Value != nil {
					return true // the root entry
				}
				usesSeen := false
				ast.Inspect(val, func(m ast.Node) bool {
					if ix, ok := m.(*ast.IndexExpr); ok {
						if mt, ok := gi.TypeOf(ix.X).Underlying().(*types.Map); ok {
							if b, ok := mt.Elem().Underlying().(*types.Basic); ok && b.Kind() == types.Bool {
								usesSeen = true
							}
						}
					}
					return true
				})
				c.Oblige("fields:revisit-independent-of-other-paths", val.Pos(), !usesSeen, "an embedded struct type reached a second time (through another path) is queued with visitChildren=false: its direct fields are listed and cancel against the first path, but the structs embedded in it are not visited again, so a field two levels below a shared embedded type (a two-level diamond) is emitted although it is ambiguous — `all tied fields dropped` does not hold for that shape")
				return true
			})
		}
		// both lookup indexes cover every flattened field: each store into byActualName / byFoldedName that sits in a
		// loop over the flattened fields is a direct statement of the loop body and no branch statement precedes it
		for _, idxName := range []string{"byActualName", "byFoldedName"} {
			stores, okTotal, why := 0, true, ""
			for _, g := range p.CalleeClosure(f, 2) {
				if g.Decl == nil || g.Body() == nil {
					continue
				}
				gi := g.Info()
				ast.Inspect(g.Body(), func(nd ast.Node) bool {
					as, ok := nd.(*ast.AssignStmt)
					if !ok || len(as.Lhs) != 1 {
						return true
					}
					ix, ok := ast.Unparen(as.Lhs[0]).(*ast.IndexExpr)
					if !ok {
						return true
					}
					if fld := SelField(gi, ix.X); fld == nil || fld.Name() != idxName {
						return true
					}
					// innermost enclosing range statement
					var rng *ast.RangeStmt
					var cur ast.Node = as
					for cur != nil && cur != ast.Node(g.Body()) {
						cur = p.Parent(g.File, cur)
						if r, ok := cur.(*ast.RangeStmt); ok {
							rng = r
							break
						}
					}
					if rng == nil {
						return true
					}
					if fld := SelField(gi, rng.X); fld == nil || fld.Name() != "flattened" {
						if id, ok := ast.Unparen(rng.X).(*ast.Ident); !ok || id.Name != "flattened" {
							return true // a loop over something else (the per-name candidate lists)
						}
					}
					stores++
					direct := false
					for _, st := range rng.Body.List {
						if st == ast.Stmt(as) {
							direct = true
							break
						}
						brk := false
						ast.Inspect(st, func(m ast.Node) bool {
							switch m.(type) {
							case *ast.BranchStmt, *ast.ReturnStmt:
								brk = true
							case *ast.FuncLit:
								return false
							}
							return true
						})
						if brk {
							why = "a continue/break/return precedes the store at " + p.Position(as.Pos())
							break
						}
					}
					if !direct {
						okTotal = false
						if why == "" {
							why = "the store at " + p.Position(as.Pos()) + " is conditional"
						}
					}
					return true
				})
			}
			if stores == 0 {
				c.Undecide("json.makeStructFields/"+idxName, "no store into "+idxName+" in a loop over the flattened fields")
				continue
			}
			c.Oblige("fields:index-total:"+idxName, f.Pos(), okTotal, "not every flattened field is entered into "+idxName+" ("+why+"): lookups that use this index as a pre-filter (the duplicate check of embedded-fallback names, case-insensitive matching) miss the skipped fields")
		}
	}

	// matchFoldedName
	if f := p.Func("json.(*structField).matchFoldedName"); f == nil || f.Body() == nil {
		c.Undecide("json.(*structField).matchFoldedName", "function missing")
	} else {
		info := f.Info()
		ci, cs := ft.Single["MatchCaseInsensitiveNames"], ft.Single["MatchCaseSensitiveDelimiter"]
		// atoms: 0 casing==caseIgnore, 1 casing==caseStrict, 2 MatchCaseInsensitiveNames, 3 MatchCaseSensitiveDelimiter, 4 strings.EqualFold(name, f.name)
		foldArgs := false
		atom := func(e ast.Expr) (int, bool, bool) {
			switch x := e.(type) {
			case *ast.BinaryExpr:
				if x.Op == token.EQL || x.Op == token.NEQ {
					l, r := ast.Unparen(x.X), ast.Unparen(x.Y)
					if fld := SelField(info, r); fld != nil && fld.Name() == "casing" {
						l, r = r, l
					}
					if fld := SelField(info, l); fld != nil && fld.Name() == "casing" {
						if o := IdentObj(info, r); o != nil {
							switch o.Name() {
							case "caseIgnore":
								return 0, x.Op == token.NEQ, true
							case "caseStrict":
								return 1, x.Op == token.NEQ, true
							}
						}
					}
				}
			case *ast.CallExpr:
				if mm, _, v, ok := FlagCall(info, x); ok && mm == "Get" {
					switch v &^ 1 {
					case ci:
						return 2, false, true
					case cs:
						return 3, false, true
					}
				}
				if FuncCall(info, x, "strings", "EqualFold") && len(x.Args) == 2 {
					var names []string
					for _, a := range x.Args {
						ast.Inspect(a, func(nd ast.Node) bool {
							if id, ok := nd.(*ast.Ident); ok {
								names = append(names, id.Name)
							}
							return true
						})
					}
					if slices.Contains(names, "name") && len(names) >= 3 {
						foldArgs = true
					}
					return 4, false, true
				}
			}
			return 0, false, false
		}
		tt := TruthTable(f, 5, atom, func(v uint) bool { return v&3 != 3 })
		okOuter, okInner := len(tt) > 0, len(tt) > 0
		for v, got := range tt {
			a0, a1, a2, a3, a4 := v&1 != 0, v&2 != 0, v&4 != 0, v&8 != 0, v&16 != 0
			outer := a0 || (a2 && !a1)
			inner := !a3 || a4
			want := triNo
			if outer && inner {
				want = triYes
			}
			if got != want {
				if !outer || (outer && inner) {
					okOuter = false
				} else {
					okInner = false
				}
			}
		}
		if !foldArgs {
			okInner = false
		}
		c.Oblige("fold:casing-and-option", f.Pos(), okOuter, "matchFoldedName does not implement `casing == caseIgnore || (MatchCaseInsensitiveNames && casing != caseStrict)`")
		c.Oblige("fold:delimiter-option", f.Pos(), okInner, "matchFoldedName does not implement `!MatchCaseSensitiveDelimiter || EqualFold`")
	}
}
