package main

import (
	"fmt"
	"go/ast"
	"go/token"
	"go/types"
	"strings"
)

func init() {
	register(&Rule{ID: "OPT-4", Doc: "per-call options are scoped: in every exported function of package json that receives a caller-owned *jsontext.Encoder/*jsontext.Decoder, each mutation of the coder's option struct (Struct.Join, InitializeMultiline, Flags.Set/Clear/Join, field stores) is preceded on every path by saving the original (`orig := x.Struct`) and registering `defer func() { x.Struct = orig }()`", Run: ruleOPT4})
	register(&Rule{ID: "OPT-5", Doc: "struct-tag options apply to one value only: every Flags.Set of StringTag/FormatTag and every non-empty store to Format inside an arshaler is preceded by saving the flags and followed on every path, before any exit and before the flags are saved again, by restoring `Flags = saved; Format = \"\"`; every successful pushObject/pushArray in ReadToken/WriteToken is followed by Flags.Clear(TagFlags)", Run: ruleOPT5})
	register(&Rule{ID: "OPT-6", Doc: "options documented as one-sided are only read on their side: decoder code never reads an encode-only flag, encoder code never a decode-only one, unmarshal code never a marshal-only flag and marshal code never an unmarshal-only flag (the sides are read from the `// encode only`, `// marshal only`, ... annotations on the constant declarations)", Run: ruleOPT6})
}

// optionMutation reports whether call mutates an options struct/flags reachable from a coder expression.
func optionMutation(info *types.Info, call *ast.CallExpr) (recv ast.Expr, what string, ok bool) {
	if m, r, _, isFlag := FlagCall(info, call); isFlag && (m == "Set" || m == "Clear" || m == "Join") {
		return r, "Flags." + m, true
	}
	if r, isM := MethodCall(info, call, "jsonopts", "Struct", "Join"); isM {
		return r, "Struct.Join", true
	}
	if r, isM := MethodCall(info, call, "jsonopts", "Struct", "InitializeMultiline"); isM {
		return r, "Struct.InitializeMultiline", true
	}
	return nil, "", false
}

func isCoderStateType(t types.Type) bool {
	return isNamed(t, pkgAlias["jsontext"], "encoderState") || isNamed(t, pkgAlias["jsontext"], "decoderState")
}

// rootedAtCoderState reports whether e is a selection chain starting at a value of type *encoderState/*decoderState.
func rootedAtCoderState(info *types.Info, e ast.Expr) bool {
	for {
		e = ast.Unparen(e)
		if t := info.TypeOf(e); t != nil && isCoderStateType(t) {
			return true
		}
		switch x := e.(type) {
		case *ast.SelectorExpr:
			e = x.X
		case *ast.UnaryExpr:
			e = x.X
		case *ast.StarExpr:
			e = x.X
		default:
			return false
		}
	}
}

func ruleOPT4(c *Ctx) {
	p := c.P
	structField := func(t string) *types.Var { return p.Field("jsontext", t, "Struct") }
	encS, decS := structField("encoderState"), structField("decoderState")
	n := 0
	for _, f := range p.FuncsIn("json", "v1") {
		if f.Decl == nil || f.Body() == nil || f.Obj == nil || !f.Obj.Exported() || f.Decl.Recv != nil {
			continue
		}
		sig := f.Obj.Type().(*types.Signature)
		owns := false
		for i := 0; i < sig.Params().Len(); i++ {
			t := sig.Params().At(i).Type()
			if isNamed(t, pkgAlias["jsontext"], "Encoder") || isNamed(t, pkgAlias["jsontext"], "Decoder") {
				owns = true
			}
		}
		if !owns {
			continue
		}
		info := f.Info()
		// does it mutate options at all?
		mutates := false
		InspectNoLit(f.Body(), func(nd ast.Node) bool {
			if call, ok := nd.(*ast.CallExpr); ok {
				if r, _, ok := optionMutation(info, call); ok && rootedAtCoderState(info, r) {
					mutates = true
				}
			}
			return true
		})
		if !mutates {
			continue
		}
		n++
		type st struct{ saved, deferred bool }
		var savedVar types.Object
		bad := ""
		fl := &Flow[st]{Fn: f}
		visit := func(nd ast.Node, s st) st {
			for _, call := range CallsIn(nd) {
				if r, what, ok := optionMutation(info, call); ok && rootedAtCoderState(info, r) {
					if !(s.saved && s.deferred) && bad == "" {
						bad = fmt.Sprintf("%s on the caller's coder at %s before the original options were saved and their restoration deferred", what, p.Position(call.Pos()))
					}
				}
			}
			return s
		}
		fl.Node = func(nd ast.Node, s st) []st {
			switch x := nd.(type) {
			case *ast.AssignStmt:
				if len(x.Lhs) == 1 && len(x.Rhs) == 1 {
					if fld := SelField(info, x.Rhs[0]); fld != nil && (fld == encS || fld == decS) && x.Tok == token.DEFINE {
						savedVar = IdentObj(info, x.Lhs[0])
						s.saved = true
					}
					// direct stores into the coder's options
					if fld := SelField(info, x.Lhs[0]); fld != nil && rootedAtCoderState(info, x.Lhs[0]) && x.Tok != token.DEFINE {
						if fld == encS || fld == decS || structFieldOf(p, fld) {
							if !(s.saved && s.deferred) && bad == "" {
								bad = "store to the caller's coder options at " + p.Position(x.Pos()) + " before save/defer-restore"
							}
						}
					}
				}
			case *ast.DeferStmt:
				// defer func() { x.Struct = saved }()
				if lit, ok := ast.Unparen(x.Call.Fun).(*ast.FuncLit); ok && savedVar != nil {
					for _, as := range findAll[*ast.AssignStmt](lit.Body) {
						if len(as.Lhs) == 1 && len(as.Rhs) == 1 {
							if fld := SelField(info, as.Lhs[0]); fld != nil && (fld == encS || fld == decS) && IdentObj(info, as.Rhs[0]) == savedVar {
								s.deferred = true
							}
						}
					}
				}
				return []st{s}
			case *ast.ReturnStmt:
				visit(nd, s)
				return nil
			}
			return []st{visit(nd, s)}
		}
		fl.Leaf = func(e ast.Expr, s st) (t, fs []st) { s = visit(e, s); return []st{s}, []st{s} }
		fl.Run(st{})
		c.Oblige("scoped:"+f.Name, f.Pos(), bad == "", bad)
	}
	c.Floor("exported functions that change a caller-owned coder's options", n, 2)
}

func ruleOPT5(c *Ctx) {
	p := c.P
	ft := p.Flags()
	tag := ft.Named["TagFlags"]
	flagsField := p.Field("jsonopts", "Struct", "Flags")
	formatField := p.Field("jsonopts", "ArshalValues", "Format")
	if tag == 0 || flagsField == nil || formatField == nil {
		c.Undecide("jsonflags.TagFlags / jsonopts.Struct.Flags / Format", "missing")
		return
	}
	n := 0
	for _, f := range p.FuncsIn("json") {
		if f.Body() == nil {
			continue
		}
		info := f.Info()
		sets := false
		// the function itself or a private helper it calls sets the tag options
		p.InspectScope(f, func(g *FuncInfo, nd ast.Node) bool {
			switch x := nd.(type) {
			case *ast.CallExpr:
				if m, _, v, ok := FlagCall(g.Info(), x); ok && m == "Set" && v&tag != 0 {
					sets = true
				}
			case *ast.AssignStmt:
				for i, l := range x.Lhs {
					if SelField(g.Info(), l) == formatField && i < len(x.Rhs) {
						if s, isC := ConstStr(g.Info(), x.Rhs[i]); !isC || s != "" {
							sets = true
						}
					}
				}
			}
			return true
		})
		if !sets {
			continue
		}
		// a private helper (unexported declaration all of whose callers are in this package) is
		// analysed as part of its callers, where its body is walked in place
		if f.Decl != nil && f.Obj != nil && !ast.IsExported(f.Obj.Name()) && f.Decl.Recv == nil {
			if cs := callersOf(p, f.Obj); len(cs) > 0 {
				continue
			}
		}
		n++
		type st struct {
			saved      bool
			flagsDirty bool
			fmtDirty   bool
		}
		savedVars := map[types.Object]bool{}
		bad := ""
		report := func(msg string, pos token.Pos) {
			if bad == "" {
				bad = msg + " at " + p.Position(pos)
			}
		}
		fl := &Flow[st]{Fn: f, Inline: p.InlineAny(f)}
		fl.Bind = func(callee *FuncInfo, call *ast.CallExpr, s st) st {
			if callee.Obj != nil {
				sig := callee.Obj.Type().(*types.Signature)
				for i := 0; i < sig.Params().Len() && i < len(call.Args); i++ {
					if savedVars[IdentObj(info, call.Args[i])] {
						savedVars[sig.Params().At(i)] = true
					}
				}
			}
			return s
		}
		visit := func(nd ast.Node, s st) st {
			for _, call := range CallsIn(nd) {
				if m, _, v, ok := FlagCall(info, call); ok && m == "Set" && v&tag != 0 {
					if !s.saved {
						report("tag flag set without saving the original flags first", call.Pos())
					}
					s.flagsDirty = true
				}
			}
			return s
		}
		fl.Node = func(nd ast.Node, s st) []st {
			switch x := nd.(type) {
			case *ast.AssignStmt:
				s = visit(nd, s)
				if len(x.Rhs) == 1 && s.saved {
					if call, ok := ast.Unparen(x.Rhs[0]).(*ast.CallExpr); ok && fl.Inline(call) != nil {
						for _, l := range x.Lhs {
							if lv, _ := IdentObj(info, l).(*types.Var); lv != nil && !lv.IsField() {
								savedVars[lv] = true // the helper hands back what it saved
							}
						}
					}
				}
				if len(x.Lhs) == len(x.Rhs) {
					for i, l := range x.Lhs {
						// saved := X.Flags (or an assignment to a local / named result)
						if lv, _ := IdentObj(info, l).(*types.Var); SelField(info, x.Rhs[i]) == flagsField && lv != nil && !lv.IsField() {
							if s.flagsDirty || s.fmtDirty {
								report("flags saved again while tag options of the previous value are still set", x.Pos())
							}
							savedVars[lv] = true
							s.saved = true
						}
						// X.Flags = saved
						if SelField(info, l) == flagsField && x.Tok == token.ASSIGN && savedVars[IdentObj(info, x.Rhs[i])] {
							s.flagsDirty = false
						}
						if SelField(info, l) == formatField && x.Tok == token.ASSIGN {
							if str, isC := ConstStr(info, x.Rhs[i]); isC && str == "" {
								s.fmtDirty = false
							} else {
								if !s.saved {
									report("Format set without saving the original flags first", x.Pos())
								}
								s.fmtDirty = true
							}
						}
					}
				}
				return []st{s}
			case *ast.ReturnStmt:
				s = visit(nd, s)
				if s.flagsDirty || s.fmtDirty {
					report("returns with struct-tag options still set in the shared options (they would leak into the next value or the caller's coder)", x.Pos())
				}
				return nil
			}
			return []st{visit(nd, s)}
		}
		fl.Leaf = func(e ast.Expr, s st) (t, fs []st) { s = visit(e, s); return []st{s}, []st{s} }
		fl.Run(st{})
		c.Oblige("tag-scope:"+f.Name, f.Pos(), bad == "", bad)
	}
	c.Floor("functions that set struct-tag options", n, 2)

	// token-level: successful push is followed by Clear(TagFlags)
	for _, nm := range []string{"jsontext.(*decoderState).ReadToken", "jsontext.(*encoderState).WriteToken"} {
		f := p.Func(nm)
		if f == nil || f.Body() == nil {
			c.Undecide(nm, "function missing")
			continue
		}
		info := f.Info()
		type st struct {
			pushed  tri // triYes: a push succeeded on this path
			cleared bool
		}
		var errVar types.Object
		bad := ""
		nPush := 0
		fl := &Flow[st]{Fn: f}
		isPush := func(e ast.Expr) bool {
			call, ok := ast.Unparen(e).(*ast.CallExpr)
			if !ok {
				return false
			}
			_, a := MethodCall(info, call, "jsontext", "stateMachine", "pushObject")
			_, b := MethodCall(info, call, "jsontext", "stateMachine", "pushArray")
			return a || b
		}
		fl.Node = func(nd ast.Node, s st) []st {
			if as, ok := nd.(*ast.AssignStmt); ok && len(as.Rhs) == 1 && isPush(as.Rhs[0]) {
				nPush++
				errVar = IdentObj(info, as.Lhs[0])
				return []st{{pushed: triYes}, {pushed: triNo}}
			}
			for _, call := range CallsIn(nd) {
				if m, _, v, ok := FlagCall(info, call); ok && m == "Clear" && v&tag == tag {
					s.cleared = true
				}
			}
			if r, ok := nd.(*ast.ReturnStmt); ok {
				if s.pushed == triYes && !s.cleared && bad == "" {
					bad = "returns at " + p.Position(r.Pos()) + " after a successful push without Flags.Clear(TagFlags)"
				}
				return nil
			}
			return []st{s}
		}
		fl.Leaf = func(e ast.Expr, s st) (t, fs []st) {
			if v, nonNil, ok := ErrCmp(info, e); ok && errVar != nil && v == errVar && s.pushed != triUnknown {
				failed := s.pushed == triNo
				if failed == nonNil {
					return []st{s}, nil
				}
				return nil, []st{s}
			}
			return []st{s}, []st{s}
		}
		fl.Run(st{})
		if nPush == 0 {
			c.Undecide(nm+"/push", "no pushObject/pushArray call found")
			continue
		}
		c.Oblige("clear-tags-on-descend:"+nm, f.Pos(), bad == "", bad)
	}
}

// flagSides reads the side annotations from the constant declarations of package jsonflags.
func flagSides(p *Program) map[string]string {
	out := map[string]string{}
	pk := p.Pkg("jsonflags")
	if pk == nil {
		return out
	}
	for _, file := range pk.Syntax {
		for _, d := range file.Decls {
			gd, ok := d.(*ast.GenDecl)
			if !ok || gd.Tok != token.CONST {
				continue
			}
			for _, sp := range gd.Specs {
				vs := sp.(*ast.ValueSpec)
				if vs.Comment == nil || len(vs.Names) != 1 {
					continue
				}
				txt := strings.ToLower(vs.Comment.Text())
				side := ""
				switch {
				case strings.HasPrefix(txt, "encode only"):
					side = "encode"
				case strings.HasPrefix(txt, "decode only"):
					side = "decode"
				case strings.HasPrefix(txt, "marshal only"), strings.HasPrefix(txt, "marshal;"), strings.TrimSpace(txt) == "marshal":
					side = "marshal"
				case strings.HasPrefix(txt, "unmarshal only"), strings.HasPrefix(txt, "unmarshal;"), strings.TrimSpace(txt) == "unmarshal":
					side = "unmarshal"
				}
				if side != "" {
					out[vs.Names[0].Name] = side
				}
			}
		}
	}
	return out
}

func ruleOPT6(c *Ctx) {
	p := c.P
	ft := p.Flags()
	sides := flagSides(p)
	if !c.Floor("flags annotated as one-sided", len(sides), 20) {
		return
	}
	forbidden := func(side string) uint64 { // flags that code on `side` must not read
		var m uint64
		for name, s := range sides {
			opp := map[string]string{"encode": "decode", "decode": "encode", "marshal": "unmarshal", "unmarshal": "marshal"}[side]
			if s == opp {
				m |= ft.Single[name]
			}
		}
		return m
	}
	msig, usig := marshalerSig(p), unmarshalerSig(p)
	sideOf := func(f *FuncInfo) string {
		// jsontext: by receiver / parameter type
		hasT := func(names ...string) bool {
			var sig *types.Signature
			if f.Obj != nil {
				sig = f.Obj.Type().(*types.Signature)
			} else if t := f.Info().TypeOf(f.Lit); t != nil {
				sig, _ = t.Underlying().(*types.Signature)
			}
			if sig == nil {
				return false
			}
			check := func(t types.Type) bool {
				for _, n := range names {
					if isNamed(t, pkgAlias["jsontext"], n) {
						return true
					}
				}
				return false
			}
			if sig.Recv() != nil && check(sig.Recv().Type()) {
				return true
			}
			for i := 0; i < sig.Params().Len(); i++ {
				if check(sig.Params().At(i).Type()) {
					return true
				}
			}
			return false
		}
		enc := hasT("Encoder", "encoderState", "encodeBuffer")
		dec := hasT("Decoder", "decoderState", "decodeBuffer")
		if f.Lit != nil {
			if t := f.Info().TypeOf(f.Lit); t != nil {
				if s, ok := t.Underlying().(*types.Signature); ok {
					if msig != nil && types.Identical(s, msig) {
						enc, dec = true, false
					}
					if usig != nil && types.Identical(s, usig) {
						enc, dec = false, true
					}
				}
			}
		}
		switch {
		case enc && !dec:
			return "encode"
		case dec && !enc:
			return "decode"
		}
		return ""
	}
	n := 0
	for _, f := range p.FuncsIn("json", "jsontext") {
		if f.Body() == nil {
			continue
		}
		side := sideOf(f)
		if side == "" {
			continue
		}
		bad := forbidden(side)
		if f.Pkg.PkgPath == pkgAlias["json"] {
			if side == "encode" {
				bad |= forbidden("marshal")
			} else {
				bad |= forbidden("unmarshal")
			}
		}
		info := f.Info()
		var hits []string
		InspectNoLit(f.Body(), func(nd ast.Node) bool {
			if call, ok := nd.(*ast.CallExpr); ok {
				if m, _, v, ok := FlagCall(info, call); ok && (m == "Get" || m == "Has") {
					n++
					if v&bad != 0 {
						hits = append(hits, fmt.Sprintf("%s read at %s", ft.Names(v&bad), p.Position(call.Pos())))
					}
				}
			}
			return true
		})
		if len(hits) > 0 {
			c.Violation("one-sided:"+f.Name, f.Pos(), side+"-side code reads option(s) documented for the other side: "+strings.Join(hits, "; "))
		} else {
			c.OK("one-sided:"+f.Name, f.Pos(), "")
		}
	}
	c.Floor("flag reads in one-sided code", n, 100)
}

func init() {
	register(&Rule{ID: "OPT-7", Doc: "option values handed out are never aliases of option values handed in: every exported function of json/jsontext/v1 that takes Options parameters and returns Options returns a constant, a fresh local struct, or the address of a package-level default — never (something derived from) one of its parameters", Run: ruleOPT7})
}

func ruleOPT7(c *Ctx) {
	p := c.P
	optsIface := p.NamedType("jsonopts", "Options")
	if optsIface == nil {
		c.Undecide("jsonopts.Options", "type missing")
		return
	}
	isOpts := func(t types.Type) bool {
		t = types.Unalias(t)
		if sl, ok := t.(*types.Slice); ok {
			t = types.Unalias(sl.Elem())
		}
		return types.Identical(t, optsIface)
	}
	n := 0
	for _, f := range p.FuncsIn("json", "jsontext", "v1") {
		if f.Decl == nil || f.Body() == nil || f.Obj == nil || !f.Obj.Exported() {
			continue
		}
		sig := f.Obj.Type().(*types.Signature)
		if sig.Results().Len() != 1 || !isOpts(sig.Results().At(0).Type()) {
			continue
		}
		params := map[types.Object]bool{}
		for i := 0; i < sig.Params().Len(); i++ {
			if isOpts(sig.Params().At(i).Type()) {
				params[sig.Params().At(i)] = true
			}
		}
		if len(params) == 0 {
			continue
		}
		n++
		info := f.Info()
		bad := ""
		for _, r := range Returns(f.Body()) {
			if len(r.Results) != 1 {
				continue
			}
			ast.Inspect(r.Results[0], func(nd ast.Node) bool {
				id, ok := nd.(*ast.Ident)
				if !ok {
					return true
				}
				o := info.Uses[id]
				if params[o] {
					bad = "returns (something derived from) its parameter `" + id.Name + "` at " + p.Position(r.Pos())
				}
				// locals derived from parameters by type assertion / indexing
				if v, isVar := o.(*types.Var); isVar && !v.IsField() && !params[o] {
					for _, d := range defsOf(info, f.Body(), v) {
						ast.Inspect(d, func(m ast.Node) bool {
							if id2, ok := m.(*ast.Ident); ok && params[info.Uses[id2]] {
								if _, isPtr := v.Type().Underlying().(*types.Pointer); isPtr || types.IsInterface(v.Type()) {
									bad = "returns `" + id.Name + "`, which aliases its parameter `" + id2.Name + "`, at " + p.Position(r.Pos())
								}
							}
							return true
						})
					}
				}
				return true
			})
		}
		c.Oblige("fresh-result:"+f.Name, f.Pos(), bad == "", bad)
	}
	c.Floor("exported functions from Options to Options", n, 1)
}
