package main

import (
	"fmt"
	"go/ast"
	"go/token"
	"go/types"
	"sort"
	"strings"
)

func init() {
	register(&Rule{ID: "FLAGSYM-1", Doc: "marshal and unmarshal siblings consult the same two-sided options: for every arshaler factory that installs a marshal and an unmarshal closure for the same representation, the sets of option flags read by the two closures agree, except for flags documented as marshal-only/unmarshal-only/encode-only/decode-only and the reviewed asymmetric legacy flags", Run: ruleFLAGSYM1})
	register(&Rule{ID: "CODEC-1", Doc: "writer and reader tables agree for every alternative representation: the set of Format strings accepted is identical in the marshal and unmarshal closure of each factory; each appendEncodeX/appendDecodeX/encodedLenX variable is bound to the same encoding X, and the format->function choice pairs the same X on both sides; duration/time closures go through one initFormat and appendMarshal/unmarshal switch over the same base cases; numeric closures pass the same bit size to formatting and parsing", Run: ruleCODEC1})
}

// arshalerPairs finds (marshal, unmarshal) closure pairs installed in the same block of a factory.
type arshalPair struct {
	decl     *FuncInfo
	mar, unm *FuncInfo
	label    string
}

func arshalerPairs(p *Program) []arshalPair {
	msig, usig := marshalerSig(p), unmarshalerSig(p)
	type slot struct{ mar, unm []*FuncInfo }
	byBlock := map[ast.Node]*slot{}
	declOf := map[ast.Node]*FuncInfo{}
	var order []ast.Node
	for _, f := range p.FuncsIn("json") {
		if f.Lit == nil {
			continue
		}
		t := f.Info().TypeOf(f.Lit)
		if t == nil {
			continue
		}
		s, ok := t.Underlying().(*types.Signature)
		if !ok {
			continue
		}
		isM := msig != nil && types.Identical(s, msig)
		isU := usig != nil && types.Identical(s, usig)
		if !isM && !isU {
			continue
		}
		as, ok := p.Parent(f.File, f.Lit).(*ast.AssignStmt)
		if !ok {
			continue
		}
		blk := p.Parent(f.File, as)
		if byBlock[blk] == nil {
			byBlock[blk] = &slot{}
			order = append(order, blk)
			declOf[blk] = p.enclosingDecl(f)
		}
		if isM {
			byBlock[blk].mar = append(byBlock[blk].mar, f)
		} else {
			byBlock[blk].unm = append(byBlock[blk].unm, f)
		}
	}
	var out []arshalPair
	for _, blk := range order {
		s := byBlock[blk]
		if len(s.mar) == 1 && len(s.unm) == 1 {
			d := declOf[blk]
			label := ""
			if d != nil {
				label = d.Name
			}
			if cc, ok := blk.(*ast.CaseClause); ok && len(cc.List) > 0 {
				label += "[" + exprString(cc.List[0]) + "]"
			}
			out = append(out, arshalPair{d, s.mar[0], s.unm[0], label})
		}
	}
	sort.Slice(out, func(i, j int) bool { return out[i].mar.Pos() < out[j].mar.Pos() })
	return out
}

// asymmetric legacy flags: read on one side only by design (reason each)
var asymmetricFlags = map[string]string{
	"FormatNilMapAsNull":              "marshal only",
	"FormatNilSliceAsNull":            "marshal only",
	"Deterministic":                   "marshal only",
	"OmitZeroStructFields":            "marshal only",
	"OmitEmptyWithLegacySemantics":    "marshal only",
	"RejectUnknownMembers":            "unmarshal only",
	"MergeWithLegacySemantics":        "unmarshal only",
	"ParseBytesWithLooseRFC4648":      "unmarshal only",
	"ParseTimeWithLooseRFC3339":       "unmarshal only",
	"UnmarshalAnyWithRawNumber":       "unmarshal only",
	"UnmarshalArrayFromAnyLength":     "unmarshal only",
	"AnyWhitespace":                   "encode only",
	"AllowDuplicateNames":             "duplicate checks differ by direction: the struct/map marshalers rely on Go-level uniqueness",
	"AllowInvalidUTF8":                "unique-key reasoning is per direction",
	"CallMethodsWithLegacySemantics":  "legacy nil-key / addressability handling exists on the marshal side only",
	"ReportErrorsWithLegacySemantics": "error reporting policy, not representation",
	"FormatTagSupported":              "error reporting for unsupported format tags",
	"MatchCaseInsensitiveNames":       "name matching happens when unmarshaling only (and in the fallback duplicate check)",
	"MatchCaseSensitiveDelimiter":     "name matching happens when unmarshaling only (and in the fallback duplicate check)",
	"FormatDurationAsNano":            "checked",
}

// per-factory exceptions of FLAGSYM-1, one reason each (confirmed by reading the closures)
var asymmetricPerPair = map[string]map[string]string{
	"json.makeIntArshaler":       {"StringifyWithLegacySemantics": "v1 leniency when *parsing* quoted numbers (Go syntax, quoted null); formatting is identical"},
	"json.makeUintArshaler":      {"StringifyWithLegacySemantics": "v1 leniency when *parsing* quoted numbers (Go syntax, quoted null); formatting is identical"},
	"json.makeFloatArshaler":     {"StringifyWithLegacySemantics": "v1 leniency when *parsing* quoted numbers (Go syntax, quoted null); formatting is identical"},
	"json.makeInterfaceArshaler": {"StringifyNumbers": "only guards the marshal fast path for `any`; JSON strings always unmarshal into `any` as Go strings (documented in the closure)"},
}

func ruleFLAGSYM1(c *Ctx) {
	p := c.P
	ft := p.Flags()
	sides := flagSides(p)
	var oneSided uint64
	for name := range sides {
		oneSided |= ft.Single[name]
	}
	var tolerated uint64
	for name := range asymmetricFlags {
		if v, ok := ft.Single[name]; ok {
			tolerated |= v
		} else if v, ok := ft.Named[name]; ok {
			tolerated |= v
		}
	}
	// FormatDurationAsNano is two-sided and must stay symmetric
	tolerated &^= ft.Single["FormatDurationAsNano"]
	pairs := arshalerPairs(p)
	if !c.Floor("marshal/unmarshal closure pairs", len(pairs), 12) {
		return
	}
	readFlags := func(f *FuncInfo) uint64 {
		var m uint64
		// the closure itself (with nested literals) and the private helpers / closure variables it calls
		for i, g := range p.CalleeClosure(f, 2) {
			g := g
			visit := func(n ast.Node) bool {
				if call, ok := n.(*ast.CallExpr); ok {
					if mm, _, v, ok := FlagCall(g.Info(), call); ok && mm == "Get" {
						m |= v &^ 1 // the value of the option is consulted (Has is only a presence pre-check)
					}
				}
				return true
			}
			if i == 0 {
				ast.Inspect(g.Body(), visit)
			} else {
				InspectNoLit(g.Body(), visit)
			}
		}
		return m
	}
	for _, pr := range pairs {
		m, u := readFlags(pr.mar), readFlags(pr.unm)
		diff := (m ^ u) &^ oneSided &^ tolerated
		for name := range asymmetricPerPair[pr.label] {
			diff &^= ft.Single[name]
		}
		c.Oblige("same-options:"+pr.label, pr.unm.Pos(), diff == 0,
			fmt.Sprintf("option(s) consulted by only one of the two directions: marshal-only-reads=%s unmarshal-only-reads=%s", ft.Names(m&diff), ft.Names(u&diff)))
		// companions: a representation option that one direction only honours for a particular Go kind
		// (`Get(F) && va.Kind() == reflect.Array`) is tied to the same kind in the other direction
		mc, uc := kindCompanions(p, pr.mar), kindCompanions(p, pr.unm)
		for _, flag := range sortedU64Keys(mc, uc) {
			if flag&(oneSided|tolerated) != 0 {
				continue
			}
			a, b := strings.Join(mc[flag], ","), strings.Join(uc[flag], ",")
			if a == "" && b == "" {
				continue
			}
			_, inM := mc[flag]
			_, inU := uc[flag]
			if !inM || !inU {
				continue
			}
			c.Oblige("same-kind-companions:"+pr.label+":"+ft.Names(flag), pr.unm.Pos(), a == b,
				"option "+ft.Names(flag)+" is honoured for Go kind(s) {"+a+"} when marshaling but for {"+b+"} when unmarshaling: for the kinds on one side only, the two directions use different representations")
		}
		// precedence: the representation-selecting options that both directions branch on (if / else-if chains at the
		// top of the closure) are tested in the same order, so that when two of them are set both directions pick the same one
		mo, uo2 := branchOrder(p, pr.mar, oneSided|tolerated), branchOrder(p, pr.unm, oneSided|tolerated)
		common := func(a, b []uint64) []uint64 {
			in := map[uint64]bool{}
			for _, x := range b {
				in[x] = true
			}
			var out []uint64
			for _, x := range a {
				if in[x] {
					out = append(out, x)
				}
			}
			return out
		}
		ma, ua := common(mo, uo2), common(uo2, mo)
		same := len(ma) == len(ua)
		for i := range ma {
			if same && ma[i] != ua[i] {
				same = false
			}
		}
		if len(ma) >= 2 {
			names := func(xs []uint64) string {
				var out []string
				for _, x := range xs {
					out = append(out, ft.Names(x))
				}
				return strings.Join(out, " > ")
			}
			c.Oblige("same-precedence:"+pr.label, pr.unm.Pos(), same,
				"the two directions test their representation options in different orders (marshal: "+names(ma)+"; unmarshal: "+names(ua)+"): with both set, Marshal writes one representation and Unmarshal expects the other")
		}
	}
}

// formatExprIn reports whether e, inside function g of the scope of f, denotes the Format option:
// the ArshalValues.Format field itself, or a parameter of a private helper that receives it.
func formatExprIn(p *Program, scope []*FuncInfo, g *FuncInfo, e ast.Expr, depth int) bool {
	formatField := p.Field("jsonopts", "ArshalValues", "Format")
	info := g.Info()
	if SelField(info, e) == formatField {
		return true
	}
	v, _ := IdentObj(info, e).(*types.Var)
	if v == nil || depth > 2 || g.Obj == nil {
		return false
	}
	sig, _ := g.Obj.Type().(*types.Signature)
	if sig == nil {
		return false
	}
	for i := 0; i < sig.Params().Len(); i++ {
		if sig.Params().At(i) != v {
			continue
		}
		for _, h := range scope {
			hit := false
			ast.Inspect(h.Body(), func(n ast.Node) bool {
				if call, ok := n.(*ast.CallExpr); ok && Callee(h.Info(), call) == g.Obj && i < len(call.Args) {
					if formatExprIn(p, scope, h, call.Args[i], depth+1) {
						hit = true
					}
				}
				return !hit
			})
			if hit {
				return true
			}
		}
	}
	return false
}

// formatCases collects the string constants a closure (or a private helper it calls) compares the
// Format option against (switch cases and ==).
func formatCases(p *Program, f *FuncInfo) map[string]bool {
	out := map[string]bool{}
	scope := p.CalleeClosure(f, 2)
	for i, g := range scope {
		g := g
		info := g.Info()
		visit := func(n ast.Node) bool {
			switch x := n.(type) {
			case *ast.SwitchStmt:
				if x.Tag != nil && formatExprIn(p, scope, g, x.Tag, 0) {
					for _, st := range x.Body.List {
						for _, e := range st.(*ast.CaseClause).List {
							if s, ok := ConstStr(info, e); ok {
								out[s] = true
							}
						}
					}
				}
			case *ast.BinaryExpr:
				if formatExprIn(p, scope, g, x.X, 0) {
					if s, ok := ConstStr(info, x.Y); ok {
						out[s] = true
					}
				}
			}
			return true
		}
		if i == 0 {
			ast.Inspect(g.Body(), visit)
		} else {
			InspectNoLit(g.Body(), visit)
		}
	}
	return out
}

func ruleCODEC1(c *Ctx) {
	codecRFC3339Base(c)
	codecLooseFirst(c)
	p := c.P
	pairs := arshalerPairs(p)
	nFmt := 0
	for _, pr := range pairs {
		m, u := formatCases(p, pr.mar), formatCases(p, pr.unm)
		if len(m) == 0 && len(u) == 0 {
			continue
		}
		nFmt++
		km, ku := sortedKeys(m), sortedKeys(u)
		c.Oblige("formats:"+pr.label, pr.unm.Pos(), strings.Join(km, ",") == strings.Join(ku, ","),
			fmt.Sprintf("marshal accepts formats %q, unmarshal accepts %q", km, ku))
	}
	c.Floor("factories with format alternatives", nFmt, 4)

	// encoder/decoder variable bindings
	pk := p.Pkg("json")
	if pk == nil {
		c.Undecide("json", "package missing")
		return
	}
	type binding struct{ pkg, enc, meth string }
	binds := map[string]binding{}
	for _, file := range pk.Syntax {
		for _, vs := range findAllDeep[*ast.ValueSpec](file) {
			for i, nm := range vs.Names {
				if i >= len(vs.Values) || pk.TypesInfo.Defs[nm] == nil || pk.TypesInfo.Defs[nm].Parent() != pk.Types.Scope() {
					continue
				}
				name := nm.Name
				if !(strings.HasPrefix(name, "appendEncode") || strings.HasPrefix(name, "appendDecode") || strings.HasPrefix(name, "encodedLen")) {
					continue
				}
				sel, ok := ast.Unparen(vs.Values[i]).(*ast.SelectorExpr)
				if !ok {
					continue
				}
				b := binding{meth: sel.Sel.Name}
				switch x := ast.Unparen(sel.X).(type) {
				case *ast.Ident: // hex.AppendEncode
					if pn, ok := pk.TypesInfo.Uses[x].(*types.PkgName); ok {
						b.pkg, b.enc = pn.Imported().Path(), ""
					}
				case *ast.SelectorExpr: // base64.StdEncoding.AppendEncode
					if id, ok := x.X.(*ast.Ident); ok {
						if pn, ok := pk.TypesInfo.Uses[id].(*types.PkgName); ok {
							b.pkg, b.enc = pn.Imported().Path(), x.Sel.Name
						}
					}
				}
				binds[name] = b
			}
		}
	}
	if !c.Floor("base16/32/64 function variables", len(binds), 15) {
		return
	}
	suffixes := map[string]bool{}
	for name := range binds {
		for _, pre := range []string{"appendEncode", "appendDecode", "encodedLen"} {
			if strings.HasPrefix(name, pre) {
				suffixes[strings.TrimPrefix(name, pre)] = true
			}
		}
	}
	wantMeth := map[string]string{"appendEncode": "AppendEncode", "appendDecode": "AppendDecode", "encodedLen": "EncodedLen"}
	for _, suf := range sortedKeys(suffixes) {
		e, d, l := binds["appendEncode"+suf], binds["appendDecode"+suf], binds["encodedLen"+suf]
		same := e.pkg == d.pkg && d.pkg == l.pkg && e.enc == d.enc && d.enc == l.enc && e.pkg != ""
		meths := e.meth == wantMeth["appendEncode"] && d.meth == wantMeth["appendDecode"] && l.meth == wantMeth["encodedLen"]
		c.Oblige("encoding-binding:"+suf, pk.Syntax[0].Pos(), same && meths,
			fmt.Sprintf("appendEncode%[1]s=%v appendDecode%[1]s=%v encodedLen%[1]s=%v", suf, e, d, l))
	}
	// no two suffixes share one encoding (distinct alphabets)
	seenEnc := map[string]string{}
	for _, suf := range sortedKeys(suffixes) {
		e := binds["appendEncode"+suf]
		k := e.pkg + "." + e.enc
		if prev, dup := seenEnc[k]; dup {
			c.Violation("encoding-distinct:"+suf, pk.Syntax[0].Pos(), "same encoding as "+prev)
		}
		seenEnc[k] = suf
	}
	// format -> suffix choice agrees in both directions (bytes arshaler)
	choice := func(f *FuncInfo) map[string]string {
		out := map[string]string{}
		scope := p.CalleeClosure(f, 2)
		for _, g := range scope {
			g := g
			info := g.Info()
			ast.Inspect(g.Body(), func(n ast.Node) bool {
				sw, ok := n.(*ast.SwitchStmt)
				if !ok || sw.Tag == nil || !formatExprIn(p, scope, g, sw.Tag, 0) {
					return true
				}
				for _, st := range sw.Body.List {
					cc := st.(*ast.CaseClause)
					sufs := map[string]bool{}
					ast.Inspect(&ast.BlockStmt{List: cc.Body}, func(m ast.Node) bool {
						if id, ok := m.(*ast.Ident); ok {
							if _, isBind := binds[id.Name]; isBind && info.Uses[id] != nil {
								for _, pre := range []string{"appendEncode", "appendDecode", "encodedLen"} {
									if strings.HasPrefix(id.Name, pre) {
										sufs[strings.TrimPrefix(id.Name, pre)] = true
									}
								}
							}
						}
						return true
					})
					for _, e := range cc.List {
						if s, ok := ConstStr(info, e); ok && len(sufs) > 0 {
							out[s] = strings.Join(sortedKeys(sufs), "+")
						}
					}
				}
				return true
			})
		}
		return out
	}
	for _, pr := range pairs {
		cm, cu := choice(pr.mar), choice(pr.unm)
		if len(cm) == 0 && len(cu) == 0 {
			continue
		}
		var diffs []string
		for _, k := range sortedKeys(cm) {
			if cm[k] != cu[k] {
				diffs = append(diffs, fmt.Sprintf("%q: marshal uses %s, unmarshal uses %s", k, cm[k], cu[k]))
			}
		}
		for _, k := range sortedKeys(cu) {
			if _, ok := cm[k]; !ok {
				diffs = append(diffs, fmt.Sprintf("%q: only unmarshal", k))
			}
		}
		c.Oblige("format-encoding-choice:"+pr.label, pr.unm.Pos(), len(diffs) == 0, strings.Join(diffs, "; "))
		// the default (no format tag) encoder/decoder agree too
		def := func(f *FuncInfo) string {
			info := f.Info()
			res := map[string]bool{}
			InspectNoLit(f.Body(), func(n ast.Node) bool {
				as, ok := n.(*ast.AssignStmt)
				if !ok || as.Tok.String() != ":=" {
					return true
				}
				for _, r := range as.Rhs {
					// the identifier itself, or a small value built from it (a struct carrying the pair)
					ast.Inspect(r, func(m ast.Node) bool {
						if _, isCall := m.(*ast.CallExpr); isCall {
							return false
						}
						if id, ok := m.(*ast.Ident); ok {
							if _, isBind := binds[id.Name]; isBind && info.Uses[id] != nil {
								for _, pre := range []string{"appendEncode", "appendDecode", "encodedLen"} {
									if strings.HasPrefix(id.Name, pre) {
										res[strings.TrimPrefix(id.Name, pre)] = true
									}
								}
							}
						}
						return true
					})
				}
				return true
			})
			return strings.Join(sortedKeys(res), "+")
		}
		c.Oblige("default-encoding:"+pr.label, pr.unm.Pos(), def(pr.mar) == def(pr.unm), "default encoding differs: marshal "+def(pr.mar)+", unmarshal "+def(pr.unm))
	}
	// duration/time: base cases of appendMarshal and unmarshal agree; numeric bit sizes
	for _, tn := range []string{"durationArshaler", "timeArshaler"} {
		am := p.Func("json.(*" + tn + ").appendMarshal")
		um := p.Func("json.(*" + tn + ").unmarshal")
		if am == nil || um == nil {
			c.Undecide("json.(*"+tn+").appendMarshal/unmarshal", "method missing")
			continue
		}
		cases := func(f *FuncInfo) string {
			var out []string
			hasDefault := false
			for _, sw := range findAll[*ast.SwitchStmt](f.Body()) {
				if sw.Tag == nil {
					continue
				}
				if fld := SelField(f.Info(), sw.Tag); fld == nil || fld.Name() != "base" {
					continue
				}
				for _, st := range sw.Body.List {
					cc := st.(*ast.CaseClause)
					if cc.List == nil {
						hasDefault = true
					}
					for _, e := range cc.List {
						if v, ok := ConstU64(f.Info(), e); ok {
							out = append(out, fmt.Sprint(v))
						}
					}
				}
			}
			sort.Strings(out)
			return strings.Join(out, ",") + fmt.Sprintf(" default=%v", hasDefault)
		}
		c.Oblige("base-cases:"+tn, um.Pos(), cases(am) == cases(um) && cases(am) != " default=false", "appendMarshal switches over base {"+cases(am)+"}, unmarshal over {"+cases(um)+"}")
	}
	// the marshal/unmarshal closures of duration/time call the same initFormat
	for _, pr := range pairs {
		callsInit := func(f *FuncInfo) string {
			res := map[string]bool{}
			ast.Inspect(f.Body(), func(n ast.Node) bool {
				if call, ok := n.(*ast.CallExpr); ok {
					if cf := Callee(f.Info(), call); cf != nil && cf.Name() == "initFormat" {
						res[QualName(cf)] = true
					}
				}
				return true
			})
			return strings.Join(sortedKeys(res), ",")
		}
		a, b := callsInit(pr.mar), callsInit(pr.unm)
		if a == "" && b == "" {
			continue
		}
		c.Oblige("same-initFormat:"+pr.label, pr.unm.Pos(), a == b, "marshal uses "+a+", unmarshal uses "+b)
	}
	// numeric: bits variable of the factory used by both format and parse calls
	nBits := 0
	for _, pr := range pairs {
		if pr.decl == nil {
			continue
		}
		info := pr.decl.Info()
		var bitsVar types.Object
		for _, as := range findAll[*ast.AssignStmt](pr.decl.Body()) {
			if len(as.Lhs) == 1 && len(as.Rhs) == 1 {
				if call, ok := ast.Unparen(as.Rhs[0]).(*ast.CallExpr); ok {
					if sel, ok := ast.Unparen(call.Fun).(*ast.SelectorExpr); ok && sel.Sel.Name == "Bits" {
						bitsVar = IdentObj(info, as.Lhs[0])
					}
				}
			}
		}
		if bitsVar == nil {
			continue
		}
		nBits++
		// every strconv.Parse*/jsonwire.AppendFloat call in either closure whose last/bit-size argument is an int must use bitsVar
		var bad []string
		for _, f := range []*FuncInfo{pr.mar, pr.unm} {
			ast.Inspect(f.Body(), func(n ast.Node) bool {
				call, ok := n.(*ast.CallExpr)
				if !ok {
					return true
				}
				cf := Callee(f.Info(), call)
				if cf == nil {
					return true
				}
				qn := QualName(cf)
				switch qn {
				case "strconv.ParseFloat", "strconv.ParseInt", "strconv.ParseUint", "jsonwire.AppendFloat":
					last := call.Args[len(call.Args)-1]
					if IdentObj(f.Info(), last) != bitsVar {
						bad = append(bad, fmt.Sprintf("%s called with bit size `%s` at %s", qn, exprString(last), p.Position(call.Pos())))
					}
				}
				return true
			})
		}
		c.Oblige("bit-size:"+pr.label, pr.decl.Pos(), len(bad) == 0, strings.Join(bad, "; "))
	}
	c.Floor("numeric factories with a bit size", nBits, 3)
}

// branchOrder lists, in source order, the option masks tested by the conditions of the if / else-if chains that are
// direct statements of the closure body (first occurrence of each mask; masks within ignore are skipped).
func branchOrder(p *Program, f *FuncInfo, ignore uint64) []uint64 {
	info := f.Info()
	var out []uint64
	seen := map[uint64]bool{}
	var chain func(ifs *ast.IfStmt)
	chain = func(ifs *ast.IfStmt) {
		ast.Inspect(ifs.Cond, func(n ast.Node) bool {
			if call, ok := n.(*ast.CallExpr); ok {
				if mm, _, v, ok := FlagCall(info, call); ok && (mm == "Get" || mm == "Has") {
					m := v &^ 1 &^ ignore
					if m != 0 && !seen[m] {
						seen[m] = true
						out = append(out, m)
					}
				}
			}
			return true
		})
		if e, ok := ifs.Else.(*ast.IfStmt); ok {
			chain(e)
		}
	}
	for _, st := range f.Body().List {
		if ifs, ok := st.(*ast.IfStmt); ok {
			chain(ifs)
		}
	}
	return out
}

// kindCompanions maps each single option flag read with Get in f to the Go kinds (`X.Kind() == reflect.K`) that are
// conjoined with that read in the same && chain; a flag read without such a companion maps to an empty list.
func kindCompanions(p *Program, f *FuncInfo, _ ...int) map[uint64][]string {
	info := f.Info()
	out := map[uint64][]string{}
	seen := map[uint64]map[string]bool{}
	InspectNoLit(f.Body(), func(n ast.Node) bool {
		call, ok := n.(*ast.CallExpr)
		if !ok {
			return true
		}
		m, _, v, ok := FlagCall(info, call)
		if !ok || m != "Get" {
			return true
		}
		// top of the && chain containing the call
		var top ast.Node = call
		for {
			par := p.Parent(f.File, top)
			if be, ok := par.(*ast.BinaryExpr); ok && be.Op == token.LAND {
				top = par
				continue
			}
			if _, ok := par.(*ast.ParenExpr); ok {
				top = par
				continue
			}
			break
		}
		var kinds []string
		if e, ok := top.(ast.Expr); ok {
			for _, cj := range conjuncts(e) {
				be, ok := cj.(*ast.BinaryExpr)
				if !ok || be.Op != token.EQL {
					continue
				}
				if lc, ok := ast.Unparen(be.X).(*ast.CallExpr); ok {
					if sel, ok := ast.Unparen(lc.Fun).(*ast.SelectorExpr); ok && sel.Sel.Name == "Kind" {
						if o := IdentOrSelObj(info, be.Y); o != nil && o.Pkg() != nil && o.Pkg().Path() == "reflect" {
							kinds = append(kinds, o.Name())
						}
					}
				}
			}
		}
		for b := uint64(2); b != 0; b <<= 1 {
			if v&^1&b == 0 {
				continue
			}
			if seen[b] == nil {
				seen[b] = map[string]bool{}
				out[b] = nil
			}
			for _, k := range kinds {
				if !seen[b][k] {
					seen[b][k] = true
					out[b] = append(out[b], k)
				}
			}
		}
		return true
	})
	for b := range out {
		sort.Strings(out[b])
	}
	return out
}

func sortedU64Keys(ms ...map[uint64][]string) []uint64 {
	set := map[uint64]bool{}
	for _, m := range ms {
		for k := range m {
			set[k] = true
		}
	}
	var out []uint64
	for k := range set {
		out = append(out, k)
	}
	sort.Slice(out, func(i, j int) bool { return out[i] < out[j] })
	return out
}
