package main

import (
	"encoding/json"
	"fmt"
	"go/constant"
	"go/token"
	"go/types"
	"os"
	"path/filepath"
	"sort"
	"strings"
)

// Obligation is one (rule, construct) fact that was decided.
type Obligation struct {
	Rule      string `json:"rule"`
	Construct string `json:"construct"` // stable key: function + callee/variable, never a line number
	Pos       string `json:"pos"`
	OK        bool   `json:"ok"`
	Detail    string `json:"detail,omitempty"`
	Witness   string `json:"witness,omitempty"`
	Known     bool   `json:"known_finding,omitempty"`
}

// Undecided records a missing subject anchor.
type Undecided struct {
	Rule   string `json:"rule"`
	Anchor string `json:"anchor"`
	Why    string `json:"why,omitempty"`
}

// Report collects the outcome of running rules.
type Report struct {
	prog        *Program
	Obligations []Obligation
	Undecided   []Undecided
	seen        map[string]int
	curRule     string
}

func NewReport(p *Program) *Report { return &Report{prog: p, seen: map[string]int{}} }

// Oblige records an obligation. construct must be a stable identifier.
func (r *Report) Oblige(construct string, pos token.Pos, ok bool, detail string) {
	if ok {
		detail = "" // detail describes the failure
	}
	r.obligeW(construct, pos, ok, detail, "")
}

// ObligeInfo is Oblige with a neutral detail that is kept for discharged obligations too.
func (r *Report) ObligeInfo(construct string, pos token.Pos, ok bool, detail string) {
	r.obligeW(construct, pos, ok, detail, "")
}

func (r *Report) obligeW(construct string, pos token.Pos, ok bool, detail, witness string) {
	key := r.curRule + "\x00" + construct
	if i, dup := r.seen[key]; dup {
		// same construct reported twice: keep a failure if any
		if !ok && r.Obligations[i].OK {
			r.Obligations[i].OK = false
			r.Obligations[i].Detail = detail
			r.Obligations[i].Witness = witness
			r.Obligations[i].Pos = r.prog.Position(pos)
		}
		return
	}
	r.seen[key] = len(r.Obligations)
	r.Obligations = append(r.Obligations, Obligation{Rule: r.curRule, Construct: construct, Pos: r.prog.Position(pos), OK: ok, Detail: detail, Witness: witness})
}

// Violation is shorthand for a failed obligation.
func (r *Report) Violation(construct string, pos token.Pos, detail string) {
	r.obligeW(construct, pos, false, detail, "")
}

// ViolationW is a failed obligation with a path witness.
func (r *Report) ViolationW(construct string, pos token.Pos, detail, witness string) {
	r.obligeW(construct, pos, false, detail, witness)
}

// OK is shorthand for a discharged obligation.
func (r *Report) OK(construct string, pos token.Pos, detail string) {
	r.obligeW(construct, pos, true, detail, "")
}

// Undecide records that a subject anchor is missing.
func (r *Report) Undecide(anchor, why string) {
	r.Undecided = append(r.Undecided, Undecided{Rule: r.curRule, Anchor: anchor, Why: why})
}

// Floor records UNDECIDED if fewer than min instances of something were found.
// Floor is the vacuity guard of a rule: confirmed is the number of instances
// counted on the reviewed tree. Merging duplicated code legitimately lowers
// such a count (three copies of a block become one helper), so the guard trips
// only when fewer than half of the confirmed instances (at least one) are left
// — the situation in which the rule has most likely stopped matching.
func (r *Report) Floor(what string, got, confirmed int) bool {
	min := (confirmed + 1) / 2
	if min < 1 {
		min = 1
	}
	if got < min {
		r.Undecide(what, fmt.Sprintf("found %d instances, expected at least %d (%d on the reviewed tree; the rule would pass vacuously)", got, min, confirmed))
		return false
	}
	return true
}

// Rule is one static rule.
type Rule struct {
	ID       string
	Doc      string
	Thorough bool // only run in the thorough tier
	Run      func(c *Ctx)
}

// Ctx is handed to rules.
type Ctx struct {
	*Report
	P    *Program
	Tier string
	deep *Deep // SSA/callgraph, built lazily
}

var ruleRegistry = map[string]*Rule{}

func register(r *Rule) {
	if _, dup := ruleRegistry[r.ID]; dup {
		panic("duplicate rule " + r.ID)
	}
	ruleRegistry[r.ID] = r
}

// KnownFinding is one entry of known_findings.json.
type KnownFinding struct {
	Property  string `json:"property"`
	Rule      string `json:"rule"`
	Construct string `json:"construct"`
	Status    string `json:"status"` // "open" or "fixed"
	Commit    string `json:"commit,omitempty"`
	What      string `json:"what"`
}

func loadKnownFindings(path string) ([]KnownFinding, error) {
	b, err := os.ReadFile(path)
	if err != nil {
		if os.IsNotExist(err) {
			return nil, nil
		}
		return nil, err
	}
	var doc struct {
		Findings []KnownFinding `json:"findings"`
	}
	if err := json.Unmarshal(b, &doc); err != nil {
		return nil, err
	}
	return doc.Findings, nil
}

// RunRules runs the named rules and returns the report.
func RunRules(p *Program, tier string, ids []string) *Report {
	rep := NewReport(p)
	c := &Ctx{Report: rep, P: p, Tier: tier}
	for _, id := range ids {
		r := ruleRegistry[id]
		if r == nil {
			rep.curRule = id
			rep.Undecide("rule:"+id, "rule not implemented")
			continue
		}
		if r.Thorough && tier != "thorough" {
			continue
		}
		rep.curRule = id
		func() {
			defer func() {
				if e := recover(); e != nil {
					rep.Undecide("rule-panic:"+id, fmt.Sprint(e))
				}
			}()
			r.Run(c)
		}()
	}
	rep.curRule = ""
	sort.SliceStable(rep.Obligations, func(i, j int) bool {
		a, b := rep.Obligations[i], rep.Obligations[j]
		if a.Rule != b.Rule {
			return a.Rule < b.Rule
		}
		return posLess(a.Pos, b.Pos)
	})
	return rep
}

func posLess(a, b string) bool {
	fa, la, ca := splitPos(a)
	fb, lb, cb := splitPos(b)
	if fa != fb {
		return fa < fb
	}
	if la != lb {
		return la < lb
	}
	return ca < cb
}

func splitPos(s string) (string, int, int) {
	parts := strings.Split(s, ":")
	if len(parts) < 3 {
		return s, 0, 0
	}
	var l, c int
	fmt.Sscan(parts[len(parts)-2], &l)
	fmt.Sscan(parts[len(parts)-1], &c)
	return strings.Join(parts[:len(parts)-2], ":"), l, c
}

// Evidence is the schema-conformant evidence document.
type Evidence struct {
	PropertyID  string         `json:"property_id"`
	Tier        string         `json:"tier"`
	Seed        int            `json:"seed"`
	Level       string         `json:"level"`
	Coverage    map[string]any `json:"coverage"`
	Assumptions []string       `json:"assumptions"`
	WallS       float64        `json:"wall_s"`
	Violations  int            `json:"violations"`
}

func writeJSON(path string, v any) error {
	if err := os.MkdirAll(filepath.Dir(path), 0o755); err != nil {
		return err
	}
	b, err := json.MarshalIndent(v, "", " ")
	if err != nil {
		return err
	}
	tmp := path + ".tmp"
	if err := os.WriteFile(tmp, append(b, '\n'), 0o644); err != nil {
		return err
	}
	return os.Rename(tmp, path)
}

func constInt64(c *types.Const) (int64, bool) {
	v := constant.ToInt(c.Val())
	if v.Kind() != constant.Int {
		return 0, false
	}
	return constant.Int64Val(v)
}

func constUint64(c *types.Const) (uint64, bool) {
	v := constant.ToInt(c.Val())
	if v.Kind() != constant.Int {
		return 0, false
	}
	return constant.Uint64Val(v)
}
