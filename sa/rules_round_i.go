package main

import (
	"fmt"
	"go/ast"
	"go/token"
	"go/types"
	"regexp"
	"sort"
	"strings"
)

func init() {
	register(&Rule{ID: "QUOTE-1", Doc: "the content of a JSON string is obtained by unquoting, not by cutting the quotes off: every slice expression that strips one byte at both ends of a byte string (`x[len(`\"`) : len(x)-len(`\"`)]`, `x[1 : n-1]`) is either governed by a verbatim verdict (a condition mentioning ConsumeSimpleString or an isVerbatim value) or applied to bytes the same function quoted itself (`append(x, '\"')`)", Run: ruleQUOTE1})
	register(&Rule{ID: "V1-7", Doc: "the v1 wrappers always do their work: every successful return of v1.MarshalIndent and v1.Indent is preceded by appendIndent, of v1.Compact by jsontext.AppendFormat; and a bool field of a v1 coder documented as `reports whether [T.M] was called` is set by M on every path to a return", Run: ruleV17})
	register(&Rule{ID: "SCRATCHBUF-1", Doc: "a reused scratch buffer is not kept: inside a loop, a local slice that is refilled in place (`s = f(s[:0], ..)` / `s = append(s[:0], ..)`) is not stored, directly or through a local alias, into a composite literal, another slice, a map or a field — the next iteration overwrites what was stored", Run: ruleSCRATCHBUF1})
	register(&Rule{ID: "CLONE-1", Doc: "Clone returns no view of the source: in jsontext.Token.Clone every decodeBuffer built for the result takes its bytes from bytes.Clone on every path; Value.Clone returns bytes.Clone of the receiver", Run: ruleCLONE1})
	register(&Rule{ID: "CACHE-1", Doc: "a cache hit answers like the computation it replaces: in typedArshalers.lookup the cached-entry path reports `found` exactly when the entry is non-nil (the computing path stores nil and returns false when no caller function applies, stores the composed function and returns true otherwise)", Run: ruleCACHE1})
	register(&Rule{ID: "INDENT-1", Doc: "caller-chosen indentation can only be spaces and tabs: every non-constant string turned into an Indent / IndentPrefix option in package jsontext is first validated with strings.Trim(s, cutset) whose cutset contains only ' ' and '\\t', a non-empty remainder leading to a panic — a wider notion of white space (TrimSpace, unicode) lets bytes into the output that are not JSON whitespace", Run: ruleINDENT1})
}

// ---- QUOTE-1 --------------------------------------------------------------------

func ruleQUOTE1(c *Ctx) {
	p := c.P
	n := 0
	for _, f := range p.FuncsIn("json", "v1", "jsontext", "jsonwire") {
		if f.Body() == nil {
			continue
		}
		info := f.Info()
		k := 0
		isOne := func(e ast.Expr) bool {
			if e == nil {
				return false
			}
			v, ok := ConstI64(info, e)
			return ok && v == 1
		}
		InspectNoLit(f.Body(), func(nd ast.Node) bool {
			se, ok := nd.(*ast.SliceExpr)
			if !ok || se.Slice3 || !isOne(se.Low) || se.High == nil {
				return true
			}
			hb, ok := ast.Unparen(se.High).(*ast.BinaryExpr)
			if !ok || hb.Op != token.SUB || !isOne(hb.Y) {
				return true
			}
			// only byte strings
			switch t := info.TypeOf(se.X).Underlying().(type) {
			case *types.Slice:
				if b, ok := t.Elem().Underlying().(*types.Basic); !ok || b.Kind() != types.Uint8 {
					return true
				}
			case *types.Basic:
				if t.Info()&types.IsString == 0 {
					return true
				}
			default:
				return true
			}
			n++
			k++
			subj := exprString(se.X)
			governed := false
			for _, cc := range dominatingConds(p, f, se) {
				s := exprString(cc.cond)
				if strings.Contains(s, "Verbatim") || strings.Contains(s, "ConsumeSimpleString") {
					governed = true
				}
				// a local bool derived from such a test
				ast.Inspect(cc.cond, func(m ast.Node) bool {
					if id, ok := m.(*ast.Ident); ok {
						if v := IdentObj(info, id); v != nil {
							for _, d := range defsOf(info, f.Body(), v) {
								ds := exprString(d)
								if strings.Contains(ds, "Verbatim") || strings.Contains(ds, "ConsumeSimpleString") {
									governed = true
								}
							}
						}
					}
					return true
				})
			}
			selfQuoted := false
			InspectNoLit(f.Body(), func(m ast.Node) bool {
				call, ok := m.(*ast.CallExpr)
				if !ok || !IsBuiltin(info, call, "append") || len(call.Args) != 2 {
					return true
				}
				if v, isC := ConstI64(info, call.Args[1]); isC && v == '"' && exprString(call.Args[0]) == subj {
					selfQuoted = true
				}
				return true
			})
			c.Oblige(fmt.Sprintf("strip-only-verbatim:%s#%d", f.Name, k), se.Pos(), governed || selfQuoted,
				"the quotes of `"+subj+"` are cut off without a verbatim verdict: escape sequences (\\uXXXX, \\n, \\\") stay in the text and invalid UTF-8 is not replaced, where an unquoting routine would decode them")
			return true
		})
	}
	c.Floor("quote-stripping slice expressions", n, 3)
}

// ---- V1-7 -----------------------------------------------------------------------

func ruleV17(c *Ctx) {
	p := c.P
	n := 0
	wrappers := []struct{ fn, must string }{
		{"v1.MarshalIndent", "appendIndent"},
		{"v1.Indent", "appendIndent"},
		{"v1.Compact", "AppendFormat"},
	}
	for _, w := range wrappers {
		f := p.Func(w.fn)
		if f == nil || f.Body() == nil {
			c.Undecide(w.fn, "function missing")
			continue
		}
		info := f.Info()
		type st struct{ done bool }
		var bad token.Pos
		calls := func(nd ast.Node) bool {
			for _, call := range CallsIn(nd) {
				if cf := Callee(info, call); cf != nil && cf.Name() == w.must {
					return true
				}
			}
			return false
		}
		fl := &Flow[st]{Fn: f}
		fl.Node = func(nd ast.Node, s st) []st {
			if calls(nd) {
				s.done = true
			}
			if r, ok := nd.(*ast.ReturnStmt); ok {
				// a success return: last result is a nil error
				if len(r.Results) > 0 {
					last := r.Results[len(r.Results)-1]
					if isErrorType(info.TypeOf(last)) || IsNilIdent(info, last) {
						if IsNilIdent(info, last) && !s.done && bad == token.NoPos {
							bad = r.Pos()
						}
					}
				}
				return nil
			}
			return []st{s}
		}
		fl.Leaf = func(e ast.Expr, s st) (t, fs []st) {
			if calls(e) {
				s.done = true
			}
			return []st{s}, []st{s}
		}
		fl.Run(st{})
		n++
		pos := f.Pos()
		if bad != token.NoPos {
			pos = bad
		}
		c.Oblige("always-through:"+w.fn+"->"+w.must, pos, bad == token.NoPos, w.fn+" can return successfully without having called "+w.must+": for some argument values the wrapper hands back untransformed bytes where encoding/json formats them")
	}
	// documented latches
	re := regexp.MustCompile(`reports whether \[(\w+)\.(\w+)\] was called`)
	pk := p.Pkg("v1")
	if pk == nil {
		c.Undecide("v1", "package missing")
		return
	}
	for _, file := range pk.Syntax {
		for _, ts := range findAllDeep[*ast.TypeSpec](file) {
			st, ok := ts.Type.(*ast.StructType)
			if !ok {
				continue
			}
			for _, fld := range st.Fields.List {
				doc := ""
				if fld.Doc != nil {
					doc = fld.Doc.Text()
				}
				m := re.FindStringSubmatch(doc)
				if m == nil || len(fld.Names) != 1 || m[1] != ts.Name.Name {
					continue
				}
				fieldObj, _ := pk.TypesInfo.Defs[fld.Names[0]].(*types.Var)
				meth := p.Func("v1.(*" + m[1] + ")." + m[2])
				if meth == nil || meth.Body() == nil || fieldObj == nil {
					c.Undecide("v1."+m[1]+"."+m[2], "method named by the field documentation not found")
					continue
				}
				info := meth.Info()
				type st struct{ set bool }
				var bad token.Pos
				sets := func(nd ast.Node) bool {
					as, ok := nd.(*ast.AssignStmt)
					if !ok {
						return false
					}
					for i, l := range as.Lhs {
						if SelField(info, l) == fieldObj && i < len(as.Rhs) {
							if tv, ok := info.Types[as.Rhs[i]]; ok && tv.Value != nil && tv.Value.String() == "true" {
								return true
							}
						}
					}
					return false
				}
				fl := &Flow[st]{Fn: meth}
				fl.Node = func(nd ast.Node, s st) []st {
					if sets(nd) {
						s.set = true
					}
					if r, ok := nd.(*ast.ReturnStmt); ok {
						if !s.set && bad == token.NoPos {
							bad = r.Pos()
						}
						return nil
					}
					return []st{s}
				}
				fl.Run(st{})
				n++
				pos := meth.Pos()
				if bad != token.NoPos {
					pos = bad
				}
				c.Oblige("latch-set-on-every-path:v1."+m[1]+"."+fld.Names[0].Name, pos, bad == token.NoPos,
					"field "+fld.Names[0].Name+" is documented to report whether "+m[1]+"."+m[2]+" was called, but "+m[2]+" has a return that is reached without setting it")
			}
		}
	}
	c.Floor("v1 wrappers and documented latches", n, 4)
}

// ---- SCRATCHBUF-1 ---------------------------------------------------------------

func ruleSCRATCHBUF1(c *Ctx) {
	p := c.P
	nLoops := 0
	for _, f := range p.FuncsIn("json", "jsontext", "jsonwire", "v1") {
		if f.Body() == nil {
			continue
		}
		info := f.Info()
		k := 0
		InspectNoLit(f.Body(), func(nd ast.Node) bool {
			var body *ast.BlockStmt
			switch x := nd.(type) {
			case *ast.ForStmt:
				body = x.Body
			case *ast.RangeStmt:
				body = x.Body
			default:
				return true
			}
			nLoops++
			// scratch locals: s = call(.. s[:0] ..) inside this loop
			scratch := map[types.Object]bool{}
			ast.Inspect(body, func(m ast.Node) bool {
				as, ok := m.(*ast.AssignStmt)
				if !ok || len(as.Rhs) != 1 {
					return true
				}
				call, ok := ast.Unparen(as.Rhs[0]).(*ast.CallExpr)
				if !ok {
					return true
				}
				lhs, _ := IdentObj(info, as.Lhs[0]).(*types.Var)
				if lhs == nil || lhs.IsField() {
					return true
				}
				for _, a := range call.Args {
					se, ok := ast.Unparen(a).(*ast.SliceExpr)
					if !ok || se.Low != nil || se.High == nil {
						continue
					}
					if v, isC := ConstI64(info, se.High); isC && v == 0 && IdentObj(info, se.X) == lhs {
						scratch[lhs] = true
					}
				}
				return true
			})
			if len(scratch) == 0 {
				return true
			}
			// aliases within the loop body
			alias := map[types.Object]types.Object{}
			for s := range scratch {
				alias[s] = s
			}
			for changed := true; changed; {
				changed = false
				ast.Inspect(body, func(m ast.Node) bool {
					as, ok := m.(*ast.AssignStmt)
					if !ok || len(as.Lhs) != len(as.Rhs) {
						return true
					}
					for i, r := range as.Rhs {
						src := IdentObj(info, r)
						if se, ok := ast.Unparen(r).(*ast.SliceExpr); ok {
							src = IdentObj(info, se.X)
						}
						if root, ok := alias[src]; ok && src != nil {
							if dst := IdentObj(info, as.Lhs[i]); dst != nil && alias[dst] == nil {
								alias[dst] = root
								changed = true
							}
						}
					}
					return true
				})
			}
			mentions := func(e ast.Node) types.Object {
				var hit types.Object
				ast.Inspect(e, func(m ast.Node) bool {
					if id, ok := m.(*ast.Ident); ok {
						if root, ok := alias[IdentObj(info, id)]; ok && IdentObj(info, id) != nil {
							// converting to string copies
							if par, isCall := p.Parent(f.File, id).(*ast.CallExpr); isCall {
								if tv, ok := info.Types[par.Fun]; ok && tv.IsType() {
									if b, ok := tv.Type.Underlying().(*types.Basic); ok && b.Info()&types.IsString != 0 {
										return true
									}
								}
								if IsBuiltin(info, par, "len") || IsBuiltin(info, par, "cap") {
									return true
								}
							}
							hit = root
						}
					}
					return true
				})
				return hit
			}
			var kept types.Object
			var keptPos token.Pos
			ast.Inspect(body, func(m ast.Node) bool {
				switch x := m.(type) {
				case *ast.CompositeLit:
					for _, el := range x.Elts {
						v := el
						if kv, ok := el.(*ast.KeyValueExpr); ok {
							v = kv.Value
						}
						if _, isLit := ast.Unparen(v).(*ast.CompositeLit); isLit {
							continue
						}
						if o := mentions(v); o != nil && kept == nil {
							// only slices stored as such (not spread with ...)
							if _, isSl := info.TypeOf(v).Underlying().(*types.Slice); isSl {
								kept, keptPos = o, v.Pos()
							}
						}
					}
				case *ast.AssignStmt:
					for i, l := range x.Lhs {
						switch ast.Unparen(l).(type) {
						case *ast.IndexExpr, *ast.SelectorExpr:
							if i < len(x.Rhs) {
								r := x.Rhs[i]
								if _, isSl := info.TypeOf(r).Underlying().(*types.Slice); isSl {
									if id := IdentObj(info, r); id != nil && alias[id] != nil && kept == nil {
										if fv := SelField(info, l); fv == nil || !scratch[alias[id]] || true {
											kept, keptPos = alias[id], r.Pos()
										}
									}
								}
							}
						}
					}
				}
				return true
			})
			k++
			name := ""
			if kept != nil {
				name = kept.Name()
			}
			c.Oblige(fmt.Sprintf("scratch-not-kept:%s#%d", f.Name, k), func() token.Pos {
				if kept != nil {
					return keptPos
				}
				return nd.Pos()
			}(), kept == nil, "the scratch buffer `"+name+"` is refilled in place on every iteration (`"+name+"[:0]`) and yet stored in a value that outlives the iteration: every element kept so far is overwritten by the next one")
			return true
		})
	}
	c.Floor("loops scanned for refilled scratch buffers", nLoops, 50)
}

// ---- CLONE-1 --------------------------------------------------------------------

func ruleCLONE1(c *Ctx) {
	p := c.P
	isClone := func(info *types.Info, e ast.Expr) bool {
		call, ok := ast.Unparen(e).(*ast.CallExpr)
		if !ok {
			return false
		}
		if FuncCall(info, call, "bytes", "Clone") || FuncCall(info, call, "slices", "Clone") {
			return true
		}
		// append([]byte(nil), x...) / append([]byte{}, x...)
		if IsBuiltin(info, call, "append") && len(call.Args) >= 1 {
			switch a := ast.Unparen(call.Args[0]).(type) {
			case *ast.CallExpr:
				if len(a.Args) == 1 && IsNilIdent(info, a.Args[0]) {
					return true
				}
			case *ast.CompositeLit:
				return len(a.Elts) == 0
			}
		}
		return false
	}
	// Value.Clone
	if f := p.Func("jsontext.(Value).Clone"); f == nil || f.Body() == nil {
		c.Undecide("jsontext.(Value).Clone", "function missing")
	} else {
		ok := true
		for _, r := range Returns(f.Body()) {
			if len(r.Results) != 1 || !isClone(f.Info(), r.Results[0]) {
				ok = false
			}
		}
		c.Oblige("copies:jsontext.(Value).Clone", f.Pos(), ok && len(Returns(f.Body())) > 0, "Value.Clone returns something other than a fresh copy of the receiver's bytes")
	}
	f := p.Func("jsontext.(Token).Clone")
	if f == nil || f.Body() == nil {
		c.Undecide("jsontext.(Token).Clone", "function missing")
		return
	}
	info := f.Info()
	bufField := p.Field("jsontext", "decodeBuffer", "buf")
	type st struct{ fresh uint16 }
	idx := map[types.Object]uint{}
	slot := func(o types.Object) (uint, bool) {
		if o == nil {
			return 0, false
		}
		if k, ok := idx[o]; ok {
			return k, true
		}
		if len(idx) >= 16 {
			return 0, false
		}
		idx[o] = uint(len(idx))
		return idx[o], true
	}
	nLits := 0
	var bad token.Pos
	check := func(nd ast.Node, s st) {
		ast.Inspect(nd, func(m ast.Node) bool {
			cl, ok := m.(*ast.CompositeLit)
			if !ok {
				return true
			}
			for _, el := range cl.Elts {
				kv, ok := el.(*ast.KeyValueExpr)
				if !ok {
					continue
				}
				if id, ok := kv.Key.(*ast.Ident); !ok || info.Uses[id] != types.Object(bufField) {
					continue
				}
				nLits++
				v := ast.Unparen(kv.Value)
				if isClone(info, v) {
					continue
				}
				root := v
				if se, ok := v.(*ast.SliceExpr); ok {
					root = ast.Unparen(se.X)
				}
				if k, ok := idx[IdentObj(info, root)]; ok && s.fresh&(1<<k) != 0 {
					continue
				}
				if bad == token.NoPos {
					bad = kv.Value.Pos()
				}
			}
			return true
		})
	}
	fl := &Flow[st]{Fn: f}
	fl.Node = func(nd ast.Node, s st) []st {
		if as, ok := nd.(*ast.AssignStmt); ok && len(as.Lhs) == len(as.Rhs) {
			for i, r := range as.Rhs {
				if k, ok := slot(IdentObj(info, as.Lhs[i])); ok {
					if isClone(info, r) {
						s.fresh |= 1 << k
					} else {
						s.fresh &^= 1 << k
					}
				}
			}
		}
		check(nd, s)
		if _, ok := nd.(*ast.ReturnStmt); ok {
			return nil
		}
		return []st{s}
	}
	fl.Run(st{})
	if nLits == 0 {
		c.Undecide("jsontext.(Token).Clone/decodeBuffer", "no decodeBuffer literal with a buf field")
		return
	}
	pos := f.Pos()
	if bad != token.NoPos {
		pos = bad
	}
	c.Oblige("copies:jsontext.(Token).Clone", pos, bad == token.NoPos, "the cloned token's buffer is, on some path, the decoder's (or the caller's input) bytes rather than a copy: the token changes when the decoder moves on or the caller reuses its input slice")
}

// ---- CACHE-1 --------------------------------------------------------------------

func ruleCACHE1(c *Ctx) {
	p := c.P
	f := p.Func("json.(*typedArshalers).lookup")
	if f == nil || f.Body() == nil {
		c.Undecide("json.(*typedArshalers).lookup", "function missing")
		return
	}
	info := f.Info()
	// the cache-hit block: if v, ok := X.Load(t); ok { ... }
	var hit *ast.IfStmt
	var cached types.Object
	for _, ifs := range findAll[*ast.IfStmt](f.Body()) {
		as, ok := ifs.Init.(*ast.AssignStmt)
		if !ok || len(as.Rhs) != 1 || len(as.Lhs) != 2 {
			continue
		}
		call, ok := ast.Unparen(as.Rhs[0]).(*ast.CallExpr)
		if !ok {
			continue
		}
		if sel, ok := ast.Unparen(call.Fun).(*ast.SelectorExpr); ok && sel.Sel.Name == "Load" {
			hit = ifs
			cached = IdentObj(info, as.Lhs[0])
			break
		}
	}
	if hit == nil || cached == nil {
		c.Undecide("json.(*typedArshalers).lookup/cache-hit", "no `if v, ok := cache.Load(t); ok` block")
		return
	}
	isNilTest := func(e ast.Expr) (eqNil bool, ok bool) {
		be, isB := ast.Unparen(e).(*ast.BinaryExpr)
		if !isB || (be.Op != token.EQL && be.Op != token.NEQ) {
			return false, false
		}
		if (IdentObj(info, be.X) == cached && IsNilIdent(info, be.Y)) || (IdentObj(info, be.Y) == cached && IsNilIdent(info, be.X)) {
			return be.Op == token.EQL, true
		}
		return false, false
	}
	okAll := true
	detail := ""
	nRet := 0
	for _, r := range findAll[*ast.ReturnStmt](hit.Body) {
		if len(r.Results) != 2 {
			continue
		}
		nRet++
		// is this return on the v == nil side, the v != nil side, or both?
		side := 0 // 0 both, +1 nil, -1 non-nil
		for _, cc := range enclosingConds(p, f, r) {
			if !within(hit.Body, cc.cond) {
				continue
			}
			if eq, ok := isNilTest(cc.cond); ok {
				if eq == cc.then {
					side = +1
				} else {
					side = -1
				}
			}
		}
		// an earlier `if v == nil { return }` in the same block puts later statements on the non-nil side
		if side == 0 {
			for _, cc := range dominatingConds(p, f, r) {
				if !within(hit.Body, cc.cond) {
					continue
				}
				if eq, ok := isNilTest(cc.cond); ok {
					if eq == cc.then {
						side = +1
					} else {
						side = -1
					}
				}
			}
		}
		eval := func(isNil bool) tri {
			return boolEval(r.Results[1], func(e ast.Expr) (bool, bool) {
				if tv, ok := info.Types[e]; ok && tv.Value != nil {
					return tv.Value.String() == "true", true
				}
				if eq, ok := isNilTest(e); ok {
					return eq == isNil, true
				}
				return false, false
			})
		}
		for _, isNil := range []bool{true, false} {
			if (side == +1 && !isNil) || (side == -1 && isNil) {
				continue
			}
			got := eval(isNil)
			want := triYes
			if isNil {
				want = triNo
			}
			if got != want {
				okAll = false
				detail = fmt.Sprintf("with a cached entry that is %s the hit path returns found=%v at %s", map[bool]string{true: "nil (no caller function applies)", false: "a composed function"}[isNil], got == triYes, p.Position(r.Pos()))
			}
		}
	}
	if nRet == 0 {
		c.Undecide("json.(*typedArshalers).lookup/cache-hit-returns", "no return in the cache-hit block")
		return
	}
	c.Oblige("hit-agrees-with-miss:json.(*typedArshalers).lookup", hit.Pos(), okAll, "the cache-hit path and the computing path disagree on `found`: "+detail+"; the second lookup of a type behaves differently from the first (omitempty, duplicate-name and fast-path decisions depend on it)")
}

// ---- INDENT-1 -------------------------------------------------------------------

func ruleINDENT1(c *Ctx) {
	p := c.P
	n := 0
	for _, f := range p.FuncsIn("jsontext") {
		if f.Decl == nil || f.Body() == nil {
			continue
		}
		info := f.Info()
		var sites []*ast.CallExpr
		InspectNoLit(f.Body(), func(nd ast.Node) bool {
			call, ok := nd.(*ast.CallExpr)
			if !ok || len(call.Args) != 1 {
				return true
			}
			if tv, ok := info.Types[call.Fun]; ok && tv.IsType() {
				if nt, ok := tv.Type.(*types.Named); ok && nt.Obj().Pkg() != nil && nt.Obj().Pkg().Path() == pkgAlias["jsonopts"] && (nt.Obj().Name() == "Indent" || nt.Obj().Name() == "IndentPrefix") {
					if av, ok := info.Types[call.Args[0]]; ok && av.Value == nil {
						sites = append(sites, call)
					}
				}
			}
			return true
		})
		if len(sites) == 0 {
			continue
		}
		// validation: strings.Trim(arg, cutset) with cutset ⊆ {' ', '\t'} whose non-empty remainder panics
		okTrim := map[string]bool{}
		wide := ""
		InspectNoLit(f.Body(), func(nd ast.Node) bool {
			call, ok := nd.(*ast.CallExpr)
			if !ok {
				return true
			}
			cf := Callee(info, call)
			if cf == nil || cf.Pkg() == nil {
				return true
			}
			if cf.Pkg().Path() == "strings" && cf.Name() == "Trim" && len(call.Args) == 2 {
				if cs, ok := ConstStr(info, call.Args[1]); ok && cs != "" && strings.Trim(cs, " \t") == "" {
					okTrim[exprString(call.Args[0])] = true
				} else {
					wide = "strings.Trim with cutset " + exprString(call.Args[1])
				}
			}
			if (cf.Pkg().Path() == "strings" || cf.Pkg().Path() == "bytes") && (cf.Name() == "TrimSpace" || cf.Name() == "TrimFunc" || cf.Name() == "Fields") {
				wide = cf.Pkg().Name() + "." + cf.Name()
			}
			return true
		})
		hasPanic := false
		InspectNoLit(f.Body(), func(nd ast.Node) bool {
			if call, ok := nd.(*ast.CallExpr); ok && IsBuiltin(info, call, "panic") {
				hasPanic = true
			}
			return true
		})
		sort.Slice(sites, func(i, j int) bool { return sites[i].Pos() < sites[j].Pos() })
		seen := map[string]bool{}
		for _, s := range sites {
			arg := exprString(s.Args[0])
			if seen[arg] {
				continue
			}
			seen[arg] = true
			n++
			detail := "no strings.Trim(" + arg + ", \" \\t\") validation with a panic in " + f.Name
			if wide != "" {
				detail = "the argument is validated with " + wide + ", which also strips characters that are not JSON whitespace"
			}
			c.Oblige("indent-validated:"+f.Name+":"+arg, s.Pos(), okTrim[arg] && hasPanic && wide == "", detail+": such characters reach the output between tokens and the result is not valid JSON")
		}
	}
	c.Floor("non-constant Indent / IndentPrefix constructions", n, 2)
}

// codecRFC3339Base: in timeArshaler.initFormat a case clause selects the checked RFC 3339 representation
// (base = 0) exactly when it selects one of the time.RFC3339* layouts.
func codecRFC3339Base(c *Ctx) {
	p := c.P
	f := p.Func("json.(*timeArshaler).initFormat")
	if f == nil || f.Body() == nil {
		c.Undecide("json.(*timeArshaler).initFormat", "function missing")
		return
	}
	info := f.Info()
	n := 0
	okAll := true
	detail := ""
	for _, cc := range findAll[*ast.CaseClause](f.Body()) {
		rfc, base0 := "", false
		for _, st := range cc.Body {
			as, ok := st.(*ast.AssignStmt)
			if !ok || len(as.Lhs) != 1 || len(as.Rhs) != 1 {
				continue
			}
			fv := SelField(info, as.Lhs[0])
			if fv == nil {
				continue
			}
			if fv.Name() == "format" {
				if o := IdentOrSelObj(info, as.Rhs[0]); o != nil && o.Pkg() != nil && o.Pkg().Path() == "time" && strings.HasPrefix(o.Name(), "RFC3339") {
					rfc = o.Name()
				}
			}
			if fv.Name() == "base" {
				if v, isC := ConstI64(info, as.Rhs[0]); isC && v == 0 {
					base0 = true
				}
			}
		}
		if rfc == "" && !base0 {
			continue
		}
		n++
		if (rfc != "") != base0 {
			okAll = false
			if rfc != "" {
				detail = "the clause selecting time." + rfc + " does not set base = 0: the layout is treated as a caller-supplied one (no year/zone range check when marshaling, lenient time.Parse when unmarshaling) while its sibling RFC 3339 layout is checked"
			} else {
				detail = "a clause that does not select an RFC 3339 layout sets base = 0"
			}
		}
	}
	if n == 0 {
		c.Undecide("json.(*timeArshaler).initFormat/rfc3339", "no clause selecting time.RFC3339*")
		return
	}
	c.Oblige("time:rfc3339-layouts-are-checked", f.Pos(), okAll && n >= 2, detail)
}

// ---- round j --------------------------------------------------------------------

func init() {
	register(&Rule{ID: "UTF8REPL-1", Doc: "ill-formed UTF-8 is replaced byte by byte: strings.ToValidUTF8 / bytes.ToValidUTF8 (which replace a whole run of invalid bytes by one replacement) are not used in the implementation packages; the scanners, AppendQuote and string([]rune(s)) all produce one U+FFFD per invalid byte, and names or values sanitised any other way no longer match what the decoder produces for the same bytes", Run: ruleUTF8REPL1})
	register(&Rule{ID: "POS-3", Doc: "collapsing nested SemanticErrors keeps the outer position first: wherever the JSONPointer of an error obtained from another error's Err field is combined with that outer error's JSONPointer, the outer pointer is the left operand of the concatenation (`inner.P = outer.P + inner.P`; `inner.P += outer.P` appends it instead)", Run: rulePOS3})
	register(&Rule{ID: "CAP-1", Doc: "a value handed out by ReadValue cannot grow into the decoder's unread input: every successful return of decoderState.ReadValue is a full slice expression of the buffer whose capacity equals its length (`buf[a:b:b]`), or a copy; an uncapped sub-slice lets `append(val, ..)` or an in-place Indent overwrite the bytes the decoder reads next", Run: ruleCAP1})
	register(&Rule{ID: "INEFF-1", Doc: "no computed value is thrown away: in the implementation packages no assignment to a local variable is dead (never read on any path before the variable is overwritten or goes out of scope) — a sanitised, rebased or re-sliced value that is stored after its last use means the stale one was used", Run: ruleINEFF1})
}

func ruleUTF8REPL1(c *Ctx) {
	p := c.P
	n, k := 0, 0
	for _, f := range p.FuncsIn("json", "jsontext", "jsonwire", "v1", "jsonopts") {
		if f.Body() == nil {
			continue
		}
		info := f.Info()
		InspectNoLit(f.Body(), func(nd ast.Node) bool {
			call, ok := nd.(*ast.CallExpr)
			if !ok {
				return true
			}
			// string([]rune(x)) : the per-byte sanitiser
			if tv, ok := info.Types[call.Fun]; ok && tv.IsType() && len(call.Args) == 1 {
				if inner, ok := ast.Unparen(call.Args[0]).(*ast.CallExpr); ok {
					if tv2, ok := info.Types[inner.Fun]; ok && tv2.IsType() {
						if sl, ok := tv2.Type.Underlying().(*types.Slice); ok {
							if b, ok := sl.Elem().Underlying().(*types.Basic); ok && b.Kind() == types.Int32 {
								n++
							}
						}
					}
				}
			}
			if FuncCall(info, call, "strings", "ToValidUTF8") || FuncCall(info, call, "bytes", "ToValidUTF8") {
				k++
				c.Violation(fmt.Sprintf("per-byte-replacement:%s#%d", f.Name, k), call.Pos(), "ToValidUTF8 replaces a run of ill-formed bytes by a single replacement; everywhere else in the library each ill-formed byte becomes its own U+FFFD, so the sanitised text no longer equals what the decoder yields for the same bytes")
			}
			if FuncCall(info, call, "utf8", "ValidString") || FuncCall(info, call, "utf8", "Valid") || FuncCall(info, call, "unicode/utf8", "ValidString") || FuncCall(info, call, "unicode/utf8", "Valid") {
				n++
			}
			return true
		})
	}
	if k == 0 {
		c.OK("per-byte-replacement", token.NoPos, "")
	}
	c.Floor("UTF-8 validity tests and per-byte sanitisers", n, 2)
}

func rulePOS3(c *Ctx) {
	p := c.P
	n := 0
	for _, f := range p.FuncsIn("json", "v1") {
		if f.Body() == nil {
			continue
		}
		info := f.Info()
		// inner := outer.Err.(*SemanticError)  (also in `if inner, ok := ...`)
		outerOf := map[types.Object]types.Object{}
		InspectNoLit(f.Body(), func(nd ast.Node) bool {
			as, ok := nd.(*ast.AssignStmt)
			if !ok || len(as.Rhs) != 1 {
				return true
			}
			ta, ok := ast.Unparen(as.Rhs[0]).(*ast.TypeAssertExpr)
			if !ok {
				return true
			}
			sel, ok := ast.Unparen(ta.X).(*ast.SelectorExpr)
			if !ok || sel.Sel.Name != "Err" {
				return true
			}
			if in, out := IdentObj(info, as.Lhs[0]), IdentObj(info, sel.X); in != nil && out != nil {
				outerOf[in] = out
			}
			return true
		})
		if len(outerOf) == 0 {
			continue
		}
		k := 0
		InspectNoLit(f.Body(), func(nd ast.Node) bool {
			as, ok := nd.(*ast.AssignStmt)
			if !ok || len(as.Lhs) != 1 || len(as.Rhs) != 1 {
				return true
			}
			lsel, ok := ast.Unparen(as.Lhs[0]).(*ast.SelectorExpr)
			if !ok || lsel.Sel.Name != "JSONPointer" {
				return true
			}
			base := func(e ast.Expr) types.Object {
				if s, ok := ast.Unparen(e).(*ast.SelectorExpr); ok && s.Sel.Name == "JSONPointer" {
					return IdentObj(info, s.X)
				}
				return nil
			}
			var left, right types.Object
			switch as.Tok {
			case token.ADD_ASSIGN:
				left, right = IdentObj(info, lsel.X), base(as.Rhs[0])
			case token.ASSIGN:
				if be, ok := ast.Unparen(as.Rhs[0]).(*ast.BinaryExpr); ok && be.Op == token.ADD {
					left, right = base(be.X), base(be.Y)
				}
			}
			if left == nil || right == nil {
				return true
			}
			var okOrder, related bool
			if outerOf[right] == left {
				related, okOrder = true, true
			}
			if outerOf[left] == right {
				related, okOrder = true, false
			}
			if !related {
				return true
			}
			n++
			k++
			c.Oblige(fmt.Sprintf("outer-pointer-first:%s#%d", f.Name, k), as.Pos(), okOrder, "the inner error's pointer is placed before the pointer of the error that wraps it: the combined JSONPointer reads /inner/outer and resolves to nothing in the input, while ByteOffset (a sum) stays right")
			return true
		})
	}
	c.Floor("pointer concatenations of nested SemanticErrors", n, 1)
}

func ruleCAP1(c *Ctx) {
	p := c.P
	f := p.Func("jsontext.(*decoderState).ReadValue")
	if f == nil || f.Body() == nil {
		c.Undecide("jsontext.(*decoderState).ReadValue", "function missing")
		return
	}
	info := f.Info()
	var capped func(g *FuncInfo, e ast.Expr, depth int) bool
	capped = func(g *FuncInfo, e ast.Expr, depth int) bool {
		gi := g.Info()
		switch x := ast.Unparen(e).(type) {
		case *ast.SliceExpr:
			return x.Slice3 && x.High != nil && x.Max != nil && exprString(x.High) == exprString(x.Max)
		case *ast.CallExpr:
			if FuncCall(gi, x, "bytes", "Clone") || FuncCall(gi, x, "bytes", "Clip") || FuncCall(gi, x, "slices", "Clip") || FuncCall(gi, x, "slices", "Clone") {
				return true
			}
			if tv, ok := gi.Types[x.Fun]; ok && tv.IsType() && len(x.Args) == 1 {
				return capped(g, x.Args[0], depth) // Value(buf[a:b:b])
			}
			if depth < 2 {
				if cf := Callee(gi, x); cf != nil {
					if h := p.FuncOf(cf); h != nil && h.Body() != nil {
						rets := Returns(h.Body())
						if len(rets) == 0 {
							return false
						}
						for _, r := range rets {
							if len(r.Results) == 0 || !capped(h, r.Results[0], depth+1) {
								// an error return with a nil value is fine
								if len(r.Results) > 0 && IsNilIdent(h.Info(), r.Results[0]) {
									continue
								}
								return false
							}
						}
						return true
					}
				}
			}
		case *ast.Ident:
			if IsNilIdent(gi, x) {
				return true
			}
			if v := IdentObj(gi, x); v != nil {
				ds := defsOf(gi, g.Body(), v)
				if len(ds) == 0 {
					return false
				}
				for _, d := range ds {
					if !capped(g, d, depth+1) {
						return false
					}
				}
				return true
			}
		}
		return false
	}
	n := 0
	var bad *ast.ReturnStmt
	for _, r := range Returns(f.Body()) {
		if len(r.Results) != 2 || !IsNilIdent(info, r.Results[1]) {
			continue
		}
		n++
		if !capped(f, r.Results[0], 0) && bad == nil {
			bad = r
		}
	}
	if n == 0 {
		c.Undecide("jsontext.(*decoderState).ReadValue/returns", "no successful return found")
		return
	}
	pos := f.Pos()
	if bad != nil {
		pos = bad.Pos()
	}
	c.Oblige("returned-value-capped:jsontext.(*decoderState).ReadValue", pos, bad == nil, "ReadValue returns a sub-slice of the decoder's buffer whose capacity extends over the unread input: growing the returned Value (append, in-place Indent/Format) overwrites the bytes of the following values")
}

func ruleINEFF1(c *Ctx) {
	p := c.P
	nVars := 0
	for _, f := range p.FuncsIn("json", "jsontext", "jsonwire", "v1", "jsonopts", "jsonflags") {
		if f.Body() == nil {
			continue
		}
		info := f.Info()
		// candidate locals: declared in this function (not in a nested literal), never captured by a literal,
		// never address-taken, not a named result, assigned at least twice (or assigned after declaration)
		type vinfo struct {
			stores []ast.Node // assignment statements storing to it (in order)
		}
		cand := map[*types.Var]*vinfo{}
		excluded := map[*types.Var]bool{}
		if f.Type() != nil && f.Type().Results != nil {
			for _, fld := range f.Type().Results.List {
				for _, nm := range fld.Names {
					if v, ok := info.Defs[nm].(*types.Var); ok {
						excluded[v] = true
					}
				}
			}
		}
		ast.Inspect(f.Body(), func(nd ast.Node) bool {
			switch x := nd.(type) {
			case *ast.FuncLit:
				ast.Inspect(x, func(m ast.Node) bool {
					if id, ok := m.(*ast.Ident); ok {
						if v, ok := info.Uses[id].(*types.Var); ok {
							excluded[v] = true
						}
					}
					return true
				})
				return false
			case *ast.UnaryExpr:
				if x.Op == token.AND {
					if v, ok := IdentObj(info, x.X).(*types.Var); ok {
						excluded[v] = true
					}
				}
			case *ast.RangeStmt:
				for _, e := range []ast.Expr{x.Key, x.Value} {
					if e != nil {
						if v, ok := IdentObj(info, e).(*types.Var); ok {
							excluded[v] = true
						}
					}
				}
			}
			return true
		})
		InspectNoLit(f.Body(), func(nd ast.Node) bool {
			as, ok := nd.(*ast.AssignStmt)
			if !ok {
				return true
			}
			for _, l := range as.Lhs {
				id, ok := ast.Unparen(l).(*ast.Ident)
				if !ok || id.Name == "_" {
					continue
				}
				v, ok := IdentObj(info, id).(*types.Var)
				if !ok || v.IsField() || excluded[v] || v.Pkg() == nil || v.Parent() == v.Pkg().Scope() {
					continue
				}
				// only variables of this very function: one declared in an enclosing function is shared with
				// the sibling closures that read it
				if !(f.Body().Pos() <= v.Pos() && v.Pos() < f.Body().End()) && !isParamOf(f, nil, v) {
					continue
				}
				// method values bound with a pointer receiver take the address implicitly; be conservative for
				// variables of struct or array type
				switch v.Type().Underlying().(type) {
				case *types.Struct, *types.Array:
					continue
				}
				if cand[v] == nil {
					cand[v] = &vinfo{}
				}
				cand[v].stores = append(cand[v].stores, as)
			}
			return true
		})
		nBefore := nVars
		deadHere := 0
		for v, vi := range cand {
			if excluded[v] {
				continue
			}
			nVars++
			// forward reaching-definitions for this one variable; mark the stores that some read can see
			type st struct{ def int16 }
			idx := map[ast.Node]int16{}
			for i, s := range vi.stores {
				idx[s] = int16(i + 1)
			}
			read := map[int16]bool{}
			readsIn := func(nd ast.Node, skipLHS *ast.AssignStmt) bool {
				found := false
				ast.Inspect(nd, func(m ast.Node) bool {
					if _, isLit := m.(*ast.FuncLit); isLit {
						return false
					}
					id, ok := m.(*ast.Ident)
					if !ok || info.Uses[id] != types.Object(v) {
						return true
					}
					if skipLHS != nil && skipLHS.Tok == token.ASSIGN {
						for _, l := range skipLHS.Lhs {
							if ast.Unparen(l) == ast.Expr(id) {
								return true
							}
						}
					}
					found = true
					return true
				})
				return found
			}
			fl := &Flow[st]{Fn: f}
			fl.Node = func(nd ast.Node, s st) []st {
				as, isAs := nd.(*ast.AssignStmt)
				if isAs {
					if readsIn(nd, as) {
						read[s.def] = true
					}
					if k, ok := idx[nd]; ok {
						s.def = k
					}
				} else if readsIn(nd, nil) {
					read[s.def] = true
				}
				if _, ok := nd.(*ast.ReturnStmt); ok {
					return nil
				}
				return []st{s}
			}
			fl.Leaf = func(e ast.Expr, s st) (t, fs []st) {
				if readsIn(e, nil) {
					read[s.def] = true
				}
				return []st{s}, []st{s}
			}
			fl.Run(st{})
			for i, s := range vi.stores {
				as := s.(*ast.AssignStmt)
				if read[int16(i+1)] {
					continue
				}
				// stores whose right-hand side is a bare call may be there for the call's effect with the
				// result checked elsewhere (`n, err = f()` where only err is read): only flag when every
				// variable on the left is dead or blank
				allDead := true
				for _, l := range as.Lhs {
					id, ok := ast.Unparen(l).(*ast.Ident)
					if !ok {
						allDead = false
						continue
					}
					if id.Name == "_" {
						continue
					}
					if ov, _ := IdentObj(info, id).(*types.Var); ov != v {
						allDead = false
					}
				}
				if !allDead {
					continue
				}
				// zero-value initialisations (`x := 0`, `var`-like) are not computed values
				if len(as.Rhs) == 1 {
					if tv, ok := info.Types[as.Rhs[0]]; ok && tv.Value != nil {
						continue
					}
					if IsNilIdent(info, as.Rhs[0]) {
						continue
					}
				}
				deadHere++
				c.Violation(fmt.Sprintf("dead-store:%s:%s", f.Name, v.Name()), as.Pos(), "the value stored into `"+v.Name()+"` here is never read: whatever consumed `"+v.Name()+"` did so before this statement and used the previous (unsanitised, un-rebased) value")
			}
		}
		if nVars > nBefore && deadHere == 0 {
			c.OK("no-dead-store:"+f.Name, f.Pos(), "")
		}
	}
	c.Floor("re-assigned locals analysed for dead stores", nVars, 200)
}

// ---- NILIFACE-1 -----------------------------------------------------------------

func init() {
	register(&Rule{ID: "NILIFACE-1", Doc: "no typed nil in an interface-typed option field: every store into an interface-typed field of jsonopts.Struct (Marshalers, Unmarshalers) stores an untyped nil, a copy of the same field of another Struct, or a pointer that is known non-nil at that point — readers test the field against nil and then select through a type assertion (`.(*Marshalers).fromAny`), so a nil *Marshalers (documented as an empty list, and what JoinMarshalers() returns) wrapped in the interface passes the test and is dereferenced", Run: ruleNILIFACE1})
}

func ruleNILIFACE1(c *Ctx) {
	p := c.P
	st := p.NamedType("jsonopts", "Struct")
	if st == nil {
		c.Undecide("jsonopts.Struct", "type missing")
		return
	}
	// interface-typed fields reachable in Struct (through embedded structs)
	ifaceFields := map[*types.Var]bool{}
	var walk func(t types.Type, depth int)
	walk = func(t types.Type, depth int) {
		s, ok := t.Underlying().(*types.Struct)
		if !ok || depth > 3 {
			return
		}
		for i := 0; i < s.NumFields(); i++ {
			f := s.Field(i)
			if _, isI := f.Type().Underlying().(*types.Interface); isI {
				ifaceFields[f] = true
			}
			if f.Embedded() {
				walk(f.Type(), depth+1)
			}
		}
	}
	walk(st, 0)
	if len(ifaceFields) == 0 {
		c.Undecide("jsonopts.Struct/interface fields", "none found")
		return
	}
	n := 0
	for _, f := range p.FuncsIn("json", "jsonopts", "jsontext", "v1") {
		if f.Body() == nil {
			continue
		}
		info := f.Info()
		k := 0
		InspectNoLit(f.Body(), func(nd ast.Node) bool {
			as, ok := nd.(*ast.AssignStmt)
			if !ok || len(as.Lhs) != len(as.Rhs) {
				return true
			}
			for i, l := range as.Lhs {
				fv := SelField(info, l)
				if fv == nil || !ifaceFields[fv] {
					continue
				}
				n++
				k++
				r := ast.Unparen(as.Rhs[i])
				ok, why := false, ""
				switch {
				case IsNilIdent(info, r):
					ok = true
				case SelField(info, r) == fv:
					ok = true // copied from another Struct
				default:
					// the pointer being wrapped
					inner := r
					if call, isCall := r.(*ast.CallExpr); isCall && len(call.Args) == 1 {
						if tv, isT := info.Types[call.Fun]; isT && tv.IsType() {
							inner = ast.Unparen(call.Args[0])
						}
					}
					if u, isU := inner.(*ast.UnaryExpr); isU && u.Op == token.AND {
						ok = true // address of something
						break
					}
					v := IdentObj(info, inner)
					if v == nil {
						why = "stored value `" + exprString(r) + "` is not a checked pointer"
						break
					}
					if _, isPtr := v.Type().Underlying().(*types.Pointer); !isPtr {
						ok = true
						break
					}
					for _, cc := range dominatingConds(p, f, as) {
						be, isB := ast.Unparen(cc.cond).(*ast.BinaryExpr)
						if !isB {
							continue
						}
						if (IdentObj(info, be.X) == v && IsNilIdent(info, be.Y)) || (IdentObj(info, be.Y) == v && IsNilIdent(info, be.X)) {
							if (be.Op == token.NEQ && cc.then) || (be.Op == token.EQL && !cc.then) {
								ok = true
							}
						}
					}
					if !ok {
						why = "`" + v.Name() + "` may be nil here"
					}
				}
				c.Oblige(fmt.Sprintf("no-typed-nil:%s:%s#%d", f.Name, fv.Name(), k), as.Pos(), ok,
					"a possibly nil pointer is wrapped into the interface-typed option field "+fv.Name()+" ("+why+"): the field then compares unequal to nil, and readers that select through the type assertion dereference a nil pointer (Marshal of any `any` value panics with WithMarshalers(JoinMarshalers()))")
			}
			return true
		})
	}
	c.Floor("stores into interface-typed option fields", n, 4)
}

// ---- PEEK-2 ---------------------------------------------------------------------

func init() {
	register(&Rule{ID: "PEEK-2", Doc: "the cached peek position never survives a buffer move: in every decoderState method that reads peekPos, each call that may fetch (fetch itself or anything that reaches it) is made on paths where peekPos is known to be zero — the position is an index into the buffer, and a failed read that keeps it leaves the next PeekKind/ReadValue looking at an arbitrary byte", Run: rulePEEK2})
}

func rulePEEK2(c *Ctx) {
	p := c.P
	peekPos := p.Field("jsontext", "decodeBuffer", "peekPos")
	if peekPos == nil {
		c.Undecide("jsontext.decodeBuffer.peekPos", "field missing")
		return
	}
	sp := newStaleProg(p)
	if len(sp.mayFetch) == 0 {
		c.Undecide("jsontext.(*decoderState).fetch", "function missing")
		return
	}
	n := 0
	// functions that manage the cache themselves are checked on their own, a call to one is not a blind fetch
	aware := map[*types.Func]bool{}
	for _, f := range p.FuncsIn("jsontext") {
		if f.Decl != nil && f.Obj != nil && f.Body() != nil && mentionsField(f.Info(), f.Body(), peekPos) {
			aware[f.Obj] = true
		}
	}
	for _, f := range p.FuncsIn("jsontext") {
		if f.Decl == nil || f.Obj == nil || f.Body() == nil {
			continue
		}
		info := f.Info()
		if !mentionsField(info, f.Body(), peekPos) {
			continue
		}
		callsFetch := false
		InspectNoLit(f.Body(), func(nd ast.Node) bool {
			if call, ok := nd.(*ast.CallExpr); ok {
				if cf := Callee(info, call); cf != nil && sp.mayFetch[cf] {
					callsFetch = true
				}
			}
			return true
		})
		if !callsFetch {
			continue
		}
		posAlias := map[types.Object]bool{}
		InspectNoLit(f.Body(), func(nd ast.Node) bool {
			if as, ok := nd.(*ast.AssignStmt); ok && len(as.Lhs) == len(as.Rhs) {
				for i, r := range as.Rhs {
					if isFieldSel(info, r, peekPos) {
						if v := IdentObj(info, as.Lhs[i]); v != nil {
							posAlias[v] = true
						}
					}
				}
			}
			return true
		})
		type st struct{ zero tri }
		var bad token.Pos
		badName := ""
		visitCalls := func(nd ast.Node, s st) {
			for _, call := range CallsIn(nd) {
				if cf := Callee(info, call); cf != nil && sp.mayFetch[cf] && !aware[cf] && s.zero != triYes && bad == token.NoPos {
					bad, badName = call.Pos(), cf.Name()
				}
			}
		}
		fl := &Flow[st]{Fn: f}
		fl.Node = func(nd ast.Node, s st) []st {
			visitCalls(nd, s)
			if as, ok := nd.(*ast.AssignStmt); ok && len(as.Lhs) == len(as.Rhs) {
				for i, l := range as.Lhs {
					if isFieldSel(info, l, peekPos) {
						if v, isC := ConstI64(info, as.Rhs[i]); isC && v == 0 {
							s.zero = triYes
						} else {
							s.zero = triNo
						}
					}
				}
			}
			if _, ok := nd.(*ast.ReturnStmt); ok {
				return nil
			}
			return []st{s}
		}
		fl.Leaf = func(e ast.Expr, s st) (t, fs []st) {
			visitCalls(e, s)
			if be, ok := e.(*ast.BinaryExpr); ok {
				if v, isC := ConstI64(info, be.Y); isC && v == 0 && (isFieldSel(info, be.X, peekPos) || posAlias[IdentObj(info, be.X)]) {
					yes, no := s, s
					switch be.Op {
					case token.NEQ, token.GTR:
						no.zero = triYes
						return []st{yes}, []st{no}
					case token.EQL:
						yes.zero = triYes
						return []st{yes}, []st{no}
					}
				}
			}
			return []st{s}, []st{s}
		}
		fl.Run(st{zero: triUnknown})
		n++
		pos := f.Pos()
		if bad != token.NoPos {
			pos = bad
		}
		c.Oblige("no-fetch-with-cached-peek:"+f.Name, pos, bad == token.NoPos, "calls "+badName+" (which may fetch and move the buffer) on a path where the cached peekPos has not been reset: if the call fails, the stale index is what the next PeekKind/ReadValue uses")
	}
	c.Floor("decoder methods that read peekPos and may fetch", n, 2)
}

// ---- round k --------------------------------------------------------------------

func init() {
	register(&Rule{ID: "BBUF-1", Doc: "the encoder only ever aliases the unused tail of a caller's bytes.Buffer: in package jsontext nothing derived from (*bytes.Buffer).Bytes() is stored into encoder state (encodeBuffer.Buf, availBuffer); the alias is taken with AvailableBuffer() — building output over Bytes()[:0] overwrites what the buffer already holds", Run: ruleBBUF1})
	register(&Rule{ID: "POOL-5", Doc: "a pooled scratch object goes back once: in every function that takes an object from getStrings / a sync.Pool Get wrapper and holds it in a local, no path returns it more than once (a deferred put counts for every exit) — a double put hands the same slice to two later borrowers", Run: rulePOOL5})
}

func ruleBBUF1(c *Ctx) {
	p := c.P
	n := 0
	bufF := p.Field("jsontext", "encodeBuffer", "Buf")
	availF := p.Field("jsontext", "encoderState", "availBuffer")
	if bufF == nil {
		c.Undecide("jsontext.encodeBuffer.Buf", "field missing")
		return
	}
	for _, f := range p.FuncsIn("jsontext") {
		if f.Body() == nil {
			continue
		}
		info := f.Info()
		k := 0
		InspectNoLit(f.Body(), func(nd ast.Node) bool {
			as, ok := nd.(*ast.AssignStmt)
			if !ok || len(as.Lhs) != len(as.Rhs) {
				return true
			}
			for i, l := range as.Lhs {
				fv := SelField(info, l)
				if fv == nil || (fv != bufF && fv != availF) {
					continue
				}
				// does the right-hand side come from a *bytes.Buffer ?
				fromBB, viaBytes := false, false
				ast.Inspect(as.Rhs[i], func(m ast.Node) bool {
					call, ok := m.(*ast.CallExpr)
					if !ok {
						return true
					}
					sel, ok := ast.Unparen(call.Fun).(*ast.SelectorExpr)
					if !ok {
						return true
					}
					if isPtrToNamed(info.TypeOf(sel.X), "bytes", "Buffer") {
						fromBB = true
						if sel.Sel.Name != "AvailableBuffer" {
							viaBytes = true
						}
					}
					return true
				})
				if !fromBB {
					continue
				}
				n++
				k++
				c.Oblige(fmt.Sprintf("unused-tail-only:%s#%d", f.Name, k), as.Pos(), !viaBytes, "encoder state aliases `"+exprString(as.Rhs[i])+"`, which covers the bytes the buffer already holds: the first values written are built over existing content instead of the unused tail (AvailableBuffer)")
			}
			return true
		})
	}
	c.Floor("encoder buffers aliased from a bytes.Buffer", n, 2)
}

func rulePOOL5(c *Ctx) {
	p := c.P
	n := 0
	getters := map[string]string{"getStrings": "putStrings", "getObjectMembers": "putObjectMembers"}
	for _, f := range p.FuncsIn("json", "jsontext") {
		if f.Body() == nil {
			continue
		}
		info := f.Info()
		// locals bound to a pooled object
		type pooled struct {
			v   types.Object
			put string
		}
		var ps []pooled
		InspectNoLit(f.Body(), func(nd ast.Node) bool {
			as, ok := nd.(*ast.AssignStmt)
			if !ok || len(as.Lhs) != 1 || len(as.Rhs) != 1 {
				return true
			}
			call, ok := ast.Unparen(as.Rhs[0]).(*ast.CallExpr)
			if !ok {
				return true
			}
			if cf := Callee(info, call); cf != nil {
				if put, ok := getters[cf.Name()]; ok {
					if v := IdentObj(info, as.Lhs[0]); v != nil {
						ps = append(ps, pooled{v, put})
					}
				}
			}
			return true
		})
		for _, pl := range ps {
			n++
			type st struct{ puts, deferred uint8 }
			var bad token.Pos
			isPut := func(call *ast.CallExpr) bool {
				cf := Callee(info, call)
				return cf != nil && cf.Name() == pl.put && len(call.Args) == 1 && IdentObj(info, call.Args[0]) == pl.v
			}
			fl := &Flow[st]{Fn: f}
			fl.Node = func(nd ast.Node, s st) []st {
				switch x := nd.(type) {
				case *ast.DeferStmt:
					if isPut(x.Call) && s.deferred < 3 {
						s.deferred++
					}
					return []st{s}
				case *ast.AssignStmt:
					// a fresh object taken from the pool starts a new count
					if len(x.Lhs) == 1 && IdentObj(info, x.Lhs[0]) == pl.v {
						s.puts = 0
					}
				case *ast.ReturnStmt:
					for _, call := range CallsIn(nd) {
						if isPut(call) && s.puts < 3 {
							s.puts++
						}
					}
					if s.puts+s.deferred > 1 && bad == token.NoPos {
						bad = x.Pos()
					}
					return nil
				}
				for _, call := range CallsIn(nd) {
					if isPut(call) && s.puts < 3 {
						s.puts++
					}
				}
				return []st{s}
			}
			fl.Run(st{})
			// falling off the end of a closure or function without a return statement
			pos := pl.v.Pos()
			if bad != token.NoPos {
				pos = bad
			}
			c.Oblige(fmt.Sprintf("put-at-most-once:%s:%s", f.Name, pl.v.Name()), pos, bad == token.NoPos, "the pooled object `"+pl.v.Name()+"` is returned to its pool twice on a path that ends here (explicit put plus deferred put): two later borrowers receive the same backing slice and overwrite each other")
		}
	}
	c.Floor("locals holding a pooled scratch object", n, 3)
}

// codecLooseFirst: in timeArshaler.unmarshal every strictness rejection (a return that builds a time.ParseError, directly,
// through a local closure or through a private helper) is reached only on paths where the looseRFC3339 field —
// ParseTimeWithLooseRFC3339 — has been tested and found false.
func codecLooseFirst(c *Ctx) {
	p := c.P
	f := p.Func("json.(*timeArshaler).unmarshal")
	if f == nil || f.Body() == nil {
		c.Undecide("json.(*timeArshaler).unmarshal", "function missing")
		return
	}
	info := f.Info()
	hasParseErrLit := func(n ast.Node, gi *types.Info) bool {
		found := false
		ast.Inspect(n, func(m ast.Node) bool {
			if cl, ok := m.(*ast.CompositeLit); ok {
				if t := gi.TypeOf(cl); t != nil && isNamed(t, "time", "ParseError") {
					found = true
				}
			}
			return !found
		})
		return found
	}
	// callables that build a ParseError
	rejecting := map[types.Object]bool{}
	InspectNoLit(f.Body(), func(nd ast.Node) bool {
		if as, ok := nd.(*ast.AssignStmt); ok && len(as.Lhs) == 1 && len(as.Rhs) == 1 {
			if lit, ok := ast.Unparen(as.Rhs[0]).(*ast.FuncLit); ok && hasParseErrLit(lit, info) {
				if v := IdentObj(info, as.Lhs[0]); v != nil {
					rejecting[v] = true
				}
			}
		}
		return true
	})
	scope := p.CalleeClosure(f, 3)
	for changed := true; changed; {
		changed = false
		for _, g := range scope {
			if g == f || g.Decl == nil || g.Obj == nil || g.Body() == nil || rejecting[g.Obj] {
				continue
			}
			is := hasParseErrLit(g.Body(), g.Info())
			if !is {
				for _, call := range CallsIn(g.Body()) {
					if cf := Callee(g.Info(), call); cf != nil && rejecting[cf] {
						is = true
					}
				}
			}
			if is {
				rejecting[g.Obj] = true
				changed = true
			}
		}
	}
	rejects := func(nd ast.Node) bool {
		if hasParseErrLit(nd, info) {
			return true
		}
		for _, call := range CallsIn(nd) {
			if id, ok := ast.Unparen(call.Fun).(*ast.Ident); ok && rejecting[IdentObj(info, id)] {
				return true
			}
			if cf := Callee(info, call); cf != nil && rejecting[cf] {
				return true
			}
		}
		return false
	}
	type st struct{ loose tri }
	nRej := 0
	var bad token.Pos
	fl := &Flow[st]{Fn: f}
	fl.Node = func(nd ast.Node, s st) []st {
		if r, ok := nd.(*ast.ReturnStmt); ok {
			if rejects(r) {
				nRej++
				if s.loose != triNo && bad == token.NoPos {
					bad = r.Pos()
				}
			}
			return nil
		}
		return []st{s}
	}
	fl.Leaf = func(e ast.Expr, s st) (t, fs []st) {
		if fv := SelField(info, e); fv != nil && fv.Name() == "looseRFC3339" {
			yes, no := s, s
			yes.loose, no.loose = triYes, triNo
			return []st{yes}, []st{no}
		}
		return []st{s}, []st{s}
	}
	fl.Run(st{loose: triUnknown})
	if nRej == 0 {
		c.Undecide("json.(*timeArshaler).unmarshal/strict", "no strictness rejection (time.ParseError) found")
		return
	}
	pos := f.Pos()
	if bad != token.NoPos {
		pos = bad
	}
	c.Oblige("time:loose-rfc3339-skips-strict-checks", pos, bad == token.NoPos, "a strictness check rejects the input on a path where ParseTimeWithLooseRFC3339 (looseRFC3339) has not been tested and found off: with the option on (v1) timestamps that encoding/json accepts are still refused")
}

// quotedNullDepth: the `"null"` test of a `,string` destination looks at the text that was unquoted exactly once (the
// JSON string's content). For a Go string the content is itself a quoted string and is unquoted a second time;
// testing after that second step accepts "\"null\"" as null and refuses "null".
func quotedNullDepth(c *Ctx) {
	p := c.P
	n := 0
	for _, f := range unmarshalClosures(p) {
		info := f.Info()
		// variables compared with "null" through string(v) == "null"
		type site struct {
			v   types.Object
			pos token.Pos
		}
		var sites []site
		InspectNoLit(f.Body(), func(nd ast.Node) bool {
			be, ok := nd.(*ast.BinaryExpr)
			if !ok || be.Op != token.EQL {
				return true
			}
			if s, isS := ConstStr(info, be.Y); !isS || s != "null" {
				return true
			}
			if call, ok := ast.Unparen(be.X).(*ast.CallExpr); ok && len(call.Args) == 1 {
				if tv, ok := info.Types[call.Fun]; ok && tv.IsType() {
					if v := IdentObj(info, call.Args[0]); v != nil {
						sites = append(sites, site{v, be.Pos()})
					}
				}
			}
			return true
		})
		for _, st := range sites {
			isUnq := func(e ast.Expr) bool {
				call, ok := ast.Unparen(e).(*ast.CallExpr)
				if !ok {
					return false
				}
				cf := Callee(info, call)
				return cf != nil && (cf.Name() == "UnquoteMayCopy" || cf.Name() == "AppendUnquote")
			}
			type state struct{ unq uint8 }
			maxAt := -1
			fl := &Flow[state]{Fn: f}
			seeAt := func(nd ast.Node, s state) {
				if nd.Pos() <= st.pos && st.pos < nd.End() {
					if int(s.unq) > maxAt {
						maxAt = int(s.unq)
					}
				}
			}
			fl.Node = func(nd ast.Node, s state) []state {
				seeAt(nd, s)
				if as, ok := nd.(*ast.AssignStmt); ok {
					for i, l := range as.Lhs {
						if IdentObj(info, l) == st.v {
							r := as.Rhs[0]
							if len(as.Rhs) == len(as.Lhs) {
								r = as.Rhs[i]
							}
							if isUnq(r) && s.unq < 3 {
								s.unq++
							}
						}
					}
				}
				if _, ok := nd.(*ast.ReturnStmt); ok {
					return nil
				}
				return []state{s}
			}
			fl.Leaf = func(e ast.Expr, s state) (t, fs []state) { seeAt(e, s); return []state{s}, []state{s} }
			fl.Run(state{})
			if maxAt < 0 {
				continue
			}
			n++
			c.Oblige("quoted-null-tested-on-once-unquoted-text:"+f.Name, st.pos, maxAt == 1,
				fmt.Sprintf("the \"null\" test is applied after %d unquoting steps: encoding/json (v1) recognises a quoted null in the content of the JSON string, i.e. after exactly one", maxAt))
		}
	}
	c.Floor("quoted-null tests on an unquoted local", n, 2)
}
