package main

import (
	"fmt"
	"go/ast"
	"go/token"
	"go/types"
	"strings"
)

func init() {
	register(&Rule{ID: "PAIR-1", Doc: "a two-byte marker is matched consistently: where adjacent bytes of one slice (x[i], x[i+1]) are compared with constants in one condition, the test is `==`&&`==` (is the marker) or `!=`||`!=` (is not the marker); `!=`&&`!=` or `==`||`==` — the De Morgan slip that accepts anything sharing one byte with the marker — is reported", Run: rulePAIR1})
	register(&Rule{ID: "FLAGMASK-1", Doc: "a block entered under Flags.Has(mask) only consults flags of that mask: every flag read with Get/Has inside the block (other than flags that are unconditional defaults of the enclosing function) is one of the mask's bits; otherwise the inner case is unreachable when only that flag is set, and the sibling (marshal/unmarshal) closure that keeps the full mask behaves differently. Sibling closures of one factory must test the same Has masks (one-sided flags excepted)", Run: ruleFLAGMASK1})
	register(&Rule{ID: "FULL-1", Doc: "a scanner used as a validator must cover the whole input: outside package jsonwire the consumed-length result of jsonwire.ConsumeNumber/ConsumeString/ConsumeSimpleString/ConsumeLiteral is never discarded (a value with trailing garbage would pass), and neither is the ok verdict of jsonwire.ParseUint/ParseHexUint16 (their value for refused input is a placeholder)", Run: ruleFULL1})
	register(&Rule{ID: "SURR-1", Doc: "surrogate halves are only combined on utf16.DecodeRune's verdict: the result of every utf16.DecodeRune call is compared with utf8.RuneError (or unicode.ReplacementChar) in the statement that makes the call or before its first other use", Run: ruleSURR1})
	register(&Rule{ID: "MONO-1", Doc: "`this value has a non-default representation` only ever grows: a bool local initialised from an arshaler's nonDefault field is afterwards only assigned `v = v || x` (or `if x { v = true }`); overwriting it with a lookup result forgets that the type itself had marshal methods (omitempty would then judge the Go value instead of the JSON output)", Run: ruleMONO1})
	register(&Rule{ID: "POISON-1", Doc: "the decoder's poison byte is always undone when names are copied out: in copyQuotedBuffer the store that restores the opening quote is guarded by nothing but the test of that byte against invalidateBufferByte", Run: rulePOISON1})
	register(&Rule{ID: "NILTEST-1", Doc: "no test on a field the same path has just cleared: a type assertion, type switch or nil comparison on X.f after an unconditional `X.f = nil` (no assignment in between) is constant, so whatever it was meant to select can no longer be selected (for pooled coders: which pool the coder goes back to)", Run: ruleNILTEST1})
	register(&Rule{ID: "PUBLISH-1", Doc: "values are complete before they are published: after a pointer is handed to Store/LoadOrStore of a package-level sync.Map it is not passed to any function, assigned through or re-assigned and used (only returned or compared); otherwise concurrent readers of the cache observe a half-built value", Run: rulePUBLISH1})
}

// ---- PAIR-1 --------------------------------------------------------------------

func rulePAIR1(c *Ctx) {
	p := c.P
	n := 0
	for _, f := range p.FuncsIn("jsonwire", "jsontext", "json", "v1") {
		if f.Body() == nil {
			continue
		}
		info := f.Info()
		type cmp struct {
			base string
			idx  ast.Expr
			op   token.Token
		}
		asCmp := func(e ast.Expr) (cmp, bool) {
			be, ok := ast.Unparen(e).(*ast.BinaryExpr)
			if !ok || (be.Op != token.EQL && be.Op != token.NEQ) {
				return cmp{}, false
			}
			l, r := ast.Unparen(be.X), ast.Unparen(be.Y)
			if _, isIdx := r.(*ast.IndexExpr); isIdx {
				l, r = r, l
			}
			ix, ok := l.(*ast.IndexExpr)
			if !ok {
				return cmp{}, false
			}
			if tv, ok := info.Types[r]; !ok || tv.Value == nil {
				return cmp{}, false
			}
			if bt, ok := info.TypeOf(ix).Underlying().(*types.Basic); !ok || bt.Kind() != types.Uint8 {
				return cmp{}, false
			}
			return cmp{exprString(ix.X), ix.Index, be.Op}, true
		}
		adjacent := func(a, b ast.Expr) bool {
			// b == a + 1 syntactically
			sa, sb := exprString(a), exprString(b)
			if sb == sa+" + 1" || sb == sa+"+1" {
				return true
			}
			if va, ok := ConstI64(info, a); ok {
				if vb, ok := ConstI64(info, b); ok {
					return vb == va+1
				}
			}
			// n+1 vs n+2 etc.
			if ba, ok := ast.Unparen(a).(*ast.BinaryExpr); ok && ba.Op == token.ADD {
				if bb, ok := ast.Unparen(b).(*ast.BinaryExpr); ok && bb.Op == token.ADD && exprString(ba.X) == exprString(bb.X) {
					if va, ok := ConstI64(info, ba.Y); ok {
						if vb, ok := ConstI64(info, bb.Y); ok {
							return vb == va+1
						}
					}
				}
			}
			return false
		}
		ord := 0
		InspectNoLit(f.Body(), func(nd ast.Node) bool {
			be, ok := nd.(*ast.BinaryExpr)
			if !ok || (be.Op != token.LAND && be.Op != token.LOR) {
				return true
			}
			// direct operands only (x op y where both are byte comparisons), also through a left-nested chain
			var operands []ast.Expr
			var flat func(e ast.Expr)
			flat = func(e ast.Expr) {
				if b2, ok := ast.Unparen(e).(*ast.BinaryExpr); ok && b2.Op == be.Op {
					if _, paren := e.(*ast.ParenExpr); !paren || true {
						flat(b2.X)
						flat(b2.Y)
						return
					}
				}
				operands = append(operands, e)
			}
			// only handle the outermost chain of this operator
			if par, ok := p.Parent(f.File, be).(*ast.BinaryExpr); ok && par.Op == be.Op {
				return true
			}
			flat(be)
			for i := 0; i+1 < len(operands); i++ {
				a, okA := asCmp(operands[i])
				b, okB := asCmp(operands[i+1])
				if !okA || !okB || a.base != b.base || !adjacent(a.idx, b.idx) || a.op != b.op {
					continue
				}
				n++
				ord++
				good := (a.op == token.EQL && be.Op == token.LAND) || (a.op == token.NEQ && be.Op == token.LOR)
				c.Oblige(fmt.Sprintf("marker-test:%s#%d", f.Name, ord), operands[i].Pos(), good,
					fmt.Sprintf("`%s %s %s`: two adjacent bytes are compared with `%s` but joined with `%s` (matches inputs that share only one byte with the marker)", exprString(operands[i]), be.Op, exprString(operands[i+1]), a.op, be.Op))
			}
			return true
		})
	}
	c.Floor("two-byte marker tests", n, 2)
}

// ---- FLAGMASK-1 ----------------------------------------------------------------

func ruleFLAGMASK1(c *Ctx) {
	p := c.P
	ft := p.Flags()
	n := 0
	type maskUse struct {
		f    *FuncInfo
		mask uint64
		pos  token.Pos
	}
	byDecl := map[*FuncInfo][]maskUse{}
	for _, f := range p.FuncsIn("json", "jsontext", "v1") {
		if f.Body() == nil {
			continue
		}
		info := f.Info()
		ord := 0
		for _, ifs := range findAll[*ast.IfStmt](f.Body()) {
			// condition is exactly X.Has(mask) with a multi-bit mask
			call, ok := ast.Unparen(ifs.Cond).(*ast.CallExpr)
			if !ok {
				continue
			}
			m, _, v, isFlag := FlagCall(info, call)
			if !isFlag || m != "Has" {
				continue
			}
			mask := v &^ 1
			if mask&(mask-1) == 0 {
				continue // single flag
			}
			n++
			ord++
			if d := p.enclosingDecl(f); d != nil {
				byDecl[d] = append(byDecl[d], maskUse{f, mask, ifs.Pos()})
			}
			var outside []string
			InspectNoLit(ifs.Body, func(nd ast.Node) bool {
				ic, ok := nd.(*ast.CallExpr)
				if !ok {
					return true
				}
				im, _, iv, isF := FlagCall(info, ic)
				if !isF || (im != "Get" && im != "Has") {
					return true
				}
				if extra := (iv &^ 1) &^ mask; extra != 0 {
					// a flag outside the mask: fine if it only refines a case that another flag of the mask selects
					// (conjunction with a mask flag in the same boolean expression)
					okCtx := false
					var e ast.Node = ic
					for e != nil && e != ast.Node(ifs.Body) {
						par := p.Parent(f.File, e)
						if be, ok := par.(*ast.BinaryExpr); ok && be.Op == token.LAND {
							if flagsRead(info, be)&mask != 0 {
								okCtx = true
							}
						}
						if _, isExpr := par.(ast.Expr); !isExpr {
							// case clause list / if condition: check enclosing conditions inside the block
							for _, cc := range enclosingConds(p, f, ic) {
								if containsNode(ifs.Body, cc.cond) && flagsRead(info, cc.cond)&mask != 0 && cc.then {
									okCtx = true
								}
							}
							break
						}
						e = par
					}
					if !okCtx {
						outside = append(outside, ft.Names(extra))
					}
				}
				return true
			})
			c.Oblige(fmt.Sprintf("has-mask-covers-block:%s#%d", f.Name, ord), ifs.Pos(), len(outside) == 0,
				"the block guarded by Has("+ft.Names(mask)+") decides on "+strings.Join(outside, ", ")+", which the mask does not contain: with only that flag set the block is skipped")
		}
	}
	c.Floor("blocks guarded by a multi-flag Has mask", n, 4)
	// presence is only asked of things that have no value of their own: outside the option plumbing,
	// Has is applied to non-boolean flags, named group masks or inline multi-flag pre-checks — never to
	// one boolean option (`Has(X)` is also true for X(false), e.g. after DefaultOptionsV2)
	nb := ft.Named["NonBooleanFlags"]
	nHas := 0
	for _, f := range p.FuncsIn("json", "jsontext", "v1") {
		if f.Body() == nil {
			continue
		}
		info := f.Info()
		k := 0
		InspectNoLit(f.Body(), func(nd ast.Node) bool {
			call, ok := nd.(*ast.CallExpr)
			if !ok {
				return true
			}
			m, _, v, isFlag := FlagCall(info, call)
			if !isFlag || m != "Has" {
				return true
			}
			nHas++
			mask := v &^ 1
			single := mask != 0 && mask&(mask-1) == 0
			if single && mask&nb == 0 {
				k++
				c.Violation(fmt.Sprintf("has-on-boolean-option:%s#%d", f.Name, k), call.Pos(), "Flags.Has("+ft.Names(mask)+") asks whether the boolean option was specified, not whether it is on: it is also true for an explicit false (and after DefaultOptionsV2), use Get")
			}
			return true
		})
	}
	c.Floor("Flags.Has calls outside the option plumbing", nHas, 20)
	// sibling closures of one factory test the same masks
	for decl, uses := range byDecl {
		var m, u []maskUse
		for _, x := range uses {
			switch {
			case strings.HasSuffix(x.f.Name, ":marshal"):
				m = append(m, x)
			case strings.HasSuffix(x.f.Name, ":unmarshal"):
				u = append(u, x)
			}
		}
		if len(m) != 1 || len(u) != 1 {
			continue
		}
		diff := m[0].mask ^ u[0].mask
		sides := oneSidedFlags(p)
		diff &^= sides
		c.Oblige("sibling-has-masks:"+decl.Name, u[0].pos, diff == 0,
			"marshal tests Has("+ft.Names(m[0].mask)+") but unmarshal tests Has("+ft.Names(u[0].mask)+"): "+ft.Names(diff)+" selects the alternative representation on one side only")
	}
}

// oneSidedFlags returns the union of flags annotated as marshal-only or unmarshal-only.
func oneSidedFlags(p *Program) uint64 {
	var m uint64
	ft := p.Flags()
	for name := range flagSides(p) {
		m |= ft.Single[name]
	}
	return m
}

// ---- FULL-1 --------------------------------------------------------------------

func ruleFULL1(c *Ctx) {
	p := c.P
	n := 0
	verdicts := map[string]bool{"ParseUint": true, "ParseHexUint16": true}
	nv := 0
	names := map[string]bool{"ConsumeNumber": true, "ConsumeString": true, "ConsumeSimpleString": true, "ConsumeLiteral": true, "ConsumeNull": true, "ConsumeTrue": true, "ConsumeFalse": true}
	for _, f := range p.FuncsIn("json", "jsontext", "v1") {
		if f.Body() == nil {
			continue
		}
		info := f.Info()
		ord := map[string]int{}
		InspectNoLit(f.Body(), func(nd ast.Node) bool {
			switch x := nd.(type) {
			case *ast.AssignStmt:
				if len(x.Rhs) != 1 {
					return true
				}
				call, ok := ast.Unparen(x.Rhs[0]).(*ast.CallExpr)
				if !ok {
					return true
				}
				cf := Callee(info, call)
				if cf != nil && cf.Pkg() != nil && cf.Pkg().Path() == pkgAlias["jsonwire"] && verdicts[cf.Name()] && len(x.Lhs) == 2 {
					// (value, ok): the value of a refused input is a placeholder (0 or MaxUint64)
					nv++
					ord["v:"+cf.Name()]++
					id, isId := x.Lhs[1].(*ast.Ident)
					c.Oblige(fmt.Sprintf("verdict-used:%s:%s#%d", f.Name, cf.Name(), ord["v:"+cf.Name()]), x.Pos(), !(isId && id.Name == "_"),
						"the verdict of "+cf.Name()+" is discarded: for input it refuses (leading zeros, non-digits, overflow) the placeholder it returns is used as if it were the parsed number")
					return true
				}
				if cf == nil || cf.Pkg() == nil || cf.Pkg().Path() != pkgAlias["jsonwire"] || !names[cf.Name()] {
					return true
				}
				n++
				ord[cf.Name()]++
				id, isId := x.Lhs[0].(*ast.Ident)
				c.Oblige(fmt.Sprintf("length-used:%s:%s#%d", f.Name, cf.Name(), ord[cf.Name()]), x.Pos(), !(isId && id.Name == "_"),
					"the number of bytes "+cf.Name()+" consumed is discarded: input with trailing bytes after a valid prefix is accepted")
			case *ast.ExprStmt:
				if call, ok := ast.Unparen(x.X).(*ast.CallExpr); ok {
					if cf := Callee(info, call); cf != nil && cf.Pkg() != nil && cf.Pkg().Path() == pkgAlias["jsonwire"] && names[cf.Name()] {
						n++
						c.Violation("length-used:"+f.Name+":"+cf.Name(), x.Pos(), "result of "+cf.Name()+" ignored")
					}
				}
			}
			return true
		})
	}
	c.Floor("scanner calls outside jsonwire whose results are assigned", n, 10)
	c.Floor("ParseUint/ParseHexUint16 calls outside jsonwire", nv, 8)
}

// ---- SURR-1 --------------------------------------------------------------------

func ruleSURR1(c *Ctx) {
	p := c.P
	n := 0
	for _, f := range p.FuncsIn("jsonwire", "jsontext", "json", "v1") {
		if f.Body() == nil {
			continue
		}
		info := f.Info()
		ord := 0
		InspectNoLit(f.Body(), func(nd ast.Node) bool {
			call, ok := nd.(*ast.CallExpr)
			if !ok || !FuncCall(info, call, "unicode/utf16", "DecodeRune") {
				return true
			}
			n++
			ord++
			// the call must be (part of) an if's init/cond whose condition compares the result with RuneError
			okTest := false
			var e ast.Node = call
			var resVar types.Object
			for e != nil {
				par := p.Parent(f.File, e)
				if as, ok := par.(*ast.AssignStmt); ok && len(as.Lhs) == 1 {
					resVar = IdentObj(info, as.Lhs[0])
					e = par
					continue
				}
				if ifs, ok := par.(*ast.IfStmt); ok && (ifs.Init == e || ifs.Cond == e) {
					ast.Inspect(ifs.Cond, func(x ast.Node) bool {
						be, ok := x.(*ast.BinaryExpr)
						if !ok || (be.Op != token.EQL && be.Op != token.NEQ) {
							return true
						}
						for _, pair := range [][2]ast.Expr{{be.X, be.Y}, {be.Y, be.X}} {
							o := IdentOrSelObj(info, pair[1])
							if o == nil || !(o.Name() == "RuneError" || o.Name() == "ReplacementChar") {
								continue
							}
							l := ast.Unparen(pair[0])
							if l == ast.Expr(call) || (resVar != nil && IdentObj(info, l) == resVar) {
								okTest = true
							}
						}
						return true
					})
					break
				}
				if _, isExpr := par.(ast.Expr); isExpr {
					e = par
					continue
				}
				break
			}
			c.Oblige(fmt.Sprintf("decoderune-checked:%s#%d", f.Name, ord), call.Pos(), okTest,
				"the rune combined from two \\u escapes is used without testing utf16.DecodeRune's result against utf8.RuneError (an invalid pair would be accepted)")
			return true
		})
	}
	c.Floor("utf16.DecodeRune calls", n, 2)
}

// ---- MONO-1 --------------------------------------------------------------------

func ruleMONO1(c *Ctx) {
	p := c.P
	nd := p.Field("json", "arshaler", "nonDefault")
	if nd == nil {
		c.Undecide("json.arshaler.nonDefault", "field missing")
		return
	}
	n := 0
	for _, f := range p.FuncsIn("json") {
		if f.Body() == nil {
			continue
		}
		info := f.Info()
		// locals with a definition that reads .nonDefault
		locals := map[*types.Var]bool{}
		InspectNoLit(f.Body(), func(x ast.Node) bool {
			as, ok := x.(*ast.AssignStmt)
			if !ok || len(as.Lhs) != len(as.Rhs) {
				return true
			}
			for i, r := range as.Rhs {
				if SelField(info, r) == nd {
					if v, _ := IdentObj(info, as.Lhs[i]).(*types.Var); v != nil && !v.IsField() {
						locals[v] = true
					}
				}
			}
			return true
		})
		for v := range locals {
			n++
			bad := ""
			InspectNoLit(f.Body(), func(x ast.Node) bool {
				as, ok := x.(*ast.AssignStmt)
				if !ok {
					return true
				}
				for i, l := range as.Lhs {
					if IdentObj(info, l) != v {
						continue
					}
					if len(as.Lhs) != len(as.Rhs) {
						if bad == "" {
							bad = "overwritten by one result of `" + exprString(as.Rhs[0]) + "` at " + p.Position(as.Pos())
						}
						continue
					}
					r := ast.Unparen(as.Rhs[i])
					switch {
					case SelField(info, r) == nd:
					case isTrueConst(info, r):
					default:
						if be, ok := r.(*ast.BinaryExpr); ok && be.Op == token.LOR && (IdentObj(info, be.X) == v || IdentObj(info, be.Y) == v) {
							continue
						}
						if bad == "" {
							bad = "assigned `" + exprString(r) + "` at " + p.Position(as.Pos()) + " (not an OR with its previous value)"
						}
					}
				}
				return true
			})
			c.Oblige("monotone:"+f.Name+":"+v.Name(), v.Pos(), bad == "", "`"+v.Name()+"` starts as the arshaler's nonDefault and is "+bad)
		}
	}
	c.Floor("locals initialised from arshaler.nonDefault", n, 2)
}

func isTrueConst(info *types.Info, e ast.Expr) bool {
	tv, ok := info.Types[e]
	return ok && tv.Value != nil && tv.Value.String() == "true"
}

// ---- POISON-1 ------------------------------------------------------------------

func rulePOISON1(c *Ctx) {
	p := c.P
	f := p.Func("jsontext.(*objectNameStack).copyQuotedBuffer")
	poison := p.Lookup("jsontext", "invalidateBufferByte")
	if f == nil || f.Body() == nil || poison == nil {
		c.Undecide("jsontext.(*objectNameStack).copyQuotedBuffer / invalidateBufferByte", "missing")
		return
	}
	n := 0
	subject := f
	// the per-name work may have been moved into a private helper of copyQuotedBuffer
	p.InspectScope(subject, func(f *FuncInfo, nd ast.Node) bool {
		info := f.Info()
		as, ok := nd.(*ast.AssignStmt)
		if !ok || len(as.Lhs) != 1 || len(as.Rhs) != 1 {
			return true
		}
		ix, ok := ast.Unparen(as.Lhs[0]).(*ast.IndexExpr)
		if !ok {
			return true
		}
		if v, isC := ConstI64(info, as.Rhs[0]); !isC || v != '"' {
			return true
		}
		n++
		// enclosing conditions up to the loop
		var bad []string
		sawByteTest := false
		for _, cc := range enclosingConds(p, f, as) {
			// stop at the loop: conditions outside the per-name loop are not about this name
			inLoop := false
			var e ast.Node = cc.cond
			for e != nil && e != ast.Node(f.Body()) {
				e = p.Parent(f.File, e)
				if _, isFor := e.(*ast.ForStmt); isFor {
					inLoop = true
				}
				if _, isRange := e.(*ast.RangeStmt); isRange {
					inLoop = true
				}
			}
			if !inLoop && f == subject {
				continue // a condition outside the per-name loop is not about this name
			}
			be, ok := ast.Unparen(cc.cond).(*ast.BinaryExpr)
			if ok && be.Op == token.EQL && cc.then && exprString(be.X) == exprString(ix) && IdentObj(info, be.Y) == poison {
				sawByteTest = true
				continue
			}
			bad = append(bad, exprString(cc.cond))
		}
		c.Oblige("undo-unconditional", as.Pos(), sawByteTest && len(bad) == 0,
			"the opening quote is restored only under `"+strings.Join(bad, "`, `")+"`: names poisoned by the decoder but not matching that condition are copied with the marker byte in place")
		return true
	})
	if n == 0 {
		c.Undecide("copyQuotedBuffer/undo", "no store restoring the opening quote found")
	}
}

// ---- NILTEST-1 -----------------------------------------------------------------

func ruleNILTEST1(c *Ctx) {
	p := c.P
	nFuncs := 0
	for _, f := range p.FuncsIn("jsontext", "json", "v1", "jsonopts") {
		if f.Body() == nil {
			continue
		}
		info := f.Info()
		// fields assigned nil somewhere in this function
		cleared := map[*types.Var]uint{}
		InspectNoLit(f.Body(), func(nd ast.Node) bool {
			as, ok := nd.(*ast.AssignStmt)
			if !ok || len(as.Lhs) != len(as.Rhs) || as.Tok != token.ASSIGN {
				return true
			}
			for i, l := range as.Lhs {
				if fld := SelField(info, l); fld != nil && IsNilIdent(info, as.Rhs[i]) {
					if _, seen := cleared[fld]; !seen && len(cleared) < 60 {
						cleared[fld] = uint(len(cleared))
					}
				}
			}
			return true
		})
		if len(cleared) == 0 {
			continue
		}
		nFuncs++
		type st struct{ nilSet uint64 }
		type finding struct {
			fld *types.Var
			pos token.Pos
		}
		var found []finding
		seenPos := map[token.Pos]bool{}
		testOf := func(e ast.Expr) *types.Var {
			e = ast.Unparen(e)
			switch x := e.(type) {
			case *ast.TypeAssertExpr:
				return SelField(info, x.X)
			case *ast.BinaryExpr:
				if x.Op == token.EQL || x.Op == token.NEQ {
					if IsNilIdent(info, x.Y) {
						return SelField(info, x.X)
					}
					if IsNilIdent(info, x.X) {
						return SelField(info, x.Y)
					}
				}
			}
			return nil
		}
		check := func(n ast.Node, s st) {
			ast.Inspect(n, func(x ast.Node) bool {
				if _, isLit := x.(*ast.FuncLit); isLit {
					return false
				}
				if e, ok := x.(ast.Expr); ok {
					if fld := testOf(e); fld != nil {
						if b, ok := cleared[fld]; ok && s.nilSet&(1<<b) != 0 && !seenPos[e.Pos()] {
							seenPos[e.Pos()] = true
							found = append(found, finding{fld, e.Pos()})
						}
					}
				}
				return true
			})
		}
		fl := &Flow[st]{Fn: f}
		fl.Node = func(n ast.Node, s st) []st {
			switch x := n.(type) {
			case *ast.AssignStmt:
				for _, r := range x.Rhs {
					check(r, s)
				}
				for i, l := range x.Lhs {
					if fld := SelField(info, l); fld != nil {
						if b, ok := cleared[fld]; ok {
							if len(x.Lhs) == len(x.Rhs) && IsNilIdent(info, x.Rhs[i]) && x.Tok == token.ASSIGN {
								s.nilSet |= 1 << b
							} else {
								s.nilSet &^= 1 << b
							}
						}
					}
				}
				return []st{s}
			case *ast.ReturnStmt:
				check(n, s)
				return nil
			case *ast.TypeSwitchStmt:
				check(x.Assign, s)
			}
			// any call may reassign fields through the receiver: forget
			if len(CallsIn(n)) > 0 {
				check(n, s)
				return []st{{}}
			}
			check(n, s)
			return []st{s}
		}
		fl.Leaf = func(e ast.Expr, s st) (t, fs []st) {
			check(e, s)
			if len(CallsIn(e)) > 0 {
				s = st{}
			}
			return []st{s}, []st{s}
		}
		fl.Run(st{})
		if len(found) == 0 {
			c.OK("no-test-after-clear:"+f.Name, f.Pos(), "")
			continue
		}
		for _, fd := range found {
			c.Violation("no-test-after-clear:"+f.Name+":"+fd.fld.Name(), fd.pos, "`"+fd.fld.Name()+"` is tested here although every path to this point has just set it to nil: the test is constant")
		}
	}
	c.Floor("functions that clear a field", nFuncs, 5)
}

// ---- PUBLISH-1 -----------------------------------------------------------------

func rulePUBLISH1(c *Ctx) {
	p := c.P
	n := 0
	for _, f := range p.FuncsIn("json", "jsontext", "v1") {
		if f.Body() == nil {
			continue
		}
		info := f.Info()
		// publication calls in this function
		type pub struct {
			call *ast.CallExpr
			v    *types.Var
		}
		var pubs []pub
		InspectNoLit(f.Body(), func(nd ast.Node) bool {
			call, ok := nd.(*ast.CallExpr)
			if !ok {
				return true
			}
			sel, ok := ast.Unparen(call.Fun).(*ast.SelectorExpr)
			if !ok || (sel.Sel.Name != "Store" && sel.Sel.Name != "LoadOrStore" && sel.Sel.Name != "Swap") || len(call.Args) != 2 {
				return true
			}
			recv, _ := IdentOrSelObj(info, sel.X).(*types.Var)
			if recv == nil || recv.Pkg() == nil || recv.Parent() != recv.Pkg().Scope() || !concurrencySafeType(recv.Type()) {
				return true
			}
			if v, _ := IdentObj(info, call.Args[1]).(*types.Var); v != nil && !v.IsField() {
				if _, isPtr := v.Type().Underlying().(*types.Pointer); isPtr {
					pubs = append(pubs, pub{call, v})
				}
			}
			return true
		})
		for i, pb := range pubs {
			n++
			type st struct{ published bool }
			bad := ""
			fl := &Flow[st]{Fn: f}
			visit := func(nd ast.Node, s st) st {
				if s.published && bad == "" {
					ast.Inspect(nd, func(x ast.Node) bool {
						if _, isLit := x.(*ast.FuncLit); isLit {
							return false
						}
						id, ok := x.(*ast.Ident)
						if !ok || info.Uses[id] != pb.v {
							return true
						}
						par := p.Parent(f.File, id)
						switch y := par.(type) {
						case *ast.ReturnStmt:
							return true
						case *ast.BinaryExpr:
							if y.Op == token.EQL || y.Op == token.NEQ {
								return true
							}
						case *ast.CallExpr:
							if y == pb.call {
								return true
							}
						}
						if bad == "" {
							bad = "`" + pb.v.Name() + "` is used at " + p.Position(id.Pos()) + " after it was stored into the shared cache at " + p.Position(pb.call.Pos())
						}
						return true
					})
				}
				if containsNode(nd, pb.call) {
					s.published = true
				}
				if as, ok := nd.(*ast.AssignStmt); ok && s.published {
					for _, l := range as.Lhs {
						if IdentObj(info, l) == pb.v && !containsNode(nd, pb.call) {
							// re-assigned from something else: a different value from here on
							s.published = false
						}
					}
				}
				return s
			}
			fl.Node = func(nd ast.Node, s st) []st {
				s = visit(nd, s)
				if _, ok := nd.(*ast.ReturnStmt); ok {
					return nil
				}
				return []st{s}
			}
			fl.Leaf = func(e ast.Expr, s st) (t, fs []st) { s = visit(e, s); return []st{s}, []st{s} }
			fl.Run(st{})
			c.Oblige(fmt.Sprintf("complete-before-publish:%s#%d", f.Name, i+1), pb.call.Pos(), bad == "", bad)
		}
	}
	c.Floor("publications into package-level sync.Map caches", n, 1)
}
