package main

import (
	"bytes"
	"flag"
	"fmt"
	"go/ast"
	"go/parser"
	"go/token"
	"os"
	"path/filepath"
	"sort"
	"strings"
	"sync"
)

// Mutant is one adequacy-run mutation: a source rewrite anchored in a named
// function of a file. It is applied in memory (packages.Config.Overlay); the
// rules of the listed properties must then report at least one violation.
// This tests the checker, not /repo; anchors that no longer exist are skipped.
type Mutant struct {
	ID    string
	Props []string // properties whose rule set must catch it
	File  string   // relative to repo
	Func  string   // enclosing function name ("" = whole file); Type.Method or Func
	Old   string
	New   string
	Nth   int    // which occurrence inside the function (0 = first)
	Rule  string // rule expected to fire (informational)
}

type MutantResult struct {
	ID      string   `json:"id"`
	File    string   `json:"file"`
	Func    string   `json:"func"`
	Outcome string   `json:"outcome"` // selftest-killed, selftest-missed, skipped, not-compiling
	By      []string `json:"by,omitempty"`
	Note    string   `json:"note,omitempty"`
}

var mutants []Mutant

func addMutants(ms ...Mutant) { mutants = append(mutants, ms...) }

// applyMutant returns the mutated file content or an error if the anchor is gone.
func applyMutant(repo string, m Mutant) (string, []byte, error) {
	full := filepath.Join(repo, m.File)
	src, err := os.ReadFile(full)
	if err != nil {
		return "", nil, err
	}
	lo, hi := 0, len(src)
	if m.Func != "" {
		fset := token.NewFileSet()
		f, err := parser.ParseFile(fset, full, src, parser.SkipObjectResolution)
		if err != nil {
			return "", nil, err
		}
		found := false
		for _, d := range f.Decls {
			fd, ok := d.(*ast.FuncDecl)
			if !ok {
				continue
			}
			name := fd.Name.Name
			if fd.Recv != nil && len(fd.Recv.List) > 0 {
				t := fd.Recv.List[0].Type
				if st, ok := t.(*ast.StarExpr); ok {
					t = st.X
				}
				if ix, ok := t.(*ast.IndexExpr); ok {
					t = ix.X
				}
				if id, ok := t.(*ast.Ident); ok {
					name = id.Name + "." + name
				}
			}
			if name == m.Func {
				lo, hi = fset.Position(fd.Pos()).Offset, fset.Position(fd.End()).Offset
				found = true
				break
			}
		}
		if !found {
			return "", nil, fmt.Errorf("function %s not found", m.Func)
		}
	}
	seg := src[lo:hi]
	idx := -1
	from := 0
	for i := 0; i <= m.Nth; i++ {
		j := bytes.Index(seg[from:], []byte(m.Old))
		if j < 0 {
			return "", nil, fmt.Errorf("anchor text not found (occurrence %d)", m.Nth)
		}
		idx = from + j
		from = idx + len(m.Old)
	}
	var out []byte
	out = append(out, src[:lo+idx]...)
	out = append(out, m.New...)
	out = append(out, src[lo+idx+len(m.Old):]...)
	return full, out, nil
}

func mutantsFor(prop string) []Mutant {
	var out []Mutant
	for _, m := range mutants {
		for _, p := range m.Props {
			if p == prop || prop == "" {
				out = append(out, m)
				break
			}
		}
	}
	sort.SliceStable(out, func(i, j int) bool { return out[i].ID < out[j].ID })
	return out
}

func runOneMutant(repo string, m Mutant, rules []string, tier string) MutantResult {
	res := MutantResult{ID: m.ID, File: m.File, Func: m.Func}
	full, content, err := applyMutant(repo, m)
	if err != nil {
		res.Outcome = "skipped"
		res.Note = err.Error()
		return res
	}
	p, err := Load(repo, map[string][]byte{full: content})
	if err != nil {
		res.Outcome = "not-compiling"
		res.Note = firstLine(err.Error())
		return res
	}
	rep := RunRules(p, tier, rules)
	seen := map[string]bool{}
	for _, o := range rep.Obligations {
		if !o.OK && !seen[o.Rule] {
			seen[o.Rule] = true
			res.By = append(res.By, o.Rule)
		}
	}
	for _, u := range rep.Undecided {
		if !seen["UNDECIDED:"+u.Rule] {
			seen["UNDECIDED:"+u.Rule] = true
			res.By = append(res.By, "UNDECIDED:"+u.Rule)
		}
	}
	sort.Strings(res.By)
	if len(res.By) > 0 {
		res.Outcome = "selftest-killed"
	} else {
		res.Outcome = "selftest-missed"
	}
	return res
}

func firstLine(s string) string {
	if i := strings.IndexByte(s, '\n'); i >= 0 {
		if j := strings.IndexByte(s[i+1:], '\n'); j >= 0 {
			return s[:i+1+j]
		}
	}
	return s
}

// runMutants runs the adequacy mutants of one property with bounded parallelism.
// The baseline violations of the unmutated tree are subtracted by the caller's
// reading: a mutant counts as killed only by rules that are silent on the
// unmutated tree (computed here).
func runMutants(repo, prop string, rules []string, tier string) []MutantResult {
	ms := mutantsFor(prop)
	if len(ms) == 0 {
		return []MutantResult{}
	}
	// baseline failing (rule,construct) pairs, so that known findings do not count as kills
	base := map[string]bool{}
	if p, err := Load(repo, nil); err == nil {
		rep := RunRules(p, tier, rules)
		for _, o := range rep.Obligations {
			if !o.OK {
				base[o.Rule+"|"+o.Construct] = true
			}
		}
	}
	out := make([]MutantResult, len(ms))
	sem := make(chan struct{}, 4)
	var wg sync.WaitGroup
	for i, m := range ms {
		wg.Add(1)
		sem <- struct{}{}
		go func(i int, m Mutant) {
			defer wg.Done()
			defer func() { <-sem }()
			out[i] = runOneMutantBase(repo, m, rules, tier, base)
		}(i, m)
	}
	wg.Wait()
	return out
}

func runOneMutantBase(repo string, m Mutant, rules []string, tier string, base map[string]bool) MutantResult {
	res := MutantResult{ID: m.ID, File: m.File, Func: m.Func}
	full, content, err := applyMutant(repo, m)
	if err != nil {
		res.Outcome = "skipped"
		res.Note = err.Error()
		return res
	}
	p, err := Load(repo, map[string][]byte{full: content})
	if err != nil {
		res.Outcome = "not-compiling"
		res.Note = firstLine(err.Error())
		return res
	}
	rep := RunRules(p, tier, rules)
	seen := map[string]bool{}
	for _, o := range rep.Obligations {
		if !o.OK && !base[o.Rule+"|"+o.Construct] && !seen[o.Rule] {
			seen[o.Rule] = true
			res.By = append(res.By, o.Rule)
			if res.Note == "" {
				res.Note = o.Construct + ": " + o.Detail
			}
		}
	}
	for _, u := range rep.Undecided {
		if !seen["UNDECIDED:"+u.Rule] {
			seen["UNDECIDED:"+u.Rule] = true
			res.By = append(res.By, "UNDECIDED:"+u.Rule)
		}
	}
	sort.Strings(res.By)
	if len(res.By) > 0 {
		res.Outcome = "selftest-killed"
	} else {
		res.Outcome = "selftest-missed"
	}
	return res
}

func cmdSelftest(args []string) int {
	fs := flag.NewFlagSet("selftest", flag.ExitOnError)
	prop := fs.String("property", "", "property id (empty = all)")
	repo := fs.String("repo", "/repo", "repository root")
	only := fs.String("id", "", "only this mutant id (substring)")
	tier := fs.String("tier", "thorough", "tier used for the rules")
	fs.Parse(args)
	var plist []string
	if *prop != "" {
		plist = []string{*prop}
	} else {
		plist = propOrder
	}
	missed := 0
	for _, pid := range plist {
		pd, ok := props[pid]
		if !ok {
			continue
		}
		if *only != "" {
			var keep []Mutant
			for _, m := range mutants {
				if strings.Contains(m.ID, *only) {
					keep = append(keep, m)
				}
			}
			saved := mutants
			mutants = keep
			defer func() { mutants = saved }()
		}
		res := runMutants(*repo, pid, pd.Rules, *tier)
		for _, r := range res {
			fmt.Printf("%s %-40s %-16s %s %s\n", pid, r.ID, r.Outcome, strings.Join(r.By, ","), r.Note)
			if r.Outcome != "selftest-killed" {
				missed++
			}
		}
	}
	if missed > 0 {
		fmt.Printf("selftest: %d mutants not killed\n", missed)
		return 1
	}
	return 0
}
