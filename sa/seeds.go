package main

import (
	"encoding/json"
	"fmt"
	"os"
	"path/filepath"
	"sort"
	"strings"
)

// SeedResult is the outcome of replaying one stored seeded change in memory.
type SeedResult struct {
	ID      string   `json:"id"`
	Outcome string   `json:"outcome"` // selftest-killed, selftest-missed, skipped
	By      []string `json:"by,omitempty"`
	Note    string   `json:"note,omitempty"`
}

type hunk struct {
	oldStart int
	old, new []string
}

// parseUnifiedDiff returns per-file hunks of a git diff.
func parseUnifiedDiff(text string) map[string][]hunk {
	out := map[string][]hunk{}
	var file string
	var cur *hunk
	flush := func() {
		if cur != nil && file != "" {
			out[file] = append(out[file], *cur)
		}
		cur = nil
	}
	for _, line := range strings.Split(text, "\n") {
		switch {
		case strings.HasPrefix(line, "+++ b/"):
			flush()
			file = strings.TrimPrefix(line, "+++ b/")
		case strings.HasPrefix(line, "--- "), strings.HasPrefix(line, "diff --git"), strings.HasPrefix(line, "index "):
			flush()
		case strings.HasPrefix(line, "@@"):
			flush()
			cur = &hunk{}
			fmt.Sscanf(line, "@@ -%d", &cur.oldStart)
		case cur != nil && strings.HasPrefix(line, "+"):
			cur.new = append(cur.new, line[1:])
		case cur != nil && strings.HasPrefix(line, "-"):
			cur.old = append(cur.old, line[1:])
		case cur != nil && strings.HasPrefix(line, " "):
			cur.old = append(cur.old, line[1:])
			cur.new = append(cur.new, line[1:])
		case cur != nil && line == "":
			// blank context line with the leading space stripped by some tools
			cur.old = append(cur.old, "")
			cur.new = append(cur.new, "")
		}
	}
	flush()
	return out
}

// applyHunks applies hunks by locating each old block (nearest to its stated line).
func applyHunks(src string, hs []hunk) (string, error) {
	lines := strings.Split(src, "\n")
	offset := 0
	for _, h := range hs {
		// trim trailing empty context artefacts
		old, nw := h.old, h.new
		for len(old) > 0 && len(nw) > 0 && old[len(old)-1] == "" && nw[len(nw)-1] == "" {
			old, nw = old[:len(old)-1], nw[:len(nw)-1]
		}
		want := h.oldStart - 1 + offset
		best := -1
		for i := 0; i+len(old) <= len(lines); i++ {
			match := true
			for j := range old {
				if lines[i+j] != old[j] {
					match = false
					break
				}
			}
			if match && (best < 0 || abs(i-want) < abs(best-want)) {
				best = i
			}
		}
		if best < 0 {
			// retry with reduced context (first and last context lines dropped)
			return "", fmt.Errorf("hunk at line %d does not apply", h.oldStart)
		}
		var res []string
		res = append(res, lines[:best]...)
		res = append(res, nw...)
		res = append(res, lines[best+len(old):]...)
		offset += len(nw) - len(old)
		lines = res
	}
	return strings.Join(lines, "\n"), nil
}

func abs(x int) int {
	if x < 0 {
		return -x
	}
	return x
}

// runSeeds replays the stored seeded changes of one property as in-memory overlays.
func runSeeds(repo, verif, prop string, rules []string, tier string, base map[string]bool) []SeedResult {
	dir := filepath.Join(verif, "seeded")
	ents, err := os.ReadDir(dir)
	if err != nil {
		return nil
	}
	var out []SeedResult
	for _, e := range ents {
		if !e.IsDir() {
			continue
		}
		mb, err := os.ReadFile(filepath.Join(dir, e.Name(), "meta.json"))
		if err != nil {
			continue
		}
		var meta struct {
			Property string `json:"property"`
		}
		if json.Unmarshal(mb, &meta) != nil || meta.Property != prop {
			continue
		}
		res := SeedResult{ID: e.Name()}
		pb, err := os.ReadFile(filepath.Join(dir, e.Name(), "patch.diff"))
		if err != nil {
			res.Outcome, res.Note = "skipped", "no patch.diff"
			out = append(out, res)
			continue
		}
		overlay := map[string][]byte{}
		okApply := true
		for file, hs := range parseUnifiedDiff(string(pb)) {
			full := filepath.Join(repo, file)
			src, err := os.ReadFile(full)
			if err != nil {
				okApply = false
				res.Note = err.Error()
				break
			}
			ns, err := applyHunks(string(src), hs)
			if err != nil {
				okApply = false
				res.Note = file + ": " + err.Error()
				break
			}
			overlay[full] = []byte(ns)
		}
		if !okApply {
			res.Outcome = "skipped"
			out = append(out, res)
			continue
		}
		p, err := Load(repo, overlay)
		if err != nil {
			res.Outcome, res.Note = "skipped", "does not type-check on the current tree: "+firstLine(err.Error())
			out = append(out, res)
			continue
		}
		rep := RunRules(p, tier, rules)
		seen := map[string]bool{}
		for _, o := range rep.Obligations {
			if !o.OK && !base[o.Rule+"|"+o.Construct] && !seen[o.Rule] {
				seen[o.Rule] = true
				res.By = append(res.By, o.Rule)
				if res.Note == "" {
					res.Note = o.Construct
				}
			}
		}
		sort.Strings(res.By)
		if len(res.By) > 0 {
			res.Outcome = "selftest-killed"
		} else {
			res.Outcome = "selftest-missed"
		}
		out = append(out, res)
	}
	return out
}

// overlayFromDiff applies a unified diff to the files of repo in memory.
func overlayFromDiff(repo, diff string) (map[string][]byte, error) {
	overlay := map[string][]byte{}
	for file, hs := range parseUnifiedDiff(diff) {
		full := filepath.Join(repo, file)
		src, err := os.ReadFile(full)
		if err != nil {
			return nil, err
		}
		ns, err := applyHunks(string(src), hs)
		if err != nil {
			return nil, fmt.Errorf("%s: %v", file, err)
		}
		overlay[full] = []byte(ns)
	}
	return overlay, nil
}

// ControlResult is the outcome of replaying one stored behaviour-preserving
// refactoring (negative control): the rules must stay silent on it.
type ControlResult struct {
	ID      string   `json:"id"`
	Outcome string   `json:"outcome"` // control-silent, control-alarm, skipped
	By      []string `json:"by,omitempty"`
	Note    string   `json:"note,omitempty"`
}

// runControls replays /verif/refactors/*/all.diff (sets of behaviour-preserving
// refactorings written by independent agents) as overlays; any obligation that
// fails there and not on the base tree is a false alarm of the machinery.
func runControls(repo, verif string, rules []string, tier string, base map[string]bool) []ControlResult {
	files, _ := filepath.Glob(filepath.Join(verif, "refactors", "*", "all.diff"))
	sort.Strings(files)
	var out []ControlResult
	for _, df := range files {
		res := ControlResult{ID: filepath.Base(filepath.Dir(df))}
		b, err := os.ReadFile(df)
		if err != nil {
			continue
		}
		overlay, err := overlayFromDiff(repo, string(b))
		if err != nil {
			res.Outcome, res.Note = "skipped", "does not apply to the current tree: "+err.Error()
			out = append(out, res)
			continue
		}
		p, err := Load(repo, overlay)
		if err != nil {
			res.Outcome, res.Note = "skipped", "does not type-check on the current tree: "+firstLine(err.Error())
			out = append(out, res)
			continue
		}
		rep := RunRules(p, tier, rules)
		seen := map[string]bool{}
		for _, o := range rep.Obligations {
			if !o.OK && !o.Known && !base[o.Rule+"|"+o.Construct] && !seen[o.Rule] {
				seen[o.Rule] = true
				res.By = append(res.By, o.Rule)
				if res.Note == "" {
					res.Note = o.Construct + ": " + o.Detail
				}
			}
		}
		for _, u := range rep.Undecided {
			if !seen[u.Rule] {
				seen[u.Rule] = true
				res.By = append(res.By, u.Rule)
				if res.Note == "" {
					res.Note = "undecided: " + u.Anchor + ": " + u.Why
				}
			}
		}
		sort.Strings(res.By)
		res.Outcome = "control-silent"
		if len(res.By) > 0 {
			res.Outcome = "control-alarm"
		}
		out = append(out, res)
	}
	return out
}
