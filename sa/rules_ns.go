package main

import (
	"fmt"
	"go/ast"
	"go/token"
	"go/types"
	"strings"
)

func init() {
	register(&Rule{ID: "NS-1", Doc: "a decoder namespace is only disabled where names are tracked another way: every function that calls DisableNamespace() on a decoder contains a newDuplicateNameError whose guards read no option other than AllowDuplicateNames, and unknown/fallback members pass through Namespaces.Last().InsertUnquoted (unless AllowDuplicateNames) before SkipValue / unmarshalEmbeddedFallbackNext", Run: ruleNS1})
	register(&Rule{ID: "NS-2", Doc: "an encoder namespace is only disabled where names are unique by construction: the map cases are guarded by mapKeyWithUniqueRepresentation(kind, AllowInvalidUTF8) && !nonDefaultKey with nonDefaultKey monotone (initialised from the key arshaler's nonDefault and only ever OR-ed with lookup results); the any-map case by !AllowInvalidUTF8; the struct case hands marshalEmbeddedFallbackAll a duplicate checker whenever !AllowDuplicateNames and records every written field; mapKeyWithUniqueRepresentation accepts only bool/integer kinds and strings under !allowInvalidUTF8", Run: ruleNS2})
	register(&Rule{ID: "NS-3", Doc: "after a failed top-level arshaler call, marshalEncode/unmarshalDecode invalidate the disabled namespaces (unless AllowDuplicateNames) on every path before returning the error", Run: ruleNS3})
	register(&Rule{ID: "MAPCACHE-1", Doc: "objectNamespace.mapNames, when non-nil, contains every recorded name: in insert, a success return with a possibly non-nil map has added the current name to it; removeLast deletes the last name from the map before truncating", Run: ruleMAPCACHE1})
}

func isDecoderExpr(info *types.Info, e ast.Expr) bool {
	ok := false
	ast.Inspect(e, func(n ast.Node) bool {
		if x, isE := n.(ast.Expr); isE {
			if t := info.TypeOf(x); t != nil && (isNamed(t, pkgAlias["jsontext"], "decoderState") || isNamed(t, pkgAlias["jsontext"], "Decoder")) {
				ok = true
			}
		}
		return !ok
	})
	return ok
}

// flagsRead lists the single flags read by Get/Has calls inside e.
func flagsRead(info *types.Info, e ast.Node) uint64 {
	var m uint64
	ast.Inspect(e, func(n ast.Node) bool {
		if call, ok := n.(*ast.CallExpr); ok {
			if mm, _, v, ok := FlagCall(info, call); ok && (mm == "Get" || mm == "Has") {
				m |= v &^ 1
			}
		}
		return true
	})
	return m
}

// enclosingConds returns the conditions of the if statements (and case clauses of tagless switches)
// enclosing n inside f, innermost first, with the branch polarity (true: then-branch).
type condCtx struct {
	cond ast.Expr
	then bool
}

func enclosingConds(p *Program, f *FuncInfo, n ast.Node) []condCtx {
	return condsAround(p, f, n, false)
}

// dominatingConds is enclosingConds plus the negations of earlier early-exit guards in the enclosing
// statement lists (`if C { return }` before n means !C holds at n).
func dominatingConds(p *Program, f *FuncInfo, n ast.Node) []condCtx {
	return condsAround(p, f, n, true)
}

func condsAround(p *Program, f *FuncInfo, n ast.Node, early bool) []condCtx {
	var out []condCtx
	cur := n
	for cur != nil && cur != ast.Node(f.Body()) {
		par := p.Parent(f.File, cur)
		switch x := par.(type) {
		case *ast.IfStmt:
			if x.Body == cur {
				out = append(out, condCtx{x.Cond, true})
			} else if x.Else == cur {
				out = append(out, condCtx{x.Cond, false})
			}
		case *ast.CaseClause:
			if len(x.List) == 1 {
				if sw, ok := p.Parent(f.File, p.Parent(f.File, x)).(*ast.SwitchStmt); ok && sw.Tag == nil {
					out = append(out, condCtx{x.List[0], true})
				}
			}
		case *ast.FuncLit:
			return out
		}
		// early exits: an earlier `if C { ...; return/continue/break/panic }` without else in the same
		// statement list means !C holds here (the guard written as an early return instead of nesting)
		var list []ast.Stmt
		switch x := par.(type) {
		case *ast.BlockStmt:
			list = x.List
		case *ast.CaseClause:
			list = x.Body
		}
		if !early {
			list = nil
		}
		for _, st := range list {
			if ast.Node(st) == cur {
				break
			}
			ifs, ok := st.(*ast.IfStmt)
			if !ok || ifs.Else != nil || ifs.Init != nil || len(ifs.Body.List) == 0 {
				continue
			}
			exits := false
			switch last := ifs.Body.List[len(ifs.Body.List)-1].(type) {
			case *ast.ReturnStmt:
				exits = true
			case *ast.BranchStmt:
				exits = last.Tok == token.CONTINUE || last.Tok == token.BREAK || last.Tok == token.GOTO
			case *ast.ExprStmt:
				if call, ok := last.X.(*ast.CallExpr); ok {
					if id, ok := call.Fun.(*ast.Ident); ok && id.Name == "panic" {
						exits = true
					}
				}
			}
			if exits {
				out = append(out, condCtx{ifs.Cond, false})
			}
		}
		cur = par
	}
	return out
}

// conjuncts splits e on top-level &&.
func conjuncts(e ast.Expr) []ast.Expr {
	e = ast.Unparen(e)
	if be, ok := e.(*ast.BinaryExpr); ok && be.Op == token.LAND {
		return append(conjuncts(be.X), conjuncts(be.Y)...)
	}
	return []ast.Expr{e}
}

// hasNegFlagConjunct reports whether cond has a top-level conjunct !X.Get(flag).
func hasNegFlagConjunct(info *types.Info, cond ast.Expr, flag uint64) bool {
	for _, cj := range conjuncts(cond) {
		if u, ok := cj.(*ast.UnaryExpr); ok && u.Op == token.NOT {
			if v, ok := IsFlagGet(info, u.X); ok && v&^1 == flag && flag != 0 {
				return true
			}
		}
	}
	return false
}

func ruleNS1(c *Ctx) {
	p := c.P
	ft := p.Flags()
	allowDup := ft.Single["AllowDuplicateNames"]
	nSites := 0
	for _, f := range p.FuncsIn("json", "v1") {
		if f.Body() == nil {
			continue
		}
		info := f.Info()
		var site *ast.CallExpr
		InspectNoLit(f.Body(), func(n ast.Node) bool {
			if call, ok := n.(*ast.CallExpr); ok {
				if recv, ok := MethodCall(info, call, "jsontext", "stateEntry", "DisableNamespace"); ok && isDecoderExpr(info, recv) {
					site = call
				}
			}
			return true
		})
		if site == nil {
			continue
		}
		nSites++
		// a duplicate-name error must exist, guarded by nothing but AllowDuplicateNames among the options
		var dupErrs []*ast.CallExpr
		InspectNoLit(f.Body(), func(n ast.Node) bool {
			if call, ok := n.(*ast.CallExpr); ok && (FuncCall(info, call, "json", "newDuplicateNameError") || wrapsCall(p, f, call, "json", "newDuplicateNameError")) {
				dupErrs = append(dupErrs, call)
			}
			return true
		})
		okErr := len(dupErrs) > 0
		detail := "no newDuplicateNameError in the function that disables the decoder's namespace"
		for _, de := range dupErrs {
			for _, cc := range enclosingConds(p, f, de) {
				if fr := flagsRead(info, cc.cond); fr&^allowDup != 0 {
					okErr = false
					detail = "duplicate-name error at " + p.Position(de.Pos()) + " is additionally guarded by option(s) " + ft.Names(fr&^allowDup)
				}
			}
		}
		c.Oblige("tracked-elsewhere:"+f.Name, site.Pos(), okErr, detail)

		// unknown members: InsertUnquoted before SkipValue / fallback
		usesInsert := false
		InspectNoLit(f.Body(), func(n ast.Node) bool {
			if call, ok := n.(*ast.CallExpr); ok {
				if _, ok := MethodCall(info, call, "jsontext", "objectNamespace", "InsertUnquoted"); ok {
					usesInsert = true
				}
			}
			return true
		})
		hasFallback := false
		InspectNoLit(f.Body(), func(n ast.Node) bool {
			if call, ok := n.(*ast.CallExpr); ok && FuncCall(info, call, "json", "unmarshalEmbeddedFallbackNext") {
				hasFallback = true
			}
			return true
		})
		if !hasFallback {
			continue
		}
		if !usesInsert {
			c.Violation("unknown-members:"+f.Name, site.Pos(), "members routed to the embedded fallback / skipped are never inserted into the namespace")
			continue
		}
		type st struct {
			dupAllowed tri
			inserted   bool
		}
		bad := ""
		fl := &Flow[st]{Fn: f}
		check := func(n ast.Node, s st) {
			for _, call := range CallsIn(n) {
				isSkip := false
				if _, ok := MethodCall(info, call, "jsontext", "Decoder", "SkipValue"); ok {
					isSkip = true
				}
				if FuncCall(info, call, "json", "unmarshalEmbeddedFallbackNext") {
					isSkip = true
				}
				if isSkip && !s.inserted && s.dupAllowed != triYes && bad == "" {
					bad = fmt.Sprintf("%s at %s reachable without the member name having been inserted into the namespace", exprString(call.Fun), p.Position(call.Pos()))
				}
			}
		}
		fl.Node = func(n ast.Node, s st) []st {
			check(n, s)
			// a new loop iteration starts with the read of the next name
			for _, call := range CallsIn(n) {
				if _, ok := MethodCall(info, call, "jsontext", "decoderState", "ReadValue"); ok {
					s = st{}
				}
			}
			if _, ok := n.(*ast.ReturnStmt); ok {
				return nil
			}
			return []st{s}
		}
		fl.Leaf = func(e ast.Expr, s st) (t, fs []st) {
			if v, ok := IsFlagGet(info, e); ok && v&^1 == allowDup {
				s1, s2 := s, s
				s1.dupAllowed, s2.dupAllowed = triYes, triNo
				return []st{s1}, []st{s2}
			}
			if call, ok := e.(*ast.CallExpr); ok {
				if _, ok := MethodCall(info, call, "jsontext", "objectNamespace", "InsertUnquoted"); ok {
					s.inserted = true
					return []st{s}, []st{s}
				}
			}
			check(e, s)
			return []st{s}, []st{s}
		}
		fl.Run(st{})
		c.Oblige("unknown-members:"+f.Name, f.Pos(), bad == "", bad)
	}
	c.Floor("decoder DisableNamespace sites", nSites, 3)
}

// monotoneBool checks that local v is defined once from `init` and otherwise only as v = v || X.
func monotoneBool(info *types.Info, root ast.Node, v types.Object) (bool, ast.Expr, string) {
	var first ast.Expr
	ok := true
	why := ""
	ast.Inspect(root, func(n ast.Node) bool {
		as, isAs := n.(*ast.AssignStmt)
		if !isAs {
			return true
		}
		for i, l := range as.Lhs {
			if IdentObj(info, l) != v {
				continue
			}
			if as.Tok == token.DEFINE && first == nil && len(as.Lhs) == len(as.Rhs) {
				first = as.Rhs[i]
				continue
			}
			if len(as.Lhs) != len(as.Rhs) {
				ok, why = false, "assigned from a multi-value call (previous value lost)"
				continue
			}
			be, isBin := ast.Unparen(as.Rhs[i]).(*ast.BinaryExpr)
			if !isBin || be.Op != token.LOR || (IdentObj(info, be.X) != v && IdentObj(info, be.Y) != v) {
				ok, why = false, "reassigned with `"+exprString(as.Rhs[i])+"` which does not keep the previous value (expected v = v || x)"
			}
		}
		return true
	})
	return ok && first != nil, first, why
}

func ruleNS2(c *Ctx) {
	p := c.P
	ft := p.Flags()
	allowDup := ft.Single["AllowDuplicateNames"]
	allowUTF := ft.Single["AllowInvalidUTF8"]
	nonDefaultField := p.Field("json", "arshaler", "nonDefault")
	nEnc, nMap := 0, 0
	for _, f := range p.FuncsIn("json", "v1") {
		if f.Body() == nil {
			continue
		}
		info := f.Info()
		var sites []*ast.CallExpr
		InspectNoLit(f.Body(), func(n ast.Node) bool {
			if call, ok := n.(*ast.CallExpr); ok {
				if _, ok := MethodCall(info, call, "jsontext", "stateEntry", "DisableNamespace"); ok {
					sites = append(sites, call)
				}
			}
			return true
		})
		for _, site := range sites {
			recv, _ := MethodCall(info, site, "jsontext", "stateEntry", "DisableNamespace")
			onDecoder := isDecoderExpr(info, recv)
			conds := enclosingConds(p, f, site)
			// map form: guarded by mapKeyWithUniqueRepresentation
			mapGuard := false
			var guardCond ast.Expr
			for _, cc := range conds {
				if !cc.then {
					continue
				}
				for _, cj := range conjuncts(cc.cond) {
					if call, ok := cj.(*ast.CallExpr); ok && FuncCall(info, call, "json", "mapKeyWithUniqueRepresentation") {
						mapGuard = true
						guardCond = cc.cond
						okArg := len(call.Args) == 2
						if okArg {
							v, isGet := IsFlagGet(info, call.Args[1])
							okArg = isGet && v&^1 == allowUTF
						}
						c.Oblige("map-guard-utf8:"+f.Name, site.Pos(), okArg, "mapKeyWithUniqueRepresentation is not given Flags.Get(AllowInvalidUTF8)")
					}
				}
			}
			if mapGuard {
				nMap++
				// !nonDefaultKey conjunct with a monotone local
				var nd types.Object
				for _, cj := range conjuncts(guardCond) {
					if u, ok := cj.(*ast.UnaryExpr); ok && u.Op == token.NOT {
						if v := IdentObj(info, u.X); v != nil {
							if b, ok := v.Type().Underlying().(*types.Basic); ok && b.Kind() == types.Bool {
								nd = v
							}
						}
					}
				}
				if nd == nil {
					c.Violation("map-guard-nondefault:"+f.Name, site.Pos(), "the namespace is disabled without excluding non-default key (un)marshalers")
				} else {
					ok, first, why := monotoneBool(info, f.Body(), nd)
					if ok && (nonDefaultField == nil || SelField(info, first) != nonDefaultField) {
						ok, why = false, "not initialised from the key arshaler's nonDefault"
					}
					c.Oblige("map-guard-nondefault:"+f.Name, site.Pos(), ok, nd.Name()+" "+why)
				}
				continue
			}
			if onDecoder {
				// NS-1 covers the replacement check; for a Go map that check is the lookup in the map, which only
				// works for key kinds with one representation per value (a fresh pointer key never compares equal)
				if len(callsMethodNamed(info, f.Body(), "SetMapIndex")) > 0 {
					c.Violation("map-guard-missing:"+f.Name, site.Pos(), "the decoder's namespace is disabled for a Go map without the mapKeyWithUniqueRepresentation guard: for pointer, float or interface keys two equal names produce distinct Go keys, the map lookup does not see the repeat and nothing rejects the duplicate")
				}
				continue
			}
			nEnc++
			// any-map form: dominated by !AllowInvalidUTF8
			anyGuard := false
			for _, cc := range conds {
				if cc.then && hasNegFlagConjunct(info, cc.cond, allowUTF) {
					anyGuard = true
				}
			}
			if anyGuard {
				c.OK("anymap-guard:"+f.Name, site.Pos(), "string keys, !AllowInvalidUTF8")
				continue
			}
			// struct form: unconditional; needs the fallback checker and the seen set
			var fb *ast.CallExpr
			InspectNoLit(f.Body(), func(n ast.Node) bool {
				if call, ok := n.(*ast.CallExpr); ok && FuncCall(info, call, "json", "marshalEmbeddedFallbackAll") {
					fb = call
				}
				return true
			})
			if fb == nil {
				c.Violation("unjustified:"+f.Name, site.Pos(), "encoder namespace disabled without a recognised uniqueness argument (map guard, !AllowInvalidUTF8, or struct with fallback checker)")
				continue
			}
			okChecker := false
			why := "the duplicate checker passed to marshalEmbeddedFallbackAll is not a closure assigned under exactly !AllowDuplicateNames"
			if len(fb.Args) > 0 {
				if v := IdentObj(info, fb.Args[len(fb.Args)-1]); v != nil {
					var lit *ast.FuncLit
					var litAssign ast.Node
					ast.Inspect(f.Body(), func(n ast.Node) bool {
						if as, ok := n.(*ast.AssignStmt); ok && len(as.Lhs) == 1 && len(as.Rhs) == 1 && IdentObj(info, as.Lhs[0]) == v {
							if l, ok := ast.Unparen(as.Rhs[0]).(*ast.FuncLit); ok {
								lit, litAssign = l, as
							}
						}
						return true
					})
					if lit != nil {
						cs := enclosingConds(p, f, litAssign)
						guardOK := len(cs) >= 1 && cs[0].then
						if guardOK {
							u, isNot := ast.Unparen(cs[0].cond).(*ast.UnaryExpr)
							guardOK = isNot && u.Op == token.NOT
							if guardOK {
								gv, isGet := IsFlagGet(info, u.X)
								guardOK = isGet && gv&^1 == allowDup
							}
						}
						usesSeen, usesNS := false, false
						bodies := []ast.Node{lit.Body}
						// the closure may only forward to a named function that does the work
						if lf := p.LitInfo(lit); lf != nil {
							for _, g := range p.CalleeClosure(lf, 2) {
								if g != lf && g.Body() != nil {
									bodies = append(bodies, g.Body())
								}
							}
						}
						for _, b := range bodies {
							ast.Inspect(b, func(n ast.Node) bool {
								if call, ok := n.(*ast.CallExpr); ok {
									if _, ok := MethodCall(info, call, "json", "uintSet", "insert"); ok {
										usesSeen = true
									}
									if _, ok := MethodCall(info, call, "jsontext", "objectNamespace", "InsertUnquoted"); ok {
										usesNS = true
									}
								}
								return true
							})
						}
						okChecker = guardOK && usesSeen && usesNS
						if guardOK && !(usesSeen && usesNS) {
							why = "the duplicate checker does not consult both the seen-field set and the namespace"
						}
					}
				}
			}
			c.Oblige("struct-fallback-checker:"+f.Name, fb.Pos(), okChecker, why)
			// seenIdxs.insert for written fields under !AllowDuplicateNames
			recorded := false
			InspectNoLit(f.Body(), func(n ast.Node) bool {
				if call, ok := n.(*ast.CallExpr); ok {
					if _, ok := MethodCall(info, call, "json", "uintSet", "insert"); ok {
						for _, cc := range enclosingConds(p, f, call) {
							if cc.then && hasNegFlagConjunct(info, cc.cond, allowDup) {
								recorded = true
							}
						}
					}
				}
				return true
			})
			c.Oblige("struct-records-written-fields:"+f.Name, site.Pos(), recorded, "written struct fields are not recorded in the seen set under !AllowDuplicateNames (needed to detect clashes with the embedded fallback)")
		}
	}
	c.Floor("map-form DisableNamespace sites", nMap, 2)
	c.Floor("other encoder DisableNamespace sites", nEnc, 2)

	// mapKeyWithUniqueRepresentation kind table
	if f := p.Func("json.mapKeyWithUniqueRepresentation"); f == nil {
		c.Undecide("json.mapKeyWithUniqueRepresentation", "function missing")
	} else {
		info := f.Info()
		allowed := map[string]bool{"Bool": true, "Int": true, "Int8": true, "Int16": true, "Int32": true, "Int64": true,
			"Uint": true, "Uint8": true, "Uint16": true, "Uint32": true, "Uint64": true, "Uintptr": true}
		sig := f.Obj.Type().(*types.Signature)
		var bad []string
		okString := false
		for _, sw := range findAll[*ast.SwitchStmt](f.Body()) {
			for _, st := range sw.Body.List {
				cc := st.(*ast.CaseClause)
				body := &ast.BlockStmt{List: cc.Body}
				retTrue, retNotParam := false, false
				for _, r := range Returns(body) {
					if len(r.Results) == 1 {
						if tv, ok := info.Types[r.Results[0]]; ok && tv.Value != nil && tv.Value.String() == "true" {
							retTrue = true
						}
						if u, ok := ast.Unparen(r.Results[0]).(*ast.UnaryExpr); ok && u.Op == token.NOT && sig.Params().Len() == 2 && IdentObj(info, u.X) == sig.Params().At(1) {
							retNotParam = true
						}
					}
				}
				for _, e := range cc.List {
					o := IdentOrSelObj(info, e)
					if o == nil {
						continue
					}
					if retTrue && !allowed[o.Name()] {
						bad = append(bad, o.Name())
					}
					if o.Name() == "String" {
						okString = retNotParam && !retTrue
					}
				}
				if cc.List == nil && retTrue {
					bad = append(bad, "default")
				}
			}
		}
		c.Oblige("unique-kinds", f.Pos(), len(bad) == 0 && okString, "kinds treated as uniquely represented: unexpected "+strings.Join(bad, ",")+fmt.Sprintf("; string case returns !allowInvalidUTF8: %v", okString))
	}
}

func ruleNS3(c *Ctx) {
	p := c.P
	ft := p.Flags()
	allowDup := ft.Single["AllowDuplicateNames"]
	msig, usig := marshalerSig(p), unmarshalerSig(p)
	ns3InvalidateAllLevels(c)
	for _, nm := range []string{"json.marshalEncode", "json.unmarshalDecode"} {
		f := p.Func(nm)
		if f == nil || f.Body() == nil {
			c.Undecide(nm, "function missing")
			continue
		}
		info := f.Info()
		type st struct {
			failed bool // the arshaler call returned a non-nil error on this path
			inval  bool
			dup    tri
		}
		var errVar types.Object
		bad := ""
		nDispatch := 0
		fl := &Flow[st]{Fn: f}
		isDispatch := func(call *ast.CallExpr) bool {
			if Callee(info, call) != nil {
				return false
			}
			t := info.TypeOf(call.Fun)
			if t == nil {
				return false
			}
			s, ok := types.Unalias(t).Underlying().(*types.Signature)
			return ok && ((msig != nil && types.Identical(s, msig)) || (usig != nil && types.Identical(s, usig)))
		}
		fl.Node = func(n ast.Node, s st) []st {
			if as, ok := n.(*ast.AssignStmt); ok && len(as.Rhs) == 1 {
				if call, ok := ast.Unparen(as.Rhs[0]).(*ast.CallExpr); ok && isDispatch(call) {
					nDispatch++
					errVar = IdentObj(info, as.Lhs[0])
					return []st{{failed: false}, {failed: true}}
				}
			}
			for _, call := range CallsIn(n) {
				if _, ok := MethodCall(info, call, "jsontext", "stateMachine", "InvalidateDisabledNamespaces"); ok {
					s.inval = true
				}
			}
			if r, ok := n.(*ast.ReturnStmt); ok {
				if s.failed && !s.inval && s.dup != triYes && bad == "" {
					bad = "error returned at " + p.Position(r.Pos()) + " after a failed arshaler call without InvalidateDisabledNamespaces()"
				}
				return nil
			}
			return []st{s}
		}
		fl.Leaf = func(e ast.Expr, s st) (t, fs []st) {
			if v, nonNil, ok := ErrCmp(info, e); ok && errVar != nil && v == errVar {
				if s.failed == nonNil {
					return []st{s}, nil
				}
				return nil, []st{s}
			}
			if v, ok := IsFlagGet(info, e); ok && v&^1 == allowDup {
				s1, s2 := s, s
				s1.dup, s2.dup = triYes, triNo
				return []st{s1}, []st{s2}
			}
			return []st{s}, []st{s}
		}
		fl.Run(st{})
		if nDispatch == 0 {
			c.Undecide(nm+"/dispatch", "no arshaler dispatch found")
			continue
		}
		c.Oblige("invalidate-on-error:"+nm, f.Pos(), bad == "", bad)
	}
}

func ruleMAPCACHE1(c *Ctx) {
	p := c.P
	mapNames := p.Field("jsontext", "objectNamespace", "mapNames")
	ins := p.Func("jsontext.(*objectNamespace).insert")
	rm := p.Func("jsontext.(*objectNamespace).removeLast")
	if mapNames == nil || ins == nil || rm == nil {
		c.Undecide("jsontext.objectNamespace.mapNames/insert/removeLast", "missing")
		return
	}
	info := ins.Info()
	sig := ins.Obj.Type().(*types.Signature)
	nameParam := sig.Params().At(0)
	type st struct {
		mapNil tri // triYes: known nil, triNo: known non-nil
		added  bool
	}
	bad := ""
	sawSuccess := false
	fl := &Flow[st]{Fn: ins}
	fl.Node = func(n ast.Node, s st) []st {
		if as, ok := n.(*ast.AssignStmt); ok {
			for i, l := range as.Lhs {
				if isFieldSel(info, l, mapNames) && i < len(as.Rhs) {
					if IsNilIdent(info, as.Rhs[i]) {
						s.mapNil = triYes
					} else {
						s.mapNil = triNo
						s.added = false // a freshly built map holds the recorded names only
					}
				}
				// ns.mapNames[string(name)] = ...
				if ix, ok := ast.Unparen(l).(*ast.IndexExpr); ok && isFieldSel(info, ix.X, mapNames) && usesObj(info, ix.Index, nameParam) {
					s.added = true
				}
			}
		}
		if r, ok := n.(*ast.ReturnStmt); ok {
			if len(r.Results) == 1 {
				if tv, ok := info.Types[r.Results[0]]; ok && tv.Value != nil && tv.Value.String() == "true" {
					sawSuccess = true
					if s.mapNil != triYes && !s.added && bad == "" {
						bad = "insert returns true at " + p.Position(r.Pos()) + " on a path where mapNames may be non-nil but the current name was not added to it (later lookups would miss this name)"
					}
				}
			}
			return nil
		}
		return []st{s}
	}
	fl.Leaf = func(e ast.Expr, s st) (t, fs []st) {
		if be, ok := e.(*ast.BinaryExpr); ok && (be.Op == token.EQL || be.Op == token.NEQ) && isFieldSel(info, be.X, mapNames) && IsNilIdent(info, be.Y) {
			s1, s2 := s, s
			s1.mapNil, s2.mapNil = triYes, triNo
			var tt, ff []st
			if s.mapNil != triNo {
				tt = []st{s1}
			}
			if s.mapNil != triYes {
				ff = []st{s2}
			}
			if be.Op == token.EQL {
				return tt, ff
			}
			return ff, tt
		}
		return []st{s}, []st{s}
	}
	fl.Run(st{})
	if !sawSuccess {
		c.Undecide("jsontext.(*objectNamespace).insert/return-true", "no `return true` found")
	} else {
		c.Oblige("insert-keeps-map-complete", ins.Pos(), bad == "", bad)
	}
	// every loop over endOffsets that slices names out with a running start offset advances that offset
	nLoops := 0
	for _, fn := range p.FuncsIn("jsontext") {
		if fn.Body() == nil {
			continue
		}
		finfo := fn.Info()
		k := 0
		InspectNoLit(fn.Body(), func(nd ast.Node) bool {
			rs, ok := nd.(*ast.RangeStmt)
			if !ok || rs.Value == nil {
				return true
			}
			if fld := SelField(finfo, rs.X); fld == nil || fld.Name() != "endOffsets" {
				return true
			}
			endVar := IdentObj(finfo, rs.Value)
			// a slice expression [start:end] in the body
			var startVar types.Object
			ast.Inspect(rs.Body, func(m ast.Node) bool {
				if sl, ok := m.(*ast.SliceExpr); ok && sl.Low != nil && sl.High != nil && IdentObj(finfo, sl.High) == endVar {
					startVar = IdentObj(finfo, sl.Low)
				}
				return true
			})
			if startVar == nil {
				return true
			}
			nLoops++
			k++
			advanced := false
			for _, as := range findAll[*ast.AssignStmt](rs.Body) {
				if len(as.Lhs) == 1 && len(as.Rhs) == 1 && IdentObj(finfo, as.Lhs[0]) == startVar && IdentObj(finfo, as.Rhs[0]) == endVar {
					// must be reached on every iteration that continues: a direct statement of the loop body
					for _, st := range rs.Body.List {
						if st == ast.Stmt(as) {
							advanced = true
						}
					}
				}
			}
			c.Oblige(fmt.Sprintf("offset-advances:%s#%d", fn.Name, k), rs.Pos(), advanced, "a loop slices names as allUnquotedNames[start:end] but never advances `start` to `end`: every name after the first would be a cumulative prefix")
			return true
		})
	}
	c.Floor("loops over endOffsets with a running start offset", nLoops, 2)
	// removeLast: delete(ns.mapNames, ...) under mapNames != nil, before the truncation
	rinfo := rm.Info()
	var delPos, truncPos token.Pos
	InspectNoLit(rm.Body(), func(n ast.Node) bool {
		switch x := n.(type) {
		case *ast.CallExpr:
			if IsBuiltin(rinfo, x, "delete") && len(x.Args) == 2 && isFieldSel(rinfo, x.Args[0], mapNames) && delPos == token.NoPos {
				delPos = x.Pos()
			}
		case *ast.AssignStmt:
			for _, l := range x.Lhs {
				if f := SelField(rinfo, l); f != nil && (f.Name() == "endOffsets" || f.Name() == "allUnquotedNames") && truncPos == token.NoPos {
					truncPos = x.Pos()
				}
			}
		}
		return true
	})
	c.Oblige("removeLast-updates-map", rm.Pos(), delPos != token.NoPos && truncPos != token.NoPos && delPos < truncPos, "removeLast does not delete the last name from mapNames before truncating the name list")
}

// ns3InvalidateAllLevels: InvalidateDisabledNamespaces must reach every level of
// the stack (a failed nested marshal leaves disabled namespaces at outer levels
// too): the invalidation sits in a loop over [0, Depth()) through index(i), or
// in a loop over m.Stack together with a direct treatment of m.Last.
func ns3InvalidateAllLevels(c *Ctx) {
	p := c.P
	f := p.Func("jsontext.(*stateMachine).InvalidateDisabledNamespaces")
	if f == nil || f.Body() == nil {
		c.Undecide("jsontext.(*stateMachine).InvalidateDisabledNamespaces", "function missing")
		return
	}
	info := f.Info()
	stackF := p.Field("jsontext", "stateMachine", "Stack")
	lastF := p.Field("jsontext", "stateMachine", "Last")
	coversStack, coversLast := false, false
	for _, call := range findAll[*ast.CallExpr](f.Body()) {
		if _, ok := MethodCall(info, call, "jsontext", "stateEntry", "invalidateNamespace"); !ok {
			continue
		}
		sel, _ := ast.Unparen(call.Fun).(*ast.SelectorExpr)
		// enclosing loops
		var n ast.Node = call
		inDepthLoop, inStackLoop := false, false
		for n != nil && n != ast.Node(f.Body()) {
			n = p.Parent(f.File, n)
			switch l := n.(type) {
			case *ast.RangeStmt:
				x := ast.Unparen(l.X)
				if cl, ok := x.(*ast.CallExpr); ok {
					if _, ok := MethodCall(info, cl, "jsontext", "stateMachine", "Depth"); ok {
						inDepthLoop = true
					}
				}
				if SelField(info, x) == stackF {
					inStackLoop = true
				}
			case *ast.ForStmt:
				if l.Cond != nil {
					for _, cl := range findAll[*ast.CallExpr](l.Cond) {
						if _, ok := MethodCall(info, cl, "jsontext", "stateMachine", "Depth"); ok {
							inDepthLoop = true
						}
						if IsBuiltin(info, cl, "len") && len(cl.Args) == 1 && SelField(info, cl.Args[0]) == stackF {
							inStackLoop = true
						}
					}
				}
			}
		}
		// what the receiver denotes: a local defined from m.index(i), &m.Stack[i], &m.Last, or those directly
		usesIndex, usesStack, usesLast := false, false, false
		var exprs []ast.Expr
		if sel != nil {
			exprs = append(exprs, sel.X)
			if v, _ := IdentObj(info, sel.X).(*types.Var); v != nil && !v.IsField() {
				exprs = append(exprs, defsOf(info, f.Body(), v)...)
			}
		}
		for _, e := range exprs {
			ast.Inspect(e, func(nd ast.Node) bool {
				switch x := nd.(type) {
				case *ast.CallExpr:
					if _, ok := MethodCall(info, x, "jsontext", "stateMachine", "index"); ok {
						usesIndex = true
					}
				case *ast.SelectorExpr:
					if SelField(info, x) == stackF {
						usesStack = true
					}
					if SelField(info, x) == lastF {
						usesLast = true
					}
				}
				return true
			})
		}
		if inDepthLoop && usesIndex {
			coversStack, coversLast = true, true
		}
		if (inStackLoop || inDepthLoop) && usesStack {
			coversStack = true
		}
		if usesLast {
			coversLast = true
		}
	}
	c.Oblige("invalidate-all-levels", f.Pos(), coversStack && coversLast,
		"InvalidateDisabledNamespaces does not reach every level (all of Stack and Last): a disabled namespace at an outer level would stay usable after a failed nested call")
}

// namespaceInsertFunc returns the function that decides whether a name is new in an objectNamespace:
// objectNamespace.insert, or — if it was renamed or its bool parameter was replaced by two call
// sites — the unexported objectNamespace method that both insertQuoted and InsertUnquoted end up calling.
func namespaceInsertFunc(p *Program) *FuncInfo {
	if f := p.Func("jsontext.(*objectNamespace).insert"); f != nil {
		return f
	}
	q, u := p.Func("jsontext.(*objectNamespace).insertQuoted"), p.Func("jsontext.(*objectNamespace).InsertUnquoted")
	if q == nil || u == nil {
		return nil
	}
	inQ := map[*FuncInfo]bool{}
	for _, g := range p.CalleeClosure(q, 2) {
		inQ[g] = true
	}
	for _, g := range p.CalleeClosure(u, 2) {
		if g != u && g != q && inQ[g] && g.Obj != nil {
			if sig, ok := g.Obj.Type().(*types.Signature); ok && sig.Recv() != nil && isNamed(sig.Recv().Type(), pkgAlias["jsontext"], "objectNamespace") {
				if sig.Results().Len() == 1 {
					if bt, ok := sig.Results().At(0).Type().(*types.Basic); ok && bt.Kind() == types.Bool {
						return g
					}
				}
			}
		}
	}
	return nil
}

// wrapsCall reports whether call invokes a private helper of f (unexported, same package) whose body
// (to depth 2) calls pkg.name: the helper then stands for that call at this site.
func wrapsCall(p *Program, f *FuncInfo, call *ast.CallExpr, pkgShort, name string) bool {
	for _, h := range helpersCalledIn(p, f, call) {
		found := false
		InspectNoLit(h.Body(), func(n ast.Node) bool {
			if c2, ok := n.(*ast.CallExpr); ok && FuncCall(h.Info(), c2, pkgShort, name) {
				found = true
			}
			return true
		})
		if found {
			return true
		}
	}
	return false
}
