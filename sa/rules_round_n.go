package main

import (
	"fmt"
	"go/ast"
	"go/token"
	"go/types"
	"strings"
)

func init() {
	register(&Rule{ID: "APPENDER-1", Doc: "a user append-style method never sees or replaces what the encoder has already written: every use of a method of an interface declared outside the module with the signature func([]byte) ([]byte, error) (encoding.TextAppender.AppendText) is a call — never a method value handed to AppendRaw — whose argument is the zero-length tail `X[len(X):]` of the buffer, and whose result is only used as the source of `append(X, result...)` (or measured with len). A method that returns a fresh, shorter or nil slice then contributes exactly its own bytes; handing it the buffer made Marshal emit `x\"` with a nil error or panic in AppendRaw (finding F12)", Run: ruleAPPENDER1})
}

// isUserAppendMethod reports whether fn is a method of an interface declared outside the module with the
// signature func([]byte) ([]byte, error).
func isUserAppendMethod(fn *types.Func) bool {
	if fn == nil || fn.Pkg() == nil || strings.HasPrefix(fn.Pkg().Path(), modPath) {
		return false
	}
	sig, ok := fn.Type().(*types.Signature)
	if !ok || sig.Recv() == nil || !types.IsInterface(sig.Recv().Type()) {
		return false
	}
	isBytes := func(t types.Type) bool {
		s, ok := t.Underlying().(*types.Slice)
		if !ok {
			return false
		}
		b, ok := s.Elem().Underlying().(*types.Basic)
		return ok && b.Kind() == types.Byte
	}
	if sig.Params().Len() != 1 || sig.Results().Len() != 2 {
		return false
	}
	return isBytes(sig.Params().At(0).Type()) && isBytes(sig.Results().At(0).Type()) && sig.Results().At(1).Type().String() == "error"
}

func ruleAPPENDER1(c *Ctx) {
	p := c.P
	n := 0
	for _, f := range p.FuncsIn("json", "jsontext", "v1") {
		if f.Body() == nil {
			continue
		}
		info := f.Info()
		InspectNoLit(f.Body(), func(nd ast.Node) bool {
			sel, ok := nd.(*ast.SelectorExpr)
			if !ok {
				return true
			}
			fn, _ := info.Uses[sel.Sel].(*types.Func)
			if !isUserAppendMethod(fn) {
				return true
			}
			n++
			key := "user-append-method:" + f.Name + ":" + fn.Name()
			call, isCall := p.Parent(f.File, sel).(*ast.CallExpr)
			if !isCall || ast.Unparen(call.Fun) != ast.Expr(sel) {
				c.Oblige(key, sel.Pos(), false, "`"+exprString(sel)+"` is handed over as a method value: the callee passes it the encoder's buffer including the bytes already written, and trusts that the result extends it — a user method that returns a fresh, shorter or nil slice makes Marshal emit malformed JSON with a nil error or panic with a slice bounds error (C02: arbitrary behaviour of AppendText)")
				return true
			}
			// the argument is X[len(X):]
			okArg := false
			var buf string
			if len(call.Args) == 1 {
				if se, ok := ast.Unparen(call.Args[0]).(*ast.SliceExpr); ok && se.High == nil && se.Max == nil && se.Low != nil {
					if lc, ok := ast.Unparen(se.Low).(*ast.CallExpr); ok && len(lc.Args) == 1 {
						if id, ok := ast.Unparen(lc.Fun).(*ast.Ident); ok && id.Name == "len" && info.Uses[id] == types.Universe.Lookup("len") && exprString(lc.Args[0]) == exprString(se.X) {
							okArg = true
							buf = exprString(se.X)
						}
					}
				}
			}
			if !okArg {
				c.Oblige(key, call.Pos(), false, "the user method is called with `"+exprString(call.Args[0])+"`, not with the zero-length tail `X[len(X):]` of the buffer: it can drop or alter bytes that are already written")
				return true
			}
			// the result is only appended to the buffer
			as, ok := p.Parent(f.File, call).(*ast.AssignStmt)
			if !ok || len(as.Lhs) < 1 {
				c.Oblige(key, call.Pos(), false, "the result of the user method is not bound to a variable of its own")
				return true
			}
			res := IdentObj(info, as.Lhs[0])
			if res == nil {
				c.Oblige(key, call.Pos(), false, "the result of the user method is stored into `"+exprString(as.Lhs[0])+"`")
				return true
			}
			okUse, appended := true, false
			bad := ""
			ast.Inspect(f.Body(), func(m ast.Node) bool {
				id, ok := m.(*ast.Ident)
				if !ok || info.Uses[id] != res {
					return true
				}
				par, _ := p.Parent(f.File, id).(*ast.CallExpr)
				if par != nil {
					if fid, ok := ast.Unparen(par.Fun).(*ast.Ident); ok {
						switch {
						case fid.Name == "len" && len(par.Args) == 1:
							return true
						case fid.Name == "append" && par.Ellipsis.IsValid() && len(par.Args) == 2 && par.Args[1] == ast.Expr(id) && exprString(par.Args[0]) == buf:
							appended = true
							return true
						}
					}
				}
				okUse = false
				bad = p.Position(id.Pos())
				return true
			})
			detail := "the result of the user method is used other than as the source of append(" + buf + ", …) at " + bad
			if okUse && !appended {
				okUse = false
				detail = "the result of the user method is never appended to " + buf
			}
			c.Oblige(key, call.Pos(), okUse, detail)
			return true
		})
	}
	c.Floor("uses of user append-style methods", n, 1)
}

func init() {
	register(&Rule{ID: "IMPL-1", Doc: "whether a type has a marshal or unmarshal method is asked through implements/implementsAny, which also look at the pointer receiver: the table allMethodTypes is only ever the spread argument of implementsAny, and none of the method-interface type variables (jsonMarshalerType … textUnmarshalerType) is the argument of a direct reflect.Type.Implements call outside implements()", Run: ruleIMPL1})
	register(&Rule{ID: "SETNUM-1", Doc: "a numeric destination is never set from raw input bytes: in the unmarshal closures of package json no argument of reflect.Value.SetInt / SetUint / SetFloat indexes or slices a []byte (the digits must go through jsonwire.ParseUint / ParseFloat or strconv, which is where the grammar of a quoted number is enforced)", Run: ruleSETNUM1})
	register(&Rule{ID: "DEPTH-4", Doc: "the depth predicate agrees with the depth guard: every bool-returning method of stateMachine that compares with maxNestingDepth (AtMaxDepth) is false for a stack of maxNestingDepth-1 entries and true for maxNestingDepth entries, with Depth() resolved from its body (len(Stack)+1) — the same threshold at which pushObject/pushArray refuse", Run: ruleDEPTH4})
	register(&Rule{ID: "DELIM-1", Doc: "a missing delimiter is noticed: in decoderState.PeekKind, ReadToken and ReadValue the comparison of stateMachine.needDelim(next) with the delimiter actually seen is not nested inside a test of that delimiter byte (it must also run when no ':' or ',' was present)", Run: ruleDELIM1})
	register(&Rule{ID: "DEFAULTS-1", Doc: "a default is installed per flag: wherever a block guarded by !Flags.Has(M) sets flags, M is a single flag and every flag set in the block is that flag — Has means `any of`, so a merged guard skips the default of one option when only the other was given", Run: ruleDEFAULTS1})
	register(&Rule{ID: "COFIELD-1", Doc: "fields a v1 setter stores together are consulted together: when a method of a v1 type assigns two or more string fields of its receiver from its parameters (Encoder.SetIndent), every if-condition in the package that reads one of them reads all of them", Run: ruleCOFIELD1})
	register(&Rule{ID: "NEGZERO-1", Doc: "negative zero is normalised on the value, not on the spelling: in jsonwire.ReformatNumber every path from strconv.ParseFloat to the formatting of the parsed value passes a test of that value against 0 (a negative number that underflows parses to -0 whatever its digits are)", Run: ruleNEGZERO1})
}

func ruleIMPL1(c *Ctx) {
	p := c.P
	tbl := p.Lookup("json", "allMethodTypes")
	if tbl == nil {
		c.Undecide("json.allMethodTypes", "variable missing")
		return
	}
	methodVars := map[types.Object]bool{}
	for _, nm := range []string{"jsonMarshalerType", "jsonMarshalerToType", "jsonUnmarshalerType", "jsonUnmarshalerFromType", "textAppenderType", "textMarshalerType", "textUnmarshalerType"} {
		if o := p.Lookup("json", nm); o != nil {
			methodVars[o] = true
		}
	}
	nTbl, nVar := 0, 0
	for _, f := range p.FuncsIn("json") {
		if f.Body() == nil {
			continue
		}
		info := f.Info()
		inImplements := f.Obj != nil && f.Obj.Name() == "implements"
		InspectNoLit(f.Body(), func(nd ast.Node) bool {
			switch x := nd.(type) {
			case *ast.Ident:
				if info.Uses[x] != tbl {
					return true
				}
				nTbl++
				ok := false
				if call, isCall := p.Parent(f.File, x).(*ast.CallExpr); isCall && call.Ellipsis.IsValid() && len(call.Args) > 0 && call.Args[len(call.Args)-1] == ast.Expr(x) {
					if fn := Callee(info, call); fn != nil && fn.Name() == "implementsAny" {
						ok = true
					}
				}
				c.Oblige("method-table-only-through-implementsAny:"+f.Name, x.Pos(), ok, "allMethodTypes is used other than as `implementsAny(t, allMethodTypes...)`: a direct Implements test only sees the value-receiver method set, so a type whose methods are on the pointer receiver is taken for one without methods (its methods are then silently bypassed)")
			case *ast.CallExpr:
				fn := Callee(info, x)
				if fn == nil || fn.Name() != "Implements" || fn.Pkg() == nil || fn.Pkg().Path() != "reflect" || len(x.Args) != 1 {
					return true
				}
				if o := IdentObj(info, x.Args[0]); o != nil && methodVars[o] {
					nVar++
					c.Oblige("method-type-only-through-implements:"+f.Name+":"+o.Name(), x.Pos(), inImplements, "`"+exprString(x)+"` asks about one receiver kind only; implements() also considers the pointer receiver")
				}
			}
			return true
		})
	}
	c.Floor("uses of allMethodTypes", nTbl, 3)
	_ = nVar
}

func ruleSETNUM1(c *Ctx) {
	p := c.P
	n := 0
	for _, f := range p.FuncsIn("json") {
		if f.Body() == nil {
			continue
		}
		info := f.Info()
		InspectNoLit(f.Body(), func(nd ast.Node) bool {
			call, ok := nd.(*ast.CallExpr)
			if !ok || len(call.Args) != 1 {
				return true
			}
			fn := Callee(info, call)
			if fn == nil || fn.Pkg() == nil || fn.Pkg().Path() != "reflect" || !(fn.Name() == "SetInt" || fn.Name() == "SetUint" || fn.Name() == "SetFloat") {
				return true
			}
			n++
			raw := ""
			ast.Inspect(call.Args[0], func(m ast.Node) bool {
				var x ast.Expr
				switch e := m.(type) {
				case *ast.IndexExpr:
					x = e.X
				case *ast.SliceExpr:
					x = e.X
				}
				if x != nil && isByteSlice(info.TypeOf(x)) {
					raw = exprString(m.(ast.Expr))
				}
				return true
			})
			c.Oblige("set-from-parsed-number:"+f.Name+"@"+exprString(call.Args[0]), call.Pos(), raw == "", "`"+exprString(call)+"` computes the number from the raw bytes `"+raw+"`: for a quoted number (string option, map key, StringifyNumbers) those bytes have not been checked against the number grammar, so text such as \"-\" or \"x\" is stored as an integer instead of being refused")
			return true
		})
	}
	c.Floor("SetInt/SetUint/SetFloat calls in package json", n, 12)
}

func ruleDEPTH4(c *Ctx) {
	p := c.P
	maxObj := p.Lookup("jsontext", "maxNestingDepth")
	stackField := p.Field("jsontext", "stateMachine", "Stack")
	max, okMax := p.ConstInt("jsontext", "maxNestingDepth")
	if maxObj == nil || stackField == nil || !okMax {
		c.Undecide("jsontext.maxNestingDepth", "missing")
		return
	}
	// linear form of an int expression in L = len(m.Stack)
	var lin func(f *FuncInfo, e ast.Expr, depth int) (a, b int64, ok bool)
	lin = func(f *FuncInfo, e ast.Expr, depth int) (int64, int64, bool) {
		info := f.Info()
		e = ast.Unparen(e)
		if v, isC := ConstI64(info, e); isC {
			return 0, v, true
		}
		if isLenOfField(info, e, stackField) {
			return 1, 0, true
		}
		switch x := e.(type) {
		case *ast.BinaryExpr:
			a1, b1, ok1 := lin(f, x.X, depth)
			a2, b2, ok2 := lin(f, x.Y, depth)
			if ok1 && ok2 {
				switch x.Op {
				case token.ADD:
					return a1 + a2, b1 + b2, true
				case token.SUB:
					return a1 - a2, b1 - b2, true
				}
			}
		case *ast.CallExpr:
			if depth < 3 && len(x.Args) == 0 {
				if fn := Callee(info, x); fn != nil {
					if g := p.FuncOf(fn); g != nil && g.Body() != nil {
						rs := Returns(g.Body())
						if len(rs) == 1 && len(rs[0].Results) == 1 {
							return lin(g, rs[0].Results[0], depth+1)
						}
					}
				}
			}
		}
		return 0, 0, false
	}
	n := 0
	for _, f := range p.FuncsIn("jsontext") {
		if f.Decl == nil || f.Body() == nil || f.Obj == nil {
			continue
		}
		sig := f.Obj.Type().(*types.Signature)
		if sig.Recv() == nil || !isNamed(sig.Recv().Type(), pkgAlias["jsontext"], "stateMachine") || sig.Results().Len() != 1 {
			continue
		}
		if b, ok := sig.Results().At(0).Type().Underlying().(*types.Basic); !ok || b.Kind() != types.Bool {
			continue
		}
		info := f.Info()
		for _, r := range Returns(f.Body()) {
			be, ok := ast.Unparen(r.Results[0]).(*ast.BinaryExpr)
			if !ok || !tokIsCmp(be.Op) || !(usesObj(info, be.X, maxObj) || usesObj(info, be.Y, maxObj)) {
				continue
			}
			n++
			a1, b1, ok1 := lin(f, be.X, 0)
			a2, b2, ok2 := lin(f, be.Y, 0)
			key := "depth-predicate-threshold:" + f.Name
			if !ok1 || !ok2 {
				c.Undecide(key, "comparison `"+exprString(be)+"` is not linear in len(Stack)")
				continue
			}
			at := func(L int64) bool {
				l, rr := a1*L+b1, a2*L+b2
				switch be.Op {
				case token.EQL:
					return l == rr
				case token.NEQ:
					return l != rr
				case token.LSS:
					return l < rr
				case token.LEQ:
					return l <= rr
				case token.GTR:
					return l > rr
				default:
					return l >= rr
				}
			}
			good := !at(max-1) && at(max)
			c.Oblige(key, be.Pos(), good, fmt.Sprintf("`%s` is %v for a stack of %d entries and %v for %d: pushObject/pushArray refuse at exactly %d entries, so a caller that trusts this predicate (the empty-container fast paths of Marshal) writes a container at depth %d or refuses one at depth %d", exprString(be), at(max-1), max-1, at(max), max, max, max+1, max))
		}
	}
	c.Floor("depth predicates on stateMachine", n, 1)
}

func ruleDELIM1(c *Ctx) {
	p := c.P
	n := 0
	seen := map[*FuncInfo]bool{}
	for _, nm := range []string{"jsontext.(*decoderState).PeekKind", "jsontext.(*decoderState).ReadToken", "jsontext.(*decoderState).ReadValue"} {
		f := p.Func(nm)
		if f == nil || f.Body() == nil {
			c.Undecide(nm, "function missing")
			continue
		}
		// the preamble may live in a helper shared by the three entry points
		for _, g := range p.CalleeClosure(f, 3) {
			if g.Body() == nil || g.File != f.File || seen[g] {
				continue
			}
			seen[g] = true
			info := g.Info()
			k := 0
			InspectNoLit(g.Body(), func(nd ast.Node) bool {
				be, ok := nd.(*ast.BinaryExpr)
				if !ok || (be.Op != token.NEQ && be.Op != token.EQL) {
					return true
				}
				isND := func(e ast.Expr) bool {
					call, ok := ast.Unparen(e).(*ast.CallExpr)
					if !ok {
						return false
					}
					_, ok = MethodCall(info, call, "jsontext", "stateMachine", "needDelim")
					return ok
				}
				if !isND(be.X) && !isND(be.Y) {
					return true
				}
				n++
				k++
				bad := ""
				for _, cc := range enclosingConds(p, g, be) {
					if mentionsLit(info, cc.cond, ':', ',') {
						bad = exprString(cc.cond)
					}
				}
				c.Oblige(fmt.Sprintf("delimiter-check-unconditional:%s#%d", g.Name, k), be.Pos(), bad == "", "the test of needDelim against the delimiter seen only runs under `"+bad+"`, i.e. when a ':' or ',' was present: a missing delimiter (`[1 2]`, `{\"a\" 1}`) is no longer refused on this route")
				return true
			})
		}
	}
	c.Floor("needDelim comparisons reachable from PeekKind/ReadToken/ReadValue", n, 2)
}

func ruleDEFAULTS1(c *Ctx) {
	p := c.P
	n := 0
	for _, f := range p.FuncsIn("json", "jsontext", "jsonopts", "v1") {
		if f.Body() == nil {
			continue
		}
		info := f.Info()
		k := 0
		InspectNoLit(f.Body(), func(nd ast.Node) bool {
			ifs, ok := nd.(*ast.IfStmt)
			if !ok {
				return true
			}
			un, ok := ast.Unparen(ifs.Cond).(*ast.UnaryExpr)
			if !ok || un.Op != token.NOT {
				return true
			}
			call, ok := ast.Unparen(un.X).(*ast.CallExpr)
			if !ok {
				return true
			}
			m, recv, mask, ok := FlagCall(info, call)
			if !ok || m != "Has" {
				return true
			}
			var set []string
			for _, c2 := range CallsIn(ifs.Body) {
				if m2, recv2, v2, ok := FlagCall(info, c2); ok && m2 == "Set" && exprString(recv2) == exprString(recv) {
					set = append(set, p.Flags().Names(v2&^1)) // without the value bit
				}
			}
			if len(set) == 0 {
				return true
			}
			n++
			k++
			maskNames := p.Flags().Names(mask)
			good := !strings.Contains(maskNames, "|")
			for _, s := range set {
				if s != maskNames {
					good = false
				}
			}
			c.Oblige(fmt.Sprintf("default-per-flag:%s#%d", f.Name, k), ifs.Pos(), good, "the block guarded by !Has("+maskNames+") sets {"+strings.Join(set, ", ")+"}: Has reports whether ANY flag of the mask is present, so when only one of them was given explicitly the default of the other is skipped")
			return true
		})
	}
	c.Floor("defaults installed under !Has", n, 2)
}

func ruleCOFIELD1(c *Ctx) {
	p := c.P
	nGroups, nConds := 0, 0
	type group struct {
		fields []*types.Var
		setter string
	}
	var groups []group
	for _, f := range p.FuncsIn("v1") {
		if f.Decl == nil || f.Body() == nil || f.Decl.Recv == nil || f.Obj == nil {
			continue
		}
		info := f.Info()
		sig := f.Obj.Type().(*types.Signature)
		var fs []*types.Var
		for _, as := range findAll[*ast.AssignStmt](f.Body()) {
			if len(as.Lhs) != 1 || len(as.Rhs) != 1 {
				continue
			}
			fld := SelField(info, as.Lhs[0])
			pv, _ := IdentObj(info, as.Rhs[0]).(*types.Var)
			if fld == nil || pv == nil {
				continue
			}
			isParam := false
			for i := 0; i < sig.Params().Len(); i++ {
				if sig.Params().At(i) == pv {
					isParam = true
				}
			}
			if b, ok := fld.Type().Underlying().(*types.Basic); isParam && ok && b.Kind() == types.String {
				fs = append(fs, fld)
			}
		}
		if len(fs) >= 2 {
			groups = append(groups, group{fs, f.Name})
			nGroups++
		}
	}
	for _, f := range p.FuncsIn("v1") {
		if f.Body() == nil {
			continue
		}
		info := f.Info()
		k := 0
		for _, ifs := range findAll[*ast.IfStmt](f.Body()) {
			for _, g := range groups {
				read := map[*types.Var]bool{}
				ast.Inspect(ifs.Cond, func(m ast.Node) bool {
					if e, ok := m.(ast.Expr); ok {
						if fld := SelField(info, e); fld != nil {
							for _, gf := range g.fields {
								if gf == fld {
									read[fld] = true
								}
							}
						}
					}
					return true
				})
				if len(read) == 0 {
					continue
				}
				nConds++
				k++
				var missing []string
				for _, gf := range g.fields {
					if !read[gf] {
						missing = append(missing, gf.Name())
					}
				}
				c.Oblige(fmt.Sprintf("co-stored-fields-co-tested:%s#%d", f.Name, k), ifs.Pos(), len(missing) == 0, "`"+exprString(ifs.Cond)+"` looks at only part of what "+g.setter+" stores together (not at "+strings.Join(missing, ", ")+"): a setting that uses only the other field (a prefix without an indent string) is ignored here although encoding/json honours it")
			}
		}
	}
	c.Floor("v1 setters that store several string fields", nGroups, 1)
	c.Floor("conditions over co-stored v1 fields", nConds, 1)
}

func ruleNEGZERO1(c *Ctx) {
	p := c.P
	f := p.Func("jsonwire.ReformatNumber")
	if f == nil || f.Body() == nil {
		c.Undecide("jsonwire.ReformatNumber", "function missing")
		return
	}
	n := 0
	for _, g := range p.CalleeClosure(f, 1) {
		if g.Body() == nil || g.File != f.File {
			continue
		}
		info := g.Info()
		for _, as := range findAll[*ast.AssignStmt](g.Body()) {
			if len(as.Rhs) != 1 || len(as.Lhs) < 1 {
				continue
			}
			call, ok := ast.Unparen(as.Rhs[0]).(*ast.CallExpr)
			if !ok || !FuncCall(info, call, "strconv", "ParseFloat") {
				continue
			}
			fv := IdentObj(info, as.Lhs[0])
			if fv == nil {
				continue
			}
			n++
			// a comparison of fv with the constant 0 (or math.Signbit(fv)) somewhere after the parse
			tested := false
			ast.Inspect(g.Body(), func(m ast.Node) bool {
				switch x := m.(type) {
				case *ast.BinaryExpr:
					if x.Op == token.EQL || x.Op == token.NEQ {
						l, r := x.X, x.Y
						if IdentObj(info, r) == fv {
							l, r = r, l
						}
						if IdentObj(info, l) == fv && x.Pos() > as.Pos() {
							if tv, ok := info.Types[r]; ok && tv.Value != nil && (tv.Value.String() == "0" || tv.Value.String() == "-0") {
								tested = true
							}
						}
					}
				case *ast.CallExpr:
					if FuncCall(info, x, "math", "Signbit") && len(x.Args) == 1 && IdentObj(info, x.Args[0]) == fv {
						tested = true
					}
				}
				return true
			})
			c.Oblige("parsed-zero-normalised:"+g.Name, as.Pos(), tested, "the value parsed by strconv.ParseFloat is never compared with 0 before it is formatted: a negative number too small for float64 (`-1e-400`) parses to -0 and is printed as `-0`, while RFC 8785 / ECMAScript print 0 and the texts `-0`, `-0.0` canonicalize to `0`")
		}
	}
	c.Floor("ParseFloat results in ReformatNumber", n, 1)
}

func init() {
	register(&Rule{ID: "FALLBACK-1", Doc: "the dominant embedded fallback is decided between the two shallowest candidates: in the condition that guards the assignment of structFields.embeddedFallback, the depth-sorted candidate list is indexed with the constants 0 and 1 only (a tie between the first two cancels both, whatever lies deeper)", Run: ruleFALLBACK1})
}

func ruleFALLBACK1(c *Ctx) {
	p := c.P
	fld := p.Field("json", "structFields", "embeddedFallback")
	if fld == nil {
		c.Undecide("json.structFields.embeddedFallback", "field missing")
		return
	}
	n := 0
	for _, f := range p.FuncsIn("json") {
		if f.Body() == nil {
			continue
		}
		info := f.Info()
		InspectNoLit(f.Body(), func(nd ast.Node) bool {
			as, ok := nd.(*ast.AssignStmt)
			if !ok || len(as.Lhs) != 1 || len(as.Rhs) != 1 || SelField(info, as.Lhs[0]) != fld {
				return true
			}
			un, ok := ast.Unparen(as.Rhs[0]).(*ast.UnaryExpr)
			if !ok || un.Op != token.AND {
				return true
			}
			ix, ok := ast.Unparen(un.X).(*ast.IndexExpr)
			if !ok {
				return true
			}
			list := IdentObj(info, ix.X)
			if list == nil {
				return true
			}
			n++
			seen := map[string]bool{}
			bad := ""
			for _, cc := range enclosingConds(p, f, as) {
				ast.Inspect(cc.cond, func(m ast.Node) bool {
					if e, ok := m.(*ast.IndexExpr); ok && IdentObj(info, e.X) == list {
						if v, isC := ConstI64(info, e.Index); isC && (v == 0 || v == 1) {
							seen[fmt.Sprint(v)] = true
						} else {
							bad = exprString(e)
						}
					}
					return true
				})
			}
			good := bad == "" && seen["0"] && seen["1"]
			detail := "the tie test does not compare candidates 0 and 1"
			if bad != "" {
				detail = "the tie test looks at `" + bad + "`: with three or more candidates a tie between the two shallowest is missed whenever a deeper one exists, and the first of the tied fields is used instead of none"
			}
			c.Oblige("fallback-tie-between-first-two:"+f.Name, as.Pos(), good, detail)
			return true
		})
	}
	c.Floor("assignments of the dominant embedded fallback", n, 1)
}

func init() {
	register(&Rule{ID: "NSPAIR-1", Doc: "the namespace stack follows the token stack whatever the options are: in jsontext every objectNamespaceStack.push()/pop() that is not a `push(); defer pop()` pair inside one block (the value-level scanners, where the option cannot change in between) is unconditional with respect to option flags — MarshalEncode/UnmarshalDecode may change AllowDuplicateNames for one call and restore it while objects opened by failing user code are still open (finding F13)", Run: ruleNSPAIR1})
}

func ruleNSPAIR1(c *Ctx) {
	p := c.P
	n := 0
	for _, f := range p.FuncsIn("jsontext") {
		if f.Body() == nil {
			continue
		}
		info := f.Info()
		k := 0
		InspectNoLit(f.Body(), func(nd ast.Node) bool {
			call, ok := nd.(*ast.CallExpr)
			if !ok {
				return true
			}
			op := ""
			for _, nm := range []string{"push", "pop"} {
				if _, ok := MethodCall(info, call, "jsontext", "objectNamespaceStack", nm); ok {
					op = nm
				}
			}
			if op == "" {
				return true
			}
			// exempt: `X.push(); defer X.pop()` in one block
			par := p.Parent(f.File, call)
			if _, isDefer := par.(*ast.DeferStmt); isDefer {
				return true
			}
			if es, ok := par.(*ast.ExprStmt); ok && op == "push" {
				if blk, ok := p.Parent(f.File, es).(*ast.BlockStmt); ok {
					for i, st := range blk.List {
						if st == ast.Stmt(es) && i+1 < len(blk.List) {
							if ds, ok := blk.List[i+1].(*ast.DeferStmt); ok {
								if _, ok := MethodCall(info, ds.Call, "jsontext", "objectNamespaceStack", "pop"); ok {
									return true
								}
							}
						}
					}
				}
			}
			n++
			k++
			var fl uint64
			for _, cc := range enclosingConds(p, f, call) {
				fl |= flagsRead(info, cc.cond)
			}
			c.Oblige(fmt.Sprintf("namespace-%s-unconditional:%s#%d", op, f.Name, k), call.Pos(), fl == 0, "Namespaces."+op+"() only runs under {"+p.Flags().Names(fl)+"}: a call-scoped option (MarshalEncode/UnmarshalDecode with AllowDuplicateNames) can differ between the opening and the closing of an object that failing user code left open, after which the namespace stack and the token stack disagree — closing the object panics (`slice bounds out of range [:-1]`) or pops the namespace of the enclosing object")
			return true
		})
	}
	c.Floor("token-level namespace push/pop sites", n, 4)
}

func init() {
	register(&Rule{ID: "POS-4", Doc: "a failure while skipping whitespace is attributed to the position before the next token on every route: in jsontext every wrapSyntacticError call inside the error branch of `pos, err = d.consumeWhitespace(pos)` passes where = 0 (PeekKind, ReadToken, ReadValue and checkEOF must report the same pointer for input truncated after a delimiter, however the calls are interleaved)", Run: rulePOS4})
}

func rulePOS4(c *Ctx) {
	p := c.P
	n := 0
	for _, f := range p.FuncsIn("jsontext") {
		if f.Body() == nil {
			continue
		}
		info := f.Info()
		k := 0
		InspectNoLit(f.Body(), func(nd ast.Node) bool {
			ifs, ok := nd.(*ast.IfStmt)
			if !ok || ifs.Init == nil {
				return true
			}
			as, ok := ifs.Init.(*ast.AssignStmt)
			if !ok || len(as.Rhs) != 1 {
				return true
			}
			call, ok := ast.Unparen(as.Rhs[0]).(*ast.CallExpr)
			if !ok {
				return true
			}
			if _, ok := MethodCall(info, call, "jsontext", "decoderState", "consumeWhitespace"); !ok {
				return true
			}
			for _, w := range CallsIn(ifs.Body) {
				if !FuncCall(info, w, "jsontext", "wrapSyntacticError") || len(w.Args) != 4 {
					continue
				}
				n++
				k++
				v, isC := ConstI64(info, w.Args[3])
				c.Oblige(fmt.Sprintf("whitespace-error-where-zero:%s#%d", f.Name, k), w.Pos(), isC && v == 0, "`"+exprString(w)+"`: an error met while skipping whitespace is reported with where="+exprString(w.Args[3])+" here and with where=0 on the sibling routes (PeekKind, ReadValue, checkEOF): for input that ends right after a ',' inside an array a bare ReadToken then reports another JSON pointer than PeekKind+ReadToken, so the error depends on how the calls are interleaved")
			}
			return true
		})
	}
	c.Floor("wrapSyntacticError calls in whitespace-error branches", n, 2) // 6 today; a restructuring that shares one preamble keeps 2
}

func init() {
	register(&Rule{ID: "OPT-9", Doc: "caller options are forwarded on every branch: in jsontext a function with a variadic Options parameter that re-initialises a coder (a call of encoderState.reset / decoderState.reset, whose last parameter is variadic Options) passes its own options on (`opts...`) at every such call — sibling branches of the pooled constructors (bytes.Buffer versus any other reader or writer) must not differ in the options they apply", Run: ruleOPT9})
}

func ruleOPT9(c *Ctx) {
	p := c.P
	n := 0
	for _, f := range p.FuncsIn("jsontext") {
		if f.Decl == nil || f.Body() == nil || f.Obj == nil {
			continue
		}
		sig := f.Obj.Type().(*types.Signature)
		if !sig.Variadic() {
			continue
		}
		last := sig.Params().At(sig.Params().Len() - 1)
		sl, ok := last.Type().(*types.Slice)
		if !ok || !isNamed(sl.Elem(), pkgAlias["jsonopts"], "Options") && !strings.HasSuffix(sl.Elem().String(), ".Options") {
			continue
		}
		info := f.Info()
		k := 0
		InspectNoLit(f.Body(), func(nd ast.Node) bool {
			call, ok := nd.(*ast.CallExpr)
			if !ok {
				return true
			}
			fn := Callee(info, call)
			if fn == nil || fn.Name() != "reset" {
				return true
			}
			cs := fn.Type().(*types.Signature)
			if !cs.Variadic() {
				return true
			}
			n++
			k++
			fwd := call.Ellipsis.IsValid() && len(call.Args) > 0 && IdentObj(info, call.Args[len(call.Args)-1]) == types.Object(last)
			c.Oblige(fmt.Sprintf("options-forwarded:%s#%d", f.Name, k), call.Pos(), fwd, "`"+exprString(call)+"` re-initialises the coder without the caller's options `"+last.Name()+"...`: on this branch every option of the call is silently ignored (the sibling branch applies them), so the same text and options decode or encode differently depending on the dynamic type of the reader or writer")
			return true
		})
	}
	c.Floor("coder reset calls in functions with variadic options", n, 6)
}

func init() {
	register(&Rule{ID: "CYCLE-2", Doc: "unmarshal does not follow an interface back to itself: in makeInterfaceArshaler's unmarshal closure, re-using the value already held by the interface (`v.Set(va.Elem())`, followed by a recursive unmarshal that consumes no input) is decided by a condition that compares the held pointer with the address of the interface value (reflect.Value.UnsafePointer/Pointer on both sides, inline or in a helper) — for `var v any; v = &v` the descent otherwise never ends and the process dies with a stack overflow (finding F14; encoding/json guards the same case in indirect)", Run: ruleCYCLE2})
}

func ruleCYCLE2(c *Ctx) {
	p := c.P
	f := p.Func("json.makeInterfaceArshaler:unmarshal")
	if f == nil || f.Body() == nil {
		c.Undecide("json.makeInterfaceArshaler:unmarshal", "closure missing")
		return
	}
	n := 0
	for _, g := range p.CalleeClosure(f, 1) {
		if g.Body() == nil || (g != f && g.File != f.File) {
			continue
		}
		info := g.Info()
		InspectNoLit(g.Body(), func(nd ast.Node) bool {
			call, ok := nd.(*ast.CallExpr)
			if !ok || len(call.Args) != 1 {
				return true
			}
			fn := Callee(info, call)
			if fn == nil || fn.Name() != "Set" || fn.Pkg() == nil || fn.Pkg().Path() != "reflect" {
				return true
			}
			// the argument is X.Elem() of an interface-kinded addressableValue parameter
			arg, ok := ast.Unparen(call.Args[0]).(*ast.CallExpr)
			if !ok {
				return true
			}
			if afn := Callee(info, arg); afn == nil || afn.Name() != "Elem" {
				return true
			}
			sel, ok := ast.Unparen(arg.Fun).(*ast.SelectorExpr)
			if !ok {
				return true
			}
			pv, _ := IdentObj(info, sel.X).(*types.Var)
			if pv == nil || !isNamed(pv.Type(), pkgAlias["json"], "addressableValue") {
				return true
			}
			n++
			guarded := false
			for _, cc := range enclosingConds(p, g, call) {
				for _, d := range disjuncts(cc.cond) {
					if isSelfPointerTest(p, g, d) {
						guarded = true
					}
				}
			}
			c.Oblige("held-value-reuse-excludes-self-pointer:"+g.Name, call.Pos(), guarded, "the value held by the interface is re-used as the destination without testing whether it is a pointer back to this interface value: for `var v any; v = &v` Unmarshal(data, &v) alternates between the interface and the pointer arshaler without consuming input until the stack overflows (fatal, not recoverable)")
			return true
		})
	}
	c.Floor("re-use of the held interface value in unmarshal", n, 1)
}

// comparesReflectPointers reports whether root contains a comparison of two reflect.Value.UnsafePointer/Pointer results.
func comparesReflectPointers(g *FuncInfo, root ast.Node) bool {
	info := g.Info()
	found := false
	ast.Inspect(root, func(m ast.Node) bool {
		be, ok := m.(*ast.BinaryExpr)
		if !ok || (be.Op != token.EQL && be.Op != token.NEQ) {
			return true
		}
		isPtr := func(e ast.Expr) bool {
			call, ok := ast.Unparen(e).(*ast.CallExpr)
			if !ok {
				return false
			}
			fn := Callee(info, call)
			return fn != nil && fn.Pkg() != nil && fn.Pkg().Path() == "reflect" && (fn.Name() == "UnsafePointer" || fn.Name() == "Pointer")
		}
		if isPtr(be.X) && isPtr(be.Y) {
			found = true
		}
		return true
	})
	return found
}

// isSelfPointerTest reports whether e tests that a value points back to itself: a pointer comparison inline, or a
// call of a module function whose body makes one (CYCLE-2).
func isSelfPointerTest(p *Program, f *FuncInfo, e ast.Expr) bool {
	if comparesReflectPointers(f, e) {
		return true
	}
	if call, ok := ast.Unparen(e).(*ast.CallExpr); ok {
		if h := p.FuncOf(Callee(f.Info(), call)); h != nil && h.Body() != nil && comparesReflectPointers(h, h.Body()) {
			return true
		}
	}
	return false
}

func init() {
	register(&Rule{ID: "CYCLE-3", Doc: "unmarshal does not follow a pointer chain without bound: in makePointerArshaler's unmarshal closure the descent into the element of an already non-nil pointer (which consumes no input) is protected like the marshal side, by a call of visitPointer (a test for a pointer to itself alone would stop 1-cycles only). Without it a pointer-cyclic destination (`type P *P; p = &p`) recurses until the stack overflows (finding F15, open)", Run: ruleCYCLE3})
}

func ruleCYCLE3(c *Ctx) {
	p := c.P
	f := p.Func("json.makePointerArshaler:unmarshal")
	if f == nil || f.Body() == nil {
		c.Undecide("json.makePointerArshaler:unmarshal", "closure missing")
		return
	}
	n := 0
	for _, g := range p.CalleeClosure(f, 1) {
		if g.Body() == nil || (g != f && g.File != f.File) {
			continue
		}
		info := g.Info()
		// the descent: a use of X.Elem() on an addressableValue parameter of pointer kind (va.Elem())
		var site ast.Node
		InspectNoLit(g.Body(), func(nd ast.Node) bool {
			call, ok := nd.(*ast.CallExpr)
			if !ok || len(call.Args) != 0 {
				return true
			}
			if fn := Callee(info, call); fn == nil || fn.Name() != "Elem" || fn.Pkg() == nil || fn.Pkg().Path() != "reflect" {
				return true
			}
			sel, ok := ast.Unparen(call.Fun).(*ast.SelectorExpr)
			if !ok {
				return true
			}
			pv, _ := IdentObj(info, sel.X).(*types.Var)
			if pv == nil || !isNamed(pv.Type(), pkgAlias["json"], "addressableValue") {
				return true
			}
			if _, inLit := p.Parent(g.File, call).(*ast.CompositeLit); inLit {
				site = call
			}
			return true
		})
		if site == nil {
			continue
		}
		n++
		guarded := false
		InspectNoLit(g.Body(), func(nd ast.Node) bool {
			switch x := nd.(type) {
			case *ast.CallExpr:
				if fn := Callee(info, x); fn != nil && fn.Name() == "visitPointer" {
					guarded = true
				}
			}
			return true
		})
		c.Oblige("pointer-descent-has-cycle-guard", site.Pos(), guarded, "the pointer arshaler dereferences an already non-nil pointer and unmarshals into its element without consuming input and without any cycle test (the marshal side calls visitPointer): for `type P *P; var p P; p = &p`, json.Unmarshal([]byte(\"1\"), &p) recurses until `fatal error: stack overflow`")
	}
	c.Floor("pointer descents in makePointerArshaler unmarshal", n, 1)
}
