package main

import (
	"go/ast"
	"go/types"
	"strings"
)

func init() {
	register(&Rule{ID: "APPENDER-1", Doc: "a user append-style method never sees or replaces what the encoder has already written: every use of a method of an interface declared outside the module with the signature func([]byte) ([]byte, error) (encoding.TextAppender.AppendText) is a call — never a method value handed to AppendRaw — whose argument is the zero-length tail `X[len(X):]` of the buffer, and whose result is only used as the source of `append(X, result...)` (or measured with len). A method that returns a fresh, shorter or nil slice then contributes exactly its own bytes; handing it the buffer made Marshal emit `x\"` with a nil error or panic in AppendRaw (finding F12)", Run: ruleAPPENDER1})
}

// isUserAppendMethod reports whether fn is a method of an interface declared outside the module with the
// signature func([]byte) ([]byte, error).
func isUserAppendMethod(fn *types.Func) bool {
	if fn == nil || fn.Pkg() == nil || strings.HasPrefix(fn.Pkg().Path(), modPath) {
		return false
	}
	sig, ok := fn.Type().(*types.Signature)
	if !ok || sig.Recv() == nil || !types.IsInterface(sig.Recv().Type()) {
		return false
	}
	isBytes := func(t types.Type) bool {
		s, ok := t.Underlying().(*types.Slice)
		if !ok {
			return false
		}
		b, ok := s.Elem().Underlying().(*types.Basic)
		return ok && b.Kind() == types.Byte
	}
	if sig.Params().Len() != 1 || sig.Results().Len() != 2 {
		return false
	}
	return isBytes(sig.Params().At(0).Type()) && isBytes(sig.Results().At(0).Type()) && sig.Results().At(1).Type().String() == "error"
}

func ruleAPPENDER1(c *Ctx) {
	p := c.P
	n := 0
	for _, f := range p.FuncsIn("json", "jsontext", "v1") {
		if f.Body() == nil {
			continue
		}
		info := f.Info()
		InspectNoLit(f.Body(), func(nd ast.Node) bool {
			sel, ok := nd.(*ast.SelectorExpr)
			if !ok {
				return true
			}
			fn, _ := info.Uses[sel.Sel].(*types.Func)
			if !isUserAppendMethod(fn) {
				return true
			}
			n++
			key := "user-append-method:" + f.Name + ":" + fn.Name()
			call, isCall := p.Parent(f.File, sel).(*ast.CallExpr)
			if !isCall || ast.Unparen(call.Fun) != ast.Expr(sel) {
				c.Oblige(key, sel.Pos(), false, "`"+exprString(sel)+"` is handed over as a method value: the callee passes it the encoder's buffer including the bytes already written, and trusts that the result extends it — a user method that returns a fresh, shorter or nil slice makes Marshal emit malformed JSON with a nil error or panic with a slice bounds error (C02: arbitrary behaviour of AppendText)")
				return true
			}
			// the argument is X[len(X):]
			okArg := false
			var buf string
			if len(call.Args) == 1 {
				if se, ok := ast.Unparen(call.Args[0]).(*ast.SliceExpr); ok && se.High == nil && se.Max == nil && se.Low != nil {
					if lc, ok := ast.Unparen(se.Low).(*ast.CallExpr); ok && len(lc.Args) == 1 {
						if id, ok := ast.Unparen(lc.Fun).(*ast.Ident); ok && id.Name == "len" && info.Uses[id] == types.Universe.Lookup("len") && exprString(lc.Args[0]) == exprString(se.X) {
							okArg = true
							buf = exprString(se.X)
						}
					}
				}
			}
			if !okArg {
				c.Oblige(key, call.Pos(), false, "the user method is called with `"+exprString(call.Args[0])+"`, not with the zero-length tail `X[len(X):]` of the buffer: it can drop or alter bytes that are already written")
				return true
			}
			// the result is only appended to the buffer
			as, ok := p.Parent(f.File, call).(*ast.AssignStmt)
			if !ok || len(as.Lhs) < 1 {
				c.Oblige(key, call.Pos(), false, "the result of the user method is not bound to a variable of its own")
				return true
			}
			res := IdentObj(info, as.Lhs[0])
			if res == nil {
				c.Oblige(key, call.Pos(), false, "the result of the user method is stored into `"+exprString(as.Lhs[0])+"`")
				return true
			}
			okUse, appended := true, false
			bad := ""
			ast.Inspect(f.Body(), func(m ast.Node) bool {
				id, ok := m.(*ast.Ident)
				if !ok || info.Uses[id] != res {
					return true
				}
				par, _ := p.Parent(f.File, id).(*ast.CallExpr)
				if par != nil {
					if fid, ok := ast.Unparen(par.Fun).(*ast.Ident); ok {
						switch {
						case fid.Name == "len" && len(par.Args) == 1:
							return true
						case fid.Name == "append" && par.Ellipsis.IsValid() && len(par.Args) == 2 && par.Args[1] == ast.Expr(id) && exprString(par.Args[0]) == buf:
							appended = true
							return true
						}
					}
				}
				okUse = false
				bad = p.Position(id.Pos())
				return true
			})
			detail := "the result of the user method is used other than as the source of append(" + buf + ", …) at " + bad
			if okUse && !appended {
				okUse = false
				detail = "the result of the user method is never appended to " + buf
			}
			c.Oblige(key, call.Pos(), okUse, detail)
			return true
		})
	}
	c.Floor("uses of user append-style methods", n, 1)
}
