package main

import (
	"go/ast"
	"go/token"
	"go/types"

	"golang.org/x/tools/go/cfg"
)

// Flow is a forward dataflow problem over the go/cfg graph of one function.
// The state S must be a small comparable tuple; the engine keeps a *set* of
// states per program point, so the analysis is path-sensitive on whatever S
// encodes and path-insensitive on everything else.
type Flow[S comparable] struct {
	Fn *FuncInfo
	// Node is the transfer function for a non-condition node. It returns
	// the successor states (nil/empty = path ends here, e.g. after return).
	Node func(n ast.Node, s S) []S
	// Leaf evaluates a leaf boolean condition (no !, &&, || at the top).
	// It returns the states on the true and on the false outcome.
	// A nil Leaf means "effects via Node, both outcomes possible".
	Leaf func(e ast.Expr, s S) (t, f []S)
	// Case evaluates `tag == val` of a tagged switch. nil = both outcomes.
	Case func(tag, val ast.Expr, s S) (t, f []S)
	// TypeCase evaluates one clause test of a type switch. nil = both.
	TypeCase func(ts *ast.TypeSwitchStmt, cc *ast.CaseClause, s S) (t, f []S)
	// MaxStates bounds the state set per block (safety net); 0 = 4096.
	MaxStates int
	Overflow  bool
	// Inline, when set, names the callee whose body stands for a call that
	// forms a whole statement (`x.helper(..)`, `return x.helper(..)`,
	// `a, err := x.helper(..)`): the engine then walks the callee's graph with
	// the same callbacks instead of (tail call, expression statement) or
	// before (assignment) handing the statement to Node. In a tail call the
	// callee's return statements are the caller's; otherwise they are given to
	// CalleeReturn (if set) and the path continues after the call. Nesting is
	// bounded by MaxInline (0 = 3); recursion is cut.
	Inline       func(call *ast.CallExpr) *FuncInfo
	CalleeReturn func(callee *FuncInfo, ret *ast.ReturnStmt, s S) S
	// Bind is told the parameter/argument pairing on entry to an inlined callee.
	Bind      func(callee *FuncInfo, call *ast.CallExpr, s S) S
	MaxInline int
	// Inlined records the callees that were walked (for reports).
	Inlined map[*FuncInfo]bool
	stack   []*FuncInfo
}

// condInfo describes how a two-successor block branches.
type condInfo struct {
	cond ast.Expr // last node is a condition (if/for/switch case)
	tag  ast.Expr // tagged switch: the tag expression
	ts   *ast.TypeSwitchStmt
	cc   *ast.CaseClause
	none bool // range / select: both outcomes, no condition
}

func (fl *Flow[S]) condOf(fn *FuncInfo, b *cfg.Block) condInfo {
	if len(b.Succs) != 2 {
		return condInfo{none: true}
	}
	s0 := b.Succs[0]
	switch s0.Kind {
	case cfg.KindIfThen, cfg.KindForBody:
		if len(b.Nodes) > 0 {
			if e, ok := b.Nodes[len(b.Nodes)-1].(ast.Expr); ok {
				return condInfo{cond: e}
			}
		}
	case cfg.KindSwitchCaseBody:
		cc, _ := s0.Stmt.(*ast.CaseClause)
		if cc == nil {
			break
		}
		// find the enclosing switch
		par := fn.prog.Parent(fn.File, cc)
		if par != nil {
			par = fn.prog.Parent(fn.File, par) // BlockStmt -> Switch
		}
		switch sw := par.(type) {
		case *ast.SwitchStmt:
			if len(b.Nodes) > 0 {
				if e, ok := b.Nodes[len(b.Nodes)-1].(ast.Expr); ok {
					return condInfo{cond: e, tag: sw.Tag, cc: cc}
				}
			}
		case *ast.TypeSwitchStmt:
			return condInfo{ts: sw, cc: cc}
		}
	}
	return condInfo{none: true}
}

// EvalCond evaluates a boolean expression with short-circuit semantics.
func (fl *Flow[S]) EvalCond(e ast.Expr, s S) (t, f []S) {
	switch x := ast.Unparen(e).(type) {
	case *ast.UnaryExpr:
		if x.Op == token.NOT {
			t, f = fl.EvalCond(x.X, s)
			return f, t
		}
	case *ast.BinaryExpr:
		switch x.Op {
		case token.LAND:
			t1, f1 := fl.EvalCond(x.X, s)
			for _, s1 := range t1 {
				t2, f2 := fl.EvalCond(x.Y, s1)
				t = append(t, t2...)
				f = append(f, f2...)
			}
			f = append(f, f1...)
			return t, f
		case token.LOR:
			t1, f1 := fl.EvalCond(x.X, s)
			for _, s1 := range f1 {
				t2, f2 := fl.EvalCond(x.Y, s1)
				t = append(t, t2...)
				f = append(f, f2...)
			}
			t = append(t, t1...)
			return t, f
		}
	}
	if fl.Leaf != nil {
		return fl.Leaf(ast.Unparen(e), s)
	}
	out := fl.Node(e, s)
	return out, out
}

// Run computes the fixpoint. The transfer callbacks are invoked repeatedly;
// since state sets only grow, anything they observe is part of the fixpoint.
func (fl *Flow[S]) Run(entry S) {
	fl.stack = []*FuncInfo{fl.Fn}
	fl.runGraph(fl.Fn, []S{entry}, true)
}

// inlineTarget classifies a statement as a whole-statement call of an
// inlinable callee. mode: 1 expression statement, 2 tail call, 3 assignment.
func (fl *Flow[S]) inlineTarget(n ast.Node) (callee *FuncInfo, call *ast.CallExpr, mode int) {
	if fl.Inline == nil {
		return nil, nil, 0
	}
	switch x := n.(type) {
	case *ast.ExprStmt:
		call, _ = ast.Unparen(x.X).(*ast.CallExpr)
		mode = 1
	case *ast.ReturnStmt:
		if len(x.Results) == 1 {
			call, _ = ast.Unparen(x.Results[0]).(*ast.CallExpr)
		}
		mode = 2
	case *ast.AssignStmt:
		if len(x.Rhs) == 1 {
			call, _ = ast.Unparen(x.Rhs[0]).(*ast.CallExpr)
		}
		mode = 3
	}
	if call == nil {
		return nil, nil, 0
	}
	callee = fl.Inline(call)
	if callee == nil || callee.Body() == nil || callee.CFG() == nil {
		return nil, nil, 0
	}
	max := fl.MaxInline
	if max == 0 {
		max = 3
	}
	if len(fl.stack) > max {
		return nil, nil, 0
	}
	for _, f := range fl.stack {
		if f == callee {
			return nil, nil, 0
		}
	}
	return callee, call, mode
}

// runGraph walks fn's graph from the entry states. With top (or tail) set,
// return statements go to Node and end the path; otherwise the states at the
// function's exits are returned.
func (fl *Flow[S]) runGraph(fn *FuncInfo, entry []S, top bool) (exits []S) {
	g := fn.CFG()
	if g == nil {
		return entry
	}
	max := fl.MaxStates
	if max == 0 {
		max = 4096
	}
	exitSeen := map[S]bool{}
	addExit := func(s S) {
		if !exitSeen[s] {
			exitSeen[s] = true
			exits = append(exits, s)
		}
	}
	in := make([]map[S]bool, len(g.Blocks))
	for i := range in {
		in[i] = map[S]bool{}
	}
	for _, e := range entry {
		in[0][e] = true
	}
	work := []int32{0}
	queued := map[int32]bool{0: true}
	done := make([]map[S]bool, len(g.Blocks)) // states already propagated
	for i := range done {
		done[i] = map[S]bool{}
	}
	for len(work) > 0 {
		bi := work[0]
		work = work[1:]
		queued[bi] = false
		b := g.Blocks[bi]
		var pending []S
		for s := range in[bi] {
			if !done[bi][s] {
				done[bi][s] = true
				pending = append(pending, s)
			}
		}
		if len(pending) == 0 {
			continue
		}
		ci := fl.condOf(fn, b)
		nodes := b.Nodes
		if ci.cond != nil {
			nodes = nodes[:len(nodes)-1]
		}
		cur := pending
		for _, n := range nodes {
			var next []S
			seen := map[S]bool{}
			add := func(o S) {
				if !seen[o] {
					seen[o] = true
					next = append(next, o)
				}
			}
			if callee, call, mode := fl.inlineTarget(n); callee != nil {
				if fl.Inlined == nil {
					fl.Inlined = map[*FuncInfo]bool{}
				}
				fl.Inlined[callee] = true
				ent := cur
				if fl.Bind != nil {
					ent = nil
					for _, s := range cur {
						ent = append(ent, fl.Bind(callee, call, s))
					}
				}
				fl.stack = append(fl.stack, callee)
				outs := fl.runGraph(callee, ent, mode == 2 && top)
				fl.stack = fl.stack[:len(fl.stack)-1]
				switch mode {
				case 1:
					for _, o := range outs {
						add(o)
					}
				case 2:
					if top {
						// the callee's returns were the caller's returns
					} else {
						for _, o := range outs {
							addExit(o)
						}
					}
				case 3:
					for _, s := range outs {
						for _, o := range fl.Node(n, s) {
							add(o)
						}
					}
				}
				cur = next
				if len(cur) == 0 {
					break
				}
				continue
			}
			if ret, isRet := n.(*ast.ReturnStmt); isRet && !top {
				for _, s := range cur {
					if fl.CalleeReturn != nil {
						s = fl.CalleeReturn(fn, ret, s)
					}
					addExit(s)
				}
				cur = nil
				break
			}
			for _, s := range cur {
				for _, o := range fl.Node(n, s) {
					add(o)
				}
			}
			cur = next
			if len(cur) == 0 {
				break
			}
		}
		if len(cur) == 0 {
			continue
		}
		push := func(succ *cfg.Block, states []S) {
			changed := false
			for _, s := range states {
				if !in[succ.Index][s] {
					if len(in[succ.Index]) >= max {
						fl.Overflow = true
						continue
					}
					in[succ.Index][s] = true
					changed = true
				}
			}
			if changed && !queued[succ.Index] {
				queued[succ.Index] = true
				work = append(work, succ.Index)
			}
		}
		switch len(b.Succs) {
		case 0:
			// falling off the end of the function (no return statement)
			if !top {
				for _, s := range cur {
					addExit(s)
				}
			}
		case 1:
			push(b.Succs[0], cur)
		case 2:
			var ts, fs []S
			switch {
			case ci.cond != nil && ci.cc != nil && ci.tag != nil:
				for _, s := range cur {
					var t, f []S
					if fl.Case != nil {
						t, f = fl.Case(ci.tag, ci.cond, s)
					} else {
						t, f = []S{s}, []S{s}
					}
					ts = append(ts, t...)
					fs = append(fs, f...)
				}
			case ci.cond != nil:
				for _, s := range cur {
					t, f := fl.EvalCond(ci.cond, s)
					ts = append(ts, t...)
					fs = append(fs, f...)
				}
			case ci.ts != nil && fl.TypeCase != nil:
				for _, s := range cur {
					t, f := fl.TypeCase(ci.ts, ci.cc, s)
					ts = append(ts, t...)
					fs = append(fs, f...)
				}
			default:
				ts, fs = cur, cur
			}
			push(b.Succs[0], ts)
			push(b.Succs[1], fs)
		}
	}
	return exits
}

// ---- generic AST helpers -------------------------------------------------

// CallsIn lists the calls inside n in evaluation order (arguments before
// the call itself), not descending into function literals.
func CallsIn(n ast.Node) []*ast.CallExpr {
	var out []*ast.CallExpr
	var visit func(n ast.Node)
	visit = func(n ast.Node) {
		if n == nil {
			return
		}
		switch x := n.(type) {
		case *ast.FuncLit:
			return
		case *ast.CallExpr:
			visit(x.Fun)
			for _, a := range x.Args {
				visit(a)
			}
			out = append(out, x)
			return
		}
		// generic children in source order
		ast.Inspect(n, func(c ast.Node) bool {
			if c == n || c == nil {
				return true
			}
			visit(c)
			return false
		})
	}
	visit(n)
	return out
}

// IsNilIdent reports whether e is the predeclared nil.
func IsNilIdent(info *types.Info, e ast.Expr) bool {
	id, ok := ast.Unparen(e).(*ast.Ident)
	if !ok {
		return false
	}
	_, isNil := info.Uses[id].(*types.Nil)
	return isNil
}

// IdentObj returns the object an identifier expression refers to.
func IdentObj(info *types.Info, e ast.Expr) types.Object {
	id, ok := ast.Unparen(e).(*ast.Ident)
	if !ok {
		return nil
	}
	if o := info.Uses[id]; o != nil {
		return o
	}
	return info.Defs[id]
}

// ErrCmp recognises `v != nil` / `v == nil` / `nil != v` on an error-typed
// variable and returns the variable and whether the test is "non-nil".
func ErrCmp(info *types.Info, e ast.Expr) (v types.Object, nonNil bool, ok bool) {
	be, isBin := ast.Unparen(e).(*ast.BinaryExpr)
	if !isBin || (be.Op != token.NEQ && be.Op != token.EQL) {
		return nil, false, false
	}
	x, y := be.X, be.Y
	if IsNilIdent(info, x) {
		x, y = y, x
	}
	if !IsNilIdent(info, y) {
		return nil, false, false
	}
	o := IdentObj(info, x)
	if o == nil {
		return nil, false, false
	}
	if !isErrorType(o.Type()) {
		return nil, false, false
	}
	return o, be.Op == token.NEQ, true
}

var errorType = types.Universe.Lookup("error").Type()

func isErrorType(t types.Type) bool { return t != nil && types.Identical(t, errorType) }

// exprString is a compact rendering used in messages.
func exprString(e ast.Expr) string { return types.ExprString(e) }

// InlineHelpers is the default Inline policy for a subject function: an
// unexported method declared in the same file on the same receiver type as the
// subject (a private phase or helper of it), except the named ones. Such a
// call is what "extract method" produces; walking its body keeps a
// path rule's verdict independent of how the subject is split up.
func (p *Program) InlineHelpers(subject *FuncInfo, exclude ...string) func(call *ast.CallExpr) *FuncInfo {
	recvName := func(fn *types.Func) string {
		sig, _ := fn.Type().(*types.Signature)
		if sig == nil || sig.Recv() == nil {
			return ""
		}
		t := sig.Recv().Type()
		if pt, ok := t.(*types.Pointer); ok {
			t = pt.Elem()
		}
		if nt, ok := t.(*types.Named); ok {
			return nt.Obj().Name()
		}
		return ""
	}
	root := subject
	if d := p.enclosingDecl(subject); d != nil {
		root = d
	}
	var want string
	if root.Obj != nil {
		want = recvName(root.Obj)
	}
	ex := map[string]bool{}
	for _, e := range exclude {
		ex[e] = true
	}
	// the subject's receiver variable: a promoted method of an embedded part (e.flushToX on *encodeBuffer)
	// called on it is as much a phase of the subject as a method of the same type
	var recvVar types.Object
	if root.Decl != nil && root.Decl.Recv != nil && len(root.Decl.Recv.List) == 1 && len(root.Decl.Recv.List[0].Names) == 1 {
		recvVar = subject.Info().Defs[root.Decl.Recv.List[0].Names[0]]
	}
	return func(call *ast.CallExpr) *FuncInfo {
		cf := Callee(subject.Info(), call)
		if cf == nil || want == "" || ast.IsExported(cf.Name()) || ex[cf.Name()] {
			return nil
		}
		if recvName(cf) != want {
			onRecv := false
			if sel, ok := ast.Unparen(call.Fun).(*ast.SelectorExpr); ok && recvVar != nil && IdentObj(subject.Info(), sel.X) == recvVar && recvName(cf) != "" {
				onRecv = true
			}
			if !onRecv {
				return nil
			}
		}
		g := p.FuncOf(cf)
		if g == nil || g.Decl == nil || g.Body() == nil || g.File != root.File {
			return nil
		}
		return g
	}
}

// HelperClosure lists the subject followed by the helpers InlineHelpers would
// walk, transitively (depth 3) — for rules that look for a statement form
// anywhere in the subject's own code.
func (p *Program) HelperClosure(subject *FuncInfo, exclude ...string) []*FuncInfo {
	inl := p.InlineHelpers(subject, exclude...)
	out := []*FuncInfo{subject}
	seen := map[*FuncInfo]bool{subject: true}
	for depth, frontier := 0, []*FuncInfo{subject}; depth < 3 && len(frontier) > 0; depth++ {
		var next []*FuncInfo
		for _, f := range frontier {
			InspectNoLit(f.Body(), func(n ast.Node) bool {
				if call, ok := n.(*ast.CallExpr); ok {
					if g := inl(call); g != nil && !seen[g] {
						seen[g] = true
						out = append(out, g)
						next = append(next, g)
					}
				}
				return true
			})
		}
		frontier = next
	}
	return out
}

// CalleeClosure lists f followed by the unexported functions and methods of
// the same package that it calls statically, transitively up to depth — the
// code a maintainer may have split a function into. For rules that look for a
// statement form anywhere in a function's own logic.
func (p *Program) CalleeClosure(f *FuncInfo, depth int) []*FuncInfo {
	out := []*FuncInfo{f}
	seen := map[*FuncInfo]bool{f: true}
	frontier := []*FuncInfo{f}
	for d := 0; d < depth && len(frontier) > 0; d++ {
		var next []*FuncInfo
		for _, g := range frontier {
			InspectNoLit(g.Body(), func(n ast.Node) bool {
				call, ok := n.(*ast.CallExpr)
				if !ok {
					return true
				}
				cf := Callee(g.Info(), call)
				if cf == nil {
					// a call of a local variable that holds one function literal (a closure helper of the factory)
					if v, _ := IdentObj(g.Info(), call.Fun).(*types.Var); v != nil && !v.IsField() {
						root := g
						if d := p.enclosingDecl(g); d != nil {
							root = d
						}
						defs := defsOf(g.Info(), root.Body(), v)
						if len(defs) == 1 {
							if lit, ok := ast.Unparen(defs[0]).(*ast.FuncLit); ok {
								if h := p.lits[lit]; h != nil && !seen[h] {
									seen[h] = true
									out = append(out, h)
									next = append(next, h)
								}
							}
						}
					}
					return true
				}
				if ast.IsExported(cf.Name()) || cf.Pkg() == nil || f.Pkg == nil || cf.Pkg() != f.Pkg.Types {
					return true
				}
				if h := p.FuncOf(cf); h != nil && h.Body() != nil && !seen[h] {
					seen[h] = true
					out = append(out, h)
					next = append(next, h)
				}
				return true
			})
		}
		frontier = next
	}
	return out
}

// InspectScope applies fn to every node of f and of the private helpers it
// calls (CalleeClosure, depth 2), not descending into nested literals.
func (p *Program) InspectScope(f *FuncInfo, fn func(g *FuncInfo, n ast.Node) bool) {
	for _, g := range p.CalleeClosure(f, 2) {
		g := g
		InspectNoLit(g.Body(), func(n ast.Node) bool { return fn(g, n) })
	}
}

// InlineAny is the broad Inline policy: any unexported function or method of
// the subject's package that has a body (also a local closure variable with a
// single literal definition).
func (p *Program) InlineAny(subject *FuncInfo, exclude ...string) func(call *ast.CallExpr) *FuncInfo {
	ex := map[string]bool{}
	for _, e := range exclude {
		ex[e] = true
	}
	root := subject
	if d := p.enclosingDecl(subject); d != nil {
		root = d
	}
	return func(call *ast.CallExpr) *FuncInfo {
		info := subject.Info()
		cf := Callee(info, call)
		if cf == nil {
			if v, _ := IdentObj(info, call.Fun).(*types.Var); v != nil && !v.IsField() {
				defs := defsOf(info, root.Body(), v)
				if len(defs) == 1 {
					if lit, ok := ast.Unparen(defs[0]).(*ast.FuncLit); ok {
						return p.lits[lit]
					}
				}
			}
			return nil
		}
		if ast.IsExported(cf.Name()) || ex[cf.Name()] || cf.Pkg() == nil || subject.Pkg == nil || cf.Pkg() != subject.Pkg.Types {
			return nil
		}
		g := p.FuncOf(cf)
		if g == nil || g.Decl == nil || g.Body() == nil {
			return nil
		}
		return g
	}
}
