package main

import (
	"go/ast"
	"go/token"
	"go/types"

	"golang.org/x/tools/go/cfg"
)

// Flow is a forward dataflow problem over the go/cfg graph of one function.
// The state S must be a small comparable tuple; the engine keeps a *set* of
// states per program point, so the analysis is path-sensitive on whatever S
// encodes and path-insensitive on everything else.
type Flow[S comparable] struct {
	Fn *FuncInfo
	// Node is the transfer function for a non-condition node. It returns
	// the successor states (nil/empty = path ends here, e.g. after return).
	Node func(n ast.Node, s S) []S
	// Leaf evaluates a leaf boolean condition (no !, &&, || at the top).
	// It returns the states on the true and on the false outcome.
	// A nil Leaf means "effects via Node, both outcomes possible".
	Leaf func(e ast.Expr, s S) (t, f []S)
	// Case evaluates `tag == val` of a tagged switch. nil = both outcomes.
	Case func(tag, val ast.Expr, s S) (t, f []S)
	// TypeCase evaluates one clause test of a type switch. nil = both.
	TypeCase func(ts *ast.TypeSwitchStmt, cc *ast.CaseClause, s S) (t, f []S)
	// MaxStates bounds the state set per block (safety net); 0 = 4096.
	MaxStates int
	Overflow  bool
}

// condInfo describes how a two-successor block branches.
type condInfo struct {
	cond ast.Expr // last node is a condition (if/for/switch case)
	tag  ast.Expr // tagged switch: the tag expression
	ts   *ast.TypeSwitchStmt
	cc   *ast.CaseClause
	none bool // range / select: both outcomes, no condition
}

func (fl *Flow[S]) condOf(b *cfg.Block) condInfo {
	if len(b.Succs) != 2 {
		return condInfo{none: true}
	}
	s0 := b.Succs[0]
	switch s0.Kind {
	case cfg.KindIfThen, cfg.KindForBody:
		if len(b.Nodes) > 0 {
			if e, ok := b.Nodes[len(b.Nodes)-1].(ast.Expr); ok {
				return condInfo{cond: e}
			}
		}
	case cfg.KindSwitchCaseBody:
		cc, _ := s0.Stmt.(*ast.CaseClause)
		if cc == nil {
			break
		}
		// find the enclosing switch
		par := fl.Fn.prog.Parent(fl.Fn.File, cc)
		if par != nil {
			par = fl.Fn.prog.Parent(fl.Fn.File, par) // BlockStmt -> Switch
		}
		switch sw := par.(type) {
		case *ast.SwitchStmt:
			if len(b.Nodes) > 0 {
				if e, ok := b.Nodes[len(b.Nodes)-1].(ast.Expr); ok {
					return condInfo{cond: e, tag: sw.Tag, cc: cc}
				}
			}
		case *ast.TypeSwitchStmt:
			return condInfo{ts: sw, cc: cc}
		}
	}
	return condInfo{none: true}
}

// EvalCond evaluates a boolean expression with short-circuit semantics.
func (fl *Flow[S]) EvalCond(e ast.Expr, s S) (t, f []S) {
	switch x := ast.Unparen(e).(type) {
	case *ast.UnaryExpr:
		if x.Op == token.NOT {
			t, f = fl.EvalCond(x.X, s)
			return f, t
		}
	case *ast.BinaryExpr:
		switch x.Op {
		case token.LAND:
			t1, f1 := fl.EvalCond(x.X, s)
			for _, s1 := range t1 {
				t2, f2 := fl.EvalCond(x.Y, s1)
				t = append(t, t2...)
				f = append(f, f2...)
			}
			f = append(f, f1...)
			return t, f
		case token.LOR:
			t1, f1 := fl.EvalCond(x.X, s)
			for _, s1 := range f1 {
				t2, f2 := fl.EvalCond(x.Y, s1)
				t = append(t, t2...)
				f = append(f, f2...)
			}
			t = append(t, t1...)
			return t, f
		}
	}
	if fl.Leaf != nil {
		return fl.Leaf(ast.Unparen(e), s)
	}
	out := fl.Node(e, s)
	return out, out
}

// Run computes the fixpoint. The transfer callbacks are invoked repeatedly;
// since state sets only grow, anything they observe is part of the fixpoint.
func (fl *Flow[S]) Run(entry S) {
	g := fl.Fn.CFG()
	if g == nil {
		return
	}
	max := fl.MaxStates
	if max == 0 {
		max = 4096
	}
	in := make([]map[S]bool, len(g.Blocks))
	for i := range in {
		in[i] = map[S]bool{}
	}
	in[0][entry] = true
	work := []int32{0}
	queued := map[int32]bool{0: true}
	done := make([]map[S]bool, len(g.Blocks)) // states already propagated
	for i := range done {
		done[i] = map[S]bool{}
	}
	for len(work) > 0 {
		bi := work[0]
		work = work[1:]
		queued[bi] = false
		b := g.Blocks[bi]
		var pending []S
		for s := range in[bi] {
			if !done[bi][s] {
				done[bi][s] = true
				pending = append(pending, s)
			}
		}
		if len(pending) == 0 {
			continue
		}
		ci := fl.condOf(b)
		nodes := b.Nodes
		if ci.cond != nil {
			nodes = nodes[:len(nodes)-1]
		}
		cur := pending
		for _, n := range nodes {
			var next []S
			seen := map[S]bool{}
			for _, s := range cur {
				for _, o := range fl.Node(n, s) {
					if !seen[o] {
						seen[o] = true
						next = append(next, o)
					}
				}
			}
			cur = next
			if len(cur) == 0 {
				break
			}
		}
		if len(cur) == 0 {
			continue
		}
		push := func(succ *cfg.Block, states []S) {
			changed := false
			for _, s := range states {
				if !in[succ.Index][s] {
					if len(in[succ.Index]) >= max {
						fl.Overflow = true
						continue
					}
					in[succ.Index][s] = true
					changed = true
				}
			}
			if changed && !queued[succ.Index] {
				queued[succ.Index] = true
				work = append(work, succ.Index)
			}
		}
		switch len(b.Succs) {
		case 0:
		case 1:
			push(b.Succs[0], cur)
		case 2:
			var ts, fs []S
			switch {
			case ci.cond != nil && ci.cc != nil && ci.tag != nil:
				for _, s := range cur {
					var t, f []S
					if fl.Case != nil {
						t, f = fl.Case(ci.tag, ci.cond, s)
					} else {
						t, f = []S{s}, []S{s}
					}
					ts = append(ts, t...)
					fs = append(fs, f...)
				}
			case ci.cond != nil:
				for _, s := range cur {
					t, f := fl.EvalCond(ci.cond, s)
					ts = append(ts, t...)
					fs = append(fs, f...)
				}
			case ci.ts != nil && fl.TypeCase != nil:
				for _, s := range cur {
					t, f := fl.TypeCase(ci.ts, ci.cc, s)
					ts = append(ts, t...)
					fs = append(fs, f...)
				}
			default:
				ts, fs = cur, cur
			}
			push(b.Succs[0], ts)
			push(b.Succs[1], fs)
		}
	}
}

// ---- generic AST helpers -------------------------------------------------

// CallsIn lists the calls inside n in evaluation order (arguments before
// the call itself), not descending into function literals.
func CallsIn(n ast.Node) []*ast.CallExpr {
	var out []*ast.CallExpr
	var visit func(n ast.Node)
	visit = func(n ast.Node) {
		if n == nil {
			return
		}
		switch x := n.(type) {
		case *ast.FuncLit:
			return
		case *ast.CallExpr:
			visit(x.Fun)
			for _, a := range x.Args {
				visit(a)
			}
			out = append(out, x)
			return
		}
		// generic children in source order
		ast.Inspect(n, func(c ast.Node) bool {
			if c == n || c == nil {
				return true
			}
			visit(c)
			return false
		})
	}
	visit(n)
	return out
}

// IsNilIdent reports whether e is the predeclared nil.
func IsNilIdent(info *types.Info, e ast.Expr) bool {
	id, ok := ast.Unparen(e).(*ast.Ident)
	if !ok {
		return false
	}
	_, isNil := info.Uses[id].(*types.Nil)
	return isNil
}

// IdentObj returns the object an identifier expression refers to.
func IdentObj(info *types.Info, e ast.Expr) types.Object {
	id, ok := ast.Unparen(e).(*ast.Ident)
	if !ok {
		return nil
	}
	if o := info.Uses[id]; o != nil {
		return o
	}
	return info.Defs[id]
}

// ErrCmp recognises `v != nil` / `v == nil` / `nil != v` on an error-typed
// variable and returns the variable and whether the test is "non-nil".
func ErrCmp(info *types.Info, e ast.Expr) (v types.Object, nonNil bool, ok bool) {
	be, isBin := ast.Unparen(e).(*ast.BinaryExpr)
	if !isBin || (be.Op != token.NEQ && be.Op != token.EQL) {
		return nil, false, false
	}
	x, y := be.X, be.Y
	if IsNilIdent(info, x) {
		x, y = y, x
	}
	if !IsNilIdent(info, y) {
		return nil, false, false
	}
	o := IdentObj(info, x)
	if o == nil {
		return nil, false, false
	}
	if !isErrorType(o.Type()) {
		return nil, false, false
	}
	return o, be.Op == token.NEQ, true
}

var errorType = types.Universe.Lookup("error").Type()

func isErrorType(t types.Type) bool { return t != nil && types.Identical(t, errorType) }

// exprString is a compact rendering used in messages.
func exprString(e ast.Expr) string { return types.ExprString(e) }
