package main

import (
	"fmt"
	"go/ast"
	"go/token"
	"go/types"
)

// Round o: V1-9 (the v1 Decoder clears its peek state on every path after a value has been consumed) and
// BITSET-1 (a bit set splits an index into word and bit with one width, the width of its word type).

func init() {
	register(&Rule{ID: "V1-9", Doc: "v1.Decoder.Decode: once ReadValue has consumed a value, the peek bookkeeping of More/Token/InputOffset (receiver fields stored by Decode after the read) is cleared on every path to a return — no return statement other than the error branch of the read itself lies between the read and those stores; a semantic Unmarshal error must leave the stream state exactly as a success does (encoding/json's InputOffset reports the end of the consumed value either way)", Run: ruleV19})
	register(&Rule{ID: "BITSET-1", Doc: "a bit set over []W (W an unsigned integer word type) splits an index with one width: in the methods of a struct type of package json that holds a slice of such words, every `/ % >> &` with a constant right operand applied to an unsigned index implies the same width, the bit size of W (i/64 with i%64, i>>6 with i&63); a narrower mask aliases two members onto one bit and a struct field is reported as a duplicate name although it occurs once", Run: ruleBITSET1})
}

func ruleV19(c *Ctx) {
	p := c.P
	f := p.Func("v1.(*Decoder).Decode")
	if f == nil || f.Body() == nil || f.Decl == nil || f.Decl.Recv == nil || len(f.Decl.Recv.List) == 0 || len(f.Decl.Recv.List[0].Names) == 0 {
		c.Undecide("v1.(*Decoder).Decode", "function missing")
		return
	}
	info := f.Info()
	recv := info.Defs[f.Decl.Recv.List[0].Names[0]]
	list := f.Body().List
	// the statement that consumes the value
	readIdx := -1
	var errObj types.Object
	for i, st := range list {
		as, ok := st.(*ast.AssignStmt)
		if !ok {
			continue
		}
		for _, call := range CallsIn(as) {
			if _, ok := MethodCall(info, call, "jsontext", "Decoder", "ReadValue"); ok {
				readIdx = i
				if len(as.Lhs) == 2 {
					errObj = IdentObj(info, as.Lhs[1])
				}
			}
		}
	}
	if readIdx < 0 {
		c.Undecide("v1.(*Decoder).Decode", "no top-level `b, err := dec.dec.ReadValue()` statement")
		return
	}
	// receiver boolean fields stored with a constant after the read: the peek bookkeeping
	storesRecvBool := func(st ast.Stmt) []string {
		var out []string
		collect := func(root ast.Node, rcv types.Object) {
			for _, as := range findAll[*ast.AssignStmt](root) {
				for i, l := range as.Lhs {
					sel, ok := ast.Unparen(l).(*ast.SelectorExpr)
					if !ok || IdentObj(info, sel.X) != rcv || i >= len(as.Rhs) {
						continue
					}
					if b, ok := info.TypeOf(sel).Underlying().(*types.Basic); ok && b.Kind() == types.Bool {
						if tv, ok := info.Types[as.Rhs[i]]; ok && tv.Value != nil {
							out = append(out, sel.Sel.Name)
						}
					}
				}
			}
		}
		switch s := st.(type) {
		case *ast.AssignStmt:
			collect(s, recv)
		case *ast.ExprStmt:
			// one level of helper: a method of the receiver that stores the fields
			if call, ok := s.X.(*ast.CallExpr); ok {
				if fn := Callee(info, call); fn != nil {
					if sel, ok := call.Fun.(*ast.SelectorExpr); ok && IdentObj(info, sel.X) == recv {
						if g := p.FuncOf(fn); g != nil && g.Body() != nil && g.Decl != nil && g.Decl.Recv != nil && len(g.Decl.Recv.List[0].Names) > 0 {
							grecv := g.Info().Defs[g.Decl.Recv.List[0].Names[0]]
							for _, as := range findAll[*ast.AssignStmt](g.Body()) {
								for _, l := range as.Lhs {
									if sel, ok := ast.Unparen(l).(*ast.SelectorExpr); ok && IdentObj(g.Info(), sel.X) == grecv {
										if b, ok := g.Info().TypeOf(sel).Underlying().(*types.Basic); ok && b.Kind() == types.Bool {
											out = append(out, sel.Sel.Name)
										}
									}
								}
							}
						}
					}
				}
			}
		}
		return out
	}
	// a deferred store placed before the read covers every exit
	deferred := map[string]bool{}
	for _, st := range list[:readIdx] {
		if d, ok := st.(*ast.DeferStmt); ok {
			if fl, ok := d.Call.Fun.(*ast.FuncLit); ok {
				for _, s := range fl.Body.List {
					for _, n := range storesRecvBool(s) {
						deferred[n] = true
					}
				}
			}
		}
	}
	isReadErrBranch := func(st ast.Stmt) bool {
		ifs, ok := st.(*ast.IfStmt)
		if !ok || ifs.Init != nil || errObj == nil {
			return false
		}
		be, ok := ast.Unparen(ifs.Cond).(*ast.BinaryExpr)
		return ok && be.Op == token.NEQ && IdentObj(info, be.X) == errObj && isNilIdent(info, be.Y)
	}
	n := 0
	var firstReturn ast.Stmt
	sawReadErr := false
	for _, st := range list[readIdx+1:] {
		if !sawReadErr && isReadErrBranch(st) {
			sawReadErr = true // `err` still denotes the read's error here
			continue
		}
		names := storesRecvBool(st)
		for _, name := range names {
			n++
			ok := firstReturn == nil || deferred[name]
			where := ""
			if firstReturn != nil {
				where = p.Position(firstReturn.Pos())
			}
			c.Oblige("peek-state-cleared-on-every-exit:"+name, st.Pos(), ok, "`dec."+name+"` is cleared only after a statement that can return ("+where+"): when the value has been read but Decode returns early (a semantic Unmarshal error), the stale flag makes the next InputOffset/More/Token answer as if the previous peek were still pending — InputOffset then skips the whitespace before the next token where encoding/json reports the end of the value just consumed")
		}
		if len(names) == 0 && firstReturn == nil && len(findAll[*ast.ReturnStmt](st)) > 0 {
			firstReturn = st
		}
	}
	for name := range deferred {
		n++
		c.Oblige("peek-state-cleared-on-every-exit:"+name, f.Pos(), true, "")
	}
	c.Floor("peek-state stores after the read in v1.Decoder.Decode", n, 1) // hadPeeked, hadEOF today
}

func isNilIdent(info *types.Info, e ast.Expr) bool {
	id, ok := ast.Unparen(e).(*ast.Ident)
	if !ok {
		return false
	}
	_, isNil := info.Uses[id].(*types.Nil)
	return isNil
}

func ruleBITSET1(c *Ctx) {
	p := c.P
	n := 0
	for _, f := range p.FuncsIn("json") {
		if f.Decl == nil || f.Decl.Recv == nil || f.Body() == nil || f.Obj == nil {
			continue
		}
		sig := f.Obj.Type().(*types.Signature)
		if sig.Recv() == nil {
			continue
		}
		rt := sig.Recv().Type()
		if pt, ok := rt.(*types.Pointer); ok {
			rt = pt.Elem()
		}
		st, ok := rt.Underlying().(*types.Struct)
		if !ok {
			continue
		}
		width := int64(0)
		for i := 0; i < st.NumFields(); i++ {
			if sl, ok := st.Field(i).Type().Underlying().(*types.Slice); ok {
				if _, named := sl.Elem().(*types.Named); !named {
					continue
				}
				if b, ok := sl.Elem().Underlying().(*types.Basic); ok && b.Info()&types.IsUnsigned != 0 {
					switch b.Kind() {
					case types.Uint8:
						width = 8
					case types.Uint16:
						width = 16
					case types.Uint32:
						width = 32
					case types.Uint64:
						width = 64
					}
				}
			}
		}
		if width == 0 {
			continue
		}
		info := f.Info()
		k := 0
		InspectNoLit(f.Body(), func(nd ast.Node) bool {
			be, ok := nd.(*ast.BinaryExpr)
			if !ok {
				return true
			}
			v, isC := ConstI64(info, be.Y)
			if !isC {
				return true
			}
			if _, lc := ConstI64(info, be.X); lc {
				return true
			}
			lb, ok := info.TypeOf(be.X).Underlying().(*types.Basic)
			if !ok || lb.Info()&types.IsUnsigned == 0 {
				return true
			}
			implied := int64(-1)
			switch be.Op {
			case token.QUO, token.REM:
				implied = v
			case token.SHR:
				if v >= 0 && v < 63 {
					implied = 1 << uint(v)
				}
			case token.AND:
				implied = v + 1
			default:
				return true
			}
			n++
			k++
			c.Oblige(fmt.Sprintf("index-split-width:%s#%d", f.Name, k), be.Pos(), implied == width, fmt.Sprintf("`%s` splits the index with width %d, but the set's words have %d bits (and the sibling expression uses them all): two indexes that differ by %d share one bit, so the set reports a member that was never inserted — struct unmarshal then rejects an object whose names are all distinct as having a duplicate name once the struct has more than %d fields", exprString(be), implied, width, implied, 64+implied))
			return true
		})
	}
	c.Floor("index-splitting expressions in bit-set methods", n, 2) // 4 today (has, insert); a shared helper keeps 2
}
