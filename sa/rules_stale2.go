package main

import (
	"fmt"
	"go/ast"
	"go/token"
	"go/types"
	"sort"
	"strings"
)

func init() {
	register(&Rule{ID: "STALE-2", Doc: "clients do not use a transient decoder view after the decoder moved on: in packages json and v1, a byte slice obtained from ReadValue / PreviousTokenOrValue (or UnquoteMayCopy of one, or received as a parameter from a caller that passes one) is not read after a later call that advances the same decoder (ReadToken, ReadValue, SkipValue, PeekKind, an unmarshal dispatch, or a helper that does one of these); len() is not a use", Run: ruleSTALE2})
}

type stale2Prog struct {
	p          *Program
	advances   map[*types.Func]bool
	paramTaint map[*types.Var]bool
	changed    bool
}

func isDecoderType(t types.Type) bool {
	return isNamed(t, pkgAlias["jsontext"], "Decoder") || isNamed(t, pkgAlias["jsontext"], "decoderState")
}

func (sp *stale2Prog) advancing(info *types.Info, call *ast.CallExpr) bool {
	cf := Callee(info, call)
	if cf == nil {
		// dynamic: unmarshaler dispatch or user callback receiving the decoder
		for _, a := range call.Args {
			if t := info.TypeOf(a); t != nil && isDecoderType(t) {
				return true
			}
		}
		return false
	}
	if cf.Pkg() != nil && cf.Pkg().Path() == pkgAlias["jsontext"] {
		sig := cf.Type().(*types.Signature)
		if sig.Recv() != nil && isDecoderType(sig.Recv().Type()) {
			switch cf.Name() {
			case "ReadToken", "ReadValue", "SkipValue", "PeekKind", "SkipValueRemainder", "SkipUntil", "CheckNextValue", "CountNextDelimWhitespace", "AtEOF", "CheckEOF":
				return true
			}
		}
		return false
	}
	return sp.advances[cf]
}

func ruleSTALE2(c *Ctx) {
	p := c.P
	sp := &stale2Prog{p: p, advances: map[*types.Func]bool{}, paramTaint: map[*types.Var]bool{}}
	funcs := p.FuncsIn("json", "v1")
	// which named functions advance a decoder they are given
	for changed := true; changed; {
		changed = false
		for _, f := range funcs {
			if f.Decl == nil || f.Obj == nil || f.Body() == nil || sp.advances[f.Obj] {
				continue
			}
			sig := f.Obj.Type().(*types.Signature)
			hasDec := false
			for i := 0; i < sig.Params().Len(); i++ {
				if isDecoderType(sig.Params().At(i).Type()) {
					hasDec = true
				}
			}
			if !hasDec {
				continue
			}
			adv := false
			InspectNoLit(f.Body(), func(nd ast.Node) bool {
				if call, ok := nd.(*ast.CallExpr); ok && sp.advancing(f.Info(), call) {
					adv = true
				}
				return !adv
			})
			if adv {
				sp.advances[f.Obj] = true
				changed = true
			}
		}
	}
	isSource := func(info *types.Info, call *ast.CallExpr) bool {
		cf := Callee(info, call)
		if cf == nil || cf.Pkg() == nil || cf.Pkg().Path() != pkgAlias["jsontext"] {
			return false
		}
		return cf.Name() == "ReadValue" || cf.Name() == "PreviousTokenOrValue" || cf.Name() == "UnreadBuffer"
	}
	type finding struct {
		v   *types.Var
		use token.Pos
		by  token.Pos
	}
	results := map[*FuncInfo][]finding{}
	nSources := 0
	analyse := func(f *FuncInfo) []finding {
		info := f.Info()
		bits := map[*types.Var]uint{}
		bit := func(v *types.Var) (uint64, bool) {
			if v == nil || v.IsField() || !isByteSlice(v.Type()) {
				return 0, false
			}
			i, ok := bits[v]
			if !ok {
				if len(bits) >= 64 {
					return 0, false
				}
				i = uint(len(bits))
				bits[v] = i
			}
			return 1 << i, true
		}
		var taintOf func(e ast.Expr, s staleS) bool
		taintOf = func(e ast.Expr, s staleS) bool {
			e = ast.Unparen(e)
			switch x := e.(type) {
			case *ast.Ident:
				if v, _ := IdentObj(info, x).(*types.Var); v != nil {
					if b, ok := bit(v); ok {
						return s.taint&b != 0
					}
				}
			case *ast.SliceExpr:
				return taintOf(x.X, s)
			case *ast.CallExpr:
				if tv, ok := info.Types[x.Fun]; ok && tv.IsType() {
					if isByteSlice(tv.Type) && len(x.Args) == 1 && isByteSlice(info.TypeOf(x.Args[0])) {
						return taintOf(x.Args[0], s)
					}
					return false
				}
				if isSource(info, x) {
					return true
				}
				if FuncCall(info, x, "jsonwire", "UnquoteMayCopy") && len(x.Args) > 0 {
					return taintOf(x.Args[0], s)
				}
				if IsBuiltin(info, x, "append") && len(x.Args) > 0 {
					return taintOf(x.Args[0], s)
				}
			}
			return false
		}
		var out []finding
		lastAdv := map[uint64]token.Pos{}
		check := func(n ast.Node, skip map[*ast.Ident]bool, s staleS, advs []*ast.CallExpr) {
			var visit func(n ast.Node)
			visit = func(n ast.Node) {
				ast.Inspect(n, func(x ast.Node) bool {
					switch y := x.(type) {
					case *ast.FuncLit:
						return false
					case *ast.CallExpr:
						if IsBuiltin(info, y, "len") || IsBuiltin(info, y, "cap") {
							return false
						}
						if cf := Callee(info, y); cf != nil && cf.Name() == "len64" {
							return false
						}
					case *ast.Ident:
						if skip[y] {
							return false
						}
						v, _ := info.Uses[y].(*types.Var)
						b, ok := bit(v)
						if !ok {
							return true
						}
						stale := s.stale&b != 0
						by := lastAdv[b]
						if !stale && s.taint&b != 0 {
							for _, ac := range advs {
								if y.Pos() > ac.End() {
									stale, by = true, ac.Pos()
								}
							}
						}
						if stale {
							out = append(out, finding{v, y.Pos(), by})
						}
					}
					return true
				})
			}
			visit(n)
		}
		advCalls := func(n ast.Node) []*ast.CallExpr {
			var r []*ast.CallExpr
			for _, call := range CallsIn(n) {
				if sp.advancing(info, call) && !isSource(info, call) {
					r = append(r, call)
				} else if isSource(info, call) {
					if cf := Callee(info, call); cf != nil && cf.Name() == "ReadValue" {
						r = append(r, call) // a new ReadValue also invalidates older views
					}
				}
			}
			return r
		}
		noteArgs := func(n ast.Node, s staleS) {
			for _, call := range CallsIn(n) {
				cf := Callee(info, call)
				if cf == nil || p.FuncOf(cf) == nil {
					continue
				}
				sig := cf.Type().(*types.Signature)
				for i, a := range call.Args {
					if i < sig.Params().Len() {
						pv := sig.Params().At(i)
						if isByteSlice(pv.Type()) && !sp.paramTaint[pv] && taintOf(a, s) {
							sp.paramTaint[pv] = true
							sp.changed = true
						}
					}
				}
			}
		}
		after := func(s staleS, advs []*ast.CallExpr, defined uint64) staleS {
			if len(advs) == 0 {
				return s
			}
			newly := s.taint &^ defined &^ s.stale
			for b := uint64(1); b != 0; b <<= 1 {
				if newly&b != 0 {
					lastAdv[b] = advs[0].Pos()
				}
			}
			s.stale |= s.taint &^ defined
			return s
		}
		fl := &Flow[staleS]{Fn: f}
		fl.Node = func(n ast.Node, s staleS) []staleS {
			advs := advCalls(n)
			noteArgs(n, s)
			switch st := n.(type) {
			case *ast.AssignStmt:
				skip := map[*ast.Ident]bool{}
				var defined uint64
				if st.Tok == token.ASSIGN || st.Tok == token.DEFINE {
					for _, l := range st.Lhs {
						if id, ok := ast.Unparen(l).(*ast.Ident); ok {
							skip[id] = true
							if v, _ := IdentObj(info, id).(*types.Var); v != nil {
								if b, ok := bit(v); ok {
									defined |= b
								}
							}
						}
					}
				}
				check(st, skip, s, advs)
				var rt []bool
				if len(st.Lhs) == len(st.Rhs) {
					for _, r := range st.Rhs {
						rt = append(rt, taintOf(r, s))
					}
				} else if len(st.Rhs) == 1 {
					if call, ok := ast.Unparen(st.Rhs[0]).(*ast.CallExpr); ok {
						src := isSource(info, call)
						if src {
							nSources++
						}
						for i := range st.Lhs {
							rt = append(rt, i == 0 && (src || taintOf(call, s)))
						}
					}
				}
				for len(rt) < len(st.Lhs) {
					rt = append(rt, false)
				}
				s = after(s, advs, defined)
				if st.Tok == token.ASSIGN || st.Tok == token.DEFINE {
					for i, l := range st.Lhs {
						if v, _ := IdentObj(info, l).(*types.Var); v != nil {
							if b, ok := bit(v); ok {
								s.taint &^= b
								s.stale &^= b
								if rt[i] {
									s.taint |= b
								}
							}
						}
					}
				}
				return []staleS{s}
			case *ast.ReturnStmt:
				check(st, nil, s, advs)
				return nil
			}
			check(n, nil, s, advs)
			return []staleS{after(s, advs, 0)}
		}
		fl.Leaf = func(e ast.Expr, s staleS) (t, fs []staleS) {
			advs := advCalls(e)
			noteArgs(e, s)
			check(e, nil, s, advs)
			s = after(s, advs, 0)
			return []staleS{s}, []staleS{s}
		}
		var entry staleS
		var sig *types.Signature
		if f.Obj != nil {
			sig = f.Obj.Type().(*types.Signature)
		} else if t := info.TypeOf(f.Lit); t != nil {
			sig, _ = t.Underlying().(*types.Signature)
		}
		if sig != nil {
			for i := 0; i < sig.Params().Len(); i++ {
				if pv := sig.Params().At(i); sp.paramTaint[pv] {
					if b, ok := bit(pv); ok {
						entry.taint |= b
					}
				}
			}
		}
		fl.Run(entry)
		return out
	}
	var subjects []*FuncInfo
	for _, f := range funcs {
		if f.Body() == nil {
			continue
		}
		uses := false
		InspectNoLit(f.Body(), func(nd ast.Node) bool {
			if call, ok := nd.(*ast.CallExpr); ok && isSource(f.Info(), call) {
				uses = true
			}
			return !uses
		})
		if uses {
			subjects = append(subjects, f)
		}
	}
	for iter := 0; iter < 6; iter++ {
		sp.changed = false
		nSources = 0
		// helpers with tainted parameters become subjects too
		for _, f := range funcs {
			if f.Decl == nil || f.Obj == nil || f.Body() == nil {
				continue
			}
			sig := f.Obj.Type().(*types.Signature)
			for i := 0; i < sig.Params().Len(); i++ {
				if sp.paramTaint[sig.Params().At(i)] {
					found := false
					for _, s := range subjects {
						if s == f {
							found = true
						}
					}
					if !found {
						subjects = append(subjects, f)
					}
				}
			}
		}
		for _, f := range subjects {
			results[f] = analyse(f)
		}
		if !sp.changed {
			break
		}
	}
	if !c.Floor("functions holding transient decoder views", len(subjects), 10) {
		return
	}
	sort.Slice(subjects, func(i, j int) bool { return subjects[i].Pos() < subjects[j].Pos() })
	for _, f := range subjects {
		fs := results[f]
		if len(fs) == 0 {
			c.OK(f.Name, f.Pos(), "")
			continue
		}
		by := map[string][]string{}
		first := map[string]token.Pos{}
		for _, fd := range fs {
			k := fd.v.Name()
			by[k] = append(by[k], fmt.Sprintf("read at %s after the decoder advanced at %s", p.Position(fd.use), p.Position(fd.by)))
			if first[k] == token.NoPos || fd.use < first[k] {
				first[k] = fd.use
			}
		}
		for _, k := range sortedKeys(by) {
			seen := map[string]bool{}
			var u []string
			for _, s := range by[k] {
				if !seen[s] {
					seen[s] = true
					u = append(u, s)
				}
			}
			c.ViolationW(f.Name+":"+k, first[k], "`"+k+"` is a view into the decoder's buffer and is used after the decoder moved on (the bytes may have been overwritten or poisoned)", strings.Join(u, "; "))
		}
	}
}
