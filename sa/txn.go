package main

import (
	"fmt"
	"go/ast"
	"go/token"
	"go/types"
)

// tri is a three-valued fact.
type tri uint8

const (
	triUnknown tri = iota
	triYes
	triNo
)

// txnS is the abstract state of the transactional-discipline analysis.
type txnS struct {
	mut    bool      // abstract state has been mutated on this path
	mutPos token.Pos // first mutation
	need   tri       // Tokens.Last.NeedObjectName()
	valid  tri       // Tokens.Last.isValidNamespace()
	errs   [6]tri    // per tracked error variable: triYes = nil, triNo = non-nil
}

// txnMode selects what "the state" is.
type txnMode int

const (
	modeCoder   txnMode = iota // method of encoderState/decoderState: locations of the flattened coder
	modeMachine                // method of a sub-structure (stateMachine, objectNamespace): everything through the receiver
)

// txnAnalysis analyses one function.
type txnAnalysis struct {
	p        *Program
	eff      *Effects
	f        *FuncInfo
	info     *types.Info
	mode     txnMode
	base     *types.Var
	bases    map[*types.Var]bool
	alias    map[*types.Var]rootInfo
	abstract func(loc *types.Var) bool // modeCoder: is this location part of the abstract state
	exemptFl func(loc *types.Var) bool // modeMachine: receiver fields outside the abstract state
	slots    map[*types.Var]int
	// outputs
	onReturn func(r *ast.ReturnStmt, s txnS, res retClass)
	fl       *Flow[txnS]
}

// retClass classifies what a return statement returns in its failure-relevant result.
type retClass struct {
	fail    tri // triYes: certainly a failure (non-nil error / false); triNo: success; unknown
	viaCall *ast.CallExpr
	flush   bool // the result is directly the result of (*encoderState).Flush
}

func newTxnAnalysis(p *Program, f *FuncInfo, mode txnMode) *txnAnalysis {
	a := &txnAnalysis{p: p, eff: p.Effects(), f: f, info: f.Info(), mode: mode, slots: map[*types.Var]int{}}
	sig := f.Obj.Type().(*types.Signature)
	a.base = sig.Recv()
	a.bases = map[*types.Var]bool{a.base: true}
	a.alias = a.eff.aliasLocals(f, a.bases)
	return a
}

func (a *txnAnalysis) slot(v *types.Var) int {
	if i, ok := a.slots[v]; ok {
		return i
	}
	i := len(a.slots)
	if i >= len(txnS{}.errs) {
		i = -1
	}
	a.slots[v] = i
	return i
}

func (a *txnAnalysis) errVar(e ast.Expr) *types.Var {
	v, _ := IdentObj(a.info, e).(*types.Var)
	if v == nil || v.IsField() || !isErrorType(v.Type()) {
		return nil
	}
	if v.Parent() == nil || v.Pkg() == nil || v.Parent() == v.Pkg().Scope() {
		return nil // package-level
	}
	return v
}

func (a *txnAnalysis) setErr(s txnS, v *types.Var, t tri) txnS {
	if i := a.slot(v); i >= 0 {
		s.errs[i] = t
	}
	return s
}

func (a *txnAnalysis) getErr(s txnS, v *types.Var) tri {
	if i := a.slot(v); i >= 0 {
		return s.errs[i]
	}
	return triUnknown
}

func (a *txnAnalysis) mutate(s txnS, pos token.Pos, tokens bool) txnS {
	if !s.mut {
		s.mut = true
		s.mutPos = pos
	}
	if tokens {
		s.need, s.valid = triUnknown, triUnknown
	}
	return s
}

// atomOf recognises X.Tokens.Last.NeedObjectName() / isValidNamespace() on the analysed coder.
func (a *txnAnalysis) atomOf(e ast.Expr) (which string, ok bool) {
	call, isCall := ast.Unparen(e).(*ast.CallExpr)
	if !isCall {
		return "", false
	}
	fn := Callee(a.info, call)
	if fn == nil {
		return "", false
	}
	name := QualName(fn)
	if name != "jsontext.(stateEntry).NeedObjectName" && name != "jsontext.(stateEntry).isValidNamespace" {
		return "", false
	}
	sel, isSel := ast.Unparen(call.Fun).(*ast.SelectorExpr)
	if !isSel {
		return "", false
	}
	// receiver must be <base>...Last
	last := SelField(a.info, sel.X)
	if last == nil || last != a.p.Field("jsontext", "stateMachine", "Last") {
		return "", false
	}
	ri, rok := a.eff.root(a.info, sel.X)
	if !rok || !(a.bases[ri.base]) {
		return "", false
	}
	return fn.Name(), true
}

// isMachineSubject reports whether fn is a stateMachine method with an error result
// (a conditional mutator, transactional by TXN-1).
func (a *txnAnalysis) isMachineSubject(fn *types.Func) bool {
	if fn == nil {
		return false
	}
	sig := fn.Type().(*types.Signature)
	if sig.Recv() == nil || !isNamed(sig.Recv().Type(), pkgAlias["jsontext"], "stateMachine") {
		return false
	}
	return sig.Results().Len() == 1 && isErrorType(sig.Results().At(0).Type())
}

func isInsertFamily(fn *types.Func) bool {
	if fn == nil {
		return false
	}
	sig := fn.Type().(*types.Signature)
	if sig.Recv() == nil || !isNamed(sig.Recv().Type(), pkgAlias["jsontext"], "objectNamespace") {
		return false
	}
	if sig.Results().Len() != 1 {
		return false
	}
	b, ok := sig.Results().At(0).Type().(*types.Basic)
	return ok && b.Kind() == types.Bool && (fn.Name() == "insertQuoted" || fn.Name() == "InsertUnquoted" || fn.Name() == "insert")
}

// machineSummary answers: under the given atoms, may the stateMachine method fail / succeed?
type smKey struct {
	fn          *types.Func
	need, valid tri
}

var smCache = map[*Program]map[smKey][2]bool{}

func machineSummary(p *Program, fn *types.Func, need, valid tri, depth int) (canFail, canSucceed bool) {
	if smCache[p] == nil {
		smCache[p] = map[smKey][2]bool{}
	}
	k := smKey{fn, need, valid}
	if r, ok := smCache[p][k]; ok {
		return r[0], r[1]
	}
	fi := p.FuncOf(fn)
	if fi == nil || fi.Body() == nil || depth > 4 {
		return true, true
	}
	smCache[p][k] = [2]bool{true, true} // recursion guard
	a := newTxnAnalysis(p, fi, modeMachine)
	a.onReturn = func(r *ast.ReturnStmt, s txnS, rc retClass) {
		switch rc.fail {
		case triYes:
			canFail = true
		case triNo:
			canSucceed = true
		default:
			if rc.viaCall != nil {
				if cf := Callee(a.info, rc.viaCall); a.isMachineSubject(cf) {
					f2, s2 := machineSummary(p, cf, s.need, s.valid, depth+1)
					canFail = canFail || f2
					canSucceed = canSucceed || s2
					return
				}
			}
			canFail, canSucceed = true, true
		}
	}
	a.run(txnS{need: need, valid: valid})
	smCache[p][k] = [2]bool{canFail, canSucceed}
	return
}

// callOutcome is one possible result of a call.
type callOutcome struct {
	s   txnS
	err tri // triYes: returned nil error / true ; triNo: non-nil / false
}

// applyCall interprets one call. consumed tells whether the caller will use
// the outcome split (err tri); otherwise outcomes are merged by the caller.
func (a *txnAnalysis) applyCall(call *ast.CallExpr, s txnS) []callOutcome {
	info := a.info
	if tv, ok := info.Types[call.Fun]; ok && tv.IsType() {
		return []callOutcome{{s, triUnknown}}
	}
	if IsBuiltin(info, call, "copy") || IsBuiltin(info, call, "clear") || IsBuiltin(info, call, "delete") {
		if len(call.Args) > 0 {
			if loc, isAbs, ok := a.locOf(call.Args[0]); ok && isAbs {
				return []callOutcome{{a.mutate(s, call.Pos(), a.isTokens(loc)), triUnknown}}
			}
		}
		return []callOutcome{{s, triUnknown}}
	}
	callee := Callee(info, call)
	sel, isSel := ast.Unparen(call.Fun).(*ast.SelectorExpr)
	if callee != nil && a.eff.pure[callee] != "" {
		return []callOutcome{{s, triUnknown}}
	}
	// conditional mutators on the analysed state
	if callee != nil && isSel && info.Selections[sel] != nil {
		if loc, isAbs, ok := a.locOf(sel.X); ok {
			switch {
			case a.isMachineSubject(callee):
				if !isAbs {
					return []callOutcome{{s, triUnknown}}
				}
				canFail, canSucceed := machineSummary(a.p, callee, s.need, s.valid, 0)
				var out []callOutcome
				if canSucceed {
					s2 := a.mutate(s, call.Pos(), false)
					// successful append flips NeedObjectName for objects; push/pop replace Last
					s2.need = triUnknown
					if callee.Name() == "pushObject" || callee.Name() == "pushArray" || callee.Name() == "popObject" || callee.Name() == "popArray" {
						s2.valid = triUnknown
					}
					out = append(out, callOutcome{s2, triYes})
				}
				if canFail {
					out = append(out, callOutcome{s, triNo}) // TXN-1: failure leaves the machine untouched
				}
				return out
			case isInsertFamily(callee):
				if !isAbs {
					return []callOutcome{{s, triUnknown}}
				}
				return []callOutcome{{a.mutate(s, call.Pos(), a.isTokens(loc)), triYes}, {s, triNo}}
			}
			// jsonflags.Flags operations: Clear of TagFlags only is outside the abstract state
			if m, _, v, isFlag := FlagCall(info, call); isFlag {
				tag := a.p.Flags().Named["TagFlags"]
				if m == "Get" || m == "Has" {
					return []callOutcome{{s, triUnknown}}
				}
				if m == "Clear" && tag != 0 && v&^tag&^1 == 0 {
					return []callOutcome{{s, triUnknown}}
				}
				if isAbs {
					return []callOutcome{{a.mutate(s, call.Pos(), false), triUnknown}}
				}
				return []callOutcome{{s, triUnknown}}
			}
			csig := callee.Type().(*types.Signature)
			if csig.Recv() != nil {
				if a.mode == modeCoder && a.eff.isFlatType(csig.Recv().Type()) && loc == nil {
					if a.p.transactionalHelper(callee) {
						// the helper commits only on its success paths (checked on its own body); each of its
						// successful returns fixes what it found out about the name/namespace atoms on the way
						out := []callOutcome{{s, triNo}}
						outs := a.p.txnHelperOuts[callee]
						if len(outs) == 0 {
							out = append(out, callOutcome{a.applySummary(callee, call, s), triYes})
						}
						compatible := func(have, got tri) bool { return have == triUnknown || got == triUnknown || have == got }
						for _, o := range outs {
							if !compatible(s.need, o.need) || !compatible(s.valid, o.valid) {
								continue
							}
							s2 := s
							if o.mut {
								s2 = a.applySummary(callee, call, s)
							}
							if o.need != triUnknown {
								s2.need = o.need
							} else {
								s2.need = s.need
							}
							if o.valid != triUnknown {
								s2.valid = o.valid
							} else {
								s2.valid = s.valid
							}
							out = append(out, callOutcome{s2, triYes})
						}
						return out
					}
					return []callOutcome{{a.applySummary(callee, call, s), triUnknown}}
				}
				if a.eff.recvMut[callee] {
					// a helper that only writes receiver fields outside the abstract state (a cache) does not mutate it
					if a.exemptFl != nil && loc == nil {
						if fw := a.eff.recvFieldWrites(callee); fw != nil {
							all := true
							for fld := range fw {
								if !a.exemptFl(fld) {
									all = false
								}
							}
							if all {
								return []callOutcome{{s, triUnknown}}
							}
						}
					}
					if _, cptr := csig.Recv().Type().(*types.Pointer); cptr && isAbs {
						return []callOutcome{{a.mutate(s, call.Pos(), a.isTokens(loc)), triUnknown}}
					}
				}
			}
		}
	}
	// coder handed to another function
	passes := false
	for _, arg := range call.Args {
		ri, ok := a.eff.root(info, arg)
		if ok && a.bases[ri.base] && ri.loc == nil {
			if t := info.TypeOf(arg); t != nil {
				if _, isPtr := t.Underlying().(*types.Pointer); isPtr || types.IsInterface(t) {
					passes = true
				}
			}
		}
		// &e.Loc handed out
		if ok && (a.bases[ri.base]) && ri.loc != nil {
			if u, isAddr := ast.Unparen(arg).(*ast.UnaryExpr); isAddr && u.Op == token.AND {
				if a.abstract != nil && a.abstract(ri.loc) && !a.readOnlyPtrParam(callee, call, arg) {
					s = a.mutate(s, call.Pos(), a.isTokens(ri.loc))
				}
			}
		}
	}
	if passes {
		if callee == nil {
			return []callOutcome{{a.mutate(s, call.Pos(), true), triUnknown}}
		}
		return []callOutcome{{a.applySummary(callee, call, s), triUnknown}}
	}
	return []callOutcome{{s, triUnknown}}
}

// readOnlyPtrParam: &e.Flags passed to jsonwire/Token helpers that only read flags.
func (a *txnAnalysis) readOnlyPtrParam(callee *types.Func, call *ast.CallExpr, arg ast.Expr) bool {
	t := a.info.TypeOf(arg)
	if pt, ok := t.(*types.Pointer); ok && isNamed(pt.Elem(), pkgAlias["jsonflags"], "Flags") {
		// *jsonflags.Flags parameters: Flags has only Get/Has as value-receiver readers; a callee could call Set.
		// Check the callee body (transitively shallow): no Set/Clear/Join on that parameter.
		fi := a.p.FuncOf(callee)
		if fi == nil {
			return false
		}
		clean := true
		ast.Inspect(fi.Body(), func(n ast.Node) bool {
			if c, ok := n.(*ast.CallExpr); ok {
				if m, _, _, isFlag := FlagCall(fi.Info(), c); isFlag && (m == "Set" || m == "Clear" || m == "Join") {
					clean = false
				}
			}
			return clean
		})
		return clean
	}
	return false
}

func (a *txnAnalysis) applySummary(callee *types.Func, call *ast.CallExpr, s txnS) txnS {
	if a.eff.pure[callee] != "" {
		return s
	}
	w, known := a.eff.writes[callee]
	if !known || a.eff.unknown[callee] {
		if a.p.FuncOf(callee) == nil || a.eff.unknown[callee] {
			return a.mutate(s, call.Pos(), true)
		}
	}
	for loc := range w {
		if a.abstract == nil || a.abstract(loc) {
			s = a.mutate(s, call.Pos(), a.isTokens(loc))
		}
	}
	return s
}

func (a *txnAnalysis) isTokens(loc *types.Var) bool {
	if a.mode == modeMachine {
		return true
	}
	return loc != nil && loc == a.p.Field("jsontext", "state", "Tokens")
}

// locOf resolves an expression to a location of the analysed state.
// ok=false: not rooted at the analysed base. isAbs: part of the abstract state.
func (a *txnAnalysis) locOf(x ast.Expr) (loc *types.Var, isAbs bool, ok bool) {
	loc, _, ok = a.eff.resolve(a.info, x, a.bases, a.alias)
	if !ok {
		return nil, false, false
	}
	if a.mode == modeMachine {
		if loc != nil && a.exemptFl != nil && a.exemptFl(loc) {
			return loc, false, true
		}
		return loc, true, true
	}
	if loc == nil {
		return nil, false, true // the coder itself
	}
	return loc, a.abstract(loc), true
}

// stores applies the effect of assignment left-hand sides.
func (a *txnAnalysis) store(lhs ast.Expr, pos token.Pos, s txnS) txnS {
	if id, isId := ast.Unparen(lhs).(*ast.Ident); isId {
		if v, _ := IdentObj(a.info, id).(*types.Var); v != nil && (a.bases[v] || a.alias[v].base != nil) {
			return s // rebinding a local
		}
	}
	ri, rok := a.eff.root(a.info, lhs)
	if !rok {
		return s
	}
	if a.mode == modeMachine {
		sig := a.f.Obj.Type().(*types.Signature)
		_, ptrRecv := sig.Recv().Type().(*types.Pointer)
		if a.bases[ri.base] && !(ptrRecv || ri.deref) {
			return s // value receiver: local copy
		}
	}
	loc, isAbs, ok := a.locOf(lhs)
	if ok && isAbs {
		// element writes into decoder buf (poison byte) are not whole-field stores
		if a.mode == modeCoder && ri.deref && loc != nil && loc.Name() == "buf" {
			return s
		}
		return a.mutate(s, pos, a.isTokens(loc))
	}
	return s
}

// classifyErrExpr evaluates the nil-ness of an error-typed expression.
func (a *txnAnalysis) classifyErrExpr(e ast.Expr, s txnS) tri {
	e = ast.Unparen(e)
	if IsNilIdent(a.info, e) {
		return triYes
	}
	if v := a.errVar(e); v != nil {
		return a.getErr(s, v)
	}
	if cl, ok := e.(*ast.UnaryExpr); ok && cl.Op == token.AND {
		if _, isLit := ast.Unparen(cl.X).(*ast.CompositeLit); isLit {
			return triNo
		}
	}
	return triUnknown
}

// node is the transfer function for statements.
func (a *txnAnalysis) node(n ast.Node, s txnS) []txnS {
	switch st := n.(type) {
	case *ast.ReturnStmt:
		a.doReturn(st, s)
		return nil
	case *ast.AssignStmt:
		return a.assign(st.Lhs, st.Rhs, st.Pos(), s)
	case *ast.ValueSpec:
		var lhs []ast.Expr
		for _, nm := range st.Names {
			lhs = append(lhs, nm)
		}
		if len(st.Values) == 0 {
			for _, nm := range st.Names {
				if v := a.errVar(nm); v != nil {
					s = a.setErr(s, v, triYes)
				}
			}
			return []txnS{s}
		}
		return a.assign(lhs, st.Values, st.Pos(), s)
	case *ast.IncDecStmt:
		s = a.calls(st.X, s)
		return []txnS{a.store(st.X, st.Pos(), s)}
	case *ast.DeferStmt:
		// conservatively: the deferred call's effect is applied where it is registered
		s = a.callsMerged(st.Call, s)
		return []txnS{s}
	case *ast.GoStmt:
		return []txnS{a.callsMerged(st.Call, s)}
	case *ast.ExprStmt:
		return []txnS{a.callsMerged(st.X, s)}
	case ast.Expr:
		return []txnS{a.callsMerged(st, s)}
	case *ast.DeclStmt:
		return []txnS{s}
	}
	// other statements (send, labeled, empty, ...): apply calls
	if nn, ok := n.(ast.Node); ok {
		return []txnS{a.callsMerged(nn, s)}
	}
	return []txnS{s}
}

// calls applies the effects of all calls inside n except none is treated as top-level.
func (a *txnAnalysis) calls(n ast.Node, s txnS) txnS { return a.callsMerged(n, s) }

// callsMerged applies every call in n, merging conditional outcomes (may-mutate).
func (a *txnAnalysis) callsMerged(n ast.Node, s txnS) txnS {
	for _, c := range CallsIn(n) {
		s = a.mergeOutcomes(a.applyCall(c, s), s)
	}
	return s
}

func (a *txnAnalysis) mergeOutcomes(outs []callOutcome, s txnS) txnS {
	// may-mutate merge: if any outcome mutated, the merged state is mutated and atoms are dropped
	r := s
	for _, o := range outs {
		if o.s.mut && !r.mut {
			r.mut, r.mutPos = true, o.s.mutPos
		}
		if o.s.need != s.need {
			r.need = triUnknown
		}
		if o.s.valid != s.valid {
			r.valid = triUnknown
		}
	}
	return r
}

// assign handles lhs... = rhs... including the `x, err = f()` forms.
func (a *txnAnalysis) assign(lhs, rhs []ast.Expr, pos token.Pos, s txnS) []txnS {
	// single call on the right whose error result lands in an error variable
	if len(rhs) == 1 {
		if call, ok := ast.Unparen(rhs[0]).(*ast.CallExpr); ok {
			// nested calls first
			for _, arg := range call.Args {
				s = a.callsMerged(arg, s)
			}
			s = a.callsMerged(call.Fun, s)
			outs := a.applyCall(call, s)
			var errLHS ast.Expr
			if n := len(lhs); n > 0 {
				if t := a.info.TypeOf(lhs[n-1]); t != nil && isErrorType(t) {
					errLHS = lhs[n-1]
				}
			}
			var res []txnS
			for _, o := range outs {
				s2 := o.s
				for _, l := range lhs {
					s2 = a.store(l, pos, s2)
				}
				if errLHS != nil {
					if v := a.errVar(errLHS); v != nil {
						s2 = a.setErr(s2, v, o.err)
					}
				}
				res = append(res, s2)
			}
			return res
		}
	}
	for _, r := range rhs {
		s = a.callsMerged(r, s)
	}
	for _, l := range lhs {
		s = a.callsMerged(l, s)
	}
	// error variable updates (pairwise)
	if len(lhs) == len(rhs) {
		vals := make([]tri, len(rhs))
		for i := range rhs {
			vals[i] = a.classifyErrExpr(rhs[i], s)
		}
		for i, l := range lhs {
			if v := a.errVar(l); v != nil {
				s = a.setErr(s, v, vals[i])
			}
		}
	} else {
		for _, l := range lhs {
			if v := a.errVar(l); v != nil {
				s = a.setErr(s, v, triUnknown)
			}
		}
	}
	for _, l := range lhs {
		s = a.store(l, pos, s)
	}
	return []txnS{s}
}

func (a *txnAnalysis) doReturn(r *ast.ReturnStmt, s txnS) {
	sig := a.f.Obj.Type().(*types.Signature)
	nres := sig.Results().Len()
	if nres == 0 {
		a.onReturn(r, s, retClass{fail: triNo})
		return
	}
	lastT := sig.Results().At(nres - 1).Type()
	isBool := false
	if b, ok := lastT.(*types.Basic); ok && b.Kind() == types.Bool {
		isBool = true
	}
	if !isErrorType(lastT) && !isBool {
		// no failure channel: every return is a "success"; still apply calls
		for _, e := range r.Results {
			s = a.callsMerged(e, s)
		}
		a.onReturn(r, s, retClass{fail: triNo})
		return
	}
	if len(r.Results) == 0 {
		// naked return: named result
		nv := sig.Results().At(nres - 1)
		t := a.getErr(s, nv)
		rc := retClass{fail: triUnknown}
		if t == triYes {
			rc.fail = triNo
		} else if t == triNo {
			rc.fail = triYes
		}
		a.onReturn(r, s, rc)
		return
	}
	// return f(...) with multiple results from one call
	if len(r.Results) == 1 && nres > 1 {
		if call, ok := ast.Unparen(r.Results[0]).(*ast.CallExpr); ok {
			for _, arg := range call.Args {
				s = a.callsMerged(arg, s)
			}
			for _, o := range a.applyCall(call, s) {
				rc := retClass{fail: triUnknown, viaCall: call}
				if csig, ok := a.info.TypeOf(call.Fun).(*types.Signature); ok && csig.Results().Len() == nres && isErrorType(csig.Results().At(nres-1).Type()) {
					switch o.err {
					case triYes:
						rc.fail = triNo
					case triNo:
						rc.fail = triYes
					}
				}
				a.onReturn(r, o.s, rc)
			}
			return
		}
	}
	for _, e := range r.Results[:len(r.Results)-1] {
		s = a.callsMerged(e, s)
	}
	last := ast.Unparen(r.Results[len(r.Results)-1])
	if call, ok := last.(*ast.CallExpr); ok {
		for _, arg := range call.Args {
			s = a.callsMerged(arg, s)
		}
		callee := Callee(a.info, call)
		flush := callee != nil && a.p.deliveryFuncs()[callee]
		for _, o := range a.applyCall(call, s) {
			rc := retClass{fail: triUnknown, viaCall: call, flush: flush}
			switch o.err {
			case triYes:
				rc.fail = triNo
			case triNo:
				rc.fail = triYes
			}
			a.onReturn(r, o.s, rc)
		}
		return
	}
	if isBool {
		s = a.callsMerged(last, s)
		rc := retClass{fail: triUnknown}
		if tv, ok := a.info.Types[last]; ok && tv.Value != nil {
			if tv.Value.String() == "true" {
				rc.fail = triNo
			} else {
				rc.fail = triYes
			}
		}
		a.onReturn(r, s, rc)
		return
	}
	rc := retClass{fail: triUnknown}
	switch a.classifyErrExpr(last, s) {
	case triYes:
		rc.fail = triNo
	case triNo:
		rc.fail = triYes
	default:
		// package-level error values and other expressions: treat as failure-capable
		if a.errVar(last) == nil {
			rc.fail = triYes
		}
	}
	a.onReturn(r, s, rc)
}

// leaf evaluates a leaf condition.
func (a *txnAnalysis) leaf(e ast.Expr, s txnS) (t, f []txnS) {
	// err != nil / err == nil
	if v, nonNil, ok := ErrCmp(a.info, e); ok {
		ev, _ := v.(*types.Var)
		if ev != nil && !ev.IsField() && ev.Parent() != nil && ev.Pkg() != nil && ev.Parent() != ev.Pkg().Scope() {
			cur := a.getErr(s, ev)
			var nn, nl []txnS
			if cur != triYes {
				nn = []txnS{a.setErr(s, ev, triNo)}
			}
			if cur != triNo {
				nl = []txnS{a.setErr(s, ev, triYes)}
			}
			if nonNil {
				return nn, nl
			}
			return nl, nn
		}
	}
	// atoms
	if which, ok := a.atomOf(e); ok {
		cur := &s.need
		if which == "isValidNamespace" {
			cur = &s.valid
		}
		switch *cur {
		case triYes:
			return []txnS{s}, nil
		case triNo:
			return nil, []txnS{s}
		}
		st, sf := s, s
		if which == "isValidNamespace" {
			st.valid, sf.valid = triYes, triNo
		} else {
			st.need, sf.need = triYes, triNo
		}
		return []txnS{st}, []txnS{sf}
	}
	// a call used directly as a condition: conditional mutators split by outcome
	if call, ok := e.(*ast.CallExpr); ok {
		for _, arg := range call.Args {
			s = a.callsMerged(arg, s)
		}
		s = a.callsMerged(call.Fun, s)
		for _, o := range a.applyCall(call, s) {
			switch o.err {
			case triYes:
				t = append(t, o.s)
			case triNo:
				f = append(f, o.s)
			default:
				t = append(t, o.s)
				f = append(f, o.s)
			}
		}
		return t, f
	}
	s = a.callsMerged(e, s)
	return []txnS{s}, []txnS{s}
}

func (a *txnAnalysis) run(entry txnS) {
	fl := &Flow[txnS]{Fn: a.f}
	fl.Node = a.node
	fl.Leaf = a.leaf
	a.fl = fl
	fl.Run(entry)
}

func (s txnS) String() string {
	return fmt.Sprintf("{mut=%v need=%d valid=%d}", s.mut, s.need, s.valid)
}

// transactionalHelper reports whether fn is an unexported method of a coder
// state type that returns an error as its last result and whose own body
// never mutates the abstract coder state on a path to a non-nil error return
// (the TXN-2 discipline, checked on the helper itself). Calls to such a helper
// have two outcomes: success with the helper's effects, failure with none.
func (p *Program) transactionalHelper(fn *types.Func) bool {
	if p.txnHelper == nil {
		p.txnHelper = map[*types.Func]bool{}
	}
	if r, ok := p.txnHelper[fn]; ok {
		return r
	}
	p.txnHelper[fn] = false // recursion guard
	f := p.FuncOf(fn)
	if f == nil || f.Body() == nil || f.Decl == nil || ast.IsExported(fn.Name()) {
		return false
	}
	sig := fn.Type().(*types.Signature)
	if sig.Results().Len() == 0 || !isErrorType(sig.Results().At(sig.Results().Len()-1).Type()) {
		return false
	}
	// only helpers that do mutate are interesting
	mutates := false
	abs := abstractLocs(p)
	for loc := range p.Effects().writes[fn] {
		if abs(loc) {
			mutates = true
		}
	}
	if !mutates {
		return false
	}
	a := newTxnAnalysis(p, f, modeCoder)
	a.abstract = abs
	ok, nret := true, 0
	seen := map[txnOutcome]bool{}
	var outs []txnOutcome
	a.onReturn = func(r *ast.ReturnStmt, s txnS, rc retClass) {
		nret++
		if s.mut && rc.fail != triNo && !rc.flush {
			ok = false
		}
		if rc.fail != triYes { // a (possibly) successful return: what is known about the state there
			o := txnOutcome{mut: s.mut, need: s.need, valid: s.valid}
			if !seen[o] {
				seen[o] = true
				outs = append(outs, o)
			}
		}
	}
	a.run(txnS{})
	p.txnHelper[fn] = ok && nret > 0
	if p.txnHelperOuts == nil {
		p.txnHelperOuts = map[*types.Func][]txnOutcome{}
	}
	p.txnHelperOuts[fn] = outs
	return p.txnHelper[fn]
}

// txnOutcome is what is known at one successful return of a transactional helper.
type txnOutcome struct {
	mut         bool
	need, valid tri
}
