package main

import (
	"fmt"
	"go/ast"
	"go/token"
	"go/types"
	"sort"
	"strings"
)

func init() {
	register(&Rule{ID: "DEPTH-1", Doc: "the nesting limit is the same everywhere, off-by-one included: every guard that returns errMaxDepth compares a depth expression X with a constant so that the first refused value minus offset(X) equals maxNestingDepth, the guard is evaluated on every path to a return of its function, where offset(len(m.Stack)) = 0 and offset(depth parameter) = 1 when every external call site passes Tokens.Depth() (= len(Stack)+1, read from Depth's body) and every internal call site passes the parameter after exactly one depth++ that follows the guard", Run: ruleDEPTH1})
	register(&Rule{ID: "KIND-1", Doc: "exhaustive kind dispatch: normKind maps exactly the RFC 8259 value/token start bytes (digits and '-' to '0'); the token dispatchers ReadToken/WriteToken have a case for each of the 9 normalised kinds and a default that fails; the value dispatchers consumeValue, reformatValue, ReadValue, WriteValue, unmarshalValueAny cover each of the 7 kinds that can start a value, and those that see unvalidated input fail in their default", Run: ruleKIND1})
}

// usesConst reports whether expression e mentions constant object c.
func usesObj(info *types.Info, e ast.Expr, c types.Object) bool {
	found := false
	ast.Inspect(e, func(n ast.Node) bool {
		if id, ok := n.(*ast.Ident); ok && info.Uses[id] == c {
			found = true
		}
		return !found
	})
	return found
}

func ruleDEPTH1(c *Ctx) {
	p := c.P
	maxObj := p.Lookup("jsontext", "maxNestingDepth")
	errObj := p.Lookup("jsontext", "errMaxDepth")
	if maxObj == nil || errObj == nil {
		c.Undecide("jsontext.maxNestingDepth/errMaxDepth", "missing")
		return
	}
	max, _ := p.ConstInt("jsontext", "maxNestingDepth")
	c.Oblige("const:maxNestingDepth==10000", maxObj.Pos(), max == 10000, fmt.Sprintf("documented limit is 10000, constant is %d", max))
	stackField := p.Field("jsontext", "stateMachine", "Stack")

	// offset of Tokens.Depth(): read from its body: return len(m.Stack) + K
	depthFn := p.Func("jsontext.(stateMachine).Depth")
	depthOffset := int64(-1)
	if depthFn != nil {
		for _, r := range Returns(depthFn.Body()) {
			if len(r.Results) == 1 {
				if be, ok := ast.Unparen(r.Results[0]).(*ast.BinaryExpr); ok && be.Op == token.ADD {
					if k, isC := ConstI64(depthFn.Info(), be.Y); isC && isLenOfField(depthFn.Info(), be.X, stackField) {
						depthOffset = k
					}
				}
			}
		}
	}
	if depthOffset < 0 {
		c.Undecide("jsontext.(stateMachine).Depth", "body is not `return len(m.Stack) + K`")
		return
	}

	type guard struct {
		f     *FuncInfo
		cmp   *ast.BinaryExpr
		x     ast.Expr
		v     int64
		param *types.Var
	}
	var guards []guard
	for _, f := range p.FuncsIn("jsontext") {
		if f.Decl == nil || f.Body() == nil {
			continue
		}
		info := f.Info()
		// every place that produces errMaxDepth must be controlled by a recognised guard
		nErr := 0
		InspectNoLit(f.Body(), func(n ast.Node) bool {
			if id, ok := n.(*ast.Ident); ok && info.Uses[id] == errObj {
				nErr++
			}
			return true
		})
		if nErr == 0 {
			continue
		}
		found := 0
		var visitCond func(cond ast.Expr, body ast.Node)
		visitCond = func(cond ast.Expr, body ast.Node) {
			if cond == nil || body == nil {
				return
			}
			usesErr := false
			ast.Inspect(body, func(n ast.Node) bool {
				if id, ok := n.(*ast.Ident); ok && info.Uses[id] == errObj {
					usesErr = true
				}
				return !usesErr
			})
			if !usesErr {
				return
			}
			be, ok := ast.Unparen(cond).(*ast.BinaryExpr)
			if !ok || !tokIsCmp(be.Op) {
				return
			}
			x, k := be.X, be.Y
			if _, isC := ConstI64(info, k); !isC {
				x, k = k, x
			}
			v, isC := ConstI64(info, k)
			if !isC || !usesObj(info, k, maxObj) {
				return
			}
			g := guard{f: f, cmp: be, x: x, v: v}
			if pv, _ := IdentObj(info, x).(*types.Var); pv != nil {
				g.param = pv
			}
			guards = append(guards, g)
			found++
		}
		InspectNoLit(f.Body(), func(n ast.Node) bool {
			switch s := n.(type) {
			case *ast.IfStmt:
				visitCond(s.Cond, s.Body)
			case *ast.CaseClause:
				if len(s.List) == 1 {
					visitCond(s.List[0], &ast.BlockStmt{List: s.Body})
				}
			}
			return true
		})
		c.Oblige("guarded:"+f.Name, f.Pos(), found >= 1, "errMaxDepth is produced here without a recognisable `X == const(maxNestingDepth)` guard")
	}
	if !c.Floor("depth guards", len(guards), 6) {
		return
	}

	// family of depth parameters: parameters compared in guards, plus parameters forwarded into them
	family := map[*types.Var]*FuncInfo{}
	for _, g := range guards {
		if g.param != nil {
			family[g.param] = g.f
		}
	}
	funcs := p.FuncsIn("jsontext")
	for changed := true; changed; {
		changed = false
		for _, f := range funcs {
			if f.Decl == nil || f.Body() == nil || f.Obj == nil {
				continue
			}
			info := f.Info()
			sig := f.Obj.Type().(*types.Signature)
			InspectNoLit(f.Body(), func(n ast.Node) bool {
				call, ok := n.(*ast.CallExpr)
				if !ok {
					return true
				}
				cf := Callee(info, call)
				if cf == nil {
					return true
				}
				csig := cf.Type().(*types.Signature)
				for i, arg := range call.Args {
					if i >= csig.Params().Len() {
						break
					}
					if _, isFam := family[csig.Params().At(i)]; !isFam {
						continue
					}
					if pv, _ := IdentObj(info, arg).(*types.Var); pv != nil {
						for j := 0; j < sig.Params().Len(); j++ {
							if sig.Params().At(j) == pv {
								if _, known := family[pv]; !known {
									family[pv] = f
									changed = true
								}
							}
						}
					}
				}
				return true
			})
		}
	}

	// call-site discipline for family parameters
	paramOK := map[*types.Var]bool{}
	for pv := range family {
		paramOK[pv] = true
	}
	nSites := 0
	for _, f := range funcs {
		if f.Body() == nil {
			continue
		}
		info := f.Info()
		ast.Inspect(f.Body(), func(n ast.Node) bool {
			call, ok := n.(*ast.CallExpr)
			if !ok {
				return true
			}
			cf := Callee(info, call)
			if cf == nil {
				return true
			}
			csig := cf.Type().(*types.Signature)
			for i, arg := range call.Args {
				if i >= csig.Params().Len() {
					break
				}
				pv := csig.Params().At(i)
				if _, isFam := family[pv]; !isFam {
					continue
				}
				nSites++
				okSite := false
				detail := ""
				if av, _ := IdentObj(info, arg).(*types.Var); av != nil {
					if _, isFam := family[av]; isFam {
						okSite = true // internal: forwarded parameter (increment discipline checked below)
					}
				}
				if !okSite {
					if ac, isCall := ast.Unparen(arg).(*ast.CallExpr); isCall {
						if cf2 := Callee(info, ac); cf2 != nil && QualName(cf2) == "jsontext.(stateMachine).Depth" {
							okSite = true
						}
					}
				}
				if !okSite {
					detail = "argument `" + exprString(arg) + "` is neither Tokens.Depth() nor a forwarded depth parameter"
					paramOK[pv] = false
				}
				c.Oblige(fmt.Sprintf("callsite:%s->%s", f.Name, QualName(cf)), call.Pos(), okSite, detail)
			}
			return true
		})
	}
	c.Floor("depth-parameter call sites", nSites, 8)

	// increment discipline per family function
	type incS struct {
		incs    int8
		guarded bool
	}
	guardOf := map[*FuncInfo]*ast.BinaryExpr{}
	for _, g := range guards {
		if g.param != nil {
			guardOf[g.f] = g.cmp
		}
	}
	fams := map[*FuncInfo][]*types.Var{}
	for pv, f := range family {
		fams[f] = append(fams[f], pv)
	}
	var famFuncs []*FuncInfo
	for f := range fams {
		famFuncs = append(famFuncs, f)
	}
	sort.Slice(famFuncs, func(i, j int) bool { return famFuncs[i].Pos() < famFuncs[j].Pos() })
	for _, f := range famFuncs {
		pv := fams[f][0]
		info := f.Info()
		wantInc := int8(0)
		if guardOf[f] != nil {
			wantInc = 1
		}
		bad := ""
		fl := &Flow[incS]{Fn: f}
		passes := func(n ast.Node, s incS) {
			for _, call := range CallsIn(n) {
				cf := Callee(info, call)
				if cf == nil {
					continue
				}
				csig := cf.Type().(*types.Signature)
				for i, arg := range call.Args {
					if i < csig.Params().Len() {
						if _, isFam := family[csig.Params().At(i)]; isFam && IdentObj(info, arg) == pv {
							if s.incs != wantInc && bad == "" {
								bad = fmt.Sprintf("%s passed to %s after %d increments (expected %d) at %s", pv.Name(), QualName(cf), s.incs, wantInc, p.Position(call.Pos()))
							}
							if guardOf[f] != nil && !s.guarded && bad == "" {
								bad = fmt.Sprintf("%s passed to %s on a path that skips the depth guard at %s", pv.Name(), QualName(cf), p.Position(call.Pos()))
							}
						}
					}
				}
			}
		}
		fl.Node = func(n ast.Node, s incS) []incS {
			passes(n, s)
			switch st := n.(type) {
			case *ast.IncDecStmt:
				if IdentObj(info, st.X) == pv {
					if st.Tok == token.INC && s.incs < 3 {
						s.incs++
					} else if st.Tok == token.DEC {
						s.incs = 3
					}
					if !s.guarded && guardOf[f] != nil && bad == "" {
						bad = "depth changed before the guard at " + p.Position(st.Pos())
					}
				}
			case *ast.AssignStmt:
				for _, l := range st.Lhs {
					if IdentObj(info, l) == pv {
						s.incs = 3 // arbitrary reassignment
						if bad == "" {
							bad = "depth parameter reassigned at " + p.Position(st.Pos())
						}
					}
				}
			case *ast.ReturnStmt:
				if guardOf[f] != nil && !s.guarded && bad == "" {
					bad = "a path returns at " + p.Position(st.Pos()) + " without having evaluated the depth guard (a container is accepted unchecked)"
				}
				return nil
			}
			return []incS{s}
		}
		fl.Leaf = func(e ast.Expr, s incS) (t, fs []incS) {
			passes(e, s)
			if guardOf[f] != nil && ast.Unparen(e) == ast.Expr(guardOf[f]) {
				g := s
				g.guarded = true // the guard has been evaluated on this path (either outcome)
				return []incS{g}, []incS{g}
			}
			return []incS{s}, []incS{s}
		}
		fl.Run(incS{})
		c.Oblige("increments:"+f.Name, f.Pos(), bad == "", bad)
	}

	// the guards themselves
	for _, g := range guards {
		var off int64 = -1
		how := ""
		switch {
		case isLenOfField(g.f.Info(), g.x, stackField):
			off, how = 0, "len(m.Stack)"
		case g.param != nil && paramOK[g.param]:
			off, how = depthOffset, "depth parameter fed by Tokens.Depth()"
		}
		// smallest refused value of X (X only ever grows by one, so == V, >= V and > V-1 are equivalent)
		thr := int64(-1 << 40)
		xLeft := ast.Unparen(g.cmp.X) == ast.Unparen(g.x)
		op := g.cmp.Op
		if !xLeft { // const OP x
			switch op {
			case token.LSS:
				op = token.GTR
			case token.LEQ:
				op = token.GEQ
			case token.GTR:
				op = token.LSS
			case token.GEQ:
				op = token.LEQ
			}
		}
		switch op {
		case token.EQL, token.GEQ:
			thr = g.v
		case token.GTR:
			thr = g.v + 1
		}
		ok := off >= 0 && thr-off == max
		c.ObligeInfo("guard:"+g.f.Name, g.cmp.Pos(), ok,
			fmt.Sprintf("compares %s (%s, offset %d) %s %d, i.e. refuses from %d; limit is %d", exprString(g.x), how, off, g.cmp.Op, g.v, thr-off, max))
	}
}

func isLenOfField(info *types.Info, e ast.Expr, f *types.Var) bool {
	call, ok := ast.Unparen(e).(*ast.CallExpr)
	if !ok || !IsBuiltin(info, call, "len") || len(call.Args) != 1 {
		return false
	}
	return f != nil && SelField(info, call.Args[0]) == f
}

// ---- KIND-1 ----------------------------------------------------------------

var valueKinds = []byte{'n', 'f', 't', '"', '0', '{', '['}
var tokenKinds = []byte{'n', 'f', 't', '"', '0', '{', '}', '[', ']'}

func kindName(b byte) string { return fmt.Sprintf("%q", rune(b)) }

// kindCases collects the constant case values of all switches in f whose tag has type jsontext.Kind.
// It returns the union and, for the largest such switch, whether its default clause fails.
func kindCases(p *Program, f *FuncInfo) (union map[byte]bool, defaultFails bool, nSwitches int) {
	return kindCasesDepth(p, f, 0)
}

func kindCasesDepth(p *Program, f *FuncInfo, depth int) (union map[byte]bool, defaultFails bool, nSwitches int) {
	info := f.Info()
	kindT := p.NamedType("jsontext", "Kind")
	union = map[byte]bool{}
	best := -1
	InspectNoLit(f.Body(), func(n ast.Node) bool {
		sw, ok := n.(*ast.SwitchStmt)
		if !ok {
			return true
		}
		var tagT types.Type
		if sw.Tag != nil {
			tagT = info.TypeOf(sw.Tag)
		}
		if tagT == nil || kindT == nil || !types.Identical(tagT, kindT) {
			return true
		}
		nSwitches++
		count := 0
		var def *ast.CaseClause
		for _, st := range sw.Body.List {
			cc := st.(*ast.CaseClause)
			if cc.List == nil {
				def = cc
			}
			for _, e := range cc.List {
				if v, isC := ConstI64(info, e); isC && v >= 0 && v < 256 {
					union[byte(v)] = true
					count++
				}
			}
		}
		if count > best {
			best = count
			defaultFails = false
			if def != nil {
				body := &ast.BlockStmt{List: def.Body}
				// fails: returns a non-nil error, assigns a non-nil error to err, or panics
				for _, r := range findAll[*ast.ReturnStmt](body) {
					if len(r.Results) > 0 && !IsNilIdent(info, r.Results[len(r.Results)-1]) && isErrorType(info.TypeOf(r.Results[len(r.Results)-1])) {
						defaultFails = true
					}
				}
				for _, as := range findAll[*ast.AssignStmt](body) {
					for i, l := range as.Lhs {
						if isErrorType(info.TypeOf(l)) && i < len(as.Rhs) && !IsNilIdent(info, as.Rhs[i]) {
							defaultFails = true
						}
					}
				}
				for _, call := range findAll[*ast.CallExpr](body) {
					if IsBuiltin(info, call, "panic") {
						defaultFails = true
					}
				}
				// the default arm may hand the remaining kinds to a private helper with its own kind switch
				if !defaultFails && depth < 2 {
					for _, call := range findAll[*ast.CallExpr](body) {
						if h := p.InlineAny(f)(call); h != nil {
							hu, hf, hn := kindCasesDepth(p, h, depth+1)
							if hn > 0 {
								for k := range hu {
									union[k] = true
								}
								defaultFails = hf
							}
						}
					}
				}
			}
		}
		return true
	})
	if nSwitches == 0 && depth < 2 {
		// arms peeled off in front of the dispatch: `if k == '{' { ... }`
		ifKinds := map[byte]bool{}
		InspectNoLit(f.Body(), func(n ast.Node) bool {
			ifs, ok := n.(*ast.IfStmt)
			if !ok {
				return true
			}
			for _, cj := range disjuncts(ifs.Cond) {
				if be, ok := cj.(*ast.BinaryExpr); ok && be.Op == token.EQL {
					if t := info.TypeOf(be.X); t != nil && kindT != nil && types.Identical(t, kindT) {
						if v, isC := ConstI64(info, be.Y); isC && v >= 0 && v < 256 {
							ifKinds[byte(v)] = true
						}
					}
				}
			}
			return true
		})
		defer func() {
			if nSwitches > 0 {
				for k := range ifKinds {
					union[k] = true
				}
			}
		}()
		// the whole dispatch may have been moved into a private helper that is handed the kind
		InspectNoLit(f.Body(), func(n ast.Node) bool {
			call, ok := n.(*ast.CallExpr)
			if !ok {
				return true
			}
			hasKindArg := false
			for _, a := range call.Args {
				if t := info.TypeOf(a); t != nil && kindT != nil && types.Identical(t, kindT) {
					hasKindArg = true
				}
			}
			if !hasKindArg {
				return true
			}
			if h := p.InlineAny(f)(call); h != nil {
				hu, hf, hn := kindCasesDepth(p, h, depth+1)
				if hn > 0 && len(hu) > len(union) {
					union, defaultFails, nSwitches = hu, hf, hn
				}
			}
			return true
		})
	}
	return
}

func ruleKIND1(c *Ctx) {
	p := c.P
	// normKind table
	jt := p.Pkg("jsontext")
	if jt == nil {
		c.Undecide("jsontext", "package missing")
		return
	}
	var tbl *ast.CompositeLit
	var tblPos token.Pos
	for _, f := range jt.Syntax {
		for _, vs := range findAllDeep[*ast.ValueSpec](f) {
			for i, nm := range vs.Names {
				if nm.Name == "normKind" && i < len(vs.Values) && jt.TypesInfo.Defs[nm] != nil && jt.TypesInfo.Defs[nm].Parent() == jt.Types.Scope() {
					tbl, _ = ast.Unparen(vs.Values[i]).(*ast.CompositeLit)
					tblPos = nm.Pos()
				}
			}
		}
	}
	if tbl == nil {
		c.Undecide("jsontext.normKind", "table literal not found")
	} else {
		got := map[byte]byte{}
		okShape := true
		for _, el := range tbl.Elts {
			kv, ok := el.(*ast.KeyValueExpr)
			if !ok {
				okShape = false
				continue
			}
			k, ok1 := ConstI64(jt.TypesInfo, kv.Key)
			v, ok2 := ConstI64(jt.TypesInfo, kv.Value)
			if !ok1 || !ok2 {
				okShape = false
				continue
			}
			if v != 0 {
				got[byte(k)] = byte(v)
			}
		}
		want := map[byte]byte{'n': 'n', 'f': 'f', 't': 't', '"': '"', '{': '{', '}': '}', '[': '[', ']': ']', '-': '0'}
		for d := byte('0'); d <= '9'; d++ {
			want[d] = '0'
		}
		var diffs []string
		for k, v := range want {
			if got[k] != v {
				diffs = append(diffs, fmt.Sprintf("%s->%s (want %s)", kindName(k), kindName(got[k]), kindName(v)))
			}
		}
		for k, v := range got {
			if _, ok := want[k]; !ok {
				diffs = append(diffs, fmt.Sprintf("unexpected %s->%s", kindName(k), kindName(v)))
			}
		}
		sort.Strings(diffs)
		c.Oblige("table:normKind", tblPos, okShape && len(diffs) == 0, strings.Join(diffs, "; "))
	}
	subjects := []struct {
		name        string
		kinds       []byte
		needDefault bool
	}{
		{"jsontext.(*decoderState).ReadToken", tokenKinds, true},
		{"jsontext.(*encoderState).WriteToken", tokenKinds, true},
		{"jsontext.(*decoderState).consumeValue", valueKinds, true},
		{"jsontext.(*encoderState).reformatValue", valueKinds, true},
		{"jsontext.(*decoderState).ReadValue", valueKinds, false},
		{"jsontext.(*encoderState).WriteValue", valueKinds, false},
		{"json.unmarshalValueAny", valueKinds, true},
	}
	for _, s := range subjects {
		f := p.Func(s.name)
		if f == nil || f.Body() == nil {
			c.Undecide(s.name, "subject function missing")
			continue
		}
		union, defFails, n := kindCases(p, f)
		if n == 0 {
			c.Undecide(s.name+"/switch", "no switch over a jsontext.Kind value")
			continue
		}
		var missing []string
		for _, k := range s.kinds {
			if !union[k] {
				missing = append(missing, kindName(k))
			}
		}
		ok := len(missing) == 0 && (!s.needDefault || defFails)
		detail := ""
		if len(missing) > 0 {
			detail = "no case for kind(s) " + strings.Join(missing, ",")
		} else if !ok {
			detail = "the default clause of the kind switch does not fail"
		}
		c.Oblige("dispatch:"+s.name, f.Pos(), ok, detail)
	}
}

func disjuncts(e ast.Expr) []ast.Expr {
	e = ast.Unparen(e)
	if be, ok := e.(*ast.BinaryExpr); ok && be.Op == token.LOR {
		return append(disjuncts(be.X), disjuncts(be.Y)...)
	}
	return []ast.Expr{e}
}
