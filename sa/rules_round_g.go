package main

import (
	"fmt"
	"go/ast"
	"go/token"
	"go/types"
	"sort"
	"strings"
)

func init() {
	register(&Rule{ID: "SCRATCH-1", Doc: "a scratch value is reset before every decode: a local made by newAddressableValue that is handed to an unmarshal function (a call whose parameters are (*jsontext.Decoder, addressableValue, *jsonopts.Struct)) has been given a value (SetZero, Set or a fresh newAddressableValue) since it was last handed out, on every path — in a member loop the previous member's key or value must not be merged into the next one; and a scratch value that is written back into its container somewhere (Set / SetMapIndex with v.Value) is written back on every path from the decode to a return", Run: ruleSCRATCH1})
	register(&Rule{ID: "SEENSET-1", Doc: "the set of struct fields already seen only grows: in the methods of uintSet and uintSet64 every assignment to the receiver or one of its fields derives the new value from the old one (append(s.f, ..), s.f[..], |=); insert computes `has` before it sets the bit and returns its negation", Run: ruleSEENSET1})
	register(&Rule{ID: "POS-2", Doc: "offset and pointer of a SemanticError built around user code describe the same value: in newSemanticErrorWithPosition, whenever the pointer is computed for the next value (depth and length unchanged since before the call) the decoder offset is also that of the next value (InputOffset plus CountNextDelimWhitespace)", Run: rulePOS2})
	register(&Rule{ID: "NAMES-2", Doc: "the name stack records every object name, whatever the options: no call of Names.ReplaceLastQuotedOffset / replaceLastUnquotedName sits under a test of a validation option (AllowDuplicateNames, AllowInvalidUTF8), and each token-level writer/reader that inserts a name into the current namespace also records it in the name stack", Run: ruleNAMES2})
	register(&Rule{ID: "GUARD-1", Doc: "a short-circuit length guard in front of a constant index is exact (tokenizer packages jsontext and jsonwire): in `G || E` (or `!G && E`) where E reads s[k] for constants k only and G is a pure length test of the same s, G holds exactly when len(s) <= max k — a wider guard (`len(s) <= 1 || s[0] == '/'`) silently decides the cases it swallows", Run: ruleGUARD1})
	register(&Rule{ID: "SHARE-1", Doc: "a list built from caller-supplied lists owns its backing array: a slice field that is extended with append in some function of package json is never assigned another object's slice (field of a different value, or a parameter) without a copy in that function — appending to an adopted slice can overwrite the spare capacity shared with a sibling list built from the same prefix", Run: ruleSHARE1})
}

// ---- SCRATCH-1 -----------------------------------------------------------------

func ruleSCRATCH1(c *Ctx) {
	p := c.P
	n := 0
	av := p.NamedType("json", "addressableValue")
	if av == nil {
		c.Undecide("json.addressableValue", "type missing")
		return
	}
	isNew := func(info *types.Info, e ast.Expr) bool {
		call, ok := ast.Unparen(e).(*ast.CallExpr)
		if !ok {
			return false
		}
		cf := Callee(info, call)
		return cf != nil && cf.Name() == "newAddressableValue"
	}
	for _, f := range p.FuncsIn("json") {
		if f.Body() == nil {
			continue
		}
		info := f.Info()
		// scratch locals of this function
		idx := map[types.Object]uint{}
		var order []types.Object
		InspectNoLit(f.Body(), func(nd ast.Node) bool {
			as, ok := nd.(*ast.AssignStmt)
			if !ok || len(as.Lhs) != len(as.Rhs) {
				return true
			}
			for i, r := range as.Rhs {
				if isNew(info, r) {
					if o := IdentObj(info, as.Lhs[i]); o != nil {
						if _, seen := idx[o]; !seen && len(idx) < 16 {
							idx[o] = uint(len(idx))
							order = append(order, o)
						}
					}
				}
			}
			return true
		})
		if len(idx) == 0 {
			continue
		}
		// is call an unmarshal hand-off of scratch var o ?
		handoff := func(call *ast.CallExpr) (types.Object, bool) {
			sig, ok := info.TypeOf(call.Fun).Underlying().(*types.Signature)
			if !ok || sig.Params().Len() != 3 || len(call.Args) != 3 {
				return nil, false
			}
			if !isPtrToNamed(sig.Params().At(0).Type(), pkgAlias["jsontext"], "Decoder") {
				return nil, false
			}
			if !types.Identical(sig.Params().At(1).Type(), av) {
				return nil, false
			}
			o := IdentObj(info, call.Args[1])
			if _, ok := idx[o]; !ok {
				return nil, false
			}
			return o, true
		}
		type st struct{ fresh, pending uint16 }
		bad := map[token.Pos]types.Object{}
		sites := map[token.Pos]types.Object{}
		// scratch values that are written back into their container somewhere (`X.Set(v.Value)`,
		// `X.SetMapIndex(k, v.Value)`): after a decode into them every path to a return must do so
		storedBack := func(call *ast.CallExpr) (types.Object, bool) {
			sel, ok := ast.Unparen(call.Fun).(*ast.SelectorExpr)
			if !ok || (sel.Sel.Name != "Set" && sel.Sel.Name != "SetMapIndex") || len(call.Args) == 0 {
				return nil, false
			}
			vs, ok := ast.Unparen(call.Args[len(call.Args)-1]).(*ast.SelectorExpr)
			if !ok || vs.Sel.Name != "Value" {
				return nil, false
			}
			o := IdentObj(info, vs.X)
			if _, ok := idx[o]; !ok {
				return nil, false
			}
			return o, true
		}
		var storable uint16
		InspectNoLit(f.Body(), func(nd ast.Node) bool {
			if call, ok := nd.(*ast.CallExpr); ok {
				if o, ok := storedBack(call); ok {
					storable |= 1 << idx[o]
				}
			}
			return true
		})
		lost := map[types.Object]token.Pos{}
		visit := func(nd ast.Node, s st) st {
			// assignments first: x = newAddressableValue(..)
			if as, ok := nd.(*ast.AssignStmt); ok {
				for _, l := range as.Lhs {
					if o := IdentObj(info, l); o != nil {
						if k, ok := idx[o]; ok {
							s.fresh |= 1 << k // any whole-value assignment (also from a helper's result) replaces the previous contents
						}
					}
				}
			}
			for _, call := range CallsIn(nd) {
				if o, ok := handoff(call); ok {
					sites[call.Pos()] = o
					if s.fresh&(1<<idx[o]) == 0 {
						bad[call.Pos()] = o
					}
					s.fresh &^= 1 << idx[o]
					s.pending |= 1 << idx[o] & storable
					continue
				}
				if o, ok := storedBack(call); ok {
					s.pending &^= 1 << idx[o]
					continue
				}
				if sel, ok := ast.Unparen(call.Fun).(*ast.SelectorExpr); ok && (sel.Sel.Name == "SetZero" || sel.Sel.Name == "Set") {
					if k, ok := idx[IdentObj(info, sel.X)]; ok {
						s.fresh |= 1 << k
					}
				}
			}
			return s
		}
		fl := &Flow[st]{Fn: f}
		fl.Node = func(nd ast.Node, s st) []st {
			s = visit(nd, s)
			if r, ok := nd.(*ast.ReturnStmt); ok {
				for o, k := range idx {
					if s.pending&(1<<k) != 0 {
						if _, seen := lost[o]; !seen {
							lost[o] = r.Pos()
						}
					}
				}
				return nil
			}
			return []st{s}
		}
		fl.Leaf = func(e ast.Expr, s st) (t, fs []st) { s = visit(e, s); return []st{s}, []st{s} }
		fl.Run(st{})
		for _, o := range order {
			if storable&(1<<idx[o]) == 0 {
				continue
			}
			n++
			pos, isLost := lost[o]
			if !isLost {
				pos = o.Pos()
			}
			c.Oblige(fmt.Sprintf("stored-back:%s:%s", f.Name, o.Name()), pos, !isLost,
				"after decoding into the scratch value "+o.Name()+" this return is reached without writing it back into its container (Set / SetMapIndex): what was decoded — a new slice header, a replaced map entry — is dropped and the container keeps the old contents")
		}
		var ps []token.Pos
		for q := range sites {
			ps = append(ps, q)
		}
		sort.Slice(ps, func(i, j int) bool { return ps[i] < ps[j] })
		ord := map[string]int{}
		for _, q := range ps {
			n++
			nm := sites[q].Name()
			ord[nm]++
			c.Oblige(fmt.Sprintf("reset-before-decode:%s:%s#%d", f.Name, nm, ord[nm]), q, bad[q] == nil,
				"scratch value "+nm+" reaches this unmarshal call on a path where it still holds what the previous call decoded into it (no SetZero/Set since): the decoded value is merged into stale contents — with pointer or composite types the previous member is overwritten or leaks into this one")
		}
	}
	c.Floor("scratch values handed to an unmarshal function", n, 6)
}

func isPtrToNamed(t types.Type, pkg, name string) bool {
	pt, ok := t.(*types.Pointer)
	return ok && isNamed(pt.Elem(), pkg, name)
}

// ---- SEENSET-1 -----------------------------------------------------------------

func ruleSEENSET1(c *Ctx) {
	p := c.P
	n := 0
	for _, tn := range []string{"uintSet", "uintSet64"} {
		if p.NamedType("json", tn) == nil {
			c.Undecide("json."+tn, "type missing")
			return
		}
	}
	for _, f := range p.FuncsIn("json") {
		if f.Decl == nil || f.Obj == nil || f.Body() == nil {
			continue
		}
		sig := f.Obj.Type().(*types.Signature)
		if sig.Recv() == nil {
			continue
		}
		_, rn := recvTypeName(sig.Recv().Type())
		if rn != "uintSet" && rn != "uintSet64" {
			continue
		}
		info := f.Info()
		recv := sig.Recv()
		rootedAtRecv := func(e ast.Expr) bool {
			for {
				switch x := ast.Unparen(e).(type) {
				case *ast.Ident:
					return IdentObj(info, x) == recv
				case *ast.SelectorExpr:
					e = x.X
				case *ast.StarExpr:
					e = x.X
				case *ast.IndexExpr:
					e = x.X
				case *ast.SliceExpr:
					e = x.X
				default:
					return false
				}
			}
		}
		k := 0
		InspectNoLit(f.Body(), func(nd ast.Node) bool {
			as, ok := nd.(*ast.AssignStmt)
			if !ok {
				return true
			}
			for i, l := range as.Lhs {
				if !rootedAtRecv(l) {
					continue
				}
				if _, isIdx := ast.Unparen(l).(*ast.IndexExpr); isIdx {
					continue // one element; element methods are checked on their own
				}
				n++
				k++
				ok := as.Tok != token.ASSIGN // |=, +=, ... derive from the old value
				if as.Tok == token.AND_ASSIGN || as.Tok == token.AND_NOT_ASSIGN || as.Tok == token.SUB_ASSIGN || as.Tok == token.SHR_ASSIGN {
					ok = false
				}
				if as.Tok == token.ASSIGN && i < len(as.Rhs) {
					lt := exprString(l)
					ast.Inspect(as.Rhs[i], func(m ast.Node) bool {
						if e, isE := m.(ast.Expr); isE && exprString(e) == lt {
							// a mention only as the operand of len/cap does not carry the contents over
							if par, isCall := p.Parent(f.File, e).(*ast.CallExpr); isCall && (IsBuiltin(info, par, "len") || IsBuiltin(info, par, "cap")) {
								return true
							}
							ok = true
						}
						return true
					})
				}
				c.Oblige(fmt.Sprintf("only-grows:%s#%d", f.Name, k), as.Pos(), ok,
					"the set's storage "+exprString(l)+" is replaced by a value that does not carry the old contents over: members recorded earlier are forgotten, so a later duplicate of an already-seen struct field is accepted")
			}
			return true
		})
		if f.Obj.Name() == "insert" {
			// return !has, with has computed before the bit is set
			okOrder := true
			var hasPos, setPos []token.Pos
			InspectNoLit(f.Body(), func(nd ast.Node) bool {
				if call, ok := nd.(*ast.CallExpr); ok {
					if sel, ok := ast.Unparen(call.Fun).(*ast.SelectorExpr); ok {
						switch sel.Sel.Name {
						case "has":
							hasPos = append(hasPos, call.Pos())
						case "set":
							setPos = append(setPos, call.Pos())
						}
					}
				}
				return true
			})
			if len(hasPos) == 0 || len(hasPos) != len(setPos) {
				okOrder = false
			} else {
				for i := range hasPos {
					if hasPos[i] > setPos[i] {
						okOrder = false
					}
				}
			}
			negated := true
			for _, r := range Returns(f.Body()) {
				if len(r.Results) != 1 {
					continue
				}
				u, ok := ast.Unparen(r.Results[0]).(*ast.UnaryExpr)
				if !ok || u.Op != token.NOT {
					negated = false
				}
			}
			n++
			c.Oblige("insert-reports-first:"+f.Name, f.Pos(), okOrder && negated, "insert does not test membership before setting the bit and return the negation: a first insertion and a repeated one become indistinguishable")
		}
	}
	c.Floor("assignments in uintSet methods", n, 3)
}

// ---- POS-2 ---------------------------------------------------------------------

// boolEval evaluates e over atoms; unknown sub-expressions make the result unknown.
func boolEval(e ast.Expr, atom func(ast.Expr) (val, ok bool)) tri {
	e = ast.Unparen(e)
	if v, ok := atom(e); ok {
		if v {
			return triYes
		}
		return triNo
	}
	switch x := e.(type) {
	case *ast.UnaryExpr:
		if x.Op == token.NOT {
			switch boolEval(x.X, atom) {
			case triYes:
				return triNo
			case triNo:
				return triYes
			}
		}
	case *ast.BinaryExpr:
		a, b := boolEval(x.X, atom), boolEval(x.Y, atom)
		switch x.Op {
		case token.LAND:
			if a == triNo || b == triNo {
				return triNo
			}
			if a == triYes && b == triYes {
				return triYes
			}
		case token.LOR:
			if a == triYes || b == triYes {
				return triYes
			}
			if a == triNo && b == triNo {
				return triNo
			}
		}
	}
	return triUnknown
}

func rulePOS2(c *Ctx) {
	p := c.P
	f := p.Func("json.newSemanticErrorWithPosition")
	if f == nil || f.Body() == nil {
		c.Undecide("json.newSemanticErrorWithPosition", "function missing")
		return
	}
	info := f.Info()
	// the function and the private phases it may have been split into
	var scope []*FuncInfo
	params := map[types.Object]bool{}
	for _, g := range p.CalleeClosure(f, 2) {
		if g.Decl == nil || g.Body() == nil || g.Pkg != f.Pkg {
			continue
		}
		scope = append(scope, g)
		if sig, ok := g.Obj.Type().(*types.Signature); ok {
			for i := 0; i < sig.Params().Len(); i++ {
				params[sig.Params().At(i)] = true
			}
		}
	}
	// single-assignment bool locals are replaced by their definition
	defs := map[types.Object]ast.Expr{}
	cnt := map[types.Object]int{}
	for _, g := range scope {
		InspectNoLit(g.Body(), func(nd ast.Node) bool {
			if as, ok := nd.(*ast.AssignStmt); ok && len(as.Lhs) == len(as.Rhs) {
				for i, l := range as.Lhs {
					if o := IdentObj(info, l); o != nil {
						cnt[o]++
						defs[o] = as.Rhs[i]
					}
				}
			}
			return true
		})
	}
	// atoms: `param (+k) == current`, keyed by operand type and k, so that the spelling of the
	// current depth/length (local, struct field, helper parameter) does not matter; other equalities by text
	stripConst := func(e ast.Expr) (ast.Expr, int64) {
		if be, ok := ast.Unparen(e).(*ast.BinaryExpr); ok && be.Op == token.ADD {
			if v, isC := ConstI64(info, be.Y); isC {
				return be.X, v
			}
		}
		return e, 0
	}
	atomKey := func(e ast.Expr) (string, bool) {
		be, ok := ast.Unparen(e).(*ast.BinaryExpr)
		if !ok || be.Op != token.EQL {
			return "", false
		}
		for _, pr := range [][2]ast.Expr{{be.X, be.Y}, {be.Y, be.X}} {
			x, k := stripConst(pr[0])
			if o := IdentObj(info, ast.Unparen(x)); o != nil && params[o] {
				if _, isC := ConstI64(info, pr[1]); !isC {
					return fmt.Sprintf("param:%s%+d==current", info.TypeOf(x).String(), k), true
				}
			}
		}
		a, b := strings.ReplaceAll(exprString(be.X), " ", ""), strings.ReplaceAll(exprString(be.Y), " ", "")
		if a > b {
			a, b = b, a
		}
		return a + "==" + b, true
	}
	var subst func(e ast.Expr) ast.Expr
	subst = func(e ast.Expr) ast.Expr {
		if id, ok := ast.Unparen(e).(*ast.Ident); ok {
			if o := IdentObj(info, id); o != nil && cnt[o] == 1 {
				if b, ok := o.Type().Underlying().(*types.Basic); ok && b.Kind() == types.Bool {
					return defs[o]
				}
			}
		}
		return e
	}
	// (a) the conditions under which where = +1; (b) those under which the decoder offset becomes
	// InputOffset() + CountNextDelimWhitespace()
	var nextConds, offConds []condCtx
	nextFound, offFound := false, false
	var offPos token.Pos
	for _, g := range scope {
		InspectNoLit(g.Body(), func(nd ast.Node) bool {
			as, ok := nd.(*ast.AssignStmt)
			if !ok || len(as.Lhs) != 1 || len(as.Rhs) != 1 {
				return true
			}
			if v, isC := ConstI64(info, as.Rhs[0]); isC && v == 1 && as.Tok == token.ASSIGN {
				if b, ok := info.TypeOf(as.Lhs[0]).Underlying().(*types.Basic); ok && b.Kind() == types.Int {
					nextFound = true
					nextConds = enclosingConds(p, g, as)
				}
			}
			s := exprString(as.Rhs[0])
			if strings.Contains(s, "InputOffset()") && strings.Contains(s, "CountNextDelimWhitespace()") {
				offFound = true
				offPos = as.Pos()
				offConds = enclosingConds(p, g, as)
			}
			return true
		})
	}
	if !nextFound || len(nextConds) == 0 {
		c.Undecide("json.newSemanticErrorWithPosition/where", "no `where = +1` under a condition")
		return
	}
	if !offFound {
		c.Violation("next-value-offset", f.Pos(), "the decoder arm never uses InputOffset()+CountNextDelimWhitespace(): an error raised before user code read anything is reported at the previous token")
		return
	}
	// atoms
	var atoms []string
	seen := map[string]bool{}
	var collect func(e ast.Expr)
	collect = func(e ast.Expr) {
		e = subst(ast.Unparen(e))
		if k, ok := atomKey(e); ok {
			if !seen[k] {
				seen[k] = true
				atoms = append(atoms, k)
			}
			return
		}
		switch x := ast.Unparen(e).(type) {
		case *ast.BinaryExpr:
			collect(x.X)
			collect(x.Y)
		case *ast.UnaryExpr:
			collect(x.X)
		}
	}
	for _, cc := range nextConds {
		collect(cc.cond)
	}
	for _, cc := range offConds {
		collect(cc.cond)
	}
	if len(atoms) == 0 || len(atoms) > 8 {
		c.Undecide("json.newSemanticErrorWithPosition/atoms", "conditions not made of equality tests")
		return
	}
	ok := true
	witness := ""
	for v := 0; v < 1<<len(atoms); v++ {
		at := func(e ast.Expr) (bool, bool) {
			e = subst(e)
			if k, isA := atomKey(e); isA {
				for i, a := range atoms {
					if a == k {
						return v&(1<<i) != 0, true
					}
				}
			}
			return false, false
		}
		// conjunction of the enclosing conditions; a type-switch arm or other non-boolean context is `unknown = may hold`
		all := func(cs []condCtx) tri {
			r := triYes
			for _, cc := range cs {
				t := boolEval(subst(cc.cond), func(e ast.Expr) (bool, bool) { return at(e) })
				if !cc.then {
					switch t {
					case triYes:
						t = triNo
					case triNo:
						t = triYes
					}
				}
				if t == triNo {
					return triNo
				}
				if t == triUnknown {
					r = triUnknown
				}
			}
			return r
		}
		if all(nextConds) == triYes && all(offConds) == triNo {
			ok = false
			var parts []string
			for i, a := range atoms {
				parts = append(parts, fmt.Sprintf("%s=%v", a, v&(1<<i) != 0))
			}
			witness = strings.Join(parts, ", ")
			break
		}
	}
	c.obligeW("next-value-offset", offPos, ok, "the pointer is computed for the next value (nothing was read by user code) while the offset is not: ByteOffset points into the previous token", witness)
}

// ---- NAMES-2 -------------------------------------------------------------------

func ruleNAMES2(c *Ctx) {
	p := c.P
	n := 0
	ft := p.Flags()
	validation := ft.Single["AllowDuplicateNames"] | ft.Single["AllowInvalidUTF8"]
	if validation == 0 {
		c.Undecide("jsonflags.AllowDuplicateNames", "flag missing")
		return
	}
	tokenLevel := map[string]bool{}
	for _, sub := range txn2Subjects {
		if !sub.noMutate {
			tokenLevel[sub.name] = true
		}
	}
	for _, f := range p.FuncsIn("jsontext", "json") {
		if f.Body() == nil {
			continue
		}
		info := f.Info()
		k := 0
		inserts, records := 0, 0
		var firstInsert token.Pos
		InspectNoLit(f.Body(), func(nd ast.Node) bool {
			call, ok := nd.(*ast.CallExpr)
			if !ok {
				return true
			}
			for _, nm := range []string{"insertQuoted", "InsertUnquoted"} {
				if _, ok := MethodCall(info, call, "jsontext", "objectNamespace", nm); ok {
					inserts++
					if firstInsert == token.NoPos {
						firstInsert = call.Pos()
					}
				}
			}
			isRec := false
			for _, nm := range []string{"ReplaceLastQuotedOffset", "replaceLastUnquotedName"} {
				if _, ok := MethodCall(info, call, "jsontext", "objectNameStack", nm); ok {
					isRec = true
				}
			}
			if !isRec {
				return true
			}
			records++
			n++
			k++
			var fl uint64
			for _, cc := range enclosingConds(p, f, call) {
				fl |= flagsRead(info, cc.cond)
			}
			fl &= validation
			c.Oblige(fmt.Sprintf("record-unconditional:%s#%d", f.Name, k), call.Pos(), fl == 0,
				"the name is recorded in the name stack only under option(s) "+p.Flags().Names(fl)+": with the other setting StackPointer and error pointers name the previous member (or read a stale offset)")
			return true
		})
		own := false
		if inserts > 0 && f.Obj != nil {
			// the namespace's own methods insert without recording
			if sig, ok := f.Obj.Type().(*types.Signature); ok && sig.Recv() != nil {
				if _, rn := recvTypeName(sig.Recv().Type()); rn == "objectNamespace" {
					own = true
				}
			}
		}
		if inserts > 0 && !own && tokenLevel[f.Name] {
			n++
			c.Oblige("insert-implies-record:"+f.Name, firstInsert, records > 0, "a name is added to the duplicate-name namespace but never recorded in the name stack")
		}
	}
	c.Floor("name-stack record sites and inserting functions", n, 8)
}

// ---- GUARD-1 -------------------------------------------------------------------

// lenBound recognises a pure length test of some s and returns (s, the largest length for which the
// test holds when it has the form len(s) <= B; ok). `s == ""`, `len(s) == 0` give B = 0; `len(s) < c` gives c-1.
func lenBound(info *types.Info, e ast.Expr) (subj string, bound int64, ok bool) {
	be, isB := ast.Unparen(e).(*ast.BinaryExpr)
	if !isB {
		return "", 0, false
	}
	lenOf := func(x ast.Expr) (string, bool) {
		call, ok := ast.Unparen(x).(*ast.CallExpr)
		if !ok || !IsBuiltin(info, call, "len") || len(call.Args) != 1 {
			return "", false
		}
		return exprString(call.Args[0]), true
	}
	if s, isS := ConstStr(info, be.Y); isS && s == "" && be.Op == token.EQL {
		if t := info.TypeOf(be.X); t != nil {
			if b, ok := t.Underlying().(*types.Basic); ok && b.Info()&types.IsString != 0 {
				return exprString(be.X), 0, true
			}
		}
	}
	if s, isL := lenOf(be.X); isL {
		if v, isC := ConstI64(info, be.Y); isC {
			switch be.Op {
			case token.EQL:
				if v == 0 {
					return s, 0, true
				}
			case token.LEQ:
				return s, v, true
			case token.LSS:
				return s, v - 1, true
			}
		}
	}
	if s, isL := lenOf(be.Y); isL {
		if v, isC := ConstI64(info, be.X); isC {
			switch be.Op {
			case token.EQL:
				if v == 0 {
					return s, 0, true
				}
			case token.GEQ:
				return s, v, true
			case token.GTR:
				return s, v - 1, true
			}
		}
	}
	return "", 0, false
}

func ruleGUARD1(c *Ctx) {
	p := c.P
	n := 0
	// confirmed on the tokenizer packages only: package json has a legitimate wider guard
	// (parseFracBase10 needs the dot *and* a digit, `len(b) < len(".0") || b[0] != '.'`)
	for _, f := range p.FuncsIn("jsontext", "jsonwire") {
		if f.Body() == nil {
			continue
		}
		info := f.Info()
		k := 0
		InspectNoLit(f.Body(), func(nd ast.Node) bool {
			be, ok := nd.(*ast.BinaryExpr)
			if !ok || be.Op != token.LOR {
				return true
			}
			subj, bound, ok := lenBound(info, be.X)
			if !ok {
				return true
			}
			// E: constant indexes into subj only
			maxK := int64(-1)
			pure := true
			ast.Inspect(be.Y, func(m ast.Node) bool {
				switch x := m.(type) {
				case *ast.IndexExpr:
					if exprString(x.X) == subj {
						if v, isC := ConstI64(info, x.Index); isC {
							if v > maxK {
								maxK = v
							}
						} else {
							pure = false
						}
					}
				case *ast.SliceExpr:
					if exprString(x.X) == subj {
						pure = false
					}
				case *ast.CallExpr:
					// another use of subj as a whole (HasPrefix(s, ..), len(s) ..) makes the guard more than an index guard
					for _, a := range x.Args {
						if exprString(a) == subj {
							pure = false
						}
					}
				}
				return true
			})
			if maxK < 0 || !pure {
				return true
			}
			n++
			k++
			c.Oblige(fmt.Sprintf("exact-index-guard:%s#%d", f.Name, k), be.Pos(), bound == maxK,
				fmt.Sprintf("`%s` short-circuits for every %s of length <= %d although the right-hand side only needs length > %d: inputs of the swallowed lengths are decided by the guard instead of by the test on %s[%d]", exprString(be.X), subj, bound, maxK, subj, maxK))
			return true
		})
	}
	c.Floor("short-circuit index guards", n, 2)
}

// ---- SHARE-1 -------------------------------------------------------------------

func ruleSHARE1(c *Ctx) {
	p := c.P
	// slice fields extended with append somewhere
	appended := map[*types.Var][]token.Pos{}
	for _, f := range p.FuncsIn("json", "jsonopts", "v1") {
		if f.Body() == nil {
			continue
		}
		info := f.Info()
		InspectNoLit(f.Body(), func(nd ast.Node) bool {
			call, ok := nd.(*ast.CallExpr)
			if !ok || !IsBuiltin(info, call, "append") || len(call.Args) == 0 {
				return true
			}
			if fv := SelField(info, call.Args[0]); fv != nil {
				if _, isSl := fv.Type().Underlying().(*types.Slice); isSl {
					appended[fv.Origin()] = append(appended[fv.Origin()], call.Pos())
				}
			}
			return true
		})
	}
	n := 0
	for _, f := range p.FuncsIn("json", "jsonopts", "v1") {
		if f.Body() == nil {
			continue
		}
		info := f.Info()
		k := 0
		InspectNoLit(f.Body(), func(nd ast.Node) bool {
			as, ok := nd.(*ast.AssignStmt)
			if !ok || len(as.Lhs) != len(as.Rhs) {
				return true
			}
			for i, l := range as.Lhs {
				fv := SelField(info, l)
				if fv == nil || len(appended[fv.Origin()]) == 0 {
					continue
				}
				n++
				k++
				r := ast.Unparen(as.Rhs[i])
				adopted := ""
				switch x := r.(type) {
				case *ast.SelectorExpr:
					if rf := SelField(info, x); rf != nil {
						lb := exprString(ast.Unparen(l).(*ast.SelectorExpr).X)
						if exprString(x.X) != lb {
							adopted = exprString(x)
						}
					}
				case *ast.Ident:
					if v, ok := IdentObj(info, x).(*types.Var); ok && isParamOf(f, nil, v) {
						adopted = x.Name
					}
				}
				c.Oblige(fmt.Sprintf("owns-backing-array:%s:%s#%d", f.Name, fv.Name(), k), as.Pos(), adopted == "",
					"field "+fv.Name()+" (extended with append at "+p.Position(appended[fv.Origin()][0])+") adopts the slice "+adopted+" without copying it: a later append writes into spare capacity that another list built from the same prefix also uses")
			}
			return true
		})
	}
	c.Floor("assignments to appended slice fields", n, 2)
}
