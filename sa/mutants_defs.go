package main

// Adequacy mutants: each is a change that still compiles and that the rule
// set of the listed properties must report. See DESIGN.md §3 "must catch".
func init() {
	addMutants(
		// ---- C19 / OPT
		Mutant{ID: "opt2-wrong-flag-in-false-branch", Props: []string{"C19"}, File: "options.go", Func: "FormatNilMapAsNull",
			Old: "return jsonflags.FormatNilMapAsNull | 0", New: "return jsonflags.FormatNilSliceAsNull | 0", Rule: "OPT-2"},
		Mutant{ID: "opt2-inverted-value", Props: []string{"C19"}, File: "jsontext/options.go", Func: "AllowInvalidUTF8",
			Old: "return jsonflags.AllowInvalidUTF8 | 1", New: "return jsonflags.AllowInvalidUTF8 | 0", Rule: "OPT-2"},
		Mutant{ID: "opt3-struct-copies-wrong-field", Props: []string{"C19"}, File: "internal/jsonopts/options.go", Func: "Struct.Join",
			Old: "dst.IndentPrefix = src.IndentPrefix", New: "dst.IndentPrefix = src.Indent", Rule: "OPT-3"},
		Mutant{ID: "opt3-get-tests-wrong-flag", Props: []string{"C19"}, File: "internal/jsonopts/options.go", Func: "GetOption",
			Old: "if !structOpts.Flags.Has(jsonflags.ByteLimit) {", New: "if !structOpts.Flags.Has(jsonflags.DepthLimit) {", Rule: "OPT-3"},
		Mutant{ID: "opt3-struct-drops-unmarshalers", Props: []string{"C19"}, File: "internal/jsonopts/options.go", Func: "Struct.Join",
			Old: "if src.Flags.Has(jsonflags.Unmarshalers) {\n\t\t\t\t\tdst.Unmarshalers = src.Unmarshalers\n\t\t\t\t}", New: "", Rule: "OPT-3"},
		Mutant{ID: "opt1-defaultv2-values", Props: []string{"C19", "C09"}, File: "internal/jsonopts/options.go",
			Old: "Values:   uint64(0), // all flags in DefaultV1Flags are false", New: "Values:   uint64(jsonflags.Deterministic),", Rule: "OPT-1"},
		Mutant{ID: "opt1-nonboolean-overlaps-default", Props: []string{"C19"}, File: "internal/jsonflags/flags.go",
			Old: "\t\tUnmarshalArrayFromAnyLength\n", New: "\t\tUnmarshalArrayFromAnyLength |\n\t\tFormatTag\n", Rule: "OPT-1"},
		Mutant{ID: "opt1-anyescape-loses-js", Props: []string{"C19", "C11"}, File: "internal/jsonflags/flags.go",
			Old: "AnyEscape = EscapeForHTML | EscapeForJS", New: "AnyEscape = EscapeForHTML", Rule: "OPT-1"},
		Mutant{ID: "opt3-json-join-wrong-flag", Props: []string{"C19"}, File: "options.go", Func: "init",
			Old: "dst.Flags.Set(jsonflags.Unmarshalers | 1)", New: "dst.Flags.Set(jsonflags.Marshalers | 1)", Rule: "OPT-3"},
	)
}

func init() {
	addMutants(
		// ---- C06/C05/C16/C20: TXN
		Mutant{ID: "txn2-commit-buf-before-error-tail", Props: []string{"C06", "C16"}, File: "jsontext/encode.go", Func: "encoderState.WriteToken",
			Old: "\tif err != nil {\n\t\treturn wrapSyntacticError(e, err, pos, +1)\n\t}\n\n\t// Finish off the buffer and store it back into e.\n\te.Buf = b\n",
			New: "\te.Buf = b\n\tif err != nil {\n\t\treturn wrapSyntacticError(e, err, pos, +1)\n\t}\n", Rule: "TXN-2"},
		Mutant{ID: "txn2-names-push-before-pushObject", Props: []string{"C06", "C16"}, File: "jsontext/encode.go", Func: "encoderState.WriteToken",
			Old: "\t\tif err = e.Tokens.pushObject(); err != nil {\n\t\t\tbreak\n\t\t}\n\t\te.Names.push()\n",
			New: "\t\te.Names.push()\n\t\tif err = e.Tokens.pushObject(); err != nil {\n\t\t\tbreak\n\t\t}\n", Rule: "TXN-2"},
		Mutant{ID: "txn1-popObject-clears-before-checks", Props: []string{"C06", "C05"}, File: "jsontext/state.go", Func: "stateMachine.popObject",
			Old: "\tswitch {\n\tcase !m.Last.isObject():", New: "\tm.Last.decrement()\n\tswitch {\n\tcase !m.Last.isObject():", Rule: "TXN-1"},
		Mutant{ID: "txn3-drop-deferred-namespace-pop", Props: []string{"C06", "C12"}, File: "jsontext/encode.go", Func: "encoderState.reformatObject",
			Old: "\t\tdefer e.Namespaces.pop()\n", New: "", Rule: "TXN-2"},
		Mutant{ID: "txn2-decoder-append-before-consume", Props: []string{"C05", "C16"}, File: "jsontext/decode.go", Func: "decoderState.ReadToken",
			Old: "\t\tif jsonwire.ConsumeNull(d.buf[pos:]) == 0 {", New: "\t\tif err = d.Tokens.appendLiteral(); err != nil {\n\t\t\treturn Token{}, wrapSyntacticError(d, err, pos, +1)\n\t\t}\n\t\tif jsonwire.ConsumeNull(d.buf[pos:]) == 0 {", Rule: "TXN-2"},
		Mutant{ID: "txn2-revert-F3-WriteToken", Props: []string{"C06", "C16", "C20"}, File: "jsontext/encode.go", Func: "encoderState.WriteToken",
			Old: "\t\t\tif !e.Tokens.Last.isValidNamespace() {\n\t\t\t\terr = errInvalidNamespace\n\t\t\t\tbreak\n\t\t\t}\n\t\t\tif !e.Flags.Get(jsonflags.AllowDuplicateNames) {\n",
			New: "\t\t\tif !e.Flags.Get(jsonflags.AllowDuplicateNames) {\n\t\t\t\tif !e.Tokens.Last.isValidNamespace() {\n\t\t\t\t\terr = errInvalidNamespace\n\t\t\t\t\tbreak\n\t\t\t\t}\n", Rule: "TXN-2"},
		Mutant{ID: "txn2-revert-F3-ReadValue", Props: []string{"C05", "C16"}, File: "jsontext/decode.go", Func: "decoderState.ReadValue",
			Old: "\t\t\tif !d.Tokens.Last.isValidNamespace() {\n\t\t\t\terr = errInvalidNamespace\n\t\t\t\tbreak\n\t\t\t}\n\t\t\tif !d.Flags.Get(jsonflags.AllowDuplicateNames) {\n",
			New: "\t\t\tif !d.Flags.Get(jsonflags.AllowDuplicateNames) {\n\t\t\t\tif !d.Tokens.Last.isValidNamespace() {\n\t\t\t\t\terr = errInvalidNamespace\n\t\t\t\t\tbreak\n\t\t\t\t}\n", Rule: "TXN-2"},
		Mutant{ID: "txn2-peekkind-advances", Props: []string{"C05"}, File: "jsontext/decode.go", Func: "decoderState.PeekKind",
			Old: "\td.peekPos, d.peekErr = pos, nil\n", New: "\td.peekPos, d.peekErr = pos, nil\n\td.prevEnd = pos\n", Rule: "TXN-2"},
		Mutant{ID: "txn1-insert-commits-before-dup-check", Props: []string{"C06", "C08"}, File: "jsontext/state.go", Func: "objectNamespace.insert",
			Old: "\tname = allNames[len(ns.allUnquotedNames):]\n", New: "\tname = allNames[len(ns.allUnquotedNames):]\n\tns.allUnquotedNames = allNames\n", Rule: "TXN-1"},
	)
}

func init() {
	addMutants(
		// ---- C05/C16: STALE-1
		Mutant{ID: "stale1-consumeString-reuses-pos-after-fetch", Props: []string{"C05", "C16"}, File: "jsontext/decode.go", Func: "decoderState.consumeString",
			Old: "\t\t\tabsPos := d.baseOffset + int64(pos)\n\t\t\terr = d.fetch() // will mutate d.buf and invalidate pos\n\t\t\tpos = int(absPos - d.baseOffset)\n",
			New: "\t\t\terr = d.fetch()\n", Rule: "STALE-1"},
		Mutant{ID: "stale1-revert-F1", Props: []string{"C05", "C16"}, File: "jsontext/decode.go", Func: "decoderState.consumeObject",
			Old: "\t\t\tquotedName = d.buf[int(nameAbsPos-d.baseOffset):][:n]\n\t\t\treturn pos, wrapWithObjectName(err, quotedName)", New: "\t\t\treturn pos, wrapWithObjectName(err, quotedName)", Rule: "STALE-1"},
		Mutant{ID: "stale1-readtoken-name-slice-kept-across-whitespace", Props: []string{"C05"}, File: "jsontext/decode.go", Func: "decoderState.PeekKind",
			Old: "\tnext := Kind(d.buf[pos]).normalize()\n\tif d.Tokens.needDelim(next) != delim {", New: "\trest := d.buf[pos:]\n\td.consumeWhitespace(pos)\n\tnext := Kind(rest[0]).normalize()\n\tif d.Tokens.needDelim(next) != delim {", Rule: "STALE-1"},
		Mutant{ID: "stale1-consumeValue-keeps-pos", Props: []string{"C05"}, File: "jsontext/decode.go", Func: "decoderState.consumeValue",
			Old: "\t\t\tabsPos := d.baseOffset + int64(pos)\n\t\t\terr = d.fetch() // will mutate d.buf and invalidate pos\n\t\t\tpos = int(absPos - d.baseOffset)\n",
			New: "\t\t\terr = d.fetch()\n", Rule: "STALE-1"},
	)
}

func init() {
	addMutants(
		// ---- C20: CYCLE-1
		Mutant{ID: "cycle1-revert-F2", Props: []string{"C20"}, File: "arshal_default.go", Func: "makePointerArshaler",
			Old: " || (mayRecurseWithoutDepth && !va.IsNil())", New: " || (mayRecurseWithoutDepth && !va.IsNil() && xe.Tokens.Depth() > 2)", Rule: "CYCLE-1"},
		Mutant{ID: "cycle1-drop-defer-leavePointer", Props: []string{"C20", "C18"}, File: "arshal_default.go", Func: "makeSliceArshaler",
			Old: "\t\t\tdefer leavePointer(&xe.SeenPointers, va.Value)\n", New: "", Rule: "CYCLE-1"},
		Mutant{ID: "cycle1-slice-dispatch-before-begin", Props: []string{"C20"}, File: "arshal_default.go", Func: "makeSliceArshaler",
			Old: "\t\tif err := enc.WriteToken(jsontext.BeginArray); err != nil {\n\t\t\treturn err\n\t\t}\n\t\tmarshal := valFncs.marshal",
			New: "\t\tif n == 1 && !mo.Flags.Get(jsonflags.Deterministic) && mo.Flags.Get(jsonflags.FormatNilSliceAsNull) {\n\t\t\treturn valFncs.marshal(enc, addressableValue{va.Index(0), false}, mo)\n\t\t}\n\t\tif err := enc.WriteToken(jsontext.BeginArray); err != nil {\n\t\t\treturn err\n\t\t}\n\t\tmarshal := valFncs.marshal", Rule: "CYCLE-1"},
		Mutant{ID: "cycle1-guard-covers-only-pointer", Props: []string{"C20"}, File: "arshal_default.go", Func: "makePointerArshaler",
			Old: "mayRecurseWithoutDepth := t.Elem().Kind() == reflect.Pointer || t.Elem().Kind() == reflect.Interface", New: "mayRecurseWithoutDepth := t.Elem().Kind() == reflect.Pointer", Rule: "CYCLE-1"},
		Mutant{ID: "cycle1-constant-above-limit", Props: []string{"C20"}, File: "arshal_default.go",
			Old: "const startDetectingCyclesAfter = 1000", New: "const startDetectingCyclesAfter = 100000", Rule: "CYCLE-1"},
	)
}

func init() {
	addMutants(
		// ---- C01/C20/C06: DEPTH-1, KIND-1
		Mutant{ID: "depth1-pushObject-gt", Props: []string{"C20", "C01", "C06"}, File: "jsontext/state.go", Func: "stateMachine.pushObject",
			Old: "case len(m.Stack) == maxNestingDepth:", New: "case len(m.Stack) > maxNestingDepth:", Rule: "DEPTH-1"},
		Mutant{ID: "depth1-consumeArray-off-by-one", Props: []string{"C20", "C01"}, File: "jsontext/decode.go", Func: "decoderState.consumeArray",
			Old: "depth == maxNestingDepth+1", New: "depth == maxNestingDepth", Rule: "DEPTH-1"},
		Mutant{ID: "depth1-reformatArray-no-increment", Props: []string{"C20", "C12"}, File: "jsontext/encode.go", Func: "encoderState.reformatArray",
			Old: "\tvar err error\n\tdepth++\n", New: "\tvar err error\n", Rule: "DEPTH-1"},
		Mutant{ID: "depth1-readvalue-passes-stack-len", Props: []string{"C20", "C01"}, File: "jsontext/decode.go", Func: "decoderState.ReadValue",
			Old: "d.consumeValue(flags, pos, d.Tokens.Depth())", New: "d.consumeValue(flags, pos, len(d.Tokens.Stack))", Rule: "DEPTH-1"},
		Mutant{ID: "kind1-consumeValue-drops-array", Props: []string{"C01"}, File: "jsontext/decode.go", Func: "decoderState.consumeValue",
			Old: "\t\tcase '[':\n\t\t\treturn d.consumeArray(flags, pos, depth)\n", New: "", Rule: "KIND-1"},
		Mutant{ID: "kind1-normKind-drops-minus", Props: []string{"C01"}, File: "jsontext/token.go",
			Old: "\t'-': '0',\n", New: "", Rule: "KIND-1"},
		Mutant{ID: "kind1-writetoken-default-accepts", Props: []string{"C01", "C06"}, File: "jsontext/encode.go", Func: "encoderState.WriteToken",
			Old: "\tdefault:\n\t\terr = errInvalidToken\n", New: "\tdefault:\n", Rule: "KIND-1"},
	)
}

func init() {
	addMutants(
		// ---- C02/C07: FP, STALE-3
		Mutant{ID: "fp1-int-drops-increment", Props: []string{"C02"}, File: "arshal_default.go", Func: "makeIntArshaler",
			Old: "\t\t\txe.Tokens.Last.Increment()\n", New: "", Rule: "FP-1"},
		Mutant{ID: "fp2-emptymap-drops-name-guard", Props: []string{"C02"}, File: "arshal_default.go", Func: "makeMapArshaler",
			Old: "if optimizeCommon && !mo.Flags.Get(jsonflags.AnyWhitespace) && !xe.Tokens.Last.NeedObjectName() && !xe.Tokens.AtMaxDepth() {", New: "if optimizeCommon && !mo.Flags.Get(jsonflags.AnyWhitespace) && !xe.Tokens.AtMaxDepth() {", Rule: "FP-2"},
		Mutant{ID: "fp3-int-drops-whitespace-guard", Props: []string{"C02", "C07"}, File: "arshal_default.go", Func: "makeIntArshaler",
			Old: "if optimizeCommon && !mo.Flags.Get(jsonflags.AnyWhitespace) && !stringify {", New: "if optimizeCommon && !stringify {", Rule: "FP-3"},
		Mutant{ID: "fp4-float-returns-before-needflush", Props: []string{"C02", "C07"}, File: "arshal_default.go", Func: "makeFloatArshaler",
			Old: "\t\t\txe.Tokens.Last.Increment()\n\t\t\tif xe.NeedFlush() {\n\t\t\t\treturn xe.Flush()\n\t\t\t}\n\t\t\treturn nil", New: "\t\t\txe.Tokens.Last.Increment()\n\t\t\treturn nil", Rule: "FP-4"},
		Mutant{ID: "fp2-stringify-loses-name-disjunct", Props: []string{"C02"}, File: "arshal_default.go", Func: "makeUintArshaler",
			Old: "stringify := xe.Tokens.Last.NeedObjectName() || mo.Flags.Get(jsonflags.StringifyNumbers|jsonflags.StringTag)", New: "stringify := mo.Flags.Get(jsonflags.StringifyNumbers | jsonflags.StringTag)", Rule: "FP-2"},
		Mutant{ID: "fp2-struct-name-without-disable", Props: []string{"C02", "C08"}, File: "arshal_default.go", Func: "makeStructArshaler",
			Old: "\t\txe.Tokens.Last.DisableNamespace() // we manually ensure unique names below\n", New: "", Rule: "FP-2"},
		Mutant{ID: "fp2-struct-name-no-offset", Props: []string{"C02", "C16"}, File: "arshal_default.go", Func: "makeStructArshaler",
			Old: "\t\t\t\txe.Names.ReplaceLastQuotedOffset(n0)\n", New: "\t\t\t\t_ = n0\n", Rule: "FP-2"},
		Mutant{ID: "fp3-bool-delim-on-closing-kind", Props: []string{"C02"}, File: "arshal_default.go", Func: "makeBoolArshaler",
			Old: "xe.Tokens.MayAppendDelim(xe.Buf, 't')", New: "xe.Tokens.MayAppendDelim(xe.Buf, '}')", Rule: "FP-3"},
		Mutant{ID: "fp4-writetoken-no-flush", Props: []string{"C07"}, File: "jsontext/encode.go", Func: "encoderState.WriteToken",
			Old: "\te.Buf = b\n\tif e.NeedFlush() {\n\t\treturn e.Flush()\n\t}\n\treturn nil", New: "\te.Buf = b\n\treturn nil", Rule: "FP-4"},
		Mutant{ID: "stale3-struct-marshal-between-alias-and-store", Props: []string{"C02", "C07"}, File: "arshal_default.go", Func: "makeStructArshaler",
			Old: "\t\t\t\tn0 := len(b) // offset before calling AppendQuote\n", New: "\t\t\t\tn0 := len(b) // offset before calling AppendQuote\n\t\t\t\tif err := enc.WriteValue(nil); err == nil {\n\t\t\t\t\tcontinue\n\t\t\t\t}\n", Rule: "STALE-3"},
	)
}

func init() {
	addMutants(
		// ---- C05/C07/C16: NAMES-1, BUF-1, PEEK-1
		Mutant{ID: "names1-fetch-drops-copy", Props: []string{"C05", "C16"}, File: "jsontext/decode.go", Func: "decoderState.fetch",
			Old: "\td.Names.copyQuotedBuffer(d.buf)\n", New: "", Rule: "NAMES-1"},
		Mutant{ID: "names1-flush-copies-after-write", Props: []string{"C07", "C16"}, File: "jsontext/encode.go", Func: "encoderState.Flush",
			Old: "\te.Names.copyQuotedBuffer(e.Buf)\n\n\t// Specialize bytes.Buffer for better performance.\n\tif bb, ok := e.wr.(*bytes.Buffer); ok {", New: "\tif bb, ok := e.wr.(*bytes.Buffer); ok {", Rule: "NAMES-1"},
		Mutant{ID: "names1-stackpointer-without-copy", Props: []string{"C16"}, File: "jsontext/decode.go", Func: "decoderState.AppendStackPointer",
			Old: "\td.Names.copyQuotedBuffer(d.buf)\n", New: "", Rule: "NAMES-1"},
		Mutant{ID: "buf1-fetch-drops-prevEnd-rebase", Props: []string{"C05", "C16"}, File: "jsontext/decode.go", Func: "decoderState.fetch",
			Old: "\td.prevEnd -= d.prevStart\n", New: "", Rule: "BUF-1"},
		Mutant{ID: "buf1-fetch-zeroes-prevStart-first", Props: []string{"C05", "C16"}, File: "jsontext/decode.go", Func: "decoderState.fetch",
			Old: "\td.baseOffset += int64(d.prevStart)\n\td.prevEnd -= d.prevStart\n\td.prevStart = 0\n", New: "\td.prevEnd -= d.prevStart\n\td.prevStart = 0\n\td.baseOffset += int64(d.prevStart)\n", Rule: "BUF-1"},
		Mutant{ID: "buf1-flush-empties-on-error", Props: []string{"C07"}, File: "jsontext/encode.go", Func: "encoderState.Flush",
			Old: "\t\tif n > 0 {\n\t\t\te.Buf = e.Buf[:copy(e.Buf, e.Buf[n:])]\n\t\t}\n", New: "\t\te.Buf = e.Buf[:0]\n", Rule: "BUF-1"},
		Mutant{ID: "buf1-flush-drops-retention", Props: []string{"C07"}, File: "jsontext/encode.go", Func: "encoderState.Flush",
			Old: "\t\tif n > 0 {\n\t\t\te.Buf = e.Buf[:copy(e.Buf, e.Buf[n:])]\n\t\t}\n", New: "", Rule: "BUF-1"},
		Mutant{ID: "buf1-flush-skips-baseoffset", Props: []string{"C07", "C16"}, File: "jsontext/encode.go", Func: "encoderState.Flush",
			Old: "\tn, err := e.wr.Write(e.Buf)\n\te.baseOffset += int64(n)\n", New: "\tn, err := e.wr.Write(e.Buf)\n", Rule: "BUF-1"},
		Mutant{ID: "buf1-foreign-writer-of-baseoffset", Props: []string{"C16", "C05"}, File: "jsontext/decode.go", Func: "decoderState.SkipValue",
			Old: "\tswitch d.PeekKind() {", New: "\td.baseOffset += 0\n\tswitch d.PeekKind() {", Rule: "BUF-1"},
		Mutant{ID: "peek1-readtoken-keeps-peekerr", Props: []string{"C05"}, File: "jsontext/decode.go", Func: "decoderState.ReadToken",
			Old: "\t\t\td.peekPos, d.peekErr = 0, nil // possibly a transient I/O error\n", New: "\t\t\td.peekPos = 0\n", Rule: "PEEK-1"},
		Mutant{ID: "peek1-readvalue-keeps-peekpos", Props: []string{"C05"}, File: "jsontext/decode.go", Func: "decoderState.ReadValue",
			Old: "\t\td.peekPos = 0 // reset cache\n", New: "", Rule: "PEEK-1"},
	)
}

func init() {
	addMutants(
		// ---- C11/C07/C16: tables and sinks
		Mutant{ID: "esc-table-clears-lt", Props: []string{"C11"}, File: "internal/jsonwire/encode.go",
			Old: "\t0, 0, 0, 0, 0, 0, 0, 0, 0, 0, 0, 0, 1, 0, 1, 0, // escape '<' and '>'", New: "\t0, 0, 0, 0, 0, 0, 0, 0, 0, 0, 0, 0, 0, 0, 1, 0, // escape '<' and '>'", Rule: "TABLE-ESC"},
		Mutant{ID: "esc-reformat-verbatim-ignores-anyescape", Props: []string{"C11", "C12"}, File: "internal/jsonwire/encode.go", Func: "ReformatString",
			Old: "if !flags.Get(jsonflags.AnyEscape) &&\n\t\t(valFlags.IsCanonical() || flags.Get(jsonflags.PreserveRawStrings)) {", New: "if valFlags.IsCanonical() || (!flags.Get(jsonflags.AnyEscape) && flags.Get(jsonflags.PreserveRawStrings)) {", Rule: "TABLE-ESC"},
		Mutant{ID: "esc-appendquote-html-misses-amp", Props: []string{"C11"}, File: "internal/jsonwire/encode.go", Func: "AppendQuote",
			Old: "if !(c == '<' || c == '>' || c == '&') || flags.Get(jsonflags.EscapeForHTML) {", New: "if !(c == '<' || c == '>') || flags.Get(jsonflags.EscapeForHTML) {", Rule: "TABLE-ESC"},
		Mutant{ID: "esc-preserve-js-only-2028", Props: []string{"C11"}, File: "internal/jsonwire/encode.go", Func: "ReformatString",
			Old: "if (r == '\\u2028' || r == '\\u2029') && flags.Get(jsonflags.EscapeForJS) {\n\t\t\t\t\tdst = append(dst, src[lastAppendIndex:i]...)", New: "if r == '\\u2028' && flags.Get(jsonflags.EscapeForJS) {\n\t\t\t\t\tdst = append(dst, src[lastAppendIndex:i]...)", Rule: "TABLE-ESC"},
		Mutant{ID: "esc-needescape-misses-2029", Props: []string{"C11"}, File: "internal/jsonwire/encode.go", Func: "NeedEscape",
			Old: "if r == utf8.RuneError || r == '\\u2028' || r == '\\u2029' {", New: "if r == utf8.RuneError || r == '\\u2028' {", Rule: "TABLE-ESC"},
		Mutant{ID: "sink-quotedname-unguarded", Props: []string{"C11", "C02"}, File: "arshal_default.go", Func: "makeStructArshaler",
			Old: "\t\t\t\tif !f.nameNeedEscape {\n\t\t\t\t\tb = append(b, f.quotedName...)\n\t\t\t\t} else {\n\t\t\t\t\tb, _ = jsonwire.AppendQuote(b, []byte(f.name), &mo.Flags)\n\t\t\t\t}", New: "\t\t\t\tb = append(b, f.quotedName...)", Rule: "SINK-1"},
		Mutant{ID: "sink-marshaltext-safeascii", Props: []string{"C11", "C02"}, File: "arshal_methods.go", Func: "makeMethodArshaler",
			Old: "AppendRaw('\"', false, func(b []byte) ([]byte, error) {", New: "AppendRaw('\"', true, func(b []byte) ([]byte, error) {", Rule: "SINK-1"},
		Mutant{ID: "sink-time-custom-format-safeascii", Props: []string{"C11", "C02"}, File: "arshal_time.go", Func: "makeTimeArshaler",
			Old: "xe.AppendRaw(k, !m.hasCustomFormat(), m.appendMarshal)", New: "xe.AppendRaw(k, true, m.appendMarshal)", Rule: "SINK-1"},
		Mutant{ID: "unwrite-extra-suffix", Props: []string{"C07"}, File: "jsontext/encode.go", Func: "encoderState.UnwriteEmptyObjectMember",
			Old: "\t\tcase `[]`:\n\t\t\tn = len(`[]`)\n", New: "\t\tcase `[]`:\n\t\t\tn = len(`[]`)\n\t\tcase `00`:\n\t\t\tn = 2\n", Rule: "UNWRITE-1"},
		Mutant{ID: "unwrite-avoidflush-misses-braces", Props: []string{"C07"}, File: "jsontext/encode.go", Func: "encoderState.avoidFlush",
			Old: "case `ll`, `\"\"`, `{}`, `[]`:", New: "case `ll`, `\"\"`, `[]`:", Rule: "UNWRITE-1"},
		Mutant{ID: "unwrite-null-length", Props: []string{"C07"}, File: "jsontext/encode.go", Func: "encoderState.UnwriteEmptyObjectMember",
			Old: "n = len(`null`)", New: "n = len(`ll`)", Rule: "UNWRITE-1"},
		Mutant{ID: "ptr-swapped-replace-order", Props: []string{"C16"}, File: "jsontext/state.go", Func: "unescapePointerToken",
			Old: "\t\ttoken = strings.ReplaceAll(token, \"~1\", \"/\")\n\t\ttoken = strings.ReplaceAll(token, \"~0\", \"~\")\n", New: "\t\ttoken = strings.ReplaceAll(token, \"~0\", \"~\")\n\t\ttoken = strings.ReplaceAll(token, \"~1\", \"/\")\n", Rule: "PTR-1"},
		Mutant{ID: "ptr-writer-wrong-escape", Props: []string{"C16"}, File: "jsontext/state.go", Func: "appendEscapePointerName",
			Old: "b = append(b, \"~1\"...)", New: "b = append(b, \"~0\"...)", Rule: "PTR-1"},
	)
}

func init() {
	addMutants(
		// ---- C08/C02/C01: namespaces
		Mutant{ID: "ns1-struct-skips-insertunquoted", Props: []string{"C08"}, File: "arshal_default.go", Func: "makeStructArshaler",
			Old: "if !uo.Flags.Get(jsonflags.AllowDuplicateNames) && !xd.Namespaces.Last().InsertUnquoted(name) {", New: "if !uo.Flags.Get(jsonflags.AllowDuplicateNames) && fields.embeddedFallback != nil && !xd.Namespaces.Last().InsertUnquoted(name) {", Rule: "NS-1"},
		Mutant{ID: "ns1-dup-error-under-other-flag", Props: []string{"C08"}, File: "arshal_default.go", Func: "makeStructArshaler",
			Old: "if !uo.Flags.Get(jsonflags.AllowDuplicateNames) && !seenIdxs.insert(uint(f.id)) {", New: "if !uo.Flags.Get(jsonflags.AllowDuplicateNames) && !uo.Flags.Get(jsonflags.MatchCaseInsensitiveNames) && !seenIdxs.insert(uint(f.id)) {", Rule: "NS-1"},
		Mutant{ID: "ns2-map-drops-nondefault", Props: []string{"C08", "C02"}, File: "arshal_default.go", Func: "makeMapArshaler",
			Old: "if !nonDefaultKey && mapKeyWithUniqueRepresentation(k.Kind(), mo.Flags.Get(jsonflags.AllowInvalidUTF8)) {", New: "if mapKeyWithUniqueRepresentation(k.Kind(), mo.Flags.Get(jsonflags.AllowInvalidUTF8)) {", Rule: "NS-2"},
		Mutant{ID: "ns2-map-nondefault-overwritten", Props: []string{"C08", "C02"}, File: "arshal_default.go", Func: "makeMapArshaler",
			Old: "\t\t\t\tnonDefaultKey = nonDefaultKey || ok\n\t\t\t}\n\t\t\tk := newAddressableValue(t.Key())\n\t\t\tv := newAddressableValue(t.Elem())\n\n\t\t\t// A Go map", New: "\t\t\t\tnonDefaultKey = ok\n\t\t\t}\n\t\t\tk := newAddressableValue(t.Key())\n\t\t\tv := newAddressableValue(t.Elem())\n\n\t\t\t// A Go map", Rule: "NS-2"},
		Mutant{ID: "ns2-float-keys-unique", Props: []string{"C08", "C02"}, File: "arshal_default.go", Func: "mapKeyWithUniqueRepresentation",
			Old: "reflect.Uint, reflect.Uint8, reflect.Uint16, reflect.Uint32, reflect.Uint64, reflect.Uintptr:", New: "reflect.Uint, reflect.Uint8, reflect.Uint16, reflect.Uint32, reflect.Uint64, reflect.Uintptr, reflect.Float64:", Rule: "NS-2"},
		Mutant{ID: "ns2-string-keys-ignore-utf8", Props: []string{"C08", "C02"}, File: "arshal_default.go", Func: "makeMapArshaler",
			Old: "mapKeyWithUniqueRepresentation(k.Kind(), mo.Flags.Get(jsonflags.AllowInvalidUTF8))", New: "mapKeyWithUniqueRepresentation(k.Kind(), false)", Rule: "NS-2"},
		Mutant{ID: "ns2-struct-checker-when-fallback-only", Props: []string{"C08", "C02"}, File: "arshal_default.go", Func: "makeStructArshaler",
			Old: "\t\t\tif !mo.Flags.Get(jsonflags.AllowDuplicateNames) && fields.embeddedFallback != nil {\n\t\t\t\tseenIdxs.insert(uint(f.id))\n\t\t\t}\n", New: "", Rule: "NS-2"},
		Mutant{ID: "ns2-anymap-always-disables", Props: []string{"C08", "C02"}, File: "arshal_any.go", Func: "marshalObjectAny",
			Old: "\tif !mo.Flags.Get(jsonflags.AllowInvalidUTF8) {\n\t\txe.Tokens.Last.DisableNamespace()\n\t}", New: "\txe.Tokens.Last.DisableNamespace()", Rule: "NS-2"},
		Mutant{ID: "ns3-skip-invalidate", Props: []string{"C08"}, File: "arshal.go", Func: "unmarshalDecode",
			Old: "\t\tif !uo.Flags.Get(jsonflags.AllowDuplicateNames) {\n\t\t\texport.Decoder(in).Tokens.InvalidateDisabledNamespaces()\n\t\t}\n", New: "", Rule: "NS-3"},
		Mutant{ID: "mapcache-removeLast-forgets-map", Props: []string{"C08", "C01"}, File: "jsontext/state.go", Func: "objectNamespace.removeLast",
			Old: "\tif ns.mapNames != nil {\n\t\tdelete(ns.mapNames, string(ns.lastUnquoted()))\n\t}\n", New: "", Rule: "MAPCACHE-1"},
	)
}

func init() {
	addMutants(
		// ---- C19: OPT-4..6
		Mutant{ID: "opt4-join-before-defer", Props: []string{"C19"}, File: "arshal.go", Func: "MarshalEncode",
			Old: "\t\toptsOriginal := xe.Struct\n\t\tdefer func() { xe.Struct = optsOriginal }()\n\t\txe.Struct.Join(opts...)\n", New: "\t\toptsOriginal := xe.Struct\n\t\txe.Struct.Join(opts...)\n", Rule: "OPT-4"},
		Mutant{ID: "opt4-restore-only-on-success", Props: []string{"C19"}, File: "arshal.go", Func: "UnmarshalDecode",
			Old: "\t\tdefer func() { xd.Struct = optsOriginal }()\n", New: "\t\tdefer func() {\n\t\t\tif err == nil {\n\t\t\t\txd.Struct.Flags = optsOriginal.Flags\n\t\t\t}\n\t\t}()\n", Rule: "OPT-4"},
		Mutant{ID: "opt5-revert-F4", Props: []string{"C19"}, File: "arshal_default.go", Func: "makeStructArshaler",
			Old: "\t\t\t\tv := addressableValue{va.Field(f.index0), va.forcedAddr} // addressable if struct value is addressable\n\t\t\t\tif len(f.index) > 0 {\n\t\t\t\t\tv = v.fieldByIndex(f.index, true)",
			New: "\t\t\t\tif f.string {\n\t\t\t\t\tuo.Flags.Set(jsonflags.StringTag | 1)\n\t\t\t\t}\n\t\t\t\tv := addressableValue{va.Field(f.index0), va.forcedAddr} // addressable if struct value is addressable\n\t\t\t\tif len(f.index) > 0 {\n\t\t\t\t\tv = v.fieldByIndex(f.index, true)", Rule: "OPT-5"},
		Mutant{ID: "opt5-marshal-restore-after-error-check", Props: []string{"C19"}, File: "arshal_default.go", Func: "makeStructArshaler",
			Old: "\t\t\terr := marshal(enc, v, mo)\n\t\t\tmo.Flags = flagsOriginal\n\t\t\tmo.Format = \"\"\n\t\t\tif err != nil {\n\t\t\t\treturn err\n\t\t\t}\n", New: "\t\t\terr := marshal(enc, v, mo)\n\t\t\tif err != nil {\n\t\t\t\treturn err\n\t\t\t}\n\t\t\tmo.Flags = flagsOriginal\n\t\t\tmo.Format = \"\"\n", Rule: "OPT-5"},
		Mutant{ID: "opt5-format-not-cleared", Props: []string{"C19"}, File: "arshal_default.go", Func: "makeStructArshaler",
			Old: "\t\t\tmo.Flags = flagsOriginal\n\t\t\tmo.Format = \"\"\n", New: "\t\t\tmo.Flags = flagsOriginal\n", Rule: "OPT-5"},
		Mutant{ID: "opt5-readtoken-array-keeps-tags", Props: []string{"C19"}, File: "jsontext/decode.go", Func: "decoderState.ReadToken",
			Old: "\t\tif err = d.Tokens.pushArray(); err != nil {\n\t\t\treturn Token{}, wrapSyntacticError(d, err, pos, +1)\n\t\t}\n\t\td.Flags.Clear(jsonflags.TagFlags) // tags only apply to current depth\n", New: "\t\tif err = d.Tokens.pushArray(); err != nil {\n\t\t\treturn Token{}, wrapSyntacticError(d, err, pos, +1)\n\t\t}\n", Rule: "OPT-5"},
		Mutant{ID: "opt6-decoder-reads-encode-flag", Props: []string{"C19"}, File: "jsontext/decode.go", Func: "decoderState.consumeString",
			Old: "!d.Flags.Get(jsonflags.AllowInvalidUTF8))", New: "!d.Flags.Get(jsonflags.AllowInvalidUTF8|jsonflags.PreserveRawStrings))", Rule: "OPT-6"},
		Mutant{ID: "opt6-unmarshal-reads-marshal-flag", Props: []string{"C19"}, File: "arshal_default.go", Func: "makeSliceArshaler",
			Old: "\t\tcase 'n':\n\t\t\tva.SetZero()\n\t\t\treturn nil\n\t\tcase '[':", New: "\t\tcase 'n':\n\t\t\tif !uo.Flags.Get(jsonflags.FormatNilSliceAsNull) || true {\n\t\t\t\tva.SetZero()\n\t\t\t}\n\t\t\treturn nil\n\t\tcase '[':", Rule: "OPT-6"},
	)
}

func init() {
	addMutants(
		// ---- C17/C02: USER, PREC, ERR
		Mutant{ID: "user2-marshaltofunc-keeps-within-flag", Props: []string{"C17"}, File: "arshal_funcs.go", Func: "MarshalToFunc",
			Old: "\t\t\txe.Flags.Set(jsonflags.WithinArshalCall | 0)\n", New: "", Rule: "USER-2"},
		Mutant{ID: "user2-unsupported-fallthrough-ignores-length", Props: []string{"C17"}, File: "arshal_methods.go", Func: "makeMethodArshaler",
			Old: "\t\t\t\t\tif prevDepth == currDepth && prevLength == currLength {\n\t\t\t\t\t\treturn prevMarshal(enc, va, mo)", New: "\t\t\t\t\tif prevDepth == currDepth {\n\t\t\t\t\t\treturn prevMarshal(enc, va, mo)", Rule: "USER-2"},
		Mutant{ID: "user2-singular-check-weakened", Props: []string{"C17", "C02"}, File: "arshal_methods.go", Func: "makeMethodArshaler",
			Old: "if (prevDepth != currDepth || prevLength+1 != currLength) && err == nil {\n\t\t\t\terr = errNonSingularValue\n\t\t\t}\n\t\t\tif err != nil {\n\t\t\t\tif errors.Is(err, errors.ErrUnsupported) {\n\t\t\t\t\tif prevDepth == currDepth && prevLength == currLength {\n\t\t\t\t\t\treturn prevMarshal",
			New: "if (prevDepth != currDepth || prevLength == currLength) && err == nil {\n\t\t\t\terr = errNonSingularValue\n\t\t\t}\n\t\t\tif err != nil {\n\t\t\t\tif errors.Is(err, errors.ErrUnsupported) {\n\t\t\t\t\tif prevDepth == currDepth && prevLength == currLength {\n\t\t\t\t\t\treturn prevMarshal", Rule: "USER-2"},
		Mutant{ID: "prec1-methods-on-pointer-kinds", Props: []string{"C17"}, File: "arshal_methods.go", Func: "makeMethodArshaler",
			Old: "if t.Kind() == reflect.Pointer || t.Kind() == reflect.Interface {", New: "if t.Kind() == reflect.Interface {", Rule: "PREC-1"},
		Mutant{ID: "prec1-lookup-never-stops", Props: []string{"C17"}, File: "arshal_funcs.go", Func: "typedArshalers.lookup",
			Old: "\t\tif !fncVal.maySkip {\n\t\t\tbreak // subsequent arshalers will never be called\n\t\t}\n", New: "", Rule: "PREC-1"},
		Mutant{ID: "prec1-slice-ignores-caller-marshalers", Props: []string{"C17"}, File: "arshal_default.go", Func: "makeSliceArshaler",
			Old: "\t\tmarshal := valFncs.marshal\n\t\tif mo.Marshalers != nil {\n\t\t\tmarshal, _ = mo.Marshalers.(*Marshalers).lookup(marshal, t.Elem())\n\t\t}\n", New: "\t\tmarshal := valFncs.marshal\n", Rule: "PREC-1"},
		Mutant{ID: "prec1-time-before-methods", Props: []string{"C17"}, File: "arshal.go", Func: "lookupArshaler",
			Old: "\tfncs = makeMethodArshaler(fncs, t)\n\tfncs = makeTimeArshaler(fncs, t)\n", New: "\tfncs = makeTimeArshaler(fncs, t)\n\tfncs = makeMethodArshaler(fncs, t)\n", Rule: "PREC-1"},
		Mutant{ID: "user1-marshaljson-bypasses-writevalue", Props: []string{"C17", "C02"}, File: "arshal_methods.go", Func: "makeMethodArshaler",
			Old: "\t\t\tif err := enc.WriteValue(val); err != nil {\n\t\t\t\tif mo.Flags.Get(jsonflags.ReportErrorsWithLegacySemantics) {\n\t\t\t\t\treturn internal.NewMarshalerError(va.Addr().Interface(), err, \"MarshalJSON\")",
			New: "\t\t\tif len(val) > 64 {\n\t\t\t\txe := export.Encoder(enc)\n\t\t\t\txe.Buf = append(xe.Tokens.MayAppendDelim(xe.Buf, '0'), val...)\n\t\t\t\txe.Tokens.Last.Increment()\n\t\t\t\treturn nil\n\t\t\t}\n\t\t\tif err := enc.WriteValue(val); err != nil {\n\t\t\t\tif mo.Flags.Get(jsonflags.ReportErrorsWithLegacySemantics) {\n\t\t\t\t\treturn internal.NewMarshalerError(va.Addr().Interface(), err, \"MarshalJSON\")", Rule: "USER-1"},
		Mutant{ID: "err1-map-drops-endobject-error", Props: []string{"C17", "C02"}, File: "arshal_default.go", Func: "makeMapArshaler",
			Old: "\t\tif err := enc.WriteToken(jsontext.EndObject); err != nil {\n\t\t\treturn err\n\t\t}\n\t\treturn nil", New: "\t\tenc.WriteToken(jsontext.EndObject)\n\t\treturn nil", Rule: "ERR-1"},
		Mutant{ID: "err1-any-drops-key-error", Props: []string{"C02"}, File: "arshal_any.go", Func: "marshalObjectAny",
			Old: "\t\t\tif err := enc.WriteToken(jsontext.String(name)); err != nil {\n\t\t\t\treturn err\n\t\t\t}\n\t\t\tif err := marshalValueAny(enc, val, mo); err != nil {", New: "\t\t\t_ = enc.WriteToken(jsontext.String(name))\n\t\t\tif err := marshalValueAny(enc, val, mo); err != nil {", Rule: "ERR-1"},
	)
}

func init() {
	addMutants(
		// ---- C04: CODEC-1, FLAGSYM-1
		Mutant{ID: "codec1-unmarshal-drops-base32hex", Props: []string{"C04"}, File: "arshal_default.go", Func: "makeBytesArshaler",
			Old: "\t\t\t\tcase \"base32hex\":\n\t\t\t\t\tappendDecode, encodedLen = appendDecodeBase32Hex, encodedLenBase32Hex\n", New: "", Rule: "CODEC-1"},
		Mutant{ID: "codec1-decode-url-bound-to-std", Props: []string{"C04"}, File: "arshal_default.go",
			Old: "appendDecodeBase64URL = base64.URLEncoding.AppendDecode", New: "appendDecodeBase64URL = base64.StdEncoding.AppendDecode", Rule: "CODEC-1"},
		Mutant{ID: "codec1-unmarshal-base32-uses-hex-alphabet", Props: []string{"C04"}, File: "arshal_default.go", Func: "makeBytesArshaler",
			Old: "appendDecode, encodedLen = appendDecodeBase32, encodedLenBase32\n", New: "appendDecode, encodedLen = appendDecodeBase32Hex, encodedLenBase32\n", Rule: "CODEC-1"},
		Mutant{ID: "codec1-time-unmarshal-drops-base-case", Props: []string{"C04"}, File: "arshal_time.go", Func: "durationArshaler.unmarshal",
			Old: "\tcase 8601:\n\t\ta.td, err = parseDurationISO8601(b)\n", New: "", Rule: "CODEC-1"},
		Mutant{ID: "codec1-float-parses-64-bits", Props: []string{"C04"}, File: "arshal_default.go", Func: "makeFloatArshaler",
			Old: "\t\t\tfv, err := strconv.ParseFloat(string(val), bits)", New: "\t\t\tfv, err := strconv.ParseFloat(string(val), 64)", Rule: "CODEC-1"},
		Mutant{ID: "codec1-slice-unmarshal-rejects-emitnull", Props: []string{"C04"}, File: "arshal_default.go", Func: "makeSliceArshaler",
			Old: "\t\t\t\tcase \"emitnull\", \"emitempty\":\n\t\t\t\tdefault:\n\t\t\t\t\treturn newInvalidFormatError(dec, t)", New: "\t\t\t\tcase \"emitempty\":\n\t\t\t\tdefault:\n\t\t\t\t\treturn newInvalidFormatError(dec, t)", Rule: "CODEC-1"},
		Mutant{ID: "flagsym-uint-unmarshal-ignores-stringify", Props: []string{"C04"}, File: "arshal_default.go", Func: "makeUintArshaler",
			Old: "stringify := xd.Tokens.Last.NeedObjectName() || uo.Flags.Get(jsonflags.StringifyNumbers|jsonflags.StringTag)", New: "stringify := xd.Tokens.Last.NeedObjectName() || uo.Flags.Get(jsonflags.StringTag)", Rule: "FLAGSYM-1"},
		Mutant{ID: "flagsym-duration-unmarshal-ignores-nano", Props: []string{"C04", "C09"}, File: "arshal_time.go", Func: "makeTimeArshaler",
			Old: "\t\t\t} else if uo.Flags.Get(jsonflags.FormatDurationAsNano) {\n\t\t\t\treturn unmarshalNano(dec, va, uo)\n", New: "\t\t\t} else if uo.Flags.Get(jsonflags.FormatDurationAsNano|jsonflags.StringifyWithLegacySemantics) && !uo.Flags.Get(jsonflags.FormatDurationAsNano|jsonflags.StringTag) {\n\t\t\t\treturn unmarshalNano(dec, va, uo)\n", Rule: "FLAGSYM-1"},
	)
}

func init() {
	addMutants(
		// ---- C14/C03/C08/C17: NULL-1, MERGE-1, ANYPATH-1, INTERN-1
		Mutant{ID: "null1-slice-null-keeps-value", Props: []string{"C14"}, File: "arshal_default.go", Func: "makeSliceArshaler",
			Old: "\t\tcase 'n':\n\t\t\tva.SetZero()\n\t\t\treturn nil\n\t\tcase '[':", New: "\t\tcase 'n':\n\t\t\treturn nil\n\t\tcase '[':", Rule: "NULL-1"},
		Mutant{ID: "null1-int-null-conditional-on-other-flag", Props: []string{"C14"}, File: "arshal_default.go", Func: "makeIntArshaler",
			Old: "\t\tcase 'n':\n\t\t\tif !uo.Flags.Get(jsonflags.MergeWithLegacySemantics) {\n\t\t\t\tva.SetInt(0)", New: "\t\tcase 'n':\n\t\t\tif !uo.Flags.Get(jsonflags.MergeWithLegacySemantics | jsonflags.StringifyNumbers) {\n\t\t\t\tva.SetInt(0)", Rule: "NULL-1"},
		Mutant{ID: "merge1-slice-setlen-skipped-on-fatal-error", Props: []string{"C14"}, File: "arshal_default.go", Func: "makeSliceArshaler",
			Old: "\t\t\t\t\tif isFatalError(err, uo.Flags) {\n\t\t\t\t\t\tva.SetLen(i)\n\t\t\t\t\t\treturn err", New: "\t\t\t\t\tif isFatalError(err, uo.Flags) {\n\t\t\t\t\t\treturn err", Rule: "MERGE-1"},
		Mutant{ID: "merge1-map-drops-seed", Props: []string{"C14"}, File: "arshal_default.go", Func: "makeMapArshaler",
			Old: "\t\t\t\t\tif !uo.Flags.Get(jsonflags.MergeWithLegacySemantics) {\n\t\t\t\t\t\tv.Set(v2)\n\t\t\t\t\t} else {\n\t\t\t\t\t\tv.SetZero()\n\t\t\t\t\t}", New: "\t\t\t\t\tv.SetZero()", Rule: "MERGE-1"},
		Mutant{ID: "merge1-array-no-tail-zeroing", Props: []string{"C14"}, File: "arshal_default.go", Func: "makeArrayArshaler",
			Old: "\t\t\tfor ; i < n; i++ {\n\t\t\t\tva.Index(i).SetZero()\n\t\t\t\terr = errArrayUnderflow\n\t\t\t}", New: "\t\t\tif i < n {\n\t\t\t\terr = errArrayUnderflow\n\t\t\t}", Rule: "MERGE-1"},
		Mutant{ID: "anypath-unmarshal-drops-isnil", Props: []string{"C14", "C03"}, File: "arshal_default.go", Func: "makeInterfaceArshaler",
			Old: "\t\tvar v addressableValue\n\t\tif va.IsNil() || isSelfPointer(va) {\n\t\t\t// Optimize for the any type if there are no special options.", New: "\t\tvar v addressableValue\n\t\tif va.IsNil() || isSelfPointer(va) || va.Elem().Kind() == reflect.Map {\n\t\t\t// Optimize for the any type if there are no special options.", Rule: "ANYPATH-1"},
		Mutant{ID: "anypath-unmarshal-drops-fromany", Props: []string{"C03", "C17"}, File: "arshal_default.go", Func: "makeInterfaceArshaler",
			Old: "\t\t\t\t(uo.Unmarshalers == nil || !uo.Unmarshalers.(*Unmarshalers).fromAny) {", New: "\t\t\t\ttrue {", Rule: "ANYPATH-1"},
		Mutant{ID: "anypath-any-float32", Props: []string{"C03"}, File: "arshal_any.go", Func: "unmarshalValueAny",
			Old: "fv, err := strconv.ParseFloat(string(val), 64)", New: "fv, err := strconv.ParseFloat(string(val), 32)", Rule: "ANYPATH-1"},
		Mutant{ID: "anypath-object-dup-check-dropped", Props: []string{"C03", "C08"}, File: "arshal_any.go", Func: "unmarshalObjectAny",
			Old: "\t\tif _, ok := obj[name]; ok {\n\t\t\t// TODO: Unread the object name.\n\t\t\tname := export.Decoder(dec).PreviousTokenOrValue()\n\t\t\terr := newDuplicateNameError(dec.StackPointer(), nil, dec.InputOffset()-len64(name))\n\t\t\treturn obj, err\n\t\t}\n", New: "", Rule: "ANYPATH-1"},
		Mutant{ID: "intern-returns-cached-without-compare", Props: []string{"C03", "C18"}, File: "intern.go", Func: "makeString",
			Old: "if s := (*c)[i]; s == string(b) {", New: "if s := (*c)[i]; len(s) == len(b) {", Rule: "INTERN-1"},
	)
}

func init() {
	addMutants(
		// ---- C12/C13/C03/C11: FORMAT-1, WIDTH-1, CASE-SYM
		Mutant{ID: "format1-store-before-error-check", Props: []string{"C12"}, File: "jsontext/value.go", Func: "Value.format",
			Old: "\tif err := e.s.WriteValue(*v); err != nil {\n\t\treturn err\n\t}\n\tif !bytes.Equal(*v, e.s.Buf) {\n\t\t*v = append((*v)[:0], e.s.Buf...)\n\t}\n\treturn nil", New: "\terr := e.s.WriteValue(*v)\n\tif !bytes.Equal(*v, e.s.Buf) {\n\t\t*v = append((*v)[:0], e.s.Buf...)\n\t}\n\treturn err", Rule: "FORMAT-1"},
		Mutant{ID: "format1-compact-drops-preserve", Props: []string{"C12"}, File: "jsontext/value.go", Func: "Value.Compact",
			Old: "\t\tAllowInvalidUTF8(true),\n\t\tPreserveRawStrings(true),\n\t}, opts)", New: "\t\tAllowInvalidUTF8(true),\n\t}, opts)", Rule: "FORMAT-1"},
		Mutant{ID: "format1-canonicalize-skips-floats", Props: []string{"C13"}, File: "jsontext/value.go", Func: "Value.Canonicalize",
			Old: "\t\tCanonicalizeRawFloats(true),\n", New: "", Rule: "FORMAT-1"},
		Mutant{ID: "format1-sort-with-bytes-compare", Props: []string{"C13"}, File: "jsontext/value.go", Func: "mustReorderObjectsFromDecoder",
			Old: "slices.SortFunc(*members, objectMember.Compare)", New: "slices.SortFunc(*members, func(x, y objectMember) int { return bytes.Compare(x.name, y.name) })", Rule: "FORMAT-1"},
		Mutant{ID: "format1-array-not-reordered", Props: []string{"C13", "C12"}, File: "jsontext/encode.go", Func: "encoderState.WriteValue",
			Old: "\t\t\tpanic(\"BUG: popArray should never fail immediately after pushArray: \" + err.Error())\n\t\t}\n\t\tif e.Flags.Get(jsonflags.ReorderRawObjects) {\n\t\t\tmustReorderObjects(b[pos:])\n\t\t}\n", New: "\t\t\tpanic(\"BUG: popArray should never fail immediately after pushArray: \" + err.Error())\n\t\t}\n", Rule: "FORMAT-1"},
		Mutant{ID: "format1-number-shortcut-ignores-canonicalize", Props: []string{"C13", "C12"}, File: "jsontext/encode.go", Func: "encoderState.reformatValue",
			Old: "if n := jsonwire.ConsumeSimpleNumber(src); n > 0 && !e.Flags.Get(jsonflags.CanonicalizeNumbers) {", New: "if n := jsonwire.ConsumeSimpleNumber(src); n > 0 && !e.Flags.Get(jsonflags.CanonicalizeRawInts) {", Rule: "FORMAT-1"},
		Mutant{ID: "format1-appendformat-drops-src-on-error", Props: []string{"C12"}, File: "jsontext/value.go", Func: "AppendFormat",
			Old: "\t\treturn append(dst, src...), err", New: "\t\treturn dst, err", Rule: "FORMAT-1"},
		Mutant{ID: "format1-object-separator-extra-space", Props: []string{"C12"}, File: "jsontext/encode.go", Func: "encoderState.reformatObject",
			Old: "\t\t\tdst = append(dst, ',')\n\t\t\tif e.Flags.Get(jsonflags.SpaceAfterComma) {", New: "\t\t\tdst = append(dst, e.Indent...)\n\t\t\tdst = append(dst, ',')\n\t\t\tif e.Flags.Get(jsonflags.SpaceAfterComma) {", Rule: "FORMAT-1"},
		Mutant{ID: "width1-appendquote-ascii-step-in-multibyte", Props: []string{"C11", "C12"}, File: "internal/jsonwire/encode.go", Func: "AppendQuote",
			Old: "\t\t\tr, rn := utf8.DecodeRune(src[n:])\n\t\t\tn += rn\n", New: "\t\t\tr, rn := utf8.DecodeRune(src[n:])\n\t\t\tn += rn\n\t\t\tif r == '\\u00a0' {\n\t\t\t\ti = n - 1\n\t\t\t\ti += 1\n\t\t\t}\n", Rule: "WIDTH-1"},
		Mutant{ID: "casesym-number-exponent-lowercase-only", Props: []string{"C01", "C03"}, File: "internal/jsonwire/decode.go", Func: "ConsumeSimpleNumber",
			Old: "(b[n] != '.' && b[n] != 'e' && b[n] != 'E')", New: "(b[n] != '.' && b[n] != 'e')", Rule: "CASE-SYM"},
	)
}

func init() {
	addMutants(
		// ---- C18: POOL, GLOBAL, ONCE, DET
		Mutant{ID: "pool3-marshal-returns-pooled-buffer", Props: []string{"C18"}, File: "arshal.go", Func: "Marshal",
			Old: "return bytes.Clone(xe.Buf), err", New: "if len(xe.Buf) > 1<<20 {\n\t\treturn xe.Buf, err\n\t}\n\treturn bytes.Clone(xe.Buf), err", Rule: "POOL-3"},
		Mutant{ID: "pool2-state-reset-skips-names", Props: []string{"C18"}, File: "jsontext/state.go", Func: "state.reset",
			Old: "\ts.Names.reset()\n", New: "", Rule: "POOL-2"},
		Mutant{ID: "pool2-new-unreset-field", Props: []string{"C18"}, File: "jsontext/decode.go",
			Old: "\tStringCache *[256]string // only used when unmarshaling; identical to json.stringCache\n", New: "\tStringCache *[256]string // only used when unmarshaling; identical to json.stringCache\n\n\tlastKind Kind\n", Rule: "POOL-2"},
		Mutant{ID: "pool2-encodebuffer-carries-maxvalue", Props: []string{"C18"}, File: "jsontext/encode.go", Func: "encoderState.reset",
			Old: "availBuffer: e.availBuffer, bufStats: e.bufStats}", New: "availBuffer: e.availBuffer, bufStats: e.bufStats, baseOffset: e.baseOffset}", Rule: "POOL-2"},
		Mutant{ID: "pool1-wrong-pool", Props: []string{"C18"}, File: "arshal.go", Func: "Marshal",
			Old: "defer export.PutBufferedEncoder(enc)", New: "defer export.PutStreamingEncoder(enc)", Rule: "POOL-1"},
		Mutant{ID: "pool1-no-release-on-error", Props: []string{"C18"}, File: "jsontext/value.go", Func: "Value.IsValid",
			Old: "\td := getBufferedDecoder(v, opts...)\n\tdefer putBufferedDecoder(d)\n\t_, errVal := d.ReadValue()\n\t_, errEOF := d.ReadToken()\n", New: "\td := getBufferedDecoder(v, opts...)\n\t_, errVal := d.ReadValue()\n\t_, errEOF := d.ReadToken()\n\tputBufferedDecoder(d)\n", Rule: "POOL-1"},
		Mutant{ID: "once1-array-marshal-skips-once", Props: []string{"C18"}, File: "arshal_default.go", Func: "makeArrayArshaler",
			Old: "\t\tonce.Do(init)\n\t\tif err := enc.WriteToken(jsontext.BeginArray); err != nil {", New: "\t\tif err := enc.WriteToken(jsontext.BeginArray); err != nil {", Rule: "ONCE-1"},
		Mutant{ID: "global1-default-options-mutated", Props: []string{"C18", "C19"}, File: "options.go", Func: "DefaultOptionsV2",
			Old: "\treturn &jsonopts.DefaultOptionsV2", New: "\tjsonopts.DefaultOptionsV2.Flags.Clear(jsonflags.WithinArshalCall)\n\treturn &jsonopts.DefaultOptionsV2", Rule: "GLOBAL-1"},
		Mutant{ID: "global1-goroutine", Props: []string{"C18"}, File: "arshal.go", Func: "putStrings",
			Old: "\tstringsPools.Put(s)", New: "\tgo stringsPools.Put(s)", Rule: "GLOBAL-1"},
		Mutant{ID: "det1-map-unsorted-for-two", Props: []string{"C18"}, File: "arshal_default.go", Func: "makeMapArshaler",
			Old: "case !mo.Flags.Get(jsonflags.Deterministic) || n <= 1:", New: "case !mo.Flags.Get(jsonflags.Deterministic) || n <= 2:", Rule: "DET-1"},
		Mutant{ID: "det1-anymap-ignores-deterministic", Props: []string{"C18"}, File: "arshal_any.go", Func: "marshalObjectAny",
			Old: "if !mo.Flags.Get(jsonflags.Deterministic) || len(obj) <= 1 {", New: "if !mo.Flags.Get(jsonflags.Deterministic) || !mo.Flags.Get(jsonflags.AllowDuplicateNames) || len(obj) <= 1 {", Rule: "DET-1"},
	)
}

func init() {
	addMutants(
		// ---- C09: V1
		Mutant{ID: "v11-marshal-without-v1-defaults", Props: []string{"C09"}, File: "v1/encode.go", Func: "Marshal",
			Old: "return jsonv2.Marshal(v, DefaultOptionsV1())", New: "return jsonv2.Marshal(v, jsonv2.Deterministic(true))", Rule: "V1-1"},
		Mutant{ID: "v11-usenumber-drops-defaults", Props: []string{"C09"}, File: "v1/stream.go", Func: "Decoder.UseNumber",
			Old: "dec.opts = jsonv2.JoinOptions(dec.opts, unmarshalAnyWithRawNumber(true))", New: "dec.opts = jsonv2.JoinOptions(unmarshalAnyWithRawNumber(true))", Rule: "V1-1"},
		Mutant{ID: "v11-compact-rejects-duplicates", Props: []string{"C09"}, File: "v1/indent.go", Func: "Compact",
			Old: "\t\tjsontext.AllowDuplicateNames(true),\n\t\tjsontext.AllowInvalidUTF8(true),\n\t\tjsontext.PreserveRawStrings(true))", New: "\t\tjsontext.AllowInvalidUTF8(true),\n\t\tjsontext.PreserveRawStrings(true))", Rule: "V1-1"},
		Mutant{ID: "v11-valid-strict-utf8", Props: []string{"C09"}, File: "v1/scanner.go", Func: "checkValid",
			Old: "jsonflags.ReportErrorsWithLegacySemantics | jsonflags.AllowDuplicateNames | jsonflags.AllowInvalidUTF8 | 1", New: "jsonflags.ReportErrorsWithLegacySemantics | jsonflags.AllowDuplicateNames | 1", Rule: "V1-1"},
		Mutant{ID: "v12-bytearray-flag-never-read", Props: []string{"C09"}, File: "arshal_default.go", Func: "makeBytesArshaler",
			Old: "\t\t\tcase mo.Flags.Get(jsonflags.FormatByteArrayAsArray) && va.Kind() == reflect.Array:\n\t\t\t\treturn marshalArray(enc, va, mo)\n", New: "", Rule: "V1-2"},
		Mutant{ID: "v13-check-after-dispatch", Props: []string{"C09"}, File: "arshal.go", Func: "unmarshalDecode",
			Old: "\tif uo.Flags.Get(jsonflags.ReportErrorsWithLegacySemantics) {\n\t\tif err := export.Decoder(in).CheckNextValue(last); err != nil {", New: "\tif uo.Flags.Get(jsonflags.ReportErrorsWithLegacySemantics) && uo.Unmarshalers == nil {\n\t\tif err := export.Decoder(in).CheckNextValue(last); err != nil {", Rule: "V1-3"},
		Mutant{ID: "v14-token-keeps-hadEOF", Props: []string{"C09"}, File: "v1/stream.go", Func: "Decoder.Token",
			Old: "\tdec.hadPeeked = false\n\tdec.hadEOF = false\n\tswitch k := tok.Kind(); k {", New: "\tdec.hadPeeked = false\n\tswitch k := tok.Kind(); k {", Rule: "V1-4"},
	)
}

func init() {
	addMutants(
		// ---- C15: FIELD-1, ALIAS-1
		Mutant{ID: "field1-omitzero-tag-ignored", Props: []string{"C15"}, File: "arshal_default.go", Func: "makeStructArshaler",
			Old: "if (f.omitzero || mo.Flags.Get(jsonflags.OmitZeroStructFields)) &&", New: "if mo.Flags.Get(jsonflags.OmitZeroStructFields) &&", Rule: "FIELD-1"},
		Mutant{ID: "field1-folded-before-exact", Props: []string{"C15"}, File: "arshal_default.go", Func: "makeStructArshaler",
			Old: "\t\t\t\tf := fields.byActualName[string(name)]\n\t\t\t\tif f == nil {", New: "\t\t\t\tvar f *structField\n\t\t\t\tif f == nil {", Rule: "FIELD-1"},
		Mutant{ID: "field1-dominance-explicit-name-before-depth", Props: []string{"C15"}, File: "fields.go", Func: "makeStructFields",
			Old: "\t\t\tcmp.Compare(len(x.index), len(y.index)),\n\t\t\tboolsCompare(!x.hasName, !y.hasName))", New: "\t\t\tboolsCompare(!x.hasName, !y.hasName),\n\t\t\tcmp.Compare(len(x.index), len(y.index)))", Rule: "FIELD-1"},
		Mutant{ID: "field1-casestrict-ignored", Props: []string{"C15"}, File: "fields.go", Func: "structField.matchFoldedName",
			Old: "(flags.Get(jsonflags.MatchCaseInsensitiveNames) && f.casing != caseStrict)", New: "flags.Get(jsonflags.MatchCaseInsensitiveNames)", Rule: "FIELD-1"},
		Mutant{ID: "field1-unknown-rejected-despite-fallback", Props: []string{"C15"}, File: "arshal_default.go", Func: "makeStructArshaler",
			Old: "if uo.Flags.Get(jsonflags.RejectUnknownMembers) && fields.embeddedFallback == nil {", New: "if uo.Flags.Get(jsonflags.RejectUnknownMembers) {", Rule: "FIELD-1"},
		Mutant{ID: "field1-string-tag-not-applied-on-unmarshal", Props: []string{"C15", "C04"}, File: "arshal_default.go", Func: "makeStructArshaler",
			Old: "\t\t\t\tif f.string {\n\t\t\t\t\tuo.Flags.Set(jsonflags.StringTag | 1)\n\t\t\t\t}\n", New: "", Rule: "FIELD-1"},
		Mutant{ID: "field1-unwrite-for-all-fields", Props: []string{"C15"}, File: "arshal_default.go", Func: "makeStructArshaler",
			Old: "if f.omitempty && !mo.Flags.Get(jsonflags.OmitEmptyWithLegacySemantics) {\n\t\t\t\tvar prevName *string", New: "if !mo.Flags.Get(jsonflags.OmitEmptyWithLegacySemantics) {\n\t\t\t\tvar prevName *string", Rule: "FIELD-1"},
	)
}

func init() {
	addMutants(
		// ---- MATRIX, POS-1, PANIC-1
		Mutant{ID: "matrix-consumeobject-no-duplicate-check", Props: []string{"C01", "C08"}, File: "jsontext/decode.go", Func: "decoderState.consumeObject",
			Old: "\t\tif !d.Flags.Get(jsonflags.AllowDuplicateNames) && !names.insertQuoted(quotedName, flags2.IsVerbatim()) {\n\t\t\treturn pos - n, wrapWithObjectName(ErrDuplicateName, quotedName)\n\t\t}\n", New: "\t\t_ = names\n", Rule: "MATRIX"},
		Mutant{ID: "matrix-consumestring-never-validates", Props: []string{"C01", "C08"}, File: "jsontext/decode.go", Func: "decoderState.consumeString",
			Old: "n, !d.Flags.Get(jsonflags.AllowInvalidUTF8))", New: "n, false)", Rule: "MATRIX"},
		Mutant{ID: "matrix-dupcheck-under-wrong-flag", Props: []string{"C01", "C08"}, File: "jsontext/encode.go", Func: "encoderState.reformatObject",
			Old: "if !e.Flags.Get(jsonflags.AllowDuplicateNames) && !names.insertQuoted(quotedName, isVerbatim) {", New: "if !e.Flags.Get(jsonflags.AllowDuplicateNames|jsonflags.AllowInvalidUTF8) && !names.insertQuoted(quotedName, isVerbatim) {", Rule: "MATRIX"},
		Mutant{ID: "matrix-eof-inside-value", Props: []string{"C01"}, File: "jsontext/decode.go", Func: "decoderState.ReadValue",
			Old: "if err == io.ErrUnexpectedEOF && d.Tokens.Depth() == 1 {", New: "if err == io.ErrUnexpectedEOF {", Rule: "MATRIX"},
		Mutant{ID: "matrix-embedded-key-quoted-with-default-flags", Props: []string{"C08", "C11"}, File: "arshal_embedded.go", Func: "marshalEmbeddedFallbackAll",
			Old: "jsonwire.AppendQuote(enc.AvailableBuffer(), []byte(mk.String()), &mo.Flags)", New: "jsonwire.AppendQuote(enc.AvailableBuffer(), []byte(mk.String()), &jsonflags.Flags{})", Rule: "MATRIX"},
		Mutant{ID: "matrix-pusharray-at-name-position", Props: []string{"C01", "C06"}, File: "jsontext/state.go", Func: "stateMachine.pushArray",
			Old: "\tcase m.Last.NeedObjectName():\n\t\treturn ErrNonStringName\n", New: "", Rule: "MATRIX"},
		Mutant{ID: "pos1-after-error-at-closure-entry", Props: []string{"C16"}, File: "arshal_default.go", Func: "makeArrayArshaler",
			Old: "\t\t\t\treturn newInvalidFormatError(dec, t)\n\t\t\t}\n\t\t}\n\t\ttok, err := dec.ReadToken()", New: "\t\t\t\treturn newUnmarshalErrorAfter(dec, t, nil)\n\t\t\t}\n\t\t}\n\t\ttok, err := dec.ReadToken()", Rule: "POS-1"},
		Mutant{ID: "panic1-new-panic-in-readtoken", Props: []string{"C20"}, File: "jsontext/decode.go", Func: "decoderState.ReadToken",
			Old: "\t// Handle the next token.\n\tvar n int\n", New: "\t// Handle the next token.\n\tvar n int\n\tif pos > len(d.buf) {\n\t\tpanic(\"BUG: position beyond buffer\")\n\t}\n", Rule: "PANIC-1"},
		Mutant{ID: "panic1-unclassified-panic", Props: []string{"C20"}, File: "arshal_default.go", Func: "makeInvalidArshaler",
			Old: "\t\treturn newMarshalErrorBefore(enc, t, nil)", New: "\t\tif t == nil {\n\t\t\tpanic(\"cannot marshal nil type\")\n\t\t}\n\t\treturn newMarshalErrorBefore(enc, t, nil)", Rule: "PANIC-1"},
	)
}

func init() {
	addMutants(
		// ---- wave-3 strengthening rules
		Mutant{ID: "numstate-zero-resumes-as-integer", Props: []string{"C01", "C05"}, File: "internal/jsonwire/decode.go", Func: "ConsumeNumberResumable",
			Old: "\tcase b[n] == '0':\n\t\tn++\n\t\tstate = beforeFractionalDigits", New: "\tcase b[n] == '0':\n\t\tn++\n\t\tstate = withinIntegerDigits", Rule: "NUMSTATE-1"},
		Mutant{ID: "numconv-float-handrolled", Props: []string{"C03"}, File: "arshal_any.go", Func: "unmarshalValueAny",
			Old: "\t\t\tfv, err := strconv.ParseFloat(string(val), 64)\n", New: "\t\t\tif len(val) == 1 {\n\t\t\t\treturn float64(val[0] - '0'), nil\n\t\t\t}\n\t\t\tfv, err := strconv.ParseFloat(string(val), 64)\n", Rule: "NUMCONV-1"},
		Mutant{ID: "ws1-space-after-indent", Props: []string{"C06", "C12"}, File: "jsontext/encode.go", Func: "encoderState.appendWhitespace",
			Old: "\t\tif delim == ',' && e.Flags.Get(jsonflags.SpaceAfterComma) {\n\t\t\tb = append(b, ' ')\n\t\t}\n\t\tif e.Flags.Get(jsonflags.Multiline) {\n\t\t\tb = e.AppendIndent(b, e.Tokens.NeedIndent(next))\n\t\t}\n", New: "\t\tif e.Flags.Get(jsonflags.Multiline) {\n\t\t\tb = e.AppendIndent(b, e.Tokens.NeedIndent(next))\n\t\t}\n\t\tif delim == ',' && e.Flags.Get(jsonflags.SpaceAfterComma) {\n\t\t\tb = append(b, ' ')\n\t\t}\n", Rule: "WS-1"},
		Mutant{ID: "pool4-encoder-reset-keeps-bytes", Props: []string{"C07", "C18"}, File: "jsontext/encode.go", Func: "Encoder.Reset",
			Old: "\tb := e.s.Buf[:0]\n", New: "\tb := e.s.Buf\n", Rule: "POOL-4"},
		Mutant{ID: "escape1-error-keeps-view", Props: []string{"C18"}, File: "errors.go", Func: "newUnmarshalErrorAfterWithValue",
			Old: "serr.JSONValue = jsontext.Value(export.Decoder(d).PreviousTokenOrValue()).Clone()", New: "serr.JSONValue = jsontext.Value(export.Decoder(d).PreviousTokenOrValue())", Rule: "ESCAPE-1"},
		Mutant{ID: "mapcache-linear-search-offset-stuck", Props: []string{"C08", "C01"}, File: "jsontext/state.go", Func: "objectNamespace.insert",
			Old: "\t\t\tif string(ns.allUnquotedNames[startOffset:endOffset]) == string(name) {\n\t\t\t\treturn false\n\t\t\t}\n\t\t\tstartOffset = endOffset\n", New: "\t\t\tif string(ns.allUnquotedNames[startOffset:endOffset]) == string(name) {\n\t\t\t\treturn false\n\t\t\t}\n", Rule: "MAPCACHE-1"},
		Mutant{ID: "matrix-appendraw-verbatim-without-needescape", Props: []string{"C01", "C08", "C12"}, File: "jsontext/encode.go", Func: "encoderState.AppendRaw",
			Old: "isVerbatim := safeASCII || !jsonwire.NeedEscape(b[pos+len(`\"`):len(b)-len(`\"`)])", New: "isVerbatim := safeASCII || len(b) < pos+64", Rule: "MATRIX"},
	)
}

func init() {
	addMutants(
		// ---- C03/C05/C18: STALE-2 (clients of the decoder)
		Mutant{ID: "stale2-fallback-appends-name-after-read", Props: []string{"C03", "C05"}, File: "arshal_embedded.go", Func: "unmarshalEmbeddedFallbackNext",
			Old: "\t\t*b = append(*b, quotedName...)\n\t\t*b = append(*b, ':')\n\t\tval, err := dec.ReadValue()\n\t\tif err != nil {\n\t\t\treturn err\n\t\t}\n",
			New: "\t\tval, err := dec.ReadValue()\n\t\tif err != nil {\n\t\t\treturn err\n\t\t}\n\t\t*b = append(*b, quotedName...)\n\t\t*b = append(*b, ':')\n", Rule: "STALE-2"},
		Mutant{ID: "stale2-fallback-name-string-after-unmarshal", Props: []string{"C03", "C05"}, File: "arshal_embedded.go", Func: "unmarshalEmbeddedFallbackNext",
			Old: "\t\terr := unmarshal(dec, mv, uo)\n\t\tm.SetMapIndex(mk, mv.Value)\n", New: "\t\terr := unmarshal(dec, mv, uo)\n\t\tmk = reflect.ValueOf(string(unquotedName)).Convert(m.Type().Key())\n\t\tm.SetMapIndex(mk, mv.Value)\n", Rule: "STALE-2"},
		Mutant{ID: "stale2-struct-dupcheck-after-skip", Props: []string{"C03", "C05"}, File: "arshal_default.go", Func: "makeStructArshaler",
			Old: "\t\t\t\t\t\t\tif err := dec.SkipValue(); err != nil {\n\t\t\t\t\t\t\t\treturn err\n\t\t\t\t\t\t\t}\n\t\t\t\t\t\t} else {",
			New: "\t\t\t\t\t\t\tif err := dec.SkipValue(); err != nil {\n\t\t\t\t\t\t\t\treturn err\n\t\t\t\t\t\t\t}\n\t\t\t\t\t\t\t_ = fields.byActualName[string(name)]\n\t\t\t\t\t\t} else {", Rule: "STALE-2"},
		Mutant{ID: "stale2-v1-number-uses-val-after-peek", Props: []string{"C03", "C05"}, File: "v1/decode.go", Func: "Number.UnmarshalJSONFrom",
			Old: "\tval, err := dec.ReadValue()\n\tif err != nil {\n\t\treturn err\n\t}\n", New: "\tval, err := dec.ReadValue()\n\tif err != nil {\n\t\treturn err\n\t}\n\tdec.PeekKind()\n", Rule: "STALE-2"},
	)
}

func init() {
	addMutants(
		// ---- round-c strengthening: UNWRITE-2, NS-3 all levels, ADDR-1, VERB-1, GLOBAL-2, OPT-7, POOL-2
		Mutant{ID: "unwrite2-flush-skips-avoidflush", Props: []string{"C07", "C15"}, File: "jsontext/encode.go", Func: "encoderState.Flush",
			Old: "if e.wr == nil || e.avoidFlush() {", New: "if e.wr == nil {", Rule: "UNWRITE-2"},
		Mutant{ID: "unwrite2-avoidflush-objects-only", Props: []string{"C07", "C15"}, File: "jsontext/encode.go", Func: "encoderState.avoidFlush",
			Old: "case e.Tokens.Last.Length() == 0:", New: "case e.Tokens.Last.isObject() && e.Tokens.Last.Length() == 0:", Rule: "UNWRITE-2"},
		Mutant{ID: "unwrite2-avoidflush-drops-value-guard", Props: []string{"C07", "C15"}, File: "jsontext/encode.go", Func: "encoderState.avoidFlush",
			Old: "\tcase e.Tokens.Last.needObjectValue():\n\t\t// Never flush before the object value since we don't know yet\n\t\t// if the object value will end up being empty.\n\t\treturn true\n", New: "", Rule: "UNWRITE-2"},
		Mutant{ID: "ns3-invalidate-only-last", Props: []string{"C02", "C08", "C06"}, File: "jsontext/state.go", Func: "stateMachine.InvalidateDisabledNamespaces",
			Old: "\tfor i := range m.Depth() {\n\t\te := m.index(i)\n\t\tif !e.isActiveNamespace() {\n\t\t\te.invalidateNamespace()\n\t\t}\n\t}\n",
			New: "\tif e := &m.Last; !e.isActiveNamespace() {\n\t\te.invalidateNamespace()\n\t}\n", Rule: "NS-3"},
		Mutant{ID: "ns3-invalidate-skips-last", Props: []string{"C02", "C08"}, File: "jsontext/state.go", Func: "stateMachine.InvalidateDisabledNamespaces",
			Old: "\tfor i := range m.Depth() {\n\t\te := m.index(i)\n", New: "\tfor i := range m.Stack {\n\t\te := &m.Stack[i]\n", Rule: "NS-3"},
		Mutant{ID: "addr1-map-scratch-value-unforced", Props: []string{"C09", "C17"}, File: "arshal_default.go", Func: "makeMapArshaler",
			Old: "v := addressableValue{vals.Index(i), true}", New: "v := addressableValue{vals.Index(i), false}", Rule: "ADDR-1"},
		Mutant{ID: "addr1-struct-field-never-forced", Props: []string{"C09", "C17"}, File: "arshal_embedded.go", Func: "marshalEmbeddedFallbackAll",
			Old: "v := addressableValue{va.Field(f.index0), va.forcedAddr}", New: "v := addressableValue{va.Field(f.index0), false}", Rule: "ADDR-1"},
		Mutant{ID: "addr1-top-level-copy-unforced", Props: []string{"C09", "C17"}, File: "arshal.go", Func: "marshalEncode",
			Old: "va := addressableValue{v.Elem(), forceAddr}", New: "va := addressableValue{v.Elem(), false}", Rule: "ADDR-1"},
		Mutant{ID: "verb1-token-string-backslash-test", Props: []string{"C11", "C03"}, File: "jsontext/token.go", Func: "Token.string",
			Old: "isVerbatim := jsonwire.ConsumeSimpleString(buf) == len(buf)", New: "isVerbatim := bytes.IndexByte(buf, '\\\\') < 0", Rule: "VERB-1"},
		Mutant{ID: "verb1-v1-number-always-verbatim", Props: []string{"C11", "C03"}, File: "v1/decode.go", Func: "Number.UnmarshalJSONFrom",
			Old: "val = jsonwire.UnquoteMayCopy(val, verbatim)", New: "_ = verbatim\n\t\tval = jsonwire.UnquoteMayCopy(val, true)", Rule: "VERB-1"},
		Mutant{ID: "global2-shared-empty-map", Props: []string{"C14", "C18", "C03"}, File: "arshal_any.go",
			Old: "func unmarshalObjectAny(dec *jsontext.Decoder, uo *jsonopts.Struct) (map[string]any, error) {\n\tswitch tok, err := dec.ReadToken(); {\n\tcase err != nil:\n\t\treturn nil, err\n\tcase tok.Kind() != '{':\n\t\tpanic(\"BUG: invalid kind: \" + tok.Kind().String())\n\t}\n",
			New: "var sharedEmptyObject = map[string]any{}\n\nfunc unmarshalObjectAny(dec *jsontext.Decoder, uo *jsonopts.Struct) (map[string]any, error) {\n\tswitch tok, err := dec.ReadToken(); {\n\tcase err != nil:\n\t\treturn nil, err\n\tcase tok.Kind() != '{':\n\t\tpanic(\"BUG: invalid kind: \" + tok.Kind().String())\n\t}\n\tif dec.PeekKind() == '}' {\n\t\t_, err := dec.ReadToken()\n\t\treturn sharedEmptyObject, err\n\t}\n", Rule: "GLOBAL-2"},
		Mutant{ID: "opt7-join-returns-argument", Props: []string{"C19"}, File: "options.go", Func: "JoinOptions",
			Old: "func JoinOptions(srcs ...Options) Options {\n", New: "func JoinOptions(srcs ...Options) Options {\n\tif len(srcs) == 1 {\n\t\tif s, ok := srcs[0].(*jsonopts.Struct); ok {\n\t\t\treturn s\n\t\t}\n\t}\n", Rule: "OPT-7"},
		Mutant{ID: "pool2-conditional-map-reset", Props: []string{"C18", "C06", "C08", "C03", "C04"}, File: "jsontext/state.go", Func: "objectNamespace.reset",
			Old: "\tns.mapNames = nil\n", New: "\tif cap(ns.endOffsets) > 1<<6 {\n\t\tns.mapNames = nil\n\t}\n", Rule: "POOL-2"},
		Mutant{ID: "peek1-checknextvalue-keeps-cache", Props: []string{"C05", "C20"}, File: "jsontext/decode.go", Func: "decoderState.CheckNextValue",
			Old: "\td.PeekKind() // populates d.peekPos and d.peekErr\n\tpos, err := d.peekPos, d.peekErr\n\td.peekPos, d.peekErr = 0, nil\n", New: "\td.PeekKind() // populates d.peekPos and d.peekErr\n\tpos, err := d.peekPos, d.peekErr\n\tif err != nil {\n\t\td.peekPos, d.peekErr = 0, nil\n\t}\n", Rule: "PEEK-1"},
	)
}

func init() {
	addMutants(
		// ---- C10: NUMWIDTH-1
		Mutant{ID: "numwidth-float-marshal-const64", Props: []string{"C10"}, File: "arshal_default.go", Func: "makeFloatArshaler",
			Old: "return jsonwire.AppendFloat(b, va.Float(), bits), nil", New: "return jsonwire.AppendFloat(b, va.Float(), 64), nil", Rule: "NUMWIDTH-1"},
		Mutant{ID: "numwidth-float-parse-const64", Props: []string{"C10"}, File: "arshal_default.go", Func: "makeFloatArshaler",
			Old: "fv, err := strconv.ParseFloat(string(val), bits)", New: "fv, err := strconv.ParseFloat(string(val), 64)", Rule: "NUMWIDTH-1"},
		Mutant{ID: "numwidth-uint-skips-sign", Props: []string{"C10"}, File: "arshal_default.go", Func: "makeUintArshaler",
			Old: "n, ok := jsonwire.ParseUint(val)\n", New: "n, ok := jsonwire.ParseUint(bytes.TrimPrefix(val, []byte(\"-\")))\n", Rule: "NUMWIDTH-1"},
		Mutant{ID: "numwidth-int-bound-constant", Props: []string{"C10"}, File: "arshal_default.go", Func: "makeIntArshaler",
			Old: "maxInt := uint64(1) << (bits - 1)", New: "maxInt := uint64(1) << 63", Rule: "NUMWIDTH-1"},
		Mutant{ID: "numwidth-token-float32-as-64", Props: []string{"C10"}, File: "jsontext/token.go", Func: "Token.string",
			Old: "return string(jsonwire.AppendFloat(nil, float64(math.Float32frombits(uint32(t.num))), 32)), nil", New: "return string(jsonwire.AppendFloat(nil, float64(math.Float32frombits(uint32(t.num))), 64)), nil", Rule: "NUMWIDTH-1"},
		Mutant{ID: "numwidth-any-float-from-32", Props: []string{"C10"}, File: "arshal_any.go", Func: "unmarshalValueAny",
			Old: "fv, err := strconv.ParseFloat(string(val), 64)", New: "fv, err := strconv.ParseFloat(string(val), 32)", Rule: "NUMWIDTH-1"},
	)
}

func init() {
	addMutants(
		// ---- round-d strengthening
		Mutant{ID: "pair1-demorgan-consume-string", Props: []string{"C01", "C11"}, File: "internal/jsonwire/decode.go", Func: "ConsumeStringResumable",
			Old: "b[n] != '\\\\' || b[n+1] != 'u' || !ok", New: "b[n] != '\\\\' && b[n+1] != 'u' || !ok", Rule: "PAIR-1"},
		Mutant{ID: "flagmask1-unmarshal-mask-loses-flag", Props: []string{"C04"}, File: "arshal_default.go", Func: "makeBytesArshaler",
			Old: "if uo.Flags.Has(jsonflags.TagFlags | jsonflags.FormatByteArrayAsArray | jsonflags.FormatBytesWithLegacySemantics) {", New: "if uo.Flags.Has(jsonflags.TagFlags | jsonflags.FormatBytesWithLegacySemantics) {", Rule: "FLAGMASK-1"},
		Mutant{ID: "full1-number-length-ignored", Props: []string{"C09", "C10"}, File: "v1/decode.go", Func: "Number.UnmarshalJSONFrom",
			Old: "if n, err := jsonwire.ConsumeNumber(val); n != len(val) || err != nil {", New: "if _, err := jsonwire.ConsumeNumber(val); err != nil {", Rule: "FULL-1"},
		Mutant{ID: "surr1-pair-not-checked", Props: []string{"C11", "C03"}, File: "internal/jsonwire/decode.go", Func: "AppendUnquote",
			Old: "} else if r = utf16.DecodeRune(rune(v1), rune(v2)); r == utf8.RuneError {\n\t\t\t\t\t\terr = NewInvalidEscapeSequenceError(src[n-6 : n+6])\n\t\t\t\t\t} else {\n", New: "} else {\n\t\t\t\t\t\tr = utf16.DecodeRune(rune(v1), rune(v2))\n", Rule: "SURR-1"},
		Mutant{ID: "mono1-nondefault-overwritten", Props: []string{"C15", "C17"}, File: "arshal_default.go", Func: "makeStructArshaler",
			Old: "\t\t\t\tvar ok bool\n\t\t\t\tmarshal, ok = mo.Marshalers.(*Marshalers).lookup(marshal, f.typ)\n\t\t\t\tnonDefault = nonDefault || ok\n", New: "\t\t\t\tmarshal, nonDefault = mo.Marshalers.(*Marshalers).lookup(marshal, f.typ)\n", Rule: "MONO-1"},
		Mutant{ID: "poison1-undo-only-last", Props: []string{"C16", "C05"}, File: "jsontext/state.go", Func: "objectNameStack.copyQuotedBuffer",
			Old: "if quotedName[0] == invalidateBufferByte {", New: "if i == len(ns.offsets)-1 && quotedName[0] == invalidateBufferByte {", Rule: "POISON-1"},
		Mutant{ID: "niltest1-writer-cleared-before-test", Props: []string{"C18", "C07"}, File: "jsontext/pools.go", Func: "putStreamingEncoder",
			Old: "\tif _, ok := e.s.wr.(*bytes.Buffer); ok {\n\t\te.s.wr, e.s.Buf = nil, nil", New: "\te.s.wr = nil\n\tif _, ok := e.s.wr.(*bytes.Buffer); ok {\n\t\te.s.wr, e.s.Buf = nil, nil", Rule: "NILTEST-1"},
		Mutant{ID: "publish1-cache-before-wrapping", Props: []string{"C17", "C18"}, File: "arshal.go", Func: "lookupArshaler",
			Old: "\tfncs = makeMethodArshaler(fncs, t)\n", New: "\tif v, loaded := lookupArshalerCache.LoadOrStore(t, fncs); loaded {\n\t\treturn v.(*arshaler)\n\t}\n\tfncs = makeMethodArshaler(fncs, t)\n", Rule: "PUBLISH-1"},
		Mutant{ID: "eof1-errors-is", Props: []string{"C05", "C01"}, File: "jsontext/decode.go", Func: "decoderState.PeekKind",
			Old: "if err == io.ErrUnexpectedEOF && d.Tokens.Depth() == 1 {", New: "if errors.Is(err, io.ErrUnexpectedEOF) && d.Tokens.Depth() == 1 {", Rule: "EOF-1"},
		Mutant{ID: "format1-number-length-of-other-var", Props: []string{"C13", "C12"}, File: "internal/jsonwire/encode.go", Func: "ReformatNumber",
			Old: "if !flags.Get(jsonflags.CanonicalizeRawInts) || n < maxExactIntegerDigits {", New: "digits := n - 1\n\t\tif !flags.Get(jsonflags.CanonicalizeRawInts) || digits < maxExactIntegerDigits {", Rule: "FORMAT-1"},
		Mutant{ID: "opt3-getoption-fallback-overrides", Props: []string{"C19"}, File: "internal/jsonopts/options.go", Func: "GetOption",
			Old: "if !ok && opt == jsonflags.StringifyNumbers", New: "if opt == jsonflags.StringifyNumbers", Rule: "OPT-3"},
		Mutant{ID: "err1-array-skip-error-dropped", Props: []string{"C20", "C05"}, File: "arshal_default.go", Func: "makeArrayArshaler",
			Old: "\t\t\t\t\tif err := dec.SkipValue(); err != nil {\n\t\t\t\t\t\treturn err\n\t\t\t\t\t}\n\t\t\t\t\terr = errArrayOverflow\n", New: "\t\t\t\t\tdec.SkipValue()\n\t\t\t\t\terr = errArrayOverflow\n", Rule: "ERR-1"},
	)
}

func init() {
	addMutants(
		// ---- round-e strengthening
		Mutant{ID: "flagpair1-conjunction-to-mask", Props: []string{"C09", "C19"}, File: "arshal_default.go", Func: "makePointerArshaler",
			Old: "if uo.Flags.Get(jsonflags.StringTag) && uo.Flags.Get(jsonflags.StringifyWithLegacySemantics) {", New: "if uo.Flags.Get(jsonflags.StringTag | jsonflags.StringifyWithLegacySemantics) {", Rule: "FLAGPAIR-1"},
		Mutant{ID: "within1-mark-before-early-eof", Props: []string{"C20", "C17"}, File: "arshal_methods.go", Func: "makeMethodArshaler",
			Old: "\t\t\tif prevDepth == 1 && xd.AtEOF() {\n\t\t\t\treturn io.EOF // check EOF early to avoid fn reporting an EOF\n\t\t\t}\n\t\t\twasWithin := xd.Flags.Get(jsonflags.WithinArshalCall) // true for a nested call on the same coder\n\t\t\txd.Flags.Set(jsonflags.WithinArshalCall | 1)\n",
			New: "\t\t\twasWithin := xd.Flags.Get(jsonflags.WithinArshalCall) // true for a nested call on the same coder\n\t\t\txd.Flags.Set(jsonflags.WithinArshalCall | 1)\n\t\t\tif prevDepth == 1 && xd.AtEOF() {\n\t\t\t\treturn io.EOF // check EOF early to avoid fn reporting an EOF\n\t\t\t}\n", Rule: "WITHIN-1"},
		Mutant{ID: "unwrite3-trim-under-option", Props: []string{"C02", "C15"}, File: "jsontext/encode.go", Func: "encoderState.UnwriteEmptyObjectMember",
			Old: "\tb = jsonwire.TrimSuffixString(b)\n\tb = jsonwire.TrimSuffixWhitespace(b)\n", New: "\tb = jsonwire.TrimSuffixString(b)\n\tif e.Flags.Get(jsonflags.Multiline) {\n\t\tb = jsonwire.TrimSuffixWhitespace(b)\n\t}\n", Rule: "UNWRITE-3"},
		Mutant{ID: "index1-fast-path-misses-offset-zero", Props: []string{"C16", "C11"}, File: "jsontext/errors.go", Func: "wrapWithObjectName",
			Old: "\tname := jsonwire.UnquoteMayCopy(quotedName, false)\n", New: "\tname := quotedName[len(`\"`) : len(quotedName)-len(`\"`)]\n\tif bytes.IndexByte(name, '\\\\') > 0 {\n\t\tname = jsonwire.UnquoteMayCopy(quotedName, false)\n\t}\n", Rule: "INDEX-1"},
		Mutant{ID: "escset1-formfeed-dropped", Props: []string{"C13", "C11"}, File: "internal/jsonwire/decode.go", Func: "ConsumeStringResumable",
			Old: "case '\\b', '\\f', '\\n', '\\r', '\\t':\n\t\t\t\t\tflags.Join(stringNonCanonical)", New: "case '\\b', '\\n', '\\r', '\\t':\n\t\t\t\t\tflags.Join(stringNonCanonical)", Rule: "ESCSET-1"},
		Mutant{ID: "deadfield1-v1-encoder-error-not-latched", Props: []string{"C09", "C07"}, File: "v1/stream.go", Func: "Encoder.Encode",
			Old: "\tif _, err := enc.w.Write(b); err != nil {\n\t\tenc.err = err\n\t\treturn err\n\t}\n\treturn nil\n", New: "\t_, err := enc.w.Write(b)\n\treturn err\n", Rule: "DEADFIELD-1"},
		Mutant{ID: "eof1-ateof-any-error", Props: []string{"C05", "C01"}, File: "jsontext/decode.go", Func: "decoderState.AtEOF",
			Old: "return err == io.ErrUnexpectedEOF", New: "return err != nil", Rule: "EOF-1"},
		Mutant{ID: "v13-checknextvalue-constant", Props: []string{"C09"}, File: "arshal.go", Func: "unmarshalDecode",
			Old: "export.Decoder(in).CheckNextValue(last)", New: "export.Decoder(in).CheckNextValue(false)", Rule: "V1-3"},
		Mutant{ID: "merge1-map-key-static-comparable", Props: []string{"C20", "C14"}, File: "arshal_default.go", Func: "makeMapArshaler",
			Old: "!k.Elem().Type().Comparable()", New: "!k.Type().Comparable()", Rule: "MERGE-1"},
	)
}

func init() {
	addMutants(
		// ---- round-f strengthening
		Mutant{ID: "ns4-disable-before-open", Props: []string{"C02", "C08"}, File: "arshal_any.go", Func: "marshalObjectAny",
			Old: "\tif err := enc.WriteToken(jsontext.BeginObject); err != nil {\n\t\treturn err\n\t}\n\t// A Go map guarantees that each entry has a unique key.\n\t// The only possibility of duplicates is due to invalid UTF-8.\n\tif !mo.Flags.Get(jsonflags.AllowInvalidUTF8) {\n\t\txe.Tokens.Last.DisableNamespace()\n\t}\n",
			New: "\tif !mo.Flags.Get(jsonflags.AllowInvalidUTF8) {\n\t\txe.Tokens.Last.DisableNamespace()\n\t}\n\tif err := enc.WriteToken(jsontext.BeginObject); err != nil {\n\t\treturn err\n\t}\n", Rule: "NS-4"},
		Mutant{ID: "flagmask1-has-on-boolean-option", Props: []string{"C19", "C04"}, File: "arshal.go", Func: "Unmarshal",
			Old: "xd.Flags.Get(jsonflags.ReportErrorsWithLegacySemantics)", New: "xd.Flags.Has(jsonflags.ReportErrorsWithLegacySemantics)", Rule: "FLAGMASK-1"},
		Mutant{ID: "prec1-textappender-not-nondefault", Props: []string{"C08", "C17", "C15"}, File: "arshal_methods.go", Func: "makeMethodArshaler",
			Old: "\tif needAddr, ok := implements(t, textAppenderType); ok {\n\t\tfncs.nonDefault = true\n", New: "\tif needAddr, ok := implements(t, textAppenderType); ok {\n", Rule: "PREC-1"},
		Mutant{ID: "addr1-indirect-keeps-parent-bit", Props: []string{"C09", "C17"}, File: "arshal_default.go", Func: "addressableValue.indirect",
			Old: "va = addressableValue{va.Elem(), false} // dereferenced pointer is always addressable", New: "va.Value = va.Elem()", Rule: "ADDR-1"},
		Mutant{ID: "v15-guard-tests-other-option", Props: []string{"C09", "C19"}, File: "v1/stream.go", Func: "Decoder.DisallowUnknownFields",
			Old: "jsonv2.GetOption(dec.opts, jsonv2.RejectUnknownMembers); !reject", New: "jsonv2.GetOption(dec.opts, unmarshalAnyWithRawNumber); !reject", Rule: "V1-5"},
		Mutant{ID: "unsup1-identity-in-sanitiser", Props: []string{"C17", "C02"}, File: "errors.go", Func: "wrapErrUnsupported",
			Old: "if errors.Is(err, errors.ErrUnsupported) {", New: "if err == errors.ErrUnsupported {", Rule: "UNSUP-1"},
		Mutant{ID: "opt3-join-clears-presence", Props: []string{"C19"}, File: "internal/jsonopts/options.go", Func: "Struct.Join",
			Old: "dst.Flags.Set(jsonflags.FormatTagSupported | 0)", New: "dst.Flags.Clear(jsonflags.FormatTagSupported)", Rule: "OPT-3"},
		Mutant{ID: "ctrl1-space-on-control-side", Props: []string{"C13", "C11"}, File: "internal/jsonwire/decode.go", Func: "ConsumeStringResumable",
			Old: "if v1 >= ' ' {", New: "if v1 > ' ' {", Rule: "CTRL-1"},
		Mutant{ID: "verb1-raw-token-verbatim-under-options", Props: []string{"C06", "C11"}, File: "jsontext/token.go", Func: "Token.appendString",
			Old: "if jsonwire.ConsumeSimpleString(buf) == len(buf) {", New: "if jsonwire.ConsumeSimpleString(buf) == len(buf) || (flags.Get(jsonflags.PreserveRawStrings) && !flags.Get(jsonflags.AnyEscape)) {", Rule: "VERB-1"},
	)
}

func init() {
	addMutants(
		// ---- round-g strengthening
		Mutant{ID: "scratch1-map-value-not-reset", Props: []string{"C04", "C14"}, File: "arshal_default.go", Func: "makeMapArshaler",
			Old: "\t\t\t\t} else {\n\t\t\t\t\tv.SetZero()\n\t\t\t\t}\n\n\t\t\t\t// Unmarshal the map entry value.", New: "\t\t\t\t}\n\n\t\t\t\t// Unmarshal the map entry value.", Rule: "SCRATCH-1"},
		Mutant{ID: "seenset1-low-word-overwritten", Props: []string{"C08", "C15"}, File: "arshal_default.go", Func: "uintSet64.set",
			Old: "*s |= 1 << i", New: "*s = 1 << i", Rule: "SEENSET-1"},
		Mutant{ID: "pos2-offset-needs-empty-previous", Props: []string{"C16"}, File: "errors.go", Func: "newSemanticErrorWithPosition",
			Old: "if (prevDepth == currDepth && prevLength == currLength) || len(tokOrVal) == 0 {", New: "if (prevDepth == currDepth && prevLength == currLength) && len(tokOrVal) == 0 {", Rule: "POS-2"},
		Mutant{ID: "names2-appendraw-record-under-dup-flag", Props: []string{"C16"}, File: "jsontext/encode.go", Func: "encoderState.AppendRaw",
			Old: "\t\t\t\t}\n\t\t\t}\n\t\t\te.Names.ReplaceLastQuotedOffset(pos) // only replace if insertQuoted succeeds\n", New: "\t\t\t\t}\n\t\t\t\te.Names.ReplaceLastQuotedOffset(pos) // only replace if insertQuoted succeeds\n\t\t\t}\n", Rule: "NAMES-2"},
		Mutant{ID: "guard1-pointer-isvalid-wide-guard", Props: []string{"C16"}, File: "jsontext/state.go", Func: "Pointer.IsValid",
			Old: "return len(p) == 0 || p[0] == '/'", New: "return len(p) <= 1 || p[0] == '/'", Rule: "GUARD-1"},
		Mutant{ID: "share1-adopt-single-list", Props: []string{"C17", "C18"}, File: "arshal_funcs.go", Func: "newTypedArshalers",
			Old: "a.fncVals = append(a.fncVals, a2.fncVals...)", New: "if len(a.fncVals) == 0 {\n\t\t\t\ta.fncVals = a2.fncVals\n\t\t\t} else {\n\t\t\t\ta.fncVals = append(a.fncVals, a2.fncVals...)\n\t\t\t}", Rule: "SHARE-1"},
		Mutant{ID: "null1-float-quoted-null-zeroes-under-merge", Props: []string{"C09", "C14"}, File: "arshal_default.go", Func: "makeFloatArshaler",
			Old: "\t\t\t\t\t\tif !uo.Flags.Get(jsonflags.MergeWithLegacySemantics) {\n\t\t\t\t\t\t\tva.SetFloat(0)\n\t\t\t\t\t\t}\n", New: "\t\t\t\t\t\tva.SetFloat(0)\n", Rule: "NULL-1"},
		Mutant{ID: "full1-parseuint-verdict-dropped", Props: []string{"C04", "C10"}, File: "arshal_time.go", Func: "parseTimeUnix",
			Old: "mid, _ := parsePaddedBase10(wholeBytes[len(wholeBytes)-width:], pow10)", New: "mid, _ := jsonwire.ParseUint(wholeBytes[len(wholeBytes)-width:])", Rule: "FULL-1"},
		Mutant{ID: "field1-folded-index-skips-strict", Props: []string{"C08", "C15"}, File: "fields.go", Func: "makeStructFields",
			Old: "\t\tfs.byFoldedName[foldedName] = append(fs.byFoldedName[foldedName], &fs.flattened[i])\n", New: "\t\tif f.casing != caseStrict {\n\t\t\tfs.byFoldedName[foldedName] = append(fs.byFoldedName[foldedName], &fs.flattened[i])\n\t\t}\n", Rule: "FIELD-1"},
	)
}

func init() {
	addMutants(
		// ---- round-h strengthening
		Mutant{ID: "ws2-trim-forgets-carriage-return", Props: []string{"C12"}, File: "internal/jsonwire/wire.go", Func: "TrimSuffixWhitespace",
			Old: "(b[n] == ' ' || b[n] == '\\t' || b[n] == '\\r' || b[n] == '\\n')", New: "(b[n] == ' ' || b[n] == '\\t' || b[n] == '\\n')", Rule: "WS-2"},
		Mutant{ID: "floatconst1-range-bound-rounded", Props: []string{"C10"}, File: "jsontext/token.go", Func: "Token.Int",
			Old: "(i64 == maxInt64 && f64 >= maxInt64+1)", New: "(i64 == maxInt64 && f64 > maxInt64)", Rule: "FLOATCONST-1"},
		Mutant{ID: "skip1-nil-field-error-returned-under-legacy", Props: []string{"C20"}, File: "arshal_default.go", Func: "makeStructArshaler",
			Old: "\t\t\t\t\t\tif !uo.Flags.Get(jsonflags.ReportErrorsWithLegacySemantics) {\n\t\t\t\t\t\t\treturn err\n\t\t\t\t\t\t}\n\t\t\t\t\t\terrUnmarshal = cmp.Or(errUnmarshal, err)", New: "\t\t\t\t\t\tif err != nil {\n\t\t\t\t\t\t\treturn err\n\t\t\t\t\t\t}\n\t\t\t\t\t\terrUnmarshal = cmp.Or(errUnmarshal, err)", Rule: "SKIP-1"},
		Mutant{ID: "depth2-empty-array-fast-path", Props: []string{"C01", "C20"}, File: "jsontext/encode.go", Func: "encoderState.reformatValue",
			Old: "\tcase '[':\n\t\treturn e.reformatArray(dst, src, depth)", New: "\tcase '[':\n\t\tif len(src) == 2 {\n\t\t\treturn append(dst, src...), 2, nil\n\t\t}\n\t\treturn e.reformatArray(dst, src, depth)", Rule: "DEPTH-2"},
		Mutant{ID: "numwidth1-float32-token-string-64", Props: []string{"C10"}, File: "jsontext/token.go", Func: "Token.string",
			Old: "float64(math.Float32frombits(uint32(t.num))), 32)", New: "float64(math.Float32frombits(uint32(t.num))), 64)", Rule: "NUMWIDTH-1"},
		Mutant{ID: "scratch1-map-value-stored-only-on-success", Props: []string{"C14", "C04"}, File: "arshal_default.go", Func: "makeMapArshaler",
			Old: "\t\t\t\tva.SetMapIndex(k.Value, v.Value)\n\t\t\t\tif seen.IsValid() {", New: "\t\t\t\tif err == nil {\n\t\t\t\t\tva.SetMapIndex(k.Value, v.Value)\n\t\t\t\t}\n\t\t\t\tif seen.IsValid() {", Rule: "SCRATCH-1"},
		Mutant{ID: "null1-struct-merge-test-inverted", Props: []string{"C14"}, File: "arshal_default.go", Func: "makeStructArshaler",
			Old: "\t\tcase 'n':\n\t\t\tif !uo.Flags.Get(jsonflags.MergeWithLegacySemantics) {\n\t\t\t\tva.SetZero()", New: "\t\tcase 'n':\n\t\t\tif uo.Flags.Get(jsonflags.MergeWithLegacySemantics) {\n\t\t\t\tva.SetZero()", Rule: "NULL-1"},
		Mutant{ID: "v16-compact-writes-before-check", Props: []string{"C12", "C09"}, File: "v1/indent.go", Func: "Compact",
			Old: "\tif err != nil {\n\t\treturn transformSyntacticError(err)\n\t}\n\tdst.Write(b)", New: "\tdst.Write(b)\n\tif err != nil {\n\t\treturn transformSyntacticError(err)\n\t}", Rule: "V1-6"},
	)
}

func init() {
	addMutants(
		Mutant{ID: "charset1-hex-digit-range-short", Props: []string{"C01", "C11"}, File: "internal/jsonwire/decode.go", Func: "parseHexUint16",
			Old: "case 'a' <= c && c <= 'f':", New: "case 'a' <= c && c <= 'e':", Rule: "CHARSET-1"},
		Mutant{ID: "charset1-fraction-digits-to-eight", Props: []string{"C01", "C10"}, File: "internal/jsonwire/decode.go", Func: "ConsumeNumberResumable",
			Old: "case '0' <= b[n] && b[n] <= '9':", New: "case '0' <= b[n] && b[n] < '9':", Rule: "CHARSET-1"},
	)
}

func init() {
	addMutants(
		// ---- round-i strengthening
		Mutant{ID: "quote1-insertquoted-strips-unconditionally", Props: []string{"C08", "C03"}, File: "jsontext/state.go", Func: "objectNamespace.insertQuoted",
			Old: "\tif isVerbatim {\n\t\tname = name[len(`\"`) : len(name)-len(`\"`)]\n\t}\n", New: "\tname = name[len(`\"`) : len(name)-len(`\"`)]\n", Rule: "QUOTE-1"},
		Mutant{ID: "v17-compact-empty-input-shortcut", Props: []string{"C09"}, File: "v1/indent.go", Func: "Compact",
			Old: "\tb, err := jsontext.AppendFormat(b, src,", New: "\tif len(src) == 0 {\n\t\treturn nil\n\t}\n\tb, err := jsontext.AppendFormat(b, src,", Rule: "V1-7"},
		Mutant{ID: "clone1-value-clone-is-a-view", Props: []string{"C18"}, File: "jsontext/value.go", Func: "Value.Clone",
			Old: "return bytes.Clone(v)", New: "return v[:len(v):len(v)]", Rule: "CLONE-1"},
		Mutant{ID: "cache1-nil-entry-reported-found", Props: []string{"C17", "C18"}, File: "arshal_funcs.go", Func: "typedArshalers.lookup",
			Old: "\t\tif v == nil {\n\t\t\treturn fnc, false\n\t\t}", New: "\t\tif v == nil {\n\t\t\treturn fnc, true\n\t\t}", Rule: "CACHE-1"},
		Mutant{ID: "indent1-prefix-allows-newline", Props: []string{"C02", "C12"}, File: "jsontext/options.go", Func: "WithIndentPrefix",
			Old: "strings.Trim(prefix, \" \\t\")", New: "strings.Trim(prefix, \" \\t\\n\")", Rule: "INDENT-1"},
		Mutant{ID: "codec1-rfc3339-unchecked", Props: []string{"C04"}, File: "arshal_time.go", Func: "timeArshaler.initFormat",
			Old: "\tcase \"RFC3339\":\n\t\ta.base = 0\n", New: "\tcase \"RFC3339\":\n", Rule: "CODEC-1"},
		Mutant{ID: "charset1-padded-digits-one-sided", Props: []string{"C04", "C10"}, File: "arshal_time.go", Func: "parsePaddedBase10",
			Old: "if b[0] < '0' || '9' < b[0] {", New: "if b[0] < '0' {", Rule: "CHARSET-1"},
		Mutant{ID: "flagsym1-time-format-precedence-swapped", Props: []string{"C04"}, File: "arshal_time.go", Func: "makeTimeArshaler",
			Old: "\t\t\tif uo.Flags.Has(jsonflags.FormatTag) {\n\t\t\t\tif !u.initFormat(uo.Format) {\n\t\t\t\t\treturn newInvalidFormatError(dec, t)\n\t\t\t\t}\n\t\t\t} else if uo.Flags.Get(jsonflags.FormatDurationAsNano) {\n\t\t\t\treturn unmarshalNano(dec, va, uo)\n", New: "\t\t\tif uo.Flags.Get(jsonflags.FormatDurationAsNano) {\n\t\t\t\treturn unmarshalNano(dec, va, uo)\n\t\t\t} else if uo.Flags.Has(jsonflags.FormatTag) {\n\t\t\t\tif !u.initFormat(uo.Format) {\n\t\t\t\t\treturn newInvalidFormatError(dec, t)\n\t\t\t\t}\n", Rule: "FLAGSYM-1"},
	)
}

func init() {
	addMutants(
		// ---- round-j strengthening
		Mutant{ID: "merge1-map-seed-skipped-for-pointer-elements", Props: []string{"C14"}, File: "arshal_default.go", Func: "makeMapArshaler",
			Old: "\t\t\t\t\tif !uo.Flags.Get(jsonflags.MergeWithLegacySemantics) {\n\t\t\t\t\t\tv.Set(v2)", New: "\t\t\t\t\tif !uo.Flags.Get(jsonflags.MergeWithLegacySemantics) && t.Elem().Kind() != reflect.Pointer {\n\t\t\t\t\t\tv.Set(v2)", Rule: "MERGE-1"},
		Mutant{ID: "cap1-readvalue-uncapped-slice", Props: []string{"C05", "C18"}, File: "jsontext/decode.go", Func: "decoderState.ReadValue",
			Old: "return d.buf[pos-n : pos : pos], nil", New: "return d.buf[pos-n : pos], nil", Rule: "CAP-1"},
	)
}

func init() {
	addMutants(
		Mutant{ID: "niliface1-typed-nil-marshalers-stored", Props: []string{"C20", "C17"}, File: "options.go", Func: "",
			Old: "\t\t\tdst.Marshalers = nil // a nil *Marshalers is equivalent to an empty list\n\t\t\tif src != nil {\n\t\t\t\tdst.Marshalers = (*Marshalers)(src)\n\t\t\t}", New: "\t\t\tdst.Marshalers = (*Marshalers)(src)", Rule: "NILIFACE-1"},
	)
}

func init() {
	addMutants(
		// ---- round-k strengthening
		Mutant{ID: "peek2-readtoken-keeps-cached-position", Props: []string{"C05"}, File: "jsontext/decode.go", Func: "decoderState.ReadToken",
			Old: "\t\tnext = Kind(d.buf[pos]).normalize()\n\t\td.peekPos = 0 // reset cache\n", New: "\t\tnext = Kind(d.buf[pos]).normalize()\n", Rule: "PEEK-2"},
		Mutant{ID: "bbuf1-flush-aliases-whole-buffer", Props: []string{"C07", "C18"}, File: "jsontext/encode.go", Func: "encoderState.Flush",
			Old: "e.Buf = bb.AvailableBuffer()", New: "e.Buf = bb.Bytes()[:0]", Rule: "BBUF-1"},
		Mutant{ID: "pool5-names-put-twice", Props: []string{"C18"}, File: "arshal_any.go", Func: "marshalObjectAny",
			Old: "names := getStrings(len(obj))", New: "names := getStrings(len(obj))\n\t\tdefer putStrings(names)", Rule: "POOL-5"},
	)
}

func init() {
	addMutants(
		Mutant{ID: "null1-string-quoted-null-after-second-unquote", Props: []string{"C09"}, File: "arshal_default.go", Func: "makeStringArshaler",
			Old: "\t\t\t\tif uo.Flags.Get(jsonflags.StringifyWithLegacySemantics) && string(val) == \"null\" {\n\t\t\t\t\tif !uo.Flags.Get(jsonflags.MergeWithLegacySemantics) {\n\t\t\t\t\t\tva.SetString(\"\")\n\t\t\t\t\t}\n\t\t\t\t\treturn nil\n\t\t\t\t}\n\t\t\t\tval, err = jsontext.AppendUnquote(nil, val)\n\t\t\t\tif err != nil {\n\t\t\t\t\treturn newUnmarshalErrorAfter(dec, t, err)\n\t\t\t\t}\n",
			New: "\t\t\t\tval, err = jsontext.AppendUnquote(nil, val)\n\t\t\t\tif err != nil {\n\t\t\t\t\treturn newUnmarshalErrorAfter(dec, t, err)\n\t\t\t\t}\n\t\t\t\tif uo.Flags.Get(jsonflags.StringifyWithLegacySemantics) && string(val) == \"null\" {\n\t\t\t\t\tif !uo.Flags.Get(jsonflags.MergeWithLegacySemantics) {\n\t\t\t\t\t\tva.SetString(\"\")\n\t\t\t\t\t}\n\t\t\t\t\treturn nil\n\t\t\t\t}\n", Rule: "NULL-1"},
	)
}

func init() {
	addMutants(
		Mutant{ID: "depth3-empty-slice-fast-path-ignores-depth", Props: []string{"C20", "C02"}, File: "arshal_default.go", Func: "makeSliceArshaler",
			Old: "!xe.Tokens.Last.NeedObjectName() && !xe.Tokens.AtMaxDepth() {", New: "!xe.Tokens.Last.NeedObjectName() {", Rule: "DEPTH-3"},
	)
}

func init() {
	addMutants(
		Mutant{ID: "ptr2-mismatch-object-lifted-twice", Props: []string{"C16"}, File: "jsontext/errors.go", Func: "wrapSyntacticError",
			Old: "\t\t\t\tif !d.Tokens.Last.NeedObjectName() {\n\t\t\t\t\tptr = []byte(Pointer(ptr).Parent()) // problem is with parent object\n\t\t\t\t} // otherwise, ptr already points to the object itself\n", New: "\t\t\t\tptr = []byte(Pointer(ptr).Parent()) // problem is with parent object\n", Rule: "PTR-2"},
	)
}

func init() {
	addMutants(
		// ---- round-l strengthening
		Mutant{ID: "unsup1-marshaltofunc-not-skippable", Props: []string{"C17"}, File: "arshal_funcs.go", Func: "MarshalToFunc",
			Old: "\t\tmaySkip: true,\n", New: "", Rule: "UNSUP-1"},
		Mutant{ID: "guard2-consume-simple-string-inclusive-bound", Props: []string{"C20"}, File: "v1/indent.go", Func: "appendHTMLEscape",
			Old: "i+2 < len(src)", New: "i+2 <= len(src)", Rule: "GUARD-2"},
		Mutant{ID: "sharedval1-empty-slice-with-capacity", Props: []string{"C14", "C18"}, File: "arshal_default.go", Func: "makeSliceArshaler",
			Old: "emptySlice := reflect.MakeSlice(t, 0, 0)", New: "emptySlice := reflect.MakeSlice(t, 0, 4)", Rule: "SHAREDVAL-1"},
	)
}

func init() {
	addMutants(
		Mutant{ID: "within2-marshalto-mark-cleared-unconditionally", Props: []string{"C17"}, File: "arshal_methods.go", Func: "makeMethodArshaler",
			Old: "\t\t\tif !wasWithin {\n\t\t\t\txe.Flags.Set(jsonflags.WithinArshalCall | 0)\n\t\t\t}\n", New: "\t\t\t_ = wasWithin\n\t\t\txe.Flags.Set(jsonflags.WithinArshalCall | 0)\n", Rule: "WITHIN-2"},
	)
}

func init() {
	addMutants(
		// ---- round-m strengthening
		Mutant{ID: "v18-legacy-empty-without-interface", Props: []string{"C09"}, File: "arshal_default.go", Func: "isLegacyEmpty",
			Old: "case reflect.Pointer, reflect.Interface:", New: "case reflect.Pointer:", Rule: "V1-8"},
		Mutant{ID: "v18-text-marshaler-guard-ignores-forced-addr", Props: []string{"C09"}, File: "arshal_methods.go", Func: "makeMethodArshaler",
			Old: "\t\t\t\t(needAddr && va.forcedAddr) {\n\t\t\t\treturn prevMarshal(enc, va, mo)\n\t\t\t}\n\t\t\tmarshaler, _ := reflect.TypeAssert[encoding.TextMarshaler](va.Addr())", New: "\t\t\t\t(needAddr && !va.forcedAddr) {\n\t\t\t\treturn prevMarshal(enc, va, mo)\n\t\t\t}\n\t\t\tmarshaler, _ := reflect.TypeAssert[encoding.TextMarshaler](va.Addr())", Rule: "V1-8"},
		Mutant{ID: "v18-newdecoder-converts-instead-of-wrapping", Props: []string{"C09"}, File: "v1/stream.go", Func: "NewDecoder",
			Old: "r = struct{ io.Reader }{r}", New: "r = io.Reader(r)", Rule: "V1-8"},
		Mutant{ID: "nilfmt1-map-emitnull-keeps-option", Props: []string{"C19"}, File: "arshal_default.go", Func: "makeMapArshaler",
			Old: "\t\t\t\tcase \"emitnull\":\n\t\t\t\t\temitNull = true\n", New: "\t\t\t\tcase \"emitnull\":\n", Rule: "NILFMT-1"},
		Mutant{ID: "fmtcomp1-minutes-only-with-hours", Props: []string{"C04"}, File: "arshal_time.go", Func: "appendDurationISO8601",
			Old: "\tif min > 0 {\n", New: "\tif hour > 0 {\n", Rule: "FMTCOMP-1"},
		Mutant{ID: "escflag1-escape-cleared-only-for-quote", Props: []string{"C04"}, File: "fields.go", Func: "consumeTagOption",
			Old: "\t\t\t\t\tb = b[:len(b)-1] // remove escape character: `\\'` => `'`\n\t\t\t\t}\n\t\t\t\tinEscape = false\n", New: "\t\t\t\t\tb = b[:len(b)-1] // remove escape character: `\\'` => `'`\n\t\t\t\t\tinEscape = false\n\t\t\t\t}\n", Rule: "ESCFLAG-1"},
		Mutant{ID: "ws3-value-kind-trims-three-of-four", Props: []string{"C06"}, File: "jsontext/value.go", Func: "Value.Kind",
			Old: "if v := v[jsonwire.ConsumeWhitespace(v):]; len(v) > 0 {", New: "if v := bytes.TrimLeft(v, \" \\t\\n\"); len(v) > 0 {", Rule: "WS-3"},
		Mutant{ID: "kinddef1-any-default-reads-token", Props: []string{"C03"}, File: "arshal_default.go", Func: "makeInterfaceArshaler",
			Old: "\t\t\t\t_, err := dec.ReadValue()\n\t\t\t\treturn err\n", New: "\t\t\t\t_, err := dec.ReadToken()\n\t\t\t\treturn err\n", Rule: "KINDDEF-1"},
		Mutant{ID: "unwrite4-escaped-quote-test-needs-long-buffer", Props: []string{"C02"}, File: "jsontext/encode.go", Func: "encoderState.UnwriteEmptyObjectMember",
			Old: "if b[len(b)-3] == '\\\\' {", New: "if b[len(b)-3] == '\\\\' && len(b) > 8 {", Rule: "UNWRITE-4"},
		Mutant{ID: "errcmp1-needmore-matches-wrapped-sentinel", Props: []string{"C05"}, File: "jsontext/decode.go", Func: "",
			Old: "\treturn err == io.ErrUnexpectedEOF\n", New: "\treturn errors.Is(err, io.ErrUnexpectedEOF)\n", Rule: "ERRCMP-1"},
	)
}

func init() {
	addMutants(
		Mutant{ID: "appender1-user-method-sees-whole-buffer", Props: []string{"C02", "C17"}, File: "arshal_methods.go", Func: "makeMethodArshaler",
			Old: "appender.AppendText(b[len(b):])", New: "appender.AppendText(b[:len(b):len(b)])", Rule: "APPENDER-1"},
		Mutant{ID: "appender1-user-result-replaces-buffer", Props: []string{"C02", "C20"}, File: "arshal_methods.go", Func: "makeMethodArshaler",
			Old: "\t\t\t\tb2, err := appender.AppendText(b[len(b):])\n\t\t\t\treturn append(b, b2...), err\n", New: "\t\t\t\tb2, err := appender.AppendText(b[len(b):])\n\t\t\t\tif len(b) == 0 {\n\t\t\t\t\treturn b2, err\n\t\t\t\t}\n\t\t\t\treturn append(b, b2...), err\n", Rule: "APPENDER-1"},
	)
}

func init() {
	addMutants(
		// ---- round-n strengthening
		Mutant{ID: "impl1-unexported-field-direct-implements", Props: []string{"C17", "C15"}, File: "fields.go", Func: "makeStructFields",
			Old: "if implementsAny(tf, allMethodTypes...) ||\n", New: "if slices.ContainsFunc(allMethodTypes, tf.Implements) ||\n", Rule: "IMPL-1"},
		Mutant{ID: "setnum1-uint-single-digit-from-raw-byte", Props: []string{"C10"}, File: "arshal_default.go", Func: "makeUintArshaler",
			Old: "\t\t\tva.SetUint(n)\n\t\t\treturn nil\n\t\t}\n", New: "\t\t\tif len(val) == 1 {\n\t\t\t\tn = uint64(val[0] - '0')\n\t\t\t\tva.SetUint(uint64(val[0] - '0'))\n\t\t\t\treturn nil\n\t\t\t}\n\t\t\tva.SetUint(n)\n\t\t\treturn nil\n\t\t}\n", Rule: "SETNUM-1"},
		Mutant{ID: "depth4-atmaxdepth-one-late", Props: []string{"C20", "C02"}, File: "jsontext/state.go", Func: "stateMachine.AtMaxDepth",
			Old: "return len(m.Stack) == maxNestingDepth", New: "return len(m.Stack) > maxNestingDepth", Rule: "DEPTH-4"},
		Mutant{ID: "delim1-readtoken-check-only-after-delimiter", Props: []string{"C01", "C05"}, File: "jsontext/decode.go", Func: "decoderState.ReadToken",
			Old: "\t\t\t\t}\n\t\t\t}\n\t\t}\n\t\tnext = Kind(d.buf[pos]).normalize()\n\t\tif d.Tokens.needDelim(next) != delim {\n\t\t\treturn Token{}, d.checkDelim(delim, next)\n\t\t}\n", New: "\t\t\t\t}\n\t\t\t}\n\t\t\tnext = Kind(d.buf[pos]).normalize()\n\t\t\tif d.Tokens.needDelim(next) != delim {\n\t\t\t\treturn Token{}, d.checkDelim(delim, next)\n\t\t\t}\n\t\t}\n\t\tnext = Kind(d.buf[pos]).normalize()\n", Rule: "DELIM-1"},
		Mutant{ID: "defaults1-indent-default-under-colon-guard", Props: []string{"C06", "C19"}, File: "internal/jsonopts/options.go", Func: "Struct.InitializeMultiline",
			Old: "\tif !s.Flags.Has(jsonflags.Indent) {\n", New: "\tif !s.Flags.Has(jsonflags.Indent | jsonflags.IndentPrefix) {\n", Rule: "DEFAULTS-1"},
		Mutant{ID: "cofield1-encode-tests-prefix-only", Props: []string{"C09"}, File: "v1/stream.go", Func: "Encoder.Encode",
			Old: "if len(enc.indentPrefix)+len(enc.indentValue) > 0 {", New: "if len(enc.indentPrefix) > 0 {", Rule: "COFIELD-1"},
		Mutant{ID: "negzero1-normalisation-dropped", Props: []string{"C13"}, File: "internal/jsonwire/encode.go", Func: "ReformatNumber",
			Old: "\tcase fv == 0:\n\t\tfv = 0 // normalize negative zero as just zero\n", New: "", Rule: "NEGZERO-1"},
		Mutant{ID: "fallback1-tie-against-last", Props: []string{"C15"}, File: "fields.go", Func: "makeStructFields",
			Old: "len(embeddedFallbacks[0].index) != len(embeddedFallbacks[1].index)", New: "len(embeddedFallbacks[0].index) < len(embeddedFallbacks[len(embeddedFallbacks)-1].index)", Rule: "FALLBACK-1"},
		Mutant{ID: "verb1-reformatstring-canonical-as-verbatim", Props: []string{"C12"}, File: "internal/jsonwire/encode.go", Func: "ReformatString",
			Old: "b, _ := AppendUnquote(nil, src[:n])", New: "b := UnquoteMayCopy(src[:n], valFlags.IsCanonical())", Rule: "VERB-1"},
	)
}

func init() {
	addMutants(
		Mutant{ID: "nspair1-decoder-pop-under-option", Props: []string{"C20", "C08"}, File: "jsontext/decode.go", Func: "decoderState.ReadToken",
			Old: "\t\td.Namespaces.pop() // regardless of AllowDuplicateNames, which may differ when the object is closed\n", New: "\t\tif !d.Flags.Get(jsonflags.AllowDuplicateNames) {\n\t\t\td.Namespaces.pop()\n\t\t}\n", Rule: "NSPAIR-1"},
	)
}

func init() {
	addMutants(
		Mutant{ID: "pos4-readvalue-whitespace-error-after-token", Props: []string{"C05", "C16"}, File: "jsontext/decode.go", Func: "decoderState.ReadValue",
			Old: "\t\t\t\treturn nil, wrapSyntacticError(d, err, pos, 0)\n", New: "\t\t\t\treturn nil, wrapSyntacticError(d, err, pos, +1)\n", Rule: "POS-4"},
	)
}

func init() {
	addMutants(
		Mutant{ID: "opt9-bytesbuffer-encoder-drops-options", Props: []string{"C19", "C07"}, File: "jsontext/pools.go", Func: "getStreamingEncoder",
			Old: "e.s.reset(nil, w, opts...)", New: "e.s.reset(nil, w)", Rule: "OPT-9"},
	)
}

func init() {
	addMutants(
		Mutant{ID: "cycle2-self-pointer-guard-dropped", Props: []string{"C20", "C09"}, File: "arshal_default.go", Func: "makeInterfaceArshaler",
			Old: "if va.IsNil() || isSelfPointer(va) {", New: "if va.IsNil() {", Rule: "CYCLE-2"},
	)
}

func init() {
	addMutants(
		// ---- round-o strengthening
		Mutant{ID: "v19-peek-state-cleared-only-on-success", Props: []string{"C09"}, File: "v1/stream.go", Func: "Decoder.Decode",
			Old: "\tdec.hadPeeked = false\n\tdec.hadEOF = false\n\treturn jsonv2.Unmarshal(b, v, dec.opts)", New: "\tif err := jsonv2.Unmarshal(b, v, dec.opts); err != nil {\n\t\treturn err\n\t}\n\tdec.hadPeeked = false\n\tdec.hadEOF = false\n\treturn nil", Rule: "V1-9"},
		Mutant{ID: "bitset1-narrow-mask-in-has", Props: []string{"C04", "C08", "C15"}, File: "arshal_default.go", Func: "uintSet.has",
			Old: "iHi, iLo := int(i/64), i%64\n\t\treturn iHi", New: "iHi, iLo := int(i>>6), i&0x1f\n\t\treturn iHi", Rule: "BITSET-1"},
	)
}
