package main

// Adequacy mutants: each is a change that still compiles and that the rule
// set of the listed properties must report. See DESIGN.md §3 "must catch".
func init() {
	addMutants(
		// ---- C19 / OPT
		Mutant{ID: "opt2-wrong-flag-in-false-branch", Props: []string{"C19"}, File: "options.go", Func: "FormatNilMapAsNull",
			Old: "return jsonflags.FormatNilMapAsNull | 0", New: "return jsonflags.FormatNilSliceAsNull | 0", Rule: "OPT-2"},
		Mutant{ID: "opt2-inverted-value", Props: []string{"C19"}, File: "jsontext/options.go", Func: "AllowInvalidUTF8",
			Old: "return jsonflags.AllowInvalidUTF8 | 1", New: "return jsonflags.AllowInvalidUTF8 | 0", Rule: "OPT-2"},
		Mutant{ID: "opt3-struct-copies-wrong-field", Props: []string{"C19"}, File: "internal/jsonopts/options.go", Func: "Struct.Join",
			Old: "dst.IndentPrefix = src.IndentPrefix", New: "dst.IndentPrefix = src.Indent", Rule: "OPT-3"},
		Mutant{ID: "opt3-get-tests-wrong-flag", Props: []string{"C19"}, File: "internal/jsonopts/options.go", Func: "GetOption",
			Old: "if !structOpts.Flags.Has(jsonflags.ByteLimit) {", New: "if !structOpts.Flags.Has(jsonflags.DepthLimit) {", Rule: "OPT-3"},
		Mutant{ID: "opt3-struct-drops-unmarshalers", Props: []string{"C19"}, File: "internal/jsonopts/options.go", Func: "Struct.Join",
			Old: "if src.Flags.Has(jsonflags.Unmarshalers) {\n\t\t\t\t\tdst.Unmarshalers = src.Unmarshalers\n\t\t\t\t}", New: "", Rule: "OPT-3"},
		Mutant{ID: "opt1-defaultv2-values", Props: []string{"C19", "C09"}, File: "internal/jsonopts/options.go",
			Old: "Values:   uint64(0), // all flags in DefaultV1Flags are false", New: "Values:   uint64(jsonflags.Deterministic),", Rule: "OPT-1"},
		Mutant{ID: "opt1-nonboolean-overlaps-default", Props: []string{"C19"}, File: "internal/jsonflags/flags.go",
			Old: "\t\tUnmarshalArrayFromAnyLength\n", New: "\t\tUnmarshalArrayFromAnyLength |\n\t\tFormatTag\n", Rule: "OPT-1"},
		Mutant{ID: "opt1-anyescape-loses-js", Props: []string{"C19", "C11"}, File: "internal/jsonflags/flags.go",
			Old: "AnyEscape = EscapeForHTML | EscapeForJS", New: "AnyEscape = EscapeForHTML", Rule: "OPT-1"},
		Mutant{ID: "opt3-json-join-wrong-flag", Props: []string{"C19"}, File: "options.go", Func: "init",
			Old: "dst.Flags.Set(jsonflags.Unmarshalers | 1)", New: "dst.Flags.Set(jsonflags.Marshalers | 1)", Rule: "OPT-3"},
	)
}
