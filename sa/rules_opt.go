package main

import (
	"fmt"
	"go/ast"
	"go/token"
	"go/types"
	"math/bits"
	"sort"
	"strings"
)

func init() {
	register(&Rule{ID: "OPT-1", Doc: "flag algebra on constants: every named flag is one distinct bit other than bit 0; AllCoderFlags/AllArshalV2Flags/AllArshalV1Flags partition AllFlags; NonBooleanFlags and DefaultV1Flags are disjoint; composite masks contain their documented members; DefaultOptionsV1/V2 literals have Presence==DefaultV1Flags and Values==DefaultV1Flags/0", Run: ruleOPT1})
	register(&Rule{ID: "OPT-2", Doc: "every func(bool) Options constructor returns the same single flag in both branches, with the value bit equal to its argument, and no two constructors return the same flag", Run: ruleOPT2})
	register(&Rule{ID: "OPT-3", Doc: "Join and GetOption agree: for each non-boolean option type the Join case sets flag F and field X, the GetOption case tests the same F and returns the same X; the *Struct case copies exactly the NonBooleanFlags fields, each under its own flag with identical source and destination field; same for the Marshalers/Unmarshalers pair injected by package json", Run: ruleOPT3})
}

// documented members of composite masks (option documentation; a change here
// is a change of documented behaviour)
var compositeMembers = map[string][]string{
	"AnyWhitespace":       {"Multiline", "SpaceAfterColon", "SpaceAfterComma"},
	"WhitespaceFlags":     {"Multiline", "SpaceAfterColon", "SpaceAfterComma", "Indent", "IndentPrefix"},
	"AnyEscape":           {"EscapeForHTML", "EscapeForJS"},
	"CanonicalizeNumbers": {"CanonicalizeRawInts", "CanonicalizeRawFloats"},
	"TagFlags":            {"StringTag", "FormatTag"},
	"NonBooleanFlags":     {"Indent", "IndentPrefix", "ByteLimit", "DepthLimit", "Marshalers", "Unmarshalers", "FormatTag"},
}

// the documented v1 defaults (v1.DefaultOptionsV1 documentation)
var documentedV1Defaults = []string{
	"AllowDuplicateNames", "AllowInvalidUTF8", "EscapeForHTML", "EscapeForJS", "PreserveRawStrings",
	"Deterministic", "FormatNilMapAsNull", "FormatNilSliceAsNull", "MatchCaseInsensitiveNames",
	"CallMethodsWithLegacySemantics", "FormatByteArrayAsArray", "FormatBytesWithLegacySemantics",
	"FormatDurationAsNano", "MatchCaseSensitiveDelimiter", "MergeWithLegacySemantics",
	"OmitEmptyWithLegacySemantics", "ParseBytesWithLooseRFC4648", "ParseTimeWithLooseRFC3339",
	"ReportErrorsWithLegacySemantics", "StringifyWithLegacySemantics", "UnmarshalArrayFromAnyLength",
}

func ruleOPT1(c *Ctx) {
	ft := c.P.Flags()
	pk := c.P.Pkg("jsonflags")
	if pk == nil {
		c.Undecide("jsonflags", "package missing")
		return
	}
	pos := pk.Syntax[0].Pos()
	posOf := func(name string) token.Pos {
		if o := pk.Types.Scope().Lookup(name); o != nil {
			return o.Pos()
		}
		return pos
	}
	if !c.Floor("jsonflags single-bit flags", len(ft.Single), 30) {
		return
	}
	// each exported single-bit flag is distinct and not bit 0
	seen := map[uint64]string{}
	for _, n := range sortedKeys(ft.Single) {
		v := ft.Single[n]
		ok := v != 1
		detail := ""
		if prev, dup := seen[v]; dup {
			ok = false
			detail = "same bit as " + prev
		}
		if v == 1 {
			detail = "uses bit 0, which is reserved for the boolean value"
		}
		seen[v] = n
		c.Oblige("flag:"+n, posOf(n), ok, detail)
	}
	// duplicates among all exported constants of equal value (aliases) are caught above only for single bits
	need := func(name string) (uint64, bool) {
		v, ok := ft.Named[name]
		if !ok {
			c.Undecide("jsonflags."+name, "constant missing")
		}
		return v, ok
	}
	all, ok1 := need("AllFlags")
	cod, ok2 := need("AllCoderFlags")
	a2, ok3 := need("AllArshalV2Flags")
	a1, ok4 := need("AllArshalV1Flags")
	nb, ok5 := need("NonBooleanFlags")
	d1, ok6 := need("DefaultV1Flags")
	if !(ok1 && ok2 && ok3 && ok4 && ok5 && ok6) {
		return
	}
	c.Oblige("partition:AllFlags", posOf("AllFlags"), cod&a2 == 0 && cod&a1 == 0 && a2&a1 == 0 && cod|a2|a1 == all && all&1 == 0,
		fmt.Sprintf("coder=%#x v2=%#x v1=%#x all=%#x", cod, a2, a1, all))
	var outside []string
	for _, n := range sortedKeys(ft.Single) {
		if ft.Single[n]&all == 0 {
			outside = append(outside, n)
		}
	}
	c.Oblige("membership:AllFlags", posOf("AllFlags"), len(outside) == 0, "flags outside AllFlags: "+strings.Join(outside, ","))
	// each single flag belongs to the group its declaration block says: checked through the partition (distinct bits)
	c.Oblige("disjoint:NonBooleanFlags/DefaultV1Flags", posOf("NonBooleanFlags"), nb&d1 == 0, ft.Names(nb&d1))
	for _, comp := range sortedKeys(compositeMembers) {
		cv, ok := ft.Named[comp]
		if !ok {
			c.Undecide("jsonflags."+comp, "constant missing")
			continue
		}
		var missing []string
		for _, m := range compositeMembers[comp] {
			mv, ok := ft.Single[m]
			if !ok {
				c.Undecide("jsonflags."+m, "constant missing")
				continue
			}
			if cv&mv == 0 {
				missing = append(missing, m)
			}
		}
		c.Oblige("composite:"+comp, posOf(comp), len(missing) == 0, "does not contain "+strings.Join(missing, ","))
	}
	// NonBooleanFlags must be exactly the flags with a value field (checked against OPT-3's struct case there);
	// here: exactly its documented members
	var want uint64
	for _, m := range compositeMembers["NonBooleanFlags"] {
		want |= ft.Single[m]
	}
	c.Oblige("exact:NonBooleanFlags", posOf("NonBooleanFlags"), nb == want, fmt.Sprintf("got %s", ft.Names(nb)))
	// documented v1 defaults
	var wantD uint64
	for _, m := range documentedV1Defaults {
		v, ok := ft.Single[m]
		if !ok {
			c.Undecide("jsonflags."+m, "constant missing")
		}
		wantD |= v
	}
	c.Oblige("exact:DefaultV1Flags", posOf("DefaultV1Flags"), d1 == wantD,
		fmt.Sprintf("extra=%s missing=%s", ft.Names(d1&^wantD), ft.Names(wantD&^d1)))

	// DefaultOptionsV1 / V2 literals
	op := c.P.Pkg("jsonopts")
	if op == nil {
		c.Undecide("jsonopts", "package missing")
		return
	}
	for _, spec := range []struct {
		name string
		vals uint64
	}{{"DefaultOptionsV1", d1}, {"DefaultOptionsV2", 0}} {
		found := false
		for _, f := range op.Syntax {
			for _, vs := range findAllDeep[*ast.ValueSpec](f) {
				for i, nm := range vs.Names {
					if nm.Name != spec.name || i >= len(vs.Values) {
						continue
					}
					if op.TypesInfo.Defs[nm] == nil || op.TypesInfo.Defs[nm].Parent() != op.Types.Scope() {
						continue
					}
					found = true
					pres, vals, extra, ok := flagsLiteral(op.TypesInfo, vs.Values[i])
					c.Oblige("literal:"+spec.name, nm.Pos(), ok && pres == d1 && vals == spec.vals && !extra,
						fmt.Sprintf("Presence=%s Values=%s otherFields=%v", ft.Names(pres), ft.Names(vals), extra))
				}
			}
		}
		if !found {
			c.Undecide("jsonopts."+spec.name, "variable declaration not found")
		}
	}
}

// flagsLiteral evaluates jsonopts.Struct{Flags: jsonflags.Flags{Presence: c1, Values: c2}}.
// extra reports whether any other field of Struct is set.
func flagsLiteral(info *types.Info, e ast.Expr) (pres, vals uint64, extra, ok bool) {
	cl, isCL := ast.Unparen(e).(*ast.CompositeLit)
	if !isCL {
		return 0, 0, false, false
	}
	gotFlags := false
	for _, el := range cl.Elts {
		kv, isKV := el.(*ast.KeyValueExpr)
		if !isKV {
			return 0, 0, false, false
		}
		k, _ := kv.Key.(*ast.Ident)
		if k == nil {
			return 0, 0, false, false
		}
		if k.Name != "Flags" {
			extra = true
			continue
		}
		inner, isCL := ast.Unparen(kv.Value).(*ast.CompositeLit)
		if !isCL {
			return 0, 0, false, false
		}
		gotFlags = true
		for _, el2 := range inner.Elts {
			kv2, isKV := el2.(*ast.KeyValueExpr)
			if !isKV {
				return 0, 0, false, false
			}
			k2, _ := kv2.Key.(*ast.Ident)
			v, isConst := ConstU64(info, kv2.Value)
			if k2 == nil || !isConst {
				return 0, 0, false, false
			}
			switch k2.Name {
			case "Presence":
				pres = v
			case "Values":
				vals = v
			}
		}
	}
	return pres, vals, extra, gotFlags
}

// boolOptionCtor describes one func(bool) Options constructor.
type boolOptionCtor struct {
	Fn   *FuncInfo
	Flag uint64
}

// boolCtors enumerates the func(bool) Options functions of json, jsontext and v1
// and checks each one's body; violations are reported through c when c != nil.
func boolCtors(c *Ctx) []boolOptionCtor {
	p := c.P
	optsIface := p.NamedType("jsonopts", "Options")
	var out []boolOptionCtor
	for _, f := range p.FuncsIn("json", "jsontext", "v1") {
		if f.Decl == nil || f.Decl.Recv != nil || f.Obj == nil {
			continue
		}
		sig := f.Obj.Type().(*types.Signature)
		if sig.Params().Len() != 1 || sig.Results().Len() != 1 {
			continue
		}
		if b, ok := sig.Params().At(0).Type().(*types.Basic); !ok || b.Kind() != types.Bool {
			continue
		}
		if optsIface == nil || !types.Identical(types.Unalias(sig.Results().At(0).Type()), optsIface) {
			continue
		}
		if f.Body() == nil {
			continue
		}
		param := sig.Params().At(0)
		info := f.Info()
		// state: value of the parameter on this path (0 unknown, 1 true, 2 false)
		type st struct{ v int8 }
		type ret struct {
			val   uint64
			state int8
			konst bool
		}
		var rets []ret
		// a constructor may delegate to a private helper (`return boolOption(jsonflags.X, v)`):
		// the helper's body is walked with its parameters bound to the arguments
		bound := map[types.Object]ast.Expr{}
		var resolve func(e ast.Expr, depth int) ast.Expr
		resolve = func(e ast.Expr, depth int) ast.Expr {
			e = ast.Unparen(e)
			if o := IdentObj(info, e); o != nil && depth < 4 {
				if a, ok := bound[o]; ok {
					return resolve(a, depth+1)
				}
			}
			return e
		}
		var evalU64 func(e ast.Expr, depth int) (uint64, bool)
		evalU64 = func(e ast.Expr, depth int) (uint64, bool) {
			e = resolve(e, 0)
			if v, ok := ConstU64(info, e); ok {
				return v, true
			}
			if be, ok := e.(*ast.BinaryExpr); ok && be.Op == token.OR && depth < 4 {
				a, okA := evalU64(be.X, depth+1)
				b, okB := evalU64(be.Y, depth+1)
				return a | b, okA && okB
			}
			return 0, false
		}
		fl := &Flow[st]{Fn: f}
		fl.Inline = func(call *ast.CallExpr) *FuncInfo {
			cf := Callee(info, call)
			if cf == nil || ast.IsExported(cf.Name()) || cf.Pkg() == nil || f.Pkg == nil || cf.Pkg() != f.Pkg.Types {
				return nil
			}
			return p.FuncOf(cf)
		}
		fl.Bind = func(callee *FuncInfo, call *ast.CallExpr, s st) st {
			if callee.Obj != nil {
				csig := callee.Obj.Type().(*types.Signature)
				for i := 0; i < csig.Params().Len() && i < len(call.Args); i++ {
					bound[csig.Params().At(i)] = call.Args[i]
				}
			}
			return s
		}
		fl.Node = func(n ast.Node, s st) []st {
			if r, ok := n.(*ast.ReturnStmt); ok {
				if len(r.Results) == 1 {
					v, isConst := evalU64(r.Results[0], 0)
					rets = append(rets, ret{v, s.v, isConst})
				}
				return nil
			}
			return []st{s}
		}
		fl.Leaf = func(e ast.Expr, s st) (t, fs []st) {
			if o := IdentObj(info, resolve(e, 0)); o != nil && o == param {
				return []st{{1}}, []st{{2}}
			}
			return []st{s}, []st{s}
		}
		fl.Run(st{0})
		// is this a Bools-returning constructor at all? (json.WithMarshalers etc. take pointers, not bool)
		anyConst := false
		for _, r := range rets {
			if r.konst {
				anyConst = true
			}
		}
		if !anyConst {
			// a func(bool) Options that does not return flag constants (ExperimentalSupportFormatTag-like): not a flag constructor
			continue
		}
		var flag uint64
		ok := true
		detail := ""
		sawTrue, sawFalse := false, false
		for _, r := range rets {
			if !r.konst {
				ok, detail = false, "returns a non-constant value"
				continue
			}
			id := r.val &^ 1
			if bits.OnesCount64(id) != 1 {
				ok, detail = false, fmt.Sprintf("returns %#x which is not a single flag", r.val)
				continue
			}
			if flag == 0 {
				flag = id
			} else if flag != id {
				ok, detail = false, "the two branches return different flags: "+p.Flags().Names(flag)+" vs "+p.Flags().Names(id)
			}
			switch {
			case r.state == 1 && r.val&1 == 1:
				sawTrue = true
			case r.state == 2 && r.val&1 == 0:
				sawFalse = true
			default:
				ok, detail = false, fmt.Sprintf("value bit %d returned on the path where the argument is %v", r.val&1, map[int8]string{0: "unknown", 1: "true", 2: "false"}[r.state])
			}
		}
		if ok && !(sawTrue && sawFalse) {
			ok, detail = false, "does not return both F|1 (argument true) and F|0 (argument false)"
		}
		c.Oblige("ctor:"+f.Name, f.Pos(), ok, detail)
		if flag != 0 {
			out = append(out, boolOptionCtor{f, flag})
		}
	}
	return out
}

func ruleOPT2(c *Ctx) {
	ctors := boolCtors(c)
	if !c.Floor("func(bool) Options constructors", len(ctors), 25) {
		return
	}
	ft := c.P.Flags()
	by := map[uint64][]string{}
	for _, k := range ctors {
		by[k.Flag] = append(by[k.Flag], k.Fn.Name)
	}
	all := ft.Named["AllFlags"]
	for _, k := range ctors {
		names := by[k.Flag]
		sort.Strings(names)
		c.Oblige("injective:"+k.Fn.Name, k.Fn.Pos(), len(names) == 1 && k.Flag&all != 0,
			fmt.Sprintf("flag %s is returned by %s", ft.Names(k.Flag), strings.Join(names, ", ")))
	}
	// name agreement: the constructor X returns flag jsonflags.X (the option documentation names both identically)
	for _, k := range ctors {
		base := k.Fn.Decl.Name.Name
		want, ok := ft.Single[strings.ToUpper(base[:1])+base[1:]]
		if !ok {
			continue // constructor without a like-named flag: nothing to compare
		}
		c.Oblige("named:"+k.Fn.Name, k.Fn.Pos(), want == k.Flag, "returns "+ft.Names(k.Flag))
	}
}

// flagFieldPair is a (flag, struct field) association found in the code.
type flagFieldPair struct {
	Flag  uint64
	Field *types.Var
}

func ruleOPT3(c *Ctx) {
	p := c.P
	ft := p.Flags()
	join := p.Func("jsonopts.(*Struct).Join")
	get := p.Func("jsonopts.GetOption")
	if join == nil {
		c.Undecide("jsonopts.(*Struct).Join", "function missing")
		return
	}
	if get == nil {
		c.Undecide("jsonopts.GetOption", "function missing")
		return
	}
	info := join.Info()
	structT := p.NamedType("jsonopts", "Struct")

	// --- Join: type switch cases
	joinTyped := map[string]flagFieldPair{}  // by case type string
	structCase := map[uint64][2]*types.Var{} // flag -> (dst field, src field)
	var structGuard uint64
	var joinTS *ast.TypeSwitchStmt
	for _, ts := range findAll[*ast.TypeSwitchStmt](join.Body()) {
		joinTS = ts
	}
	if joinTS == nil {
		c.Undecide("jsonopts.(*Struct).Join/typeswitch", "no type switch")
		return
	}
	caseTypeName := func(cc *ast.CaseClause) (string, types.Type) {
		if len(cc.List) != 1 {
			return "", nil
		}
		t := info.TypeOf(cc.List[0])
		if t == nil {
			return "", nil
		}
		return types.TypeString(t, func(pk *types.Package) string { return shortPkg(pk.Path()) }), t
	}
	for _, st := range joinTS.Body.List {
		cc := st.(*ast.CaseClause)
		name, t := caseTypeName(cc)
		if t == nil {
			continue
		}
		if pt, ok := t.(*types.Pointer); ok && structT != nil && types.Identical(pt.Elem(), structT) {
			// *Struct case
			body := &ast.BlockStmt{List: cc.Body}
			bodies := []ast.Node{body}
			// the whole arm may have been moved into private methods (`dst.joinStruct(src)`, possibly split further)
			for _, st := range cc.Body {
				if es, ok := st.(*ast.ExprStmt); ok {
					if call, ok := ast.Unparen(es.X).(*ast.CallExpr); ok {
						if h := p.InlineAny(join)(call); h != nil && h.Body() != nil {
							for _, g := range p.CalleeClosure(h, 2) {
								if g.Decl != nil {
									bodies = append(bodies, g.Body())
								}
							}
						}
					}
				}
			}
			joined := false
			var allIfs []*ast.IfStmt
			for _, b := range bodies {
				for _, call := range findAll[*ast.CallExpr](b) {
					if m, _, _, ok := FlagCall(info, call); ok && m == "Join" {
						joined = true
					}
				}
				allIfs = append(allIfs, findAll[*ast.IfStmt](b)...)
			}
			c.Oblige("join:*Struct:flags-joined", cc.Pos(), joined, "dst.Flags.Join(src.Flags) missing")
			for _, ifs := range allIfs {
				cond := ast.Unparen(ifs.Cond)
				// `if !src.Flags.Has(NonBooleanFlags) { return }` is the early-return form of the outer guard
				if u, isNot := cond.(*ast.UnaryExpr); isNot && u.Op == token.NOT {
					if gc, ok := ast.Unparen(u.X).(*ast.CallExpr); ok {
						if m, _, v, ok := FlagCall(info, gc); ok && m == "Has" && len(ifs.Body.List) == 1 {
							if _, isRet := ifs.Body.List[0].(*ast.ReturnStmt); isRet {
								structGuard = v
							}
						}
					}
					continue
				}
				call, ok := cond.(*ast.CallExpr)
				if !ok {
					continue
				}
				m, _, v, ok := FlagCall(info, call)
				if !ok || m != "Has" {
					continue
				}
				// outer guard: contains nested ifs
				if len(findAll[*ast.IfStmt](ifs.Body)) > 0 {
					structGuard = v
					continue
				}
				var dstF, srcF *types.Var
				okShape := len(ifs.Body.List) == 1
				if okShape {
					as, isAs := ifs.Body.List[0].(*ast.AssignStmt)
					if isAs && len(as.Lhs) == 1 && len(as.Rhs) == 1 {
						dstF = SelField(info, as.Lhs[0])
						srcF = SelField(info, as.Rhs[0])
					}
				}
				if _, dup := structCase[v]; dup {
					c.Violation("join:*Struct:"+ft.Names(v), ifs.Pos(), "flag tested twice")
				}
				structCase[v] = [2]*types.Var{dstF, srcF}
				c.Oblige("join:*Struct:"+ft.Names(v), ifs.Pos(), dstF != nil && srcF != nil && dstF == srcF && bits.OnesCount64(v) == 1,
					fmt.Sprintf("copies %v into %v under %s", fieldName(srcF), fieldName(dstF), ft.Names(v)))
			}
			continue
		}
		// typed non-boolean option: Flags.Set(const) + field assignment
		var setV uint64
		var fld *types.Var
		nSet, nAssign := 0, 0
		body := &ast.BlockStmt{List: cc.Body}
		for _, call := range findAll[*ast.CallExpr](body) {
			if m, _, v, ok := FlagCall(info, call); ok && m == "Set" {
				setV = v
				nSet++
			}
		}
		for _, fsr := range fieldStores(info, body, false) {
			if fsr.Whole && structFieldOf(p, fsr.Field) {
				fld = fsr.Field
				nAssign++
			}
		}
		if nSet == 1 && nAssign == 1 {
			joinTyped[name] = flagFieldPair{setV, fld}
		}
	}

	// Join only ever records options: an explicit false is stored as "present, false" (Set(F|0)); clearing
	// presence instead would let an earlier true survive a later false that arrives nested in a *Struct
	nClear := 0
	p.InspectScope(join, func(g *FuncInfo, nd ast.Node) bool {
		if call, ok := nd.(*ast.CallExpr); ok {
			if m, _, v, ok := FlagCall(g.Info(), call); ok && m == "Clear" {
				nClear++
				c.Violation(fmt.Sprintf("join:never-clears-presence#%d", nClear), call.Pos(), "Struct.Join clears the presence of "+ft.Names(v)+": an option set to false must stay present (Set(flag|0)) so that it overrides earlier values when joined again")
			}
		}
		return true
	})
	if nClear == 0 {
		c.OK("join:never-clears-presence", join.Pos(), "")
	}
	// --- GetOption: type switch cases
	ginfo := get.Info()
	opt3BoolsStored(c, get)
	getTyped := map[string]flagFieldPair{}
	for _, ts := range findAll[*ast.TypeSwitchStmt](get.Body()) {
		for _, st := range ts.Body.List {
			cc := st.(*ast.CaseClause)
			if len(cc.List) != 1 {
				continue
			}
			t := ginfo.TypeOf(cc.List[0])
			if t == nil {
				continue
			}
			name := types.TypeString(t, func(pk *types.Package) string { return shortPkg(pk.Path()) })
			body := &ast.BlockStmt{List: cc.Body}
			var hasV uint64
			nHas := 0
			for _, call := range findAll[*ast.CallExpr](body) {
				if m, _, v, ok := FlagCall(ginfo, call); ok && m == "Has" {
					hasV = v
					nHas++
				}
			}
			var fld *types.Var
			nF := 0
			for _, r := range Returns(body) {
				if len(r.Results) != 2 {
					continue
				}
				ast.Inspect(r.Results[0], func(n ast.Node) bool {
					if e, ok := n.(ast.Expr); ok {
						if f := SelField(ginfo, e); f != nil && structFieldOf(p, f) {
							fld = f
							nF++
							return false
						}
					}
					return true
				})
			}
			if nHas == 1 && nF == 1 {
				getTyped[name] = flagFieldPair{hasV, fld}
			}
			// or the arm delegates to a shared helper: `return helper(structOpts, FLAG, structOpts.FIELD)`
			// where the helper tests Flags.Has(<its flag parameter>) and returns <its value parameter>
			if nHas == 0 && len(cc.Body) == 1 {
				if r, ok := cc.Body[0].(*ast.ReturnStmt); ok && len(r.Results) == 1 {
					if call, ok := ast.Unparen(r.Results[0]).(*ast.CallExpr); ok {
						if h := p.InlineAny(get)(call); h != nil && h.Obj != nil {
							hsig := h.Obj.Type().(*types.Signature)
							var flagV uint64
							var valFld *types.Var
							flagIdx, valIdx := -1, -1
							for i, a := range call.Args {
								if v, isC := ConstU64(ginfo, a); isC && v != 0 {
									flagV, flagIdx = v, i
								}
								if f := SelField(ginfo, a); f != nil && structFieldOf(p, f) {
									valFld, valIdx = f, i
								}
							}
							if flagIdx >= 0 && valIdx >= 0 && flagIdx < hsig.Params().Len() && valIdx < hsig.Params().Len() {
								fp, vp := hsig.Params().At(flagIdx), hsig.Params().At(valIdx)
								hasOnParam, retParam := false, false
								InspectNoLit(h.Body(), func(n ast.Node) bool {
									switch x := n.(type) {
									case *ast.CallExpr:
										if sel, ok := ast.Unparen(x.Fun).(*ast.SelectorExpr); ok && sel.Sel.Name == "Has" && len(x.Args) == 1 && IdentObj(h.Info(), x.Args[0]) == fp {
											hasOnParam = true
										}
									case *ast.ReturnStmt:
										if len(x.Results) == 2 {
											ast.Inspect(x.Results[0], func(m ast.Node) bool {
												if id, ok := m.(*ast.Ident); ok && h.Info().Uses[id] == vp {
													retParam = true
												}
												return true
											})
										}
									}
									return true
								})
								if hasOnParam && retParam {
									getTyped[name] = flagFieldPair{flagV, valFld}
								}
							}
						}
					}
				}
			}
		}
	}
	if !c.Floor("typed non-boolean option cases in Join", len(joinTyped), 4) {
		return
	}
	for _, name := range sortedKeys(joinTyped) {
		j := joinTyped[name]
		g, ok := getTyped[name]
		if !ok {
			c.Violation("pair:"+name, join.Pos(), "Join handles this option type but GetOption has no matching Has/return case")
			continue
		}
		// Join may set additional flags (WithIndent implies Multiline); the tested flag must be among those set, with the value bit
		c.Oblige("pair:"+name, join.Pos(), j.Flag&1 == 1 && g.Flag&^1 != 0 && j.Flag&g.Flag == g.Flag&^1 && j.Field == g.Field,
			fmt.Sprintf("Join sets %s and field %s; GetOption tests %s and returns field %s", ft.Names(j.Flag), fieldName(j.Field), ft.Names(g.Flag), fieldName(g.Field)))
		// the *Struct case must copy the same field under the same flag
		sc, ok := structCase[g.Flag&^1]
		c.Oblige("structcase:"+name, join.Pos(), ok && sc[0] == j.Field,
			fmt.Sprintf("*Struct case copies %s under %s", fieldName(sc[0]), ft.Names(g.Flag)))
	}
	for name := range getTyped {
		if _, ok := joinTyped[name]; !ok {
			c.Violation("pair:"+name, get.Pos(), "GetOption handles this option type but Join has no matching Set/assign case")
		}
	}
	// *Struct case: keys == bits of NonBooleanFlags; guard == NonBooleanFlags; injective fields
	nb := ft.Named["NonBooleanFlags"]
	var keys uint64
	fields := map[*types.Var]uint64{}
	for k, v := range structCase {
		keys |= k
		if prev, dup := fields[v[0]]; dup && v[0] != nil {
			c.Violation("join:*Struct:field:"+fieldName(v[0]), join.Pos(), fmt.Sprintf("copied under two flags %s and %s", ft.Names(prev), ft.Names(k)))
		}
		fields[v[0]] = k
	}
	c.Oblige("join:*Struct:covers-NonBooleanFlags", joinTS.Pos(), keys == nb && (structGuard == 0 || structGuard&nb == nb),
		fmt.Sprintf("copied=%s NonBooleanFlags=%s guard=%s", ft.Names(keys), ft.Names(nb), ft.Names(structGuard)))

	// --- package json: marshalersOption / unmarshalersOption pair injected through init
	var joinLit, getLit *FuncInfo
	for _, f := range p.FuncsIn("json") {
		if f.Lit == nil {
			continue
		}
		par := p.Parent(f.File, f.Lit)
		as, ok := par.(*ast.AssignStmt)
		if !ok || len(as.Lhs) != 1 {
			continue
		}
		switch o := IdentOrSelObj(f.Info(), as.Lhs[0]); {
		case o != nil && o == p.Lookup("jsonopts", "JoinUnknownOption"):
			joinLit = f
		case o != nil && o == p.Lookup("jsonopts", "GetUnknownOption"):
			getLit = f
		}
	}
	// or named functions assigned to the hooks (`jsonopts.JoinUnknownOption = joinUnknownOption`)
	for _, f := range p.FuncsIn("json") {
		if f.Body() == nil {
			continue
		}
		InspectNoLit(f.Body(), func(nd ast.Node) bool {
			as, ok := nd.(*ast.AssignStmt)
			if !ok || len(as.Lhs) != 1 || len(as.Rhs) != 1 {
				return true
			}
			fn, _ := IdentObj(f.Info(), as.Rhs[0]).(*types.Func)
			if fn == nil {
				return true
			}
			switch o := IdentOrSelObj(f.Info(), as.Lhs[0]); {
			case o != nil && o == p.Lookup("jsonopts", "JoinUnknownOption") && joinLit == nil:
				joinLit = p.FuncOf(fn)
			case o != nil && o == p.Lookup("jsonopts", "GetUnknownOption") && getLit == nil:
				getLit = p.FuncOf(fn)
			}
			return true
		})
	}
	if joinLit == nil || getLit == nil {
		c.Undecide("json.init: JoinUnknownOption/GetUnknownOption", "injection assignments not found")
		return
	}
	jm := map[string]flagFieldPair{}
	ji := joinLit.Info()
	for _, ts := range findAll[*ast.TypeSwitchStmt](joinLit.Body()) {
		for _, st := range ts.Body.List {
			cc := st.(*ast.CaseClause)
			if len(cc.List) != 1 {
				continue
			}
			name := types.TypeString(ji.TypeOf(cc.List[0]), func(pk *types.Package) string { return shortPkg(pk.Path()) })
			body := &ast.BlockStmt{List: cc.Body}
			var pr flagFieldPair
			n := 0
			for _, call := range findAll[*ast.CallExpr](body) {
				if m, _, v, ok := FlagCall(ji, call); ok && m == "Set" {
					pr.Flag = v
					n++
				}
			}
			for _, fsr := range fieldStores(ji, body, false) {
				if fsr.Whole && structFieldOf(p, fsr.Field) {
					pr.Field = fsr.Field
				}
			}
			if n == 1 && pr.Field != nil {
				jm[name] = pr
			}
		}
	}
	gi := getLit.Info()
	gm := map[string]flagFieldPair{}
	for _, ts := range findAll[*ast.TypeSwitchStmt](getLit.Body()) {
		for _, st := range ts.Body.List {
			cc := st.(*ast.CaseClause)
			if len(cc.List) != 1 {
				continue
			}
			name := types.TypeString(gi.TypeOf(cc.List[0]), func(pk *types.Package) string { return shortPkg(pk.Path()) })
			body := &ast.BlockStmt{List: cc.Body}
			var pr flagFieldPair
			n := 0
			for _, call := range findAll[*ast.CallExpr](body) {
				if m, _, v, ok := FlagCall(gi, call); ok && m == "Has" {
					pr.Flag = v
					n++
				}
			}
			for _, r := range Returns(body) {
				if len(r.Results) != 2 {
					continue
				}
				srcs := []ast.Node{r.Results[0]}
				// the returned value may first be bound to a local (`m, _ := src.X.(*T); return m, true`)
				if v := IdentObj(gi, r.Results[0]); v != nil {
					for _, d := range defsOf(gi, body, v) {
						srcs = append(srcs, d)
					}
				}
				for _, src := range srcs {
					ast.Inspect(src, func(nn ast.Node) bool {
						if e, ok := nn.(ast.Expr); ok {
							if f := SelField(gi, e); f != nil && structFieldOf(p, f) {
								pr.Field = f
								return false
							}
						}
						return true
					})
				}
			}
			if n == 1 && pr.Field != nil {
				gm[name] = pr
			}
		}
	}
	if !c.Floor("json option types in JoinUnknownOption", len(jm), 2) {
		return
	}
	for _, name := range sortedKeys(jm) {
		j := jm[name]
		g, ok := gm[name]
		c.Oblige("pair:"+name, joinLit.Pos(), ok && j.Flag&1 == 1 && j.Flag&^1 == g.Flag&^1 && j.Field == g.Field,
			fmt.Sprintf("Join sets %s/%s; Get tests %s/%s", ft.Names(j.Flag), fieldName(j.Field), ft.Names(g.Flag), fieldName(g.Field)))
		sc, ok2 := structCase[j.Flag&^1]
		c.Oblige("structcase:"+name, joinLit.Pos(), ok2 && sc[0] == j.Field, "*Struct case copies "+fieldName(sc[0]))
	}
	for name := range gm {
		if _, ok := jm[name]; !ok {
			c.Violation("pair:"+name, getLit.Pos(), "GetUnknownOption handles a type JoinUnknownOption does not")
		}
	}
}

func fieldName(v *types.Var) string {
	if v == nil {
		return "<none>"
	}
	return v.Name()
}

// structFieldOf reports whether v is a field reachable from jsonopts.Struct (not Flags).
func structFieldOf(p *Program, v *types.Var) bool {
	for _, tn := range []string{"CoderValues", "ArshalValues"} {
		n := p.NamedType("jsonopts", tn)
		if n == nil {
			continue
		}
		st, ok := n.Underlying().(*types.Struct)
		if !ok {
			continue
		}
		for i := 0; i < st.NumFields(); i++ {
			if st.Field(i) == v {
				return true
			}
		}
	}
	return false
}

// IdentOrSelObj resolves `x` or `pkg.x` to its object.
func IdentOrSelObj(info *types.Info, e ast.Expr) types.Object {
	switch x := ast.Unparen(e).(type) {
	case *ast.Ident:
		return IdentObj(info, x)
	case *ast.SelectorExpr:
		return info.Uses[x.Sel]
	}
	return nil
}

// opt3BoolsStored: in the boolean case of GetOption, whenever the option may be
// present (Flags.Has(opt) not known false on the path) the value returned is
// the stored one (derived from Flags.Get(opt)) — a fallback such as "the
// string tag implies StringifyNumbers" may only answer for an absent option.
func opt3BoolsStored(c *Ctx, get *FuncInfo) {
	p := c.P
	info := get.Info()
	// the case clause for jsonflags.Bools and its bound variable
	var clause *ast.CaseClause
	for _, ts := range findAll[*ast.TypeSwitchStmt](get.Body()) {
		for _, st := range ts.Body.List {
			cc := st.(*ast.CaseClause)
			if len(cc.List) == 1 {
				if t := info.TypeOf(cc.List[0]); t != nil && isNamed(t, pkgAlias["jsonflags"], "Bools") {
					clause = cc
				}
			}
		}
	}
	if clause == nil {
		c.Undecide("jsonopts.GetOption/Bools", "no case for jsonflags.Bools")
		return
	}
	optVar := info.Implicits[clause]
	isOpt := func(e ast.Expr) bool { return optVar != nil && IdentObj(info, e) == optVar }
	flagCallOnOpt := func(e ast.Expr, method string) bool {
		call, ok := ast.Unparen(e).(*ast.CallExpr)
		if !ok || len(call.Args) != 1 || !isOpt(call.Args[0]) {
			return false
		}
		sel, ok := ast.Unparen(call.Fun).(*ast.SelectorExpr)
		if !ok || sel.Sel.Name != method {
			return false
		}
		cf := Callee(info, call)
		return cf != nil && cf.Pkg() != nil && cf.Pkg().Path() == pkgAlias["jsonflags"]
	}
	derivesFrom := func(e ast.Expr, method string) bool {
		found := false
		ast.Inspect(e, func(n ast.Node) bool {
			if x, ok := n.(ast.Expr); ok && !found {
				if flagCallOnOpt(x, method) {
					found = true
				}
				if v := IdentObj(info, x); v != nil {
					for _, d := range defsOf(info, &ast.BlockStmt{List: clause.Body}, v) {
						if flagCallOnOpt(d, method) {
							found = true
						}
					}
				}
			}
			return !found
		})
		return found
	}
	type st struct{ has tri }
	bad := ""
	nret := 0
	fl := &Flow[st]{Fn: get}
	fl.Node = func(n ast.Node, s st) []st {
		if r, ok := n.(*ast.ReturnStmt); ok {
			if r.Pos() >= clause.Pos() && r.End() <= clause.End() && len(r.Results) == 2 {
				nret++
				if s.has != triNo && !derivesFrom(r.Results[0], "Get") && bad == "" {
					bad = "returns `" + exprString(r.Results[0]) + "` at " + p.Position(r.Pos()) + " on a path where the option may have been set explicitly (Flags.Has(opt) not known to be false): the stored value must win"
				}
			}
			return nil
		}
		return []st{s}
	}
	fl.Leaf = func(e ast.Expr, s st) (t, f []st) {
		if e.Pos() >= clause.Pos() && e.End() <= clause.End() && derivesFrom(e, "Has") {
			if _, isId := ast.Unparen(e).(*ast.Ident); isId || flagCallOnOpt(e, "Has") {
				return []st{{triYes}}, []st{{triNo}}
			}
		}
		return []st{s}, []st{s}
	}
	fl.Run(st{})
	if nret == 0 {
		c.Undecide("jsonopts.GetOption/Bools", "no return in the boolean case")
		return
	}
	c.Oblige("get:bools-stored-value-wins", clause.Pos(), bad == "", bad)
}
