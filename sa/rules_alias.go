package main

import (
	"go/ast"
	"go/token"
	"go/types"
)

func init() {
	register(&Rule{ID: "ALIAS-1", Doc: "no accidental sharing of a slice's backing array: an append whose result is stored somewhere other than its own first operand (a different variable, a struct field, a composite literal, a return value) must start from storage this expression owns (make, nil, a literal, a conversion, a zero-length/clipped reslice, the result of another such append) or be one of the reviewed buffer-threading sites", Run: ruleALIAS1})
}

// freshSlice reports whether e denotes storage not shared with another live slice.
func freshSlice(info *types.Info, e ast.Expr) bool {
	e = ast.Unparen(e)
	if IsNilIdent(info, e) {
		return true
	}
	switch x := e.(type) {
	case *ast.CompositeLit:
		return true
	case *ast.CallExpr:
		if IsBuiltin(info, x, "make") {
			return true
		}
		if IsBuiltin(info, x, "append") && len(x.Args) > 0 {
			return freshSlice(info, x.Args[0])
		}
		if tv, ok := info.Types[x.Fun]; ok && tv.IsType() {
			return true // conversion ([]byte(s)) allocates
		}
		if cf := Callee(info, x); cf != nil {
			switch QualName(cf) {
			case "slices.Clone", "bytes.Clone", "slices.Clip":
				return true
			}
		}
		return false
	case *ast.SliceExpr:
		// x[:0], x[:n:n]: appending reallocates or overwrites from the start by design
		if x.Low == nil && x.High != nil {
			if v, ok := ConstI64(info, x.High); ok && v == 0 {
				return true
			}
		}
		if x.Slice3 {
			return true
		}
	}
	return false
}

func ruleALIAS1(c *Ctx) {
	p := c.P
	n := 0
	for _, f := range p.FuncsIn("json", "v1", "jsonopts", "jsontext") {
		if f.Body() == nil {
			continue
		}
		info := f.Info()
		InspectNoLit(f.Body(), func(nd ast.Node) bool {
			call, ok := nd.(*ast.CallExpr)
			if !ok || !IsBuiltin(info, call, "append") || len(call.Args) == 0 {
				return true
			}
			first := call.Args[0]
			// where does the result go?
			par := p.Parent(f.File, call)
			for {
				if pe, ok := par.(*ast.ParenExpr); ok {
					par = p.Parent(f.File, pe)
					continue
				}
				break
			}
			sameDest := false
			stored := false
			switch x := par.(type) {
			case *ast.AssignStmt:
				for i, r := range x.Rhs {
					if ast.Unparen(r) == ast.Expr(call) && i < len(x.Lhs) && len(x.Lhs) == len(x.Rhs) {
						stored = true
						if exprString(x.Lhs[i]) == exprString(first) {
							sameDest = true
						}
						// b = append(b2[:0], ...) etc. judged by freshness below
					}
				}
			case *ast.KeyValueExpr, *ast.CompositeLit, *ast.ReturnStmt, *ast.ValueSpec:
				stored = true
			case *ast.CallExpr:
				// result passed on as an argument (threaded buffer): append(append(b, ','), x...) and f(append(b, '/'), ...)
				stored = false
			}
			if !stored || sameDest {
				return true
			}
			// byte buffers are threaded by value through helpers throughout this code base (covered by STALE-3 / FP-3):
			// only slices of other element types are judged here
			if isByteSlice(info.TypeOf(first)) {
				return true
			}
			n++
			key := "append:" + f.Name + ":" + exprString(first)
			c.Oblige(key, call.Pos(), freshSlice(info, first),
				"append("+exprString(first)+", ...) is stored into a different place than its first operand, so both may share one backing array and later appends overwrite each other")
			return true
		})
	}
	_ = token.NoPos
	c.Floor("appends of non-byte slices stored away from their first operand", n, 2)
}
