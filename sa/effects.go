package main

import (
	"go/ast"
	"go/token"
	"go/types"
	"sort"
)

// Effects computes, for the functions of package jsontext, which fields of a
// coder (encoderState/decoderState and the structs embedded in them) may be
// written, transitively through static calls and through interface calls
// resolved over the package's types. It is flow-insensitive ("may write").
//
// The coder structs are "flattened": the fields of encoderState, decoderState,
// encodeBuffer, decodeBuffer and state are the *locations*. A write anywhere
// inside a location (e.Tokens.Last.Increment(), e.Names.push()) is a write to
// that location.
type Effects struct {
	p              *Program
	flat           map[*types.TypeName]bool
	recvMut        map[*types.Func]bool // methods on non-flat types: writes through the receiver
	recvFields     map[*types.Func]map[*types.Var]bool
	recvFieldsDone map[*types.Func]bool
	writes         map[*types.Func]map[*types.Var]bool // flat-level functions: locations written
	unknown        map[*types.Func]bool                // passes a coder to a callee that cannot be resolved
	pure           map[*types.Func]string              // functions summarised as abstract-state preserving, with the rule that justifies it
	funcs          []*FuncInfo
}

var flatTypeNames = []string{"encoderState", "decoderState", "encodeBuffer", "decodeBuffer", "state"}

func (p *Program) Effects() *Effects {
	if p.eff != nil {
		return p.eff
	}
	e := &Effects{p: p, flat: map[*types.TypeName]bool{}, recvMut: map[*types.Func]bool{},
		writes: map[*types.Func]map[*types.Var]bool{}, unknown: map[*types.Func]bool{}, pure: map[*types.Func]string{}}
	for _, n := range flatTypeNames {
		if nt := p.NamedType("jsontext", n); nt != nil {
			e.flat[nt.Obj()] = true
		}
	}
	for _, f := range p.FuncsIn("jsontext", "jsonopts", "jsonflags") {
		if f.Decl != nil && f.Body() != nil && f.Obj != nil {
			e.funcs = append(e.funcs, f)
		}
	}
	// representation-preserving operations (each justified by its own rule)
	if fn := p.Method("jsontext", "decoderState", "fetch"); fn != nil {
		e.pure[fn] = "BUF-1"
	}
	if fn := p.Method("jsontext", "objectNameStack", "copyQuotedBuffer"); fn != nil {
		e.pure[fn] = "NAMES-1"
	}
	e.compute()
	p.eff = e
	return e
}

func (e *Effects) isFlatType(t types.Type) bool {
	if pt, ok := t.(*types.Pointer); ok {
		t = pt.Elem()
	}
	if nt, ok := t.(*types.Named); ok {
		return e.flat[nt.Obj()]
	}
	return false
}

// rootInfo describes what an expression is rooted at.
type rootInfo struct {
	base    *types.Var // the identifier at the bottom (receiver, parameter or alias local)
	loc     *types.Var // first non-embedded field of a flat struct on the path (nil: the base itself)
	deref   bool       // path goes through an index or pointer dereference after base
	viaCall bool
}

// root resolves the base identifier and location of an lvalue-ish expression.
func (e *Effects) root(info *types.Info, x ast.Expr) (ri rootInfo, ok bool) {
	var fields []*types.Var // outermost last
	for {
		x = ast.Unparen(x)
		switch v := x.(type) {
		case *ast.Ident:
			o, _ := IdentObj(info, v).(*types.Var)
			if o == nil {
				return ri, false
			}
			ri.base = o
			// location = first field (from the base outward) that lives in a flat struct and is not itself an embedded flat struct
			for i := len(fields) - 1; i >= 0; i-- {
				f := fields[i]
				if f.Embedded() && e.isFlatType(f.Type()) {
					continue
				}
				ri.loc = f
				break
			}
			return ri, true
		case *ast.SelectorExpr:
			sel := info.Selections[v]
			if sel == nil {
				return ri, false // qualified identifier (pkg.X)
			}
			switch sel.Kind() {
			case types.FieldVal:
				// record the implicit embedded fields too, outermost first
				path := sel.Index()
				t := sel.Recv()
				var chain []*types.Var
				for _, idx := range path {
					if pt, ok := t.Underlying().(*types.Pointer); ok {
						t = pt.Elem()
					}
					st, ok := t.Underlying().(*types.Struct)
					if !ok {
						break
					}
					fv := st.Field(idx)
					chain = append(chain, fv)
					t = fv.Type()
				}
				for i := len(chain) - 1; i >= 0; i-- {
					fields = append(fields, chain[i])
				}
				if _, isPtr := sel.Recv().Underlying().(*types.Pointer); isPtr {
					// x.f with x a pointer: dereference of the base only matters for locals; keep going
				}
				x = v.X
			default:
				return ri, false // method value
			}
		case *ast.IndexExpr:
			ri.deref = true
			x = v.X
		case *ast.SliceExpr:
			x = v.X
		case *ast.StarExpr:
			ri.deref = true
			x = v.X
		case *ast.UnaryExpr:
			if v.Op != token.AND {
				return ri, false
			}
			x = v.X
		case *ast.CallExpr:
			// method call returning a reference into its receiver (Namespaces.Last(), Tokens.index(i))
			sel, isSel := ast.Unparen(v.Fun).(*ast.SelectorExpr)
			if !isSel || info.Selections[sel] == nil {
				return ri, false
			}
			ri.viaCall = true
			ri.deref = true
			x = sel.X
		case *ast.TypeAssertExpr:
			x = v.X
		default:
			return ri, false
		}
	}
}

// coderBases returns the receiver/parameters of fn through which a coder is reachable.
func (e *Effects) coderBases(f *FuncInfo) map[*types.Var]bool {
	out := map[*types.Var]bool{}
	sig := f.Obj.Type().(*types.Signature)
	add := func(v *types.Var) {
		if v == nil {
			return
		}
		t := v.Type()
		if e.isFlatType(t) {
			if _, isPtr := t.(*types.Pointer); isPtr {
				out[v] = true
			}
			return
		}
		if it, ok := t.Underlying().(*types.Interface); ok && it.NumMethods() > 0 {
			// an interface satisfied by a coder type (wrapSyntacticError's state parameter)
			for tn := range e.flat {
				if types.Implements(types.NewPointer(tn.Type()), it) {
					out[v] = true
				}
			}
		}
	}
	add(sig.Recv())
	for i := 0; i < sig.Params().Len(); i++ {
		add(sig.Params().At(i))
	}
	return out
}

// aliasLocals maps pointer-typed locals that are only ever assigned from
// expressions rooted at a coder base to that root.
func (e *Effects) aliasLocals(f *FuncInfo, bases map[*types.Var]bool) map[*types.Var]rootInfo {
	info := f.Info()
	cand := map[*types.Var][]rootInfo{}
	bad := map[*types.Var]bool{}
	note := func(lhs ast.Expr, rhs ast.Expr) {
		id, ok := ast.Unparen(lhs).(*ast.Ident)
		if !ok {
			return
		}
		v, _ := IdentObj(info, id).(*types.Var)
		if v == nil || v.IsField() {
			return
		}
		if _, isPtr := v.Type().Underlying().(*types.Pointer); !isPtr {
			return
		}
		if rhs == nil {
			bad[v] = true
			return
		}
		if IsNilIdent(info, rhs) {
			return
		}
		ri, ok := e.root(info, rhs)
		if !ok || !bases[ri.base] {
			bad[v] = true
			return
		}
		cand[v] = append(cand[v], ri)
	}
	ast.Inspect(f.Body(), func(n ast.Node) bool {
		switch s := n.(type) {
		case *ast.AssignStmt:
			if len(s.Lhs) == len(s.Rhs) {
				for i := range s.Lhs {
					note(s.Lhs[i], s.Rhs[i])
				}
			} else if len(s.Rhs) == 1 {
				// v, ok := x.(T) / multi-value call: first lhs may alias
				if ta, isTA := ast.Unparen(s.Rhs[0]).(*ast.TypeAssertExpr); isTA && len(s.Lhs) > 0 {
					note(s.Lhs[0], ta.X)
				} else {
					for _, l := range s.Lhs {
						note(l, nil)
					}
				}
			}
		case *ast.ValueSpec:
			for i, nm := range s.Names {
				if i < len(s.Values) {
					note(nm, s.Values[i])
				}
			}
		}
		return true
	})
	out := map[*types.Var]rootInfo{}
	for v, rs := range cand {
		if bad[v] {
			continue
		}
		same := true
		for _, r := range rs[1:] {
			if r.base != rs[0].base || r.loc != rs[0].loc {
				same = false
			}
		}
		if same {
			out[v] = rs[0]
		}
	}
	return out
}

// resolve gives the location written when expression x is written through,
// taking alias locals into account. ok=false: not rooted at a coder.
func (e *Effects) resolve(info *types.Info, x ast.Expr, bases map[*types.Var]bool, alias map[*types.Var]rootInfo) (loc *types.Var, base *types.Var, ok bool) {
	ri, rok := e.root(info, x)
	if !rok {
		return nil, nil, false
	}
	if bases[ri.base] {
		return ri.loc, ri.base, true
	}
	if a, isAlias := alias[ri.base]; isAlias {
		if a.loc != nil {
			return a.loc, a.base, true
		}
		return ri.loc, a.base, true
	}
	return nil, nil, false
}

// implementations returns the methods named name on flat types that could be
// the target of an interface method call.
func (e *Effects) implementations(name string) []*types.Func {
	var out []*types.Func
	for tn := range e.flat {
		obj, _, _ := types.LookupFieldOrMethod(types.NewPointer(tn.Type()), true, tn.Pkg(), name)
		if fn, ok := obj.(*types.Func); ok {
			out = append(out, fn.Origin())
		}
	}
	sort.Slice(out, func(i, j int) bool { return out[i].Pos() < out[j].Pos() })
	return out
}

func (e *Effects) compute() {
	// Step A: recvMut for methods on non-flat types.
	for changed := true; changed; {
		changed = false
		for _, f := range e.funcs {
			sig := f.Obj.Type().(*types.Signature)
			rv := sig.Recv()
			if rv == nil || e.isFlatType(rv.Type()) || e.recvMut[f.Obj] || e.pure[f.Obj] != "" {
				continue
			}
			_, ptrRecv := rv.Type().(*types.Pointer)
			info := f.Info()
			mut := false
			aliasA := e.aliasLocals(f, map[*types.Var]bool{rv: true})
			rooted := func(x ast.Expr) (rootInfo, bool) {
				ri, ok := e.root(info, x)
				if ok && ri.base != rv {
					if al, isAlias := aliasA[ri.base]; isAlias {
						al.deref = true
						return al, true
					}
				}
				return ri, ok && ri.base == rv
			}
			ast.Inspect(f.Body(), func(n ast.Node) bool {
				if mut {
					return false
				}
				switch s := n.(type) {
				case *ast.AssignStmt:
					if s.Tok == token.DEFINE {
						return true
					}
					for _, l := range s.Lhs {
						if ri, ok := rooted(l); ok && (ptrRecv || ri.deref) {
							if id, isId := ast.Unparen(l).(*ast.Ident); isId && IdentObj(info, id) == rv {
								continue // rebinding the receiver variable itself
							}
							mut = true
						}
					}
				case *ast.IncDecStmt:
					if ri, ok := rooted(s.X); ok && (ptrRecv || ri.deref) {
						mut = true
					}
				case *ast.CallExpr:
					if IsBuiltin(info, s, "delete") || IsBuiltin(info, s, "copy") || IsBuiltin(info, s, "clear") {
						if len(s.Args) > 0 {
							if _, ok := rooted(s.Args[0]); ok {
								mut = true
							}
						}
						return true
					}
					callee := Callee(info, s)
					if callee == nil {
						return true
					}
					if sel, isSel := ast.Unparen(s.Fun).(*ast.SelectorExpr); isSel && info.Selections[sel] != nil {
						if ri, ok := rooted(sel.X); ok && e.recvMut[callee] && e.pure[callee] == "" {
							csig := callee.Type().(*types.Signature)
							_, cptr := csig.Recv().Type().(*types.Pointer)
							if cptr && (ptrRecv || ri.deref) {
								mut = true
							}
						}
					}
				}
				return true
			})
			if mut {
				e.recvMut[f.Obj] = true
				changed = true
			}
		}
	}
	// Step B: Writes for flat-level functions.
	type fctx struct {
		f     *FuncInfo
		bases map[*types.Var]bool
		alias map[*types.Var]rootInfo
	}
	var flatFuncs []fctx
	for _, f := range e.funcs {
		bases := e.coderBases(f)
		if len(bases) == 0 {
			continue
		}
		flatFuncs = append(flatFuncs, fctx{f, bases, e.aliasLocals(f, bases)})
		e.writes[f.Obj] = map[*types.Var]bool{}
	}
	nsLoc := e.p.Field("jsontext", "state", "Namespaces")
	balanced := map[*types.Func]bool{}
	for _, fc := range flatFuncs {
		ps := namespacePushes(e.p, fc.f)
		all := len(ps) > 0
		for _, x := range ps {
			all = all && x.balanced
		}
		balanced[fc.f.Obj] = all // TXN-3 checks the remaining conditions of the pattern
	}
	for changed := true; changed; {
		changed = false
		for _, fc := range flatFuncs {
			f := fc.f
			if e.pure[f.Obj] != "" {
				continue
			}
			info := f.Info()
			w := e.writes[f.Obj]
			add := func(loc *types.Var) {
				if loc == nsLoc && balanced[f.Obj] {
					return // scratch namespace pushed and popped by this very call (TXN-3)
				}
				if loc != nil && !w[loc] {
					w[loc] = true
					changed = true
				}
			}
			addAll := func(callee *types.Func) {
				for loc := range e.writes[callee] {
					add(loc)
				}
				if e.unknown[callee] && !e.unknown[f.Obj] {
					e.unknown[f.Obj] = true
					changed = true
				}
			}
			ast.Inspect(f.Body(), func(n ast.Node) bool {
				switch s := n.(type) {
				case *ast.AssignStmt:
					if s.Tok == token.DEFINE {
						return true
					}
					for _, l := range s.Lhs {
						if loc, _, ok := e.resolve(info, l, fc.bases, fc.alias); ok && !e.poisonStore(info, l, loc) {
							add(loc)
						}
					}
				case *ast.IncDecStmt:
					if loc, _, ok := e.resolve(info, s.X, fc.bases, fc.alias); ok && !e.poisonStore(info, s.X, loc) {
						add(loc)
					}
				case *ast.CallExpr:
					e.callWrites(info, s, fc.bases, fc.alias, add, addAll, func() {
						if !e.unknown[f.Obj] {
							e.unknown[f.Obj] = true
							changed = true
						}
					})
				}
				return true
			})
		}
	}
}

// callWrites reports the locations a call may write through the caller's coder.
func (e *Effects) callWrites(info *types.Info, s *ast.CallExpr, bases map[*types.Var]bool, alias map[*types.Var]rootInfo,
	add func(*types.Var), addAll func(*types.Func), unknown func()) {
	if IsBuiltin(info, s, "copy") || IsBuiltin(info, s, "clear") || IsBuiltin(info, s, "delete") {
		if len(s.Args) > 0 {
			if loc, _, ok := e.resolve(info, s.Args[0], bases, alias); ok {
				add(loc)
			}
		}
		return
	}
	if tv, ok := info.Types[s.Fun]; ok && tv.IsType() {
		return // conversion
	}
	callee := Callee(info, s)
	sel, isSel := ast.Unparen(s.Fun).(*ast.SelectorExpr)
	// arguments that hand the coder itself (or an embedded part of it) to the callee
	passesCoder := false
	for _, a := range s.Args {
		ri, ok := e.root(info, a)
		if !ok {
			continue
		}
		isBase := bases[ri.base]
		if al, isAlias := alias[ri.base]; isAlias && al.loc == nil {
			isBase = true
		}
		if isBase && ri.loc == nil {
			if t := info.TypeOf(a); t != nil {
				if _, isPtr := t.Underlying().(*types.Pointer); isPtr || types.IsInterface(t) {
					passesCoder = true
				}
			}
		}
	}
	if callee == nil {
		// dynamic call: interface method on a base, or a func value
		if isSel && info.Selections[sel] != nil {
			if ri, ok := e.root(info, sel.X); ok && bases[ri.base] && ri.loc == nil {
				if types.IsInterface(info.TypeOf(sel.X)) {
					for _, impl := range e.implementations(sel.Sel.Name) {
						addAll(impl)
					}
					return
				}
			}
		}
		if passesCoder {
			unknown()
		}
		return
	}
	if e.pure[callee] != "" {
		return
	}
	csig := callee.Type().(*types.Signature)
	if isSel && info.Selections[sel] != nil && csig.Recv() != nil {
		if types.IsInterface(csig.Recv().Type()) {
			if ri, ok := e.root(info, sel.X); ok && (bases[ri.base] || alias[ri.base].base != nil) && ri.loc == nil {
				for _, impl := range e.implementations(sel.Sel.Name) {
					addAll(impl)
				}
			}
			return
		}
		loc, _, ok := e.resolve(info, sel.X, bases, alias)
		if ok {
			if e.isFlatType(csig.Recv().Type()) && loc == nil {
				addAll(callee)
			} else if e.recvMut[callee] {
				if _, cptr := csig.Recv().Type().(*types.Pointer); cptr {
					add(loc)
				}
			}
		}
	}
	if passesCoder {
		if _, known := e.writes[callee]; known {
			addAll(callee)
		} else if e.p.FuncOf(callee) == nil {
			unknown()
		}
	}
}

// Writes returns the sorted location names a function may write.
func (e *Effects) Writes(fn *types.Func) []string {
	var out []string
	for v := range e.writes[fn] {
		out = append(out, v.Name())
	}
	sort.Strings(out)
	return out
}

// poisonStore reports an element store into decodeBuffer.buf (d.buf[i] = c): the documented
// invalidation of the previously returned value, which is outside the abstract decoder state.
func (e *Effects) poisonStore(info *types.Info, lhs ast.Expr, loc *types.Var) bool {
	if loc == nil || loc != e.p.Field("jsontext", "decodeBuffer", "buf") {
		return false
	}
	_, isIndex := ast.Unparen(lhs).(*ast.IndexExpr)
	return isIndex
}

// recvFieldWrites returns the first-level fields of the receiver that method fn
// may write (directly, through element stores, or through methods it calls on
// the receiver or on a field of it); nil means "cannot tell / the whole value".
func (e *Effects) recvFieldWrites(fn *types.Func) map[*types.Var]bool {
	if e.recvFields == nil {
		e.recvFields = map[*types.Func]map[*types.Var]bool{}
		e.recvFieldsDone = map[*types.Func]bool{}
	}
	if e.recvFieldsDone[fn] {
		return e.recvFields[fn]
	}
	e.recvFieldsDone[fn] = true
	e.recvFields[fn] = nil // recursion: unknown
	f := e.p.FuncOf(fn)
	sig, _ := fn.Type().(*types.Signature)
	if f == nil || f.Body() == nil || sig == nil || sig.Recv() == nil {
		return nil
	}
	rv := sig.Recv()
	info := f.Info()
	out := map[*types.Var]bool{}
	unknown := false
	// fieldOf: the field selected directly on the receiver at the bottom of an lvalue path
	var fieldOf func(x ast.Expr) (*types.Var, bool)
	fieldOf = func(x ast.Expr) (*types.Var, bool) {
		for {
			x = ast.Unparen(x)
			switch v := x.(type) {
			case *ast.Ident:
				if IdentObj(info, v) == rv {
					return nil, true // the receiver itself
				}
				return nil, false
			case *ast.SelectorExpr:
				if IdentObj(info, v.X) == rv {
					fld := SelField(info, v)
					return fld, fld != nil
				}
				x = v.X
			case *ast.IndexExpr:
				x = v.X
			case *ast.SliceExpr:
				x = v.X
			case *ast.StarExpr:
				x = v.X
			default:
				return nil, false
			}
		}
	}
	note := func(x ast.Expr) {
		fld, ok := fieldOf(x)
		if !ok {
			return
		}
		if fld == nil {
			unknown = true
			return
		}
		out[fld] = true
	}
	ast.Inspect(f.Body(), func(n ast.Node) bool {
		switch s := n.(type) {
		case *ast.AssignStmt:
			if s.Tok == token.DEFINE {
				return true
			}
			for _, l := range s.Lhs {
				if id, isId := ast.Unparen(l).(*ast.Ident); isId && IdentObj(info, id) == rv {
					continue
				}
				note(l)
			}
		case *ast.IncDecStmt:
			note(s.X)
		case *ast.CallExpr:
			if IsBuiltin(info, s, "delete") || IsBuiltin(info, s, "copy") || IsBuiltin(info, s, "clear") {
				if len(s.Args) > 0 {
					note(s.Args[0])
				}
				return true
			}
			callee := Callee(info, s)
			sel, isSel := ast.Unparen(s.Fun).(*ast.SelectorExpr)
			if callee == nil || !isSel || info.Selections[sel] == nil || !e.recvMut[callee] {
				return true
			}
			fld, ok := fieldOf(sel.X)
			if !ok {
				return true
			}
			if fld != nil {
				out[fld] = true
				return true
			}
			sub := e.recvFieldWrites(callee)
			if sub == nil {
				unknown = true
				return true
			}
			for k := range sub {
				out[k] = true
			}
		}
		return true
	})
	if unknown {
		return nil
	}
	e.recvFields[fn] = out
	return out
}
