package main

import (
	"fmt"
	"go/ast"
	"go/token"
	"go/types"
	"sort"
	"strings"
)

func init() {
	register(&Rule{ID: "STALE-1", Doc: "no use of a stale buffer position or buffer alias inside the decoder: in every method of decoderState/decodeBuffer, a local derived from d.buf, d.prevStart/prevEnd/peekPos or len(d.buf) (directly, through parameters/results of decoder methods, or through UnquoteMayCopy) is never read after a call that may reach fetch (which moves or reallocates the buffer) unless it was redefined first; absolute offsets (baseOffset + pos) are exempt, len(x) is not a use", Run: ruleSTALE1})
}

// staleS is the per-path state: which tracked locals hold a buffer-relative
// value (taint) and which of those have been invalidated by a fetch (stale).
type staleS struct {
	taint, stale uint64
}

type staleProg struct {
	p           *Program
	mayFetch    map[*types.Func]bool
	paramTaint  map[*types.Var]bool
	resultTaint map[*types.Func]map[int]bool
	subjects    []*FuncInfo
	changed     bool
}

func isDecoderRecv(t types.Type) bool {
	return isNamed(t, pkgAlias["jsontext"], "decoderState") || isNamed(t, pkgAlias["jsontext"], "decodeBuffer")
}

func newStaleProg(p *Program) *staleProg {
	sp := &staleProg{p: p, mayFetch: map[*types.Func]bool{}, paramTaint: map[*types.Var]bool{}, resultTaint: map[*types.Func]map[int]bool{}}
	fetch := p.Method("jsontext", "decoderState", "fetch")
	if fetch == nil {
		return sp
	}
	sp.mayFetch[fetch] = true
	funcs := p.FuncsIn("jsontext")
	for changed := true; changed; {
		changed = false
		for _, f := range funcs {
			if f.Decl == nil || f.Obj == nil || f.Body() == nil || sp.mayFetch[f.Obj] {
				continue
			}
			found := false
			ast.Inspect(f.Body(), func(n ast.Node) bool {
				if call, ok := n.(*ast.CallExpr); ok && !found {
					if cf := Callee(f.Info(), call); cf != nil && sp.mayFetch[cf] {
						found = true
					}
				}
				return !found
			})
			if found {
				sp.mayFetch[f.Obj] = true
				changed = true
			}
		}
	}
	for _, f := range funcs {
		if f.Decl == nil || f.Obj == nil || f.Body() == nil {
			continue
		}
		sig := f.Obj.Type().(*types.Signature)
		if sig.Recv() != nil && isDecoderRecv(sig.Recv().Type()) {
			sp.subjects = append(sp.subjects, f)
		}
	}
	return sp
}

func isByteSlice(t types.Type) bool {
	if t == nil {
		return false
	}
	s, ok := t.Underlying().(*types.Slice)
	if !ok {
		return false
	}
	b, ok := s.Elem().Underlying().(*types.Basic)
	return ok && b.Kind() == types.Uint8
}

func isIntegerType(t types.Type) bool {
	if t == nil {
		return false
	}
	b, ok := t.Underlying().(*types.Basic)
	return ok && b.Info()&types.IsInteger != 0
}

func trackable(t types.Type) bool { return isByteSlice(t) || isIntegerType(t) }

type staleFinding struct {
	v      *types.Var
	by     string
	usePos token.Pos
	byPos  token.Pos
}

// staleAnalysis analyses one decoder method.
type staleAnalysis struct {
	sp       *staleProg
	f        *FuncInfo
	info     *types.Info
	recv     *types.Var
	bits     map[*types.Var]uint
	staledBy map[*types.Var]map[string]token.Pos // var -> callee name -> position of the fetching call (for messages)
	findings []staleFinding
	fetchPts int
}

func (a *staleAnalysis) bit(v *types.Var) (uint64, bool) {
	if v == nil || v.IsField() || !trackable(v.Type()) {
		return 0, false
	}
	if v.Pkg() != nil && v.Parent() == v.Pkg().Scope() {
		return 0, false
	}
	i, ok := a.bits[v]
	if !ok {
		if len(a.bits) >= 64 {
			return 0, false
		}
		i = uint(len(a.bits))
		a.bits[v] = i
	}
	return 1 << i, true
}

func (a *staleAnalysis) localVar(e ast.Expr) *types.Var {
	v, _ := IdentObj(a.info, e).(*types.Var)
	return v
}

// mentionsBaseOffset reports whether e contains a selection of decodeBuffer.baseOffset.
func (a *staleAnalysis) mentionsBaseOffset(e ast.Expr) bool {
	bo := a.sp.p.Field("jsontext", "decodeBuffer", "baseOffset")
	found := false
	ast.Inspect(e, func(n ast.Node) bool {
		if x, ok := n.(ast.Expr); ok {
			if f := SelField(a.info, x); f != nil && f == bo {
				found = true
			}
		}
		return !found
	})
	return found
}

var copyingFuncs = map[string]int{ // qualified name -> index of the only argument the result may alias (-1: none)
	"bytes.Clone":            -1,
	"bytes.ToLower":          -1,
	"bytes.ToUpper":          -1,
	"bytes.Repeat":           -1,
	"jsonwire.AppendQuote":   0,
	"jsonwire.AppendUnquote": 0,
}

// taintOf evaluates whether e is buffer-relative under state s.
func (a *staleAnalysis) taintOf(e ast.Expr, s staleS) bool {
	e = ast.Unparen(e)
	if !trackable(a.info.TypeOf(e)) {
		// arithmetic on untyped constants etc.
		if tv, ok := a.info.Types[e]; ok && tv.Value != nil {
			return false
		}
		if _, isCall := e.(*ast.CallExpr); !isCall {
			return false
		}
	}
	if tv, ok := a.info.Types[e]; ok && tv.Value != nil {
		return false
	}
	p := a.sp.p
	switch x := e.(type) {
	case *ast.Ident:
		if b, ok := a.bit(a.localVar(x)); ok {
			return s.taint&b != 0
		}
		return false
	case *ast.SelectorExpr:
		f := SelField(a.info, x)
		if f == nil {
			return false
		}
		switch f {
		case p.Field("jsontext", "decodeBuffer", "prevStart"), p.Field("jsontext", "decodeBuffer", "prevEnd"),
			p.Field("jsontext", "decodeBuffer", "peekPos"), p.Field("jsontext", "decodeBuffer", "buf"):
			return true
		}
		return false
	case *ast.SliceExpr:
		return a.taintOf(x.X, s)
	case *ast.IndexExpr:
		return false // an element, not a position or alias
	case *ast.StarExpr:
		return a.taintOf(x.X, s)
	case *ast.UnaryExpr:
		return a.taintOf(x.X, s)
	case *ast.BinaryExpr:
		if tokIsCmp(x.Op) || x.Op == token.LAND || x.Op == token.LOR {
			return false
		}
		if a.mentionsBaseOffset(x) {
			// baseOffset + pos is absolute (clean); absPos - baseOffset is a fresh position
			if x.Op == token.SUB && a.mentionsBaseOffset(x.Y) && !a.mentionsBaseOffset(x.X) {
				return true
			}
			return false
		}
		return a.taintOf(x.X, s) || a.taintOf(x.Y, s)
	case *ast.CallExpr:
		if tv, ok := a.info.Types[x.Fun]; ok && tv.IsType() {
			// conversion: string(b) and []byte(s) copy
			to := tv.Type
			if len(x.Args) == 1 {
				from := a.info.TypeOf(x.Args[0])
				if isByteSlice(to) != isByteSlice(from) {
					return false
				}
				return a.taintOf(x.Args[0], s)
			}
			return false
		}
		if IsBuiltin(a.info, x, "len") || IsBuiltin(a.info, x, "cap") {
			if len(x.Args) == 1 {
				if f := SelField(a.info, x.Args[0]); f != nil && f == p.Field("jsontext", "decodeBuffer", "buf") {
					return true // len(d.buf) is a position in the buffer
				}
			}
			return false
		}
		if IsBuiltin(a.info, x, "append") {
			return len(x.Args) > 0 && a.taintOf(x.Args[0], s)
		}
		if IsBuiltin(a.info, x, "min") || IsBuiltin(a.info, x, "max") {
			for _, arg := range x.Args {
				if a.taintOf(arg, s) {
					return true
				}
			}
			return false
		}
		if IsBuiltin(a.info, x, "copy") {
			return false
		}
		callee := Callee(a.info, x)
		if callee == nil {
			return false
		}
		if rt, ok := a.sp.resultTaint[callee]; ok {
			return rt[0]
		}
		sig := callee.Type().(*types.Signature)
		if sig.Recv() != nil && isDecoderRecv(sig.Recv().Type()) {
			return a.sp.resultTaint[callee][0]
		}
		// other functions: integer results are lengths (relative, stay valid); byte-slice results alias their byte-slice arguments unless copying
		if sig.Results().Len() == 0 || !isByteSlice(sig.Results().At(0).Type()) {
			return false
		}
		qn := QualName(callee)
		if idx, ok := copyingFuncs[qn]; ok {
			return idx >= 0 && idx < len(x.Args) && a.taintOf(x.Args[idx], s)
		}
		if callee.Pkg() != nil && callee.Pkg().Path() == "strconv" && strings.HasPrefix(callee.Name(), "Append") {
			return len(x.Args) > 0 && a.taintOf(x.Args[0], s)
		}
		for _, arg := range x.Args {
			if isByteSlice(a.info.TypeOf(arg)) && a.taintOf(arg, s) {
				return true
			}
		}
		return false
	}
	return false
}

// callResultTaint gives the taint of the i-th result of a call.
func (a *staleAnalysis) callResultTaint(call *ast.CallExpr, i int, s staleS) bool {
	callee := Callee(a.info, call)
	if callee != nil {
		if rt, ok := a.sp.resultTaint[callee]; ok {
			return rt[i]
		}
		sig := callee.Type().(*types.Signature)
		if sig.Recv() != nil && isDecoderRecv(sig.Recv().Type()) {
			return false
		}
		if i < sig.Results().Len() && isByteSlice(sig.Results().At(i).Type()) {
			qn := QualName(callee)
			if idx, ok := copyingFuncs[qn]; ok {
				return idx >= 0 && idx < len(call.Args) && a.taintOf(call.Args[idx], s)
			}
			for _, arg := range call.Args {
				if isByteSlice(a.info.TypeOf(arg)) && a.taintOf(arg, s) {
					return true
				}
			}
		}
	}
	if i == 0 {
		return a.taintOf(call, s)
	}
	return false
}

// fetchCalls lists the may-fetch calls inside n in evaluation order.
func (a *staleAnalysis) fetchCalls(n ast.Node) []*ast.CallExpr {
	var out []*ast.CallExpr
	for _, c := range CallsIn(n) {
		if cf := Callee(a.info, c); cf != nil && a.sp.mayFetch[cf] {
			out = append(out, c)
		}
	}
	return out
}

// uses lists identifier reads of tracked locals in n (excluding len/cap arguments and skip set).
func (a *staleAnalysis) uses(n ast.Node, skip map[*ast.Ident]bool) []*ast.Ident {
	var out []*ast.Ident
	var visit func(n ast.Node)
	visit = func(n ast.Node) {
		ast.Inspect(n, func(x ast.Node) bool {
			switch y := x.(type) {
			case *ast.FuncLit:
				return false
			case *ast.CallExpr:
				if (IsBuiltin(a.info, y, "len") || IsBuiltin(a.info, y, "cap")) && len(y.Args) == 1 {
					if _, isId := ast.Unparen(y.Args[0]).(*ast.Ident); isId {
						return false
					}
				}
			case *ast.SelectorExpr:
				visit(y.X)
				return false
			case *ast.KeyValueExpr:
				visit(y.Value)
				return false
			case *ast.Ident:
				if skip[y] {
					return false
				}
				if v, ok := a.info.Uses[y].(*types.Var); ok {
					if _, tracked := a.bit(v); tracked {
						out = append(out, y)
					}
				}
			}
			return true
		})
	}
	visit(n)
	return out
}

func (a *staleAnalysis) checkUses(n ast.Node, skip map[*ast.Ident]bool, s staleS, fetches []*ast.CallExpr) {
	for _, id := range a.uses(n, skip) {
		v := a.info.Uses[id].(*types.Var)
		b, _ := a.bit(v)
		stale := s.stale&b != 0
		by := ""
		var byPos token.Pos
		if !stale && s.taint&b != 0 {
			// made stale by a fetch call earlier in this very statement?
			for _, fc := range fetches {
				if id.Pos() > fc.End() {
					stale = true
					by = CalleeName(a.info, fc)
					byPos = fc.Pos()
					break
				}
			}
		}
		if !stale {
			continue
		}
		if by == "" {
			// pick any recorded cause
			var names []string
			for nm := range a.staledBy[v] {
				names = append(names, nm)
			}
			sort.Strings(names)
			if len(names) > 0 {
				by = names[0]
				byPos = a.staledBy[v][by]
			}
		}
		a.findings = append(a.findings, staleFinding{v, by, id.Pos(), byPos})
	}
}

// afterFetch marks every tainted local not in defined as stale.
func (a *staleAnalysis) afterFetch(s staleS, fetches []*ast.CallExpr, defined uint64) staleS {
	if len(fetches) == 0 {
		return s
	}
	a.fetchPts++
	newly := s.taint &^ defined &^ s.stale
	if newly != 0 {
		for v, i := range a.bits {
			if newly&(1<<i) != 0 {
				if a.staledBy[v] == nil {
					a.staledBy[v] = map[string]token.Pos{}
				}
				for _, fc := range fetches {
					nm := CalleeName(a.info, fc)
					if _, ok := a.staledBy[v][nm]; !ok {
						a.staledBy[v][nm] = fc.Pos()
					}
				}
			}
		}
	}
	s.stale |= s.taint &^ defined
	return s
}

func (a *staleAnalysis) define(s staleS, lhs ast.Expr, tainted bool) staleS {
	v := a.localVar(lhs)
	b, ok := a.bit(v)
	if !ok {
		return s
	}
	s.taint &^= b
	s.stale &^= b
	if tainted {
		s.taint |= b
	}
	return s
}

func (a *staleAnalysis) node(n ast.Node, s staleS) []staleS {
	fetches := a.fetchCalls(n)
	switch st := n.(type) {
	case *ast.AssignStmt:
		skip := map[*ast.Ident]bool{}
		var defined uint64
		if st.Tok == token.ASSIGN || st.Tok == token.DEFINE {
			for _, l := range st.Lhs {
				if id, ok := ast.Unparen(l).(*ast.Ident); ok {
					skip[id] = true
					if b, ok := a.bit(a.localVar(id)); ok {
						defined |= b
					}
				}
			}
		}
		a.checkUses(st, skip, s, fetches)
		// taint of the right-hand sides is evaluated before the statement's effects
		var rt []bool
		if len(st.Lhs) == len(st.Rhs) {
			for _, r := range st.Rhs {
				rt = append(rt, a.taintOf(r, s))
			}
		} else if len(st.Rhs) == 1 {
			if call, ok := ast.Unparen(st.Rhs[0]).(*ast.CallExpr); ok {
				for i := range st.Lhs {
					rt = append(rt, a.callResultTaint(call, i, s))
				}
			}
		}
		for len(rt) < len(st.Lhs) {
			rt = append(rt, false)
		}
		if st.Tok != token.ASSIGN && st.Tok != token.DEFINE {
			// compound assignment keeps/propagates taint: x op= y
			for i, l := range st.Lhs {
				if b, ok := a.bit(a.localVar(l)); ok {
					if rt[i] {
						s.taint |= b
					}
				}
			}
			s = a.afterFetch(s, fetches, 0)
			return []staleS{s}
		}
		s = a.afterFetch(s, fetches, defined)
		for i, l := range st.Lhs {
			s = a.define(s, l, rt[i])
		}
		return []staleS{s}
	case *ast.ValueSpec:
		a.checkUses(st, nil, s, fetches)
		var defined uint64
		for _, nm := range st.Names {
			if b, ok := a.bit(a.localVar(nm)); ok {
				defined |= b
			}
		}
		var rt []bool
		for i := range st.Names {
			if i < len(st.Values) && len(st.Values) == len(st.Names) {
				rt = append(rt, a.taintOf(st.Values[i], s))
			} else if len(st.Values) == 1 {
				if call, ok := ast.Unparen(st.Values[0]).(*ast.CallExpr); ok {
					rt = append(rt, a.callResultTaint(call, i, s))
				} else {
					rt = append(rt, false)
				}
			} else {
				rt = append(rt, false)
			}
		}
		s = a.afterFetch(s, fetches, defined)
		for i, nm := range st.Names {
			s = a.define(s, nm, rt[i])
		}
		return []staleS{s}
	case *ast.ReturnStmt:
		a.checkUses(st, nil, s, fetches)
		// record result taint for the summaries
		sig := a.f.Obj.Type().(*types.Signature)
		rt := a.sp.resultTaint[a.f.Obj]
		if rt == nil {
			rt = map[int]bool{}
			a.sp.resultTaint[a.f.Obj] = rt
		}
		mark := func(i int, t bool) {
			if t && !rt[i] {
				rt[i] = true
				a.sp.changed = true
			}
		}
		if len(st.Results) == sig.Results().Len() {
			for i, r := range st.Results {
				if trackable(sig.Results().At(i).Type()) {
					mark(i, a.taintOf(r, s))
				}
			}
		} else if len(st.Results) == 1 {
			if call, ok := ast.Unparen(st.Results[0]).(*ast.CallExpr); ok {
				for i := 0; i < sig.Results().Len(); i++ {
					if trackable(sig.Results().At(i).Type()) {
						mark(i, a.callResultTaint(call, i, s))
					}
				}
			}
		}
		a.noteArgs(st, s)
		return nil
	case *ast.IncDecStmt:
		a.checkUses(st, nil, s, fetches)
		return []staleS{a.afterFetch(s, fetches, 0)}
	case *ast.RangeStmt:
		return []staleS{s}
	}
	a.checkUses(n, nil, s, fetches)
	a.noteArgs(n, s)
	return []staleS{a.afterFetch(s, fetches, 0)}
}

// noteArgs propagates taint of arguments into the parameters of decoder methods (inter-procedural fixpoint).
func (a *staleAnalysis) noteArgs(n ast.Node, s staleS) {
	for _, call := range CallsIn(n) {
		callee := Callee(a.info, call)
		if callee == nil {
			continue
		}
		sig := callee.Type().(*types.Signature)
		if sig.Recv() == nil || !isDecoderRecv(sig.Recv().Type()) {
			continue
		}
		for i, arg := range call.Args {
			if i >= sig.Params().Len() {
				break
			}
			pv := sig.Params().At(i)
			if trackable(pv.Type()) && !a.sp.paramTaint[pv] && a.taintOf(arg, s) {
				a.sp.paramTaint[pv] = true
				a.sp.changed = true
			}
		}
	}
}

func (a *staleAnalysis) leaf(e ast.Expr, s staleS) (t, f []staleS) {
	fetches := a.fetchCalls(e)
	a.checkUses(e, nil, s, fetches)
	a.noteArgs(e, s)
	s = a.afterFetch(s, fetches, 0)
	return []staleS{s}, []staleS{s}
}

func (sp *staleProg) analyse(f *FuncInfo) *staleAnalysis {
	a := &staleAnalysis{sp: sp, f: f, info: f.Info(), bits: map[*types.Var]uint{}, staledBy: map[*types.Var]map[string]token.Pos{}}
	sig := f.Obj.Type().(*types.Signature)
	a.recv = sig.Recv()
	var entry staleS
	for i := 0; i < sig.Params().Len(); i++ {
		pv := sig.Params().At(i)
		if sp.paramTaint[pv] {
			if b, ok := a.bit(pv); ok {
				entry.taint |= b
			}
		}
	}
	fl := &Flow[staleS]{Fn: f}
	// AssignStmt nodes inside conditions are handled by node; for assignments noteArgs must run too
	fl.Node = func(n ast.Node, s staleS) []staleS {
		if as, ok := n.(*ast.AssignStmt); ok {
			a.noteArgs(as, s)
		}
		if vs, ok := n.(*ast.ValueSpec); ok {
			a.noteArgs(vs, s)
		}
		return a.node(n, s)
	}
	fl.Leaf = a.leaf
	fl.Case = func(tag, val ast.Expr, s staleS) (t, f []staleS) { return []staleS{s}, []staleS{s} }
	fl.Run(entry)
	return a
}

func ruleSTALE1(c *Ctx) {
	p := c.P
	sp := newStaleProg(p)
	if len(sp.mayFetch) == 0 {
		c.Undecide("jsontext.(*decoderState).fetch", "function missing")
		return
	}
	if !c.Floor("decoder methods", len(sp.subjects), 25) {
		return
	}
	if !c.Floor("may-fetch functions", len(sp.mayFetch), 10) {
		return
	}
	// inter-procedural fixpoint on parameter/result taint
	var results map[*FuncInfo]*staleAnalysis
	for iter := 0; iter < 20; iter++ {
		sp.changed = false
		results = map[*FuncInfo]*staleAnalysis{}
		for _, f := range sp.subjects {
			results[f] = sp.analyse(f)
		}
		if !sp.changed {
			break
		}
	}
	nTaintedParams := 0
	for range sp.paramTaint {
		nTaintedParams++
	}
	if !c.Floor("position-tainted parameters of decoder methods", nTaintedParams, 5) {
		return
	}
	for _, f := range sp.subjects {
		a := results[f]
		if len(a.findings) == 0 {
			c.OK(f.Name, f.Pos(), fmt.Sprintf("%d fetch points", a.fetchPts))
			continue
		}
		// group by variable
		groups := map[string][]staleFinding{}
		for _, fd := range a.findings {
			groups[fd.v.Name()] = append(groups[fd.v.Name()], fd)
		}
		for _, vn := range sortedKeys(groups) {
			fds := groups[vn]
			seen := map[token.Pos]bool{}
			var uses []string
			first := fds[0].usePos
			causes := map[string]token.Pos{}
			for _, fd := range fds {
				if !seen[fd.usePos] {
					seen[fd.usePos] = true
					uses = append(uses, p.Position(fd.usePos))
					if fd.usePos < first {
						first = fd.usePos
					}
				}
				for nm, ps := range a.staledBy[fd.v] {
					causes[nm] = ps
				}
				if fd.by != "" {
					causes[fd.by] = fd.byPos
				}
			}
			sort.Slice(uses, func(i, j int) bool { return posLess(uses[i], uses[j]) })
			var cs []string
			for _, nm := range sortedKeys(causes) {
				cs = append(cs, nm+" at "+p.Position(causes[nm]))
			}
			c.ViolationW(f.Name+":"+vn, first,
				fmt.Sprintf("local %q holds a buffer-relative value and is read after a call that may fetch and move/reallocate d.buf", vn),
				fmt.Sprintf("entry %s -> may-fetch call(s): %s -> stale read(s) at %s", f.Name, strings.Join(cs, "; "), strings.Join(uses, ", ")))
		}
	}
}
