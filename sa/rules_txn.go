package main

import (
	"fmt"
	"go/ast"
	"go/token"
	"go/types"
	"strings"
)

func init() {
	register(&Rule{ID: "TXN-1", Doc: "stateMachine is transactional: in every stateMachine method with an error result no write through the receiver lies on a path to a return of a non-nil error; likewise objectNamespace.insert writes nothing but its derived map cache on a path to `return false`", Run: ruleTXN1})
	register(&Rule{ID: "TXN-2", Doc: "commit protocol of token/value calls: in WriteToken, WriteValue, AppendRaw, ReadToken, ReadValue no mutation of the abstract coder state (encoder: Buf, baseOffset, Tokens, Names, Namespaces, options; decoder: prevEnd, baseOffset, buf, Tokens, Names, Namespaces, options) lies on a feasible path to a return of a non-nil error, other than the Flush error that follows the commit; PeekKind and CheckNextValue never mutate it at all", Run: ruleTXN2})
	register(&Rule{ID: "TXN-3", Doc: "balanced scratch namespaces: in every function that pushes a namespace outside the token-level writers/readers, each Namespaces.push() is immediately followed by defer Namespaces.pop() and every other namespace write goes through the pushed entry", Run: ruleTXN3})
}

func ruleTXN1(c *Ctx) {
	p := c.P
	sm := p.NamedType("jsontext", "stateMachine")
	if sm == nil {
		c.Undecide("jsontext.stateMachine", "type missing")
		return
	}
	n := 0
	for _, f := range p.FuncsIn("jsontext") {
		if f.Decl == nil || f.Obj == nil || f.Body() == nil {
			continue
		}
		sig := f.Obj.Type().(*types.Signature)
		if sig.Recv() == nil || !isNamed(sig.Recv().Type(), pkgAlias["jsontext"], "stateMachine") {
			continue
		}
		if sig.Results().Len() != 1 || !isErrorType(sig.Results().At(0).Type()) {
			continue
		}
		n++
		a := newTxnAnalysis(p, f, modeMachine)
		bad := ""
		var badPos token.Pos
		a.onReturn = func(r *ast.ReturnStmt, s txnS, rc retClass) {
			if rc.fail == triNo || !s.mut {
				return
			}
			if rc.viaCall != nil && a.isMachineSubject(Callee(a.info, rc.viaCall)) && rc.fail != triYes {
				// `return m.other()`: other is itself a subject; a mutation *before* the call is what matters
			}
			if bad == "" {
				bad = fmt.Sprintf("receiver written at %s, then error returned at %s", p.Position(s.mutPos), p.Position(r.Pos()))
				badPos = r.Pos()
			}
		}
		a.run(txnS{})
		pos := f.Pos()
		if bad != "" {
			pos = badPos
		}
		c.obligeW(f.Name, pos, bad == "", "state mutated on a path to an error return", bad)
	}
	c.Floor("stateMachine methods with an error result", n, 5)

	// objectNamespace.insert
	ins := p.Func("jsontext.(*objectNamespace).insert")
	if ins == nil {
		c.Undecide("jsontext.(*objectNamespace).insert", "function missing")
		return
	}
	a := newTxnAnalysis(p, ins, modeMachine)
	mapNames := p.Field("jsontext", "objectNamespace", "mapNames")
	a.exemptFl = func(loc *types.Var) bool { return loc == mapNames }
	bad := ""
	var badPos token.Pos
	sawFail, sawOK := false, false
	a.onReturn = func(r *ast.ReturnStmt, s txnS, rc retClass) {
		if rc.fail == triNo {
			sawOK = true
			return
		}
		sawFail = true
		if s.mut && bad == "" {
			bad = fmt.Sprintf("namespace written at %s, then `false` returned at %s", p.Position(s.mutPos), p.Position(r.Pos()))
			badPos = r.Pos()
		}
	}
	a.run(txnS{})
	if !sawFail || !sawOK {
		c.Undecide("jsontext.(*objectNamespace).insert/returns", "expected both `return true` and `return false`")
	}
	pos := ins.Pos()
	if bad != "" {
		pos = badPos
	}
	c.obligeW(ins.Name, pos, bad == "", "namespace mutated on a path to `return false`", bad)
	// insertQuoted / InsertUnquoted must be thin wrappers: their only write is through insert
	for _, nm := range []string{"insertQuoted", "InsertUnquoted"} {
		f := p.Func("jsontext.(*objectNamespace)." + nm)
		if f == nil {
			c.Undecide("jsontext.(*objectNamespace)."+nm, "function missing")
			continue
		}
		a := newTxnAnalysis(p, f, modeMachine)
		a.exemptFl = func(loc *types.Var) bool { return loc == mapNames }
		bad := ""
		a.onReturn = func(r *ast.ReturnStmt, s txnS, rc retClass) {
			if rc.fail != triNo && s.mut && bad == "" {
				bad = fmt.Sprintf("written at %s before failing return at %s", p.Position(s.mutPos), p.Position(r.Pos()))
			}
		}
		a.run(txnS{})
		c.obligeW(f.Name, f.Pos(), bad == "", "namespace mutated on a path to `return false`", bad)
	}
}

// abstractLocs returns the predicate "location is part of the abstract coder state".
func abstractLocs(p *Program) func(loc *types.Var) bool {
	set := map[*types.Var]bool{}
	add := func(typ, field string) {
		if v := p.Field("jsontext", typ, field); v != nil {
			set[v] = true
		}
	}
	add("encodeBuffer", "Buf")
	add("encodeBuffer", "baseOffset")
	add("decodeBuffer", "buf")
	add("decodeBuffer", "prevEnd")
	add("decodeBuffer", "baseOffset")
	add("state", "Tokens")
	add("state", "Names")
	add("state", "Namespaces")
	add("encoderState", "Struct")
	add("decoderState", "Struct")
	return func(loc *types.Var) bool { return set[loc] }
}

var txn2Subjects = []struct {
	name     string
	noMutate bool // must never mutate, on any path
}{
	{"jsontext.(*encoderState).WriteToken", false},
	{"jsontext.(*encoderState).WriteValue", false},
	{"jsontext.(*encoderState).AppendRaw", false},
	{"jsontext.(*decoderState).ReadToken", false},
	{"jsontext.(*decoderState).ReadValue", false},
	{"jsontext.(*decoderState).PeekKind", true},
	{"jsontext.(*decoderState).CheckNextValue", true},
}

func ruleTXN2(c *Ctx) {
	p := c.P
	abs := abstractLocs(p)
	for _, sub := range txn2Subjects {
		f := p.Func(sub.name)
		if f == nil || f.Body() == nil {
			c.Undecide(sub.name, "subject function missing")
			continue
		}
		a := newTxnAnalysis(p, f, modeCoder)
		a.abstract = abs
		type finding struct {
			pos     token.Pos
			witness string
		}
		var bad []finding
		seen := map[string]bool{}
		nret := 0
		a.onReturn = func(r *ast.ReturnStmt, s txnS, rc retClass) {
			nret++
			if !s.mut {
				return
			}
			if !sub.noMutate {
				if rc.fail == triNo || rc.flush {
					return
				}
			}
			w := fmt.Sprintf("entry %s -> abstract state written at %s -> %s at %s",
				f.Name, p.Position(s.mutPos), map[bool]string{true: "return", false: "error return"}[sub.noMutate], p.Position(r.Pos()))
			if !seen[w] {
				seen[w] = true
				bad = append(bad, finding{r.Pos(), w})
			}
		}
		a.run(txnS{})
		if nret == 0 {
			c.Undecide(sub.name+"/returns", "no return reached")
			continue
		}
		if len(bad) == 0 {
			c.OK(sub.name, f.Pos(), "")
			continue
		}
		var ws []string
		for _, b := range bad {
			ws = append(ws, b.witness)
		}
		detail := "abstract coder state mutated on a path to a rejected call"
		if sub.noMutate {
			detail = "abstract coder state mutated by a call that must not advance the coder"
		}
		c.obligeW(sub.name, bad[0].pos, false, detail, strings.Join(ws, " ; "))
	}
}

// nsPush describes one Namespaces.push() call site.
type nsPush struct {
	call     *ast.CallExpr
	balanced bool
}

// namespacePushes lists the X.Namespaces.push() sites of a function and whether each is
// immediately followed by `defer X.Namespaces.pop()`.
func namespacePushes(p *Program, f *FuncInfo) []nsPush {
	info := f.Info()
	var out []nsPush
	isNS := func(call *ast.CallExpr, name string) bool {
		_, ok := MethodCall(info, call, "jsontext", "objectNamespaceStack", name)
		return ok
	}
	ast.Inspect(f.Body(), func(n ast.Node) bool {
		blk, ok := n.(*ast.BlockStmt)
		var list []ast.Stmt
		if ok {
			list = blk.List
		} else if cc, ok := n.(*ast.CaseClause); ok {
			list = cc.Body
		} else {
			return true
		}
		for i, st := range list {
			es, ok := st.(*ast.ExprStmt)
			if !ok {
				continue
			}
			call, ok := es.X.(*ast.CallExpr)
			if !ok || !isNS(call, "push") {
				continue
			}
			bal := false
			if i+1 < len(list) {
				if d, ok := list[i+1].(*ast.DeferStmt); ok && isNS(d.Call, "pop") {
					bal = true
				}
			}
			out = append(out, nsPush{call, bal})
		}
		return true
	})
	return out
}

func ruleTXN3(c *Ctx) {
	p := c.P
	n := 0
	for _, f := range p.FuncsIn("jsontext") {
		if f.Decl == nil || f.Body() == nil {
			continue
		}
		pushes := namespacePushes(p, f)
		nb := 0
		for _, ps := range pushes {
			if ps.balanced {
				nb++
			}
		}
		if nb == 0 {
			continue
		}
		n++
		info := f.Info()
		ok := nb == len(pushes)
		detail := ""
		if !ok {
			detail = "mixes balanced and unbalanced Namespaces.push()"
		}
		// no pop outside defer, no other namespace-stack write
		ast.Inspect(f.Body(), func(nd ast.Node) bool {
			if d, isDefer := nd.(*ast.DeferStmt); isDefer {
				_ = d
				return false
			}
			if call, isCall := nd.(*ast.CallExpr); isCall {
				if _, isPop := MethodCall(info, call, "jsontext", "objectNamespaceStack", "pop"); isPop {
					ok, detail = false, "Namespaces.pop() outside defer at "+p.Position(call.Pos())
				}
				if _, isReset := MethodCall(info, call, "jsontext", "objectNamespaceStack", "reset"); isReset {
					ok, detail = false, "Namespaces.reset() at "+p.Position(call.Pos())
				}
			}
			return true
		})
		// every objectNamespace mutator is applied to Namespaces.Last() taken after the push (alias local or direct)
		eff := p.Effects()
		bases := eff.coderBases(f)
		alias := eff.aliasLocals(f, bases)
		firstPush := pushes[0].call.Pos()
		for v, ri := range alias {
			if ri.loc == p.Field("jsontext", "state", "Namespaces") {
				// the alias must be assigned after the push
				ast.Inspect(f.Body(), func(nd ast.Node) bool {
					as, isAs := nd.(*ast.AssignStmt)
					if !isAs {
						return true
					}
					for i, l := range as.Lhs {
						if IdentObj(info, l) == v && i < len(as.Rhs) && !IsNilIdent(info, as.Rhs[i]) && as.Pos() < firstPush {
							ok, detail = false, "namespace alias "+v.Name()+" taken before the push"
						}
					}
					return true
				})
			}
		}
		c.Oblige(f.Name, f.Pos(), ok, detail)
	}
	c.Floor("functions with balanced namespace pushes", n, 2)
}
