package main

import (
	"fmt"
	"go/ast"
	"go/types"
	"strings"
)

func init() {
	register(&Rule{ID: "ADDR-1", Doc: "the forcedAddr bit of every addressableValue construction matches where its reflect.Value comes from: a scratch copy made by the library (reflect.New / reflect.MakeSlice / fresh RawNumber) is marked forced (true); a dereferenced caller pointer or a slice element is not (false); a struct field or array element inherits the parent's bit. The bit is the only record that lets the method arshalers skip pointer-receiver methods on values that were not addressable to the caller (v1 method semantics) and keeps legacy merge decisions correct", Run: ruleADDR1})
}

func ruleADDR1(c *Ctx) {
	p := c.P
	avType := p.Lookup("json", "addressableValue")
	if avType == nil {
		c.Undecide("json.addressableValue", "type missing")
		return
	}
	isAV := func(t types.Type) bool { return t != nil && isNamed(t, pkgAlias["json"], "addressableValue") }
	// factory -> kinds
	factoryKinds := map[string][]string{}
	if mda := p.Func("json.makeDefaultArshaler"); mda != nil {
		info := mda.Info()
		for _, sw := range findAll[*ast.SwitchStmt](mda.Body()) {
			for _, st := range sw.Body.List {
				cc := st.(*ast.CaseClause)
				var kinds []string
				for _, e := range cc.List {
					if o := IdentOrSelObj(info, e); o != nil {
						kinds = append(kinds, o.Name())
					}
				}
				for _, call := range findAll[*ast.CallExpr](&ast.BlockStmt{List: cc.Body}) {
					if cf := Callee(info, call); cf != nil && strings.HasPrefix(cf.Name(), "make") {
						factoryKinds[cf.Name()] = append(factoryKinds[cf.Name()], kinds...)
					}
				}
			}
		}
	} else {
		c.Undecide("json.makeDefaultArshaler", "function missing")
		return
	}
	n := 0
	ord := map[string]int{}
	for _, f := range p.FuncsIn("json") {
		if f.Body() == nil {
			continue
		}
		info := f.Info()
		decl := f
		if d := p.enclosingDecl(f); d != nil {
			decl = d
		}
		InspectNoLit(f.Body(), func(nd ast.Node) bool {
			cl, ok := nd.(*ast.CompositeLit)
			if !ok || !isAV(info.TypeOf(cl)) || len(cl.Elts) != 2 {
				return true
			}
			n++
			val, bit := ast.Unparen(cl.Elts[0]), ast.Unparen(cl.Elts[1])
			if kv, ok := val.(*ast.KeyValueExpr); ok {
				val = kv.Value
			}
			if kv, ok := bit.(*ast.KeyValueExpr); ok {
				bit = kv.Value
			}
			// classify provenance of val
			class, parent := addrProvenance(info, decl, f, val, 0)
			// expected bit
			var okBit bool
			want := ""
			bitConst := ""
			if tv, ok := info.Types[bit]; ok && tv.Value != nil {
				bitConst = tv.Value.String()
			}
			inherits := func(par ast.Expr) bool {
				sel, ok := bit.(*ast.SelectorExpr)
				if !ok || sel.Sel.Name != "forcedAddr" {
					return false
				}
				return par != nil && IdentObj(info, sel.X) != nil && IdentObj(info, sel.X) == IdentObj(info, par)
			}
			factory := strings.TrimPrefix(decl.Name, "json.")
			kinds := factoryKinds[factory]
			switch class {
			case "scratch":
				want = "true (library-made scratch value)"
				okBit = bitConst == "true"
			case "deref":
				want = "false (dereferenced pointer is addressable for the caller too)"
				okBit = bitConst == "false"
			case "maybe-scratch":
				// v re-pointed to a reflect.New copy under a condition: the bit must be that same condition
				want = "the condition under which the scratch copy was made"
				okBit = addrBitIsCopyCondition(info, decl, bit)
			case "part":
				// the bit is a parameter of a shared helper (slice and array marshal merged): judge each call site
				if bv, _ := IdentObj(info, bit).(*types.Var); bv != nil && decl.Obj != nil && isParamOf(decl, decl, bv) {
					okAll, nCalls := true, 0
					sig := decl.Obj.Type().(*types.Signature)
					bi := -1
					for i := 0; i < sig.Params().Len(); i++ {
						if sig.Params().At(i) == bv {
							bi = i
						}
					}
					for _, cf := range callersOf(p, decl.Obj) {
						cdecl := cf
						if d := p.enclosingDecl(cf); d != nil {
							cdecl = d
						}
						ck := factoryKinds[strings.TrimPrefix(cdecl.Name, "json.")]
						sliceOnly := len(ck) > 0 && contains1(ck, "Slice") && !contains1(ck, "Array") && !contains1(ck, "Struct")
						InspectNoLit(cf.Body(), func(x ast.Node) bool {
							call, ok := x.(*ast.CallExpr)
							if !ok || Callee(cf.Info(), call) != decl.Obj || bi < 0 || bi >= len(call.Args) {
								return true
							}
							nCalls++
							arg := ast.Unparen(call.Args[bi])
							isIdx := false
							if idx, ok := val.(*ast.CallExpr); ok {
								if sel, ok := idx.Fun.(*ast.SelectorExpr); ok && sel.Sel.Name == "Index" {
									isIdx = true
								}
							}
							bothKinds := contains1(ck, "Slice") && contains1(ck, "Array")
							if bothKinds && isIdx {
								sel, isSel := arg.(*ast.SelectorExpr)
								tv, isC := cf.Info().Types[arg]
								if !((isSel && sel.Sel.Name == "forcedAddr") || (isC && tv.Value != nil && tv.Value.String() == "false")) {
									okAll = false
								}
							} else if sliceOnly && isIdx {
								if tv, ok := cf.Info().Types[arg]; !ok || tv.Value == nil || tv.Value.String() != "false" {
									okAll = false
								}
							} else {
								sel, ok := arg.(*ast.SelectorExpr)
								if !ok || sel.Sel.Name != "forcedAddr" {
									okAll = false
								}
							}
							return true
						})
					}
					want = "per call site: false for slice elements, the parent's forcedAddr otherwise"
					okBit = okAll && nCalls > 0
					break
				}
				// a private helper serves the kinds of the factories that call it
				if len(kinds) == 0 && decl.Obj != nil {
					for _, cf := range callersOf(p, decl.Obj) {
						cd := cf
						if d := p.enclosingDecl(cf); d != nil {
							cd = d
						}
						kinds = append(kinds, factoryKinds[strings.TrimPrefix(cd.Name, "json.")]...)
					}
				}
				isSlice := len(kinds) > 0 && contains1(kinds, "Slice") && !contains1(kinds, "Array") && !contains1(kinds, "Struct")
				ambiguous := contains1(kinds, "Slice") && contains1(kinds, "Array")
				if idx, ok := val.(*ast.CallExpr); ok && ambiguous {
					if sel, ok := idx.Fun.(*ast.SelectorExpr); ok && sel.Sel.Name == "Index" {
						// the dispatch no longer tells slices and arrays apart statically: either legitimate form
						want = "false (slice) or the parent's forcedAddr (array)"
						okBit = bitConst == "false" || inherits(parent)
						break
					}
				}
				if idx, ok := val.(*ast.CallExpr); ok {
					if sel, ok := idx.Fun.(*ast.SelectorExpr); ok && sel.Sel.Name == "Index" && isSlice {
						want = "false (slice elements are addressable for the caller too)"
						okBit = bitConst == "false"
						break
					}
				}
				want = "the parent's forcedAddr (a field or array element is addressable iff its parent is)"
				okBit = inherits(parent)
			default:
				want = "a recognised provenance (reflect.New/MakeSlice scratch, pointer dereference, field/element of an addressableValue)"
				okBit = false
			}
			key := fmt.Sprintf("%s:%s", f.Name, exprString(val))
			ord[key]++
			if ord[key] > 1 {
				key = fmt.Sprintf("%s#%d", key, ord[key])
			}
			c.Oblige("forced-bit:"+key, cl.Pos(), okBit, fmt.Sprintf("addressableValue{%s, %s}: provenance %q expects forcedAddr = %s", exprString(val), exprString(bit), class, want))
			return true
		})
	}
	// replacing only the embedded reflect.Value keeps the old forcedAddr bit: allowed only where the new
	// value has the same addressability as the old one (never for a dereference or a scratch copy)
	for _, f := range p.FuncsIn("json") {
		if f.Body() == nil {
			continue
		}
		info := f.Info()
		decl := f
		if d := p.enclosingDecl(f); d != nil {
			decl = d
		}
		InspectNoLit(f.Body(), func(nd ast.Node) bool {
			as, ok := nd.(*ast.AssignStmt)
			if !ok || len(as.Lhs) != len(as.Rhs) {
				return true
			}
			for i, l := range as.Lhs {
				sel, ok := ast.Unparen(l).(*ast.SelectorExpr)
				if !ok || sel.Sel.Name != "Value" || !isAV(info.TypeOf(sel.X)) {
					continue
				}
				n++
				class, _ := addrProvenance(info, decl, f, as.Rhs[i], 0)
				okKeep := class == "part" || class == "av"
				c.Oblige("forced-bit-kept:"+f.Name+":"+exprString(as.Rhs[i]), as.Pos(), okKeep,
					"only the reflect.Value of `"+exprString(sel.X)+"` is replaced by `"+exprString(as.Rhs[i])+"` (provenance "+class+"), so the old forcedAddr bit survives; a dereferenced pointer or scratch copy needs its own bit")
			}
			return true
		})
	}
	c.Floor("addressableValue constructions", n, 15)
	// consumers: the method arshalers must consult the bit together with needAddr
	nUse := 0
	fa := p.Field("json", "addressableValue", "forcedAddr")
	// the marshal closures installed by makeMethodArshaler (or by the private helpers it was split into)
	installers := map[string]bool{}
	if mm := p.Func("json.makeMethodArshaler"); mm != nil {
		for _, g := range p.CalleeClosure(mm, 2) {
			if g.Decl != nil {
				installers[g.Name] = true
			}
		}
	}
	for _, f := range p.FuncsIn("json") {
		if f.Body() == nil || f.Lit == nil {
			continue
		}
		i := strings.Index(f.Name, ":marshal")
		isInstalled := i >= 0 && installers[f.Name[:i]] && !strings.Contains(f.Name[:i], "makeDefaultArshaler") && !strings.Contains(f.Name, "$")
		// or the closure returned by a constructor function of the installers' scope, with the marshaler signature
		if !isInstalled {
			if d := p.enclosingDecl(f); d != nil && d != f && installers[d.Name] && d.Name != "json.makeMethodArshaler" {
				if t := f.Info().TypeOf(f.Lit); t != nil {
					if sg, ok := t.Underlying().(*types.Signature); ok && marshalerSig(p) != nil && types.Identical(sg, marshalerSig(p)) {
						if _, isRet := p.Parent(f.File, f.Lit).(*ast.ReturnStmt); isRet {
							isInstalled = true
						}
					}
				}
			}
		}
		if !isInstalled {
			continue
		}
		uses := false
		InspectNoLit(f.Body(), func(nd ast.Node) bool {
			if sel, ok := nd.(*ast.SelectorExpr); ok && SelField(f.Info(), sel) == fa {
				uses = true
			}
			return true
		})
		nUse++
		c.Oblige("method-marshal-consults-bit:"+f.Name, f.Pos(), uses, "a method marshaler does not consult forcedAddr (pointer-receiver methods would be called on values the caller could not address)")
	}
	c.Floor("method marshal closures", nUse, 4)
}

func contains1(xs []string, s string) bool {
	for _, x := range xs {
		if x == s {
			return true
		}
	}
	return false
}

// addrProvenance classifies a reflect.Value expression.
func addrProvenance(info *types.Info, decl, f *FuncInfo, e ast.Expr, depth int) (class string, parent ast.Expr) {
	e = ast.Unparen(e)
	if depth > 4 {
		return "unknown", nil
	}
	isAV := func(t types.Type) bool { return t != nil && isNamed(t, pkgAlias["json"], "addressableValue") }
	switch x := e.(type) {
	case *ast.CallExpr:
		if FuncCall(info, x, "reflect", "New") || FuncCall(info, x, "reflect", "MakeSlice") || FuncCall(info, x, "reflect", "MakeMap") {
			return "scratch", nil
		}
		if FuncCall(info, x, "reflect", "ValueOf") && len(x.Args) == 1 {
			if inner, ok := ast.Unparen(x.Args[0]).(*ast.CallExpr); ok {
				name := ""
				switch fx := ast.Unparen(inner.Fun).(type) {
				case *ast.Ident:
					name = fx.Name
				case *ast.SelectorExpr:
					name = fx.Sel.Name
				}
				if strings.HasPrefix(name, "New") {
					return "scratch", nil // a freshly allocated value
				}
			}
			return "caller", nil
		}
		sel, ok := ast.Unparen(x.Fun).(*ast.SelectorExpr)
		if !ok {
			return "unknown", nil
		}
		switch sel.Sel.Name {
		case "Elem":
			cl, par := addrProvenance(info, decl, f, sel.X, depth+1)
			switch cl {
			case "scratch":
				return "scratch", nil
			case "maybe-scratch":
				return "maybe-scratch", nil
			case "av", "caller", "part", "deref":
				_ = par
				return "deref", nil
			}
			return "unknown", nil
		case "Field", "Index":
			cl, _ := addrProvenance(info, decl, f, sel.X, depth+1)
			switch cl {
			case "scratch":
				return "scratch", nil
			case "av":
				return "part", sel.X
			}
			return "unknown", nil
		}
	case *ast.Ident:
		v, _ := IdentObj(info, x).(*types.Var)
		if v == nil {
			return "unknown", nil
		}
		if isAV(v.Type()) {
			return "av", x
		}
		defs := defsOf(info, decl.Body(), v)
		if len(defs) == 0 {
			return "caller", nil // parameter
		}
		classes := map[string]bool{}
		for _, d := range defs {
			cl, _ := addrProvenance(info, decl, f, d, depth+1)
			classes[cl] = true
		}
		if len(classes) == 1 {
			for k := range classes {
				return k, nil
			}
		}
		if classes["scratch"] && classes["caller"] && len(classes) == 2 {
			return "maybe-scratch", nil
		}
	}
	return "unknown", nil
}

// addrBitIsCopyCondition: bit is a bool local b with a single definition, and
// the reflect.New copy is made exactly under `if b`.
func addrBitIsCopyCondition(info *types.Info, decl *FuncInfo, bit ast.Expr) bool {
	bv, _ := IdentObj(info, bit).(*types.Var)
	if bv == nil || len(defsOf(info, decl.Body(), bv)) != 1 {
		return false
	}
	ok := false
	for _, ifs := range findAll[*ast.IfStmt](decl.Body()) {
		if IdentObj(info, ifs.Cond) != bv || ifs.Else != nil {
			continue
		}
		for _, call := range findAll[*ast.CallExpr](ifs.Body) {
			if FuncCall(info, call, "reflect", "New") {
				ok = true
			}
		}
	}
	// and nowhere else
	nNew := 0
	for _, call := range findAll[*ast.CallExpr](decl.Body()) {
		if FuncCall(info, call, "reflect", "New") {
			nNew++
		}
	}
	return ok && nNew == 1
}
