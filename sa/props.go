package main

// PropDef describes one claimed property: which rules decide which clauses.
type PropDef struct {
	Rules       []string
	Decided     string
	NotDecided  string
	Assumptions []string
	Technique   string
}

var propOrder = []string{"C01", "C02", "C03", "C04", "C05", "C06", "C07", "C08", "C09", "C10", "C11", "C12", "C13", "C14", "C15", "C16", "C17", "C18", "C19", "C20"}

var props = map[string]*PropDef{
	"C01": {
		Rules:      []string{"MATRIX", "KIND-1", "DEPTH-1", "MAPCACHE-1", "TXN-1", "CASE-SYM", "NUMSTATE-1", "TXN-2", "TXN-3", "PAIR-1", "FULL-1", "SURR-1", "EOF-1", "CTRL-1", "GUARD-1", "WS-2", "DEPTH-2"},
		Decided:    "the sibling recognisers (token path, value path, raw-value path) agree on which checks exist and which option controls them (duplicate names under exactly AllowDuplicateNames, UTF-8 validation unless exactly AllowInvalidUTF8, string-only names, exhaustive kind dispatch with failing defaults, the RFC 8259 start-byte table); the depth limit is the same in all six guards and each guard is evaluated on every path; io.EOF is only produced at depth 1; the duplicate-name set stays complete when it switches to a map; hexadecimal/exponent letters are matched case-insensitively; the resumable number scanner's resume states match what it consumed. Also: name namespaces are pushed and popped in balance and never mutated on a rejected ReadToken/ReadValue; a two-byte marker such as \\u is matched with a consistent ==&&== / !=||!= test; scanner validators' consumed length is never discarded; utf16.DecodeRune's verdict is checked; io.EOF is only produced at depth 1 on an identity test with the scanner's own sentinel. Every ordered comparison with 0x20 in the scanners keeps the space itself on the non-control side. Short-circuit length guards in front of constant indexes are exact in the tokenizer packages. Whitespace scanners accept exactly space, tab, LF, CR (all 256 byte values evaluated); a container arm of the value dispatch never succeeds without the depth-guard host.",
		NotDecided: "that each lexical recogniser accepts exactly its RFC production (index arithmetic of ConsumeString/ConsumeNumber beyond the structural facts above).",
		Technique:  "sibling-implementation matrix over type-checked syntax; constant/table evaluation; path-sensitive go/cfg dataflow for guards",
	},
	"C02": {
		Rules:      []string{"FP-1", "FP-2", "FP-3", "FP-4", "STALE-3", "NS-2", "SINK-1", "USER-1", "USER-2", "ERR-1", "TABLE-ESC", "PANIC-1", "NS-3", "UNWRITE-3", "PREC-1", "NS-4", "UNSUP-1"},
		Decided:    "the marshal fast paths that write the encoder buffer directly obey the protocol that keeps their output grammatical (store/Increment pairing, position and whitespace guards, delimiter construction, flush delivery, no foreign write while a buffer alias is pending); bytes produced by user code are always re-validated and user calls that receive the encoder are bracketed by the one-value check; encoder namespaces are only disabled where names are unique by construction; bytes that bypass string validation come from reviewed ASCII-safe producers; no coder/arshaler error is dropped; explicit panics are classified. After a failed nested marshal the disabled namespaces of every stack level are invalidated. Taking back an empty member (omitempty) trims separators unconditionally, whatever option wrote them. A namespace is only disabled on an object this function has already opened; a method arshaler installed over a default one sets nonDefault; every ErrUnsupported test uses errors.Is.",
		NotDecided: "validity of what strconv/time/base64 append; absence of implicit panics (index, nil); correctness of WriteToken/WriteValue themselves (C06).",
		Technique:  "path-sensitive go/cfg dataflow over finite atoms; guard dominance; sink/producer audit",
	},
	"C03": {
		Rules:      []string{"ANYPATH-1", "INTERN-1", "NUMCONV-1", "CASE-SYM", "NS-1", "STALE-2", "POOL-2", "VERB-1", "GLOBAL-2", "PAIR-1", "SURR-1", "INDEX-1", "FLAGJOIN-1"},
		Decided:    "the untyped fast routes are entered only under their documented guards and use the same primitives as the generic route (strconv.ParseFloat with 64 bits for every decoded float, makeString for strings, own duplicate check for objects); the string cache can only return a string equal to the input; \\u escapes are case-insensitive; the any-applicability marker of caller functions is accumulated over joined lists. Client code never reads a transient decoder view after the decoder moved on; isVerbatim arguments come from the scanner's verdict on the same bytes; no shared package-level map/slice can reach a result; pooled namespace state is reset unconditionally. Scan verdicts (ValueFlags) are only joined, never overwritten, and survive a resumed scan.",
		NotDecided: "unescaping and float rounding themselves (value-level), equality of the trees produced by the different routes for all inputs.",
		Technique:  "guard dominance; value-provenance tracing over definitions; path-sensitive equality tracking in makeString",
	},
	"C04": {
		Rules:      []string{"CODEC-1", "FLAGSYM-1", "ALIAS-1", "FIELD-1", "POOL-2", "FLAGMASK-1", "FLAGPAIR-1", "NUMWIDTH-1", "SCRATCH-1", "FULL-1"},
		Decided:    "writer and reader tables agree for every alternative representation: identical accepted format strings, each base16/32/64 encode/decode/len triple bound to one encoding and chosen consistently, same default encoding, same initFormat and base cases for time/duration, same bit size for formatting and parsing; marshal and unmarshal siblings consult the same two-sided options; struct field index paths are not aliased. A block entered under Flags.Has(mask) consults only flags of that mask and marshal/unmarshal siblings test the same masks; pooled namespace state is reset unconditionally. Conversions use the type's width in both directions. A scratch value handed to an unmarshal function was reset since its last use; the verdict of jsonwire.ParseUint is never discarded.",
		NotDecided: "value equality after a round trip, float bits, time arithmetic (all arithmetic on runtime values).",
		Technique:  "sibling agreement between marshal/unmarshal closures; table evaluation",
	},
	"C05": {
		Rules:      []string{"STALE-1", "TXN-1", "TXN-2", "TXN-3", "NAMES-1", "BUF-1", "PEEK-1", "NUMSTATE-1", "STALE-2", "ERR-1", "POISON-1", "EOF-1", "FLAGJOIN-1"},
		Decided:    "no buffer-relative position or alias is used after a call that may refill/move the decode buffer; a failed ReadToken/ReadValue leaves the abstract decoder state untouched and PeekKind/CheckNextValue never advance it (so retrying after a transient read error is sound); names are copied out before the buffer changes; fetch rebases baseOffset/prevEnd/prevStart consistently; the peek cache is consumed exactly once; the resumable number scanner resumes in a state that matches what it consumed. Client code in json/v1 never reads a ReadValue result after a later decoder call; no coder error is dropped; the poison byte is always undone when names are copied; a clean EOF is derived by identity from the scanner's sentinel only. Scan verdicts (ValueFlags) are only joined, never overwritten; accumulators of resumable scanners live outside the resume loop.",
		NotDecided: "equality of token sequences for all read schedules; the arithmetic of the resumable string scanner.",
		Technique:  "path-sensitive go/cfg dataflow with inter-procedural taint (positions/aliases) and recomputed effect summaries",
	},
	"C06": {
		Rules:      []string{"TXN-1", "TXN-2", "TXN-3", "MATRIX", "DEPTH-1", "KIND-1", "OPT-5", "WS-1", "POOL-2", "NS-3", "NS-4", "VERB-1"},
		Decided:    "a rejected WriteToken/WriteValue/AppendRaw leaves the abstract encoder state untouched on every feasible path (commit protocol), the state machine and the namespace set are transactional, scratch namespaces are balanced; the encoder columns of the recogniser matrix hold (duplicate names, UTF-8, string-only names, exhaustive dispatch, depth limit); tag flags are cleared on descent; token path and value path emit separators and whitespace in the same order. Disabled namespaces are invalidated at every level after a failure; every field of a pooled coder's sub-structures is reset unconditionally. A namespace is disabled only after the opening token was written; raw string tokens are taken verbatim only on the scanner's verdict.",
		NotDecided: "that the accepted token sequences are exactly the grammar's prefixes; byte-for-byte formatting of every option combination.",
		Technique:  "path-sensitive go/cfg dataflow (atoms: mutated, error nil-ness, namespace validity, name position) with recomputed effect summaries; sibling matrix",
	},
	"C07": {
		Rules:      []string{"NAMES-1", "BUF-1", "STALE-3", "FP-3", "FP-4", "UNWRITE-1", "POOL-4", "UNWRITE-2", "NILTEST-1", "UNWRITE-3", "DEADFIELD-1"},
		Decided:    "Flush copies names out before handing off the buffer, adds what the writer accepted to the base offset, never empties the buffer on a write error and drops exactly the accepted bytes, empties it on success; every value fast path and token-level writer consults NeedFlush after committing (there is no final flush); the suffixes that block a flush equal the suffixes that can be unwritten; no foreign write while a local buffer alias is pending; a pooled or Reset encoder never starts on leftover bytes. avoidFlush, as a boolean function of the coder state, is exactly Length()==0 || needObjectValue() || (NeedObjectName() && empty-value suffix), and Flush consults it before touching writer or buffer; no field is tested after it was cleared (which pool an encoder returns to).",
		NotDecided: "equality of the concatenated output for all buffer sizes and writers.",
		Technique:  "path-sensitive go/cfg dataflow; table agreement",
	},
	"C08": {
		Rules:      []string{"NS-1", "NS-2", "NS-3", "MATRIX", "MAPCACHE-1", "TXN-1", "MERGE-1", "POOL-2", "TXN-2", "TXN-3", "FP-2", "VERB-1", "PREC-1", "NS-4", "SEENSET-1", "FIELD-1"},
		Decided:    "every place that switches the coder's duplicate check off tracks names another way (struct seen-set, map key presence plus seen-set for pre-populated maps, untyped map), under no option other than AllowDuplicateNames; unknown/fallback members are inserted into the namespace before being skipped; encoder namespaces are only disabled for key kinds with a unique representation and no custom key marshaler; disabled namespaces are invalidated after a failed top-level call; all recogniser paths check duplicates and UTF-8 under exactly their option; the namespace's map cache stays complete. Namespaces are balanced and untouched by rejected calls; the struct member-name fast path is only reachable with the namespace disabled and unique names by construction. Names taken verbatim for the duplicate check come from the scanner's verdict on the same bytes. DisableNamespace never hits the parent frame (it follows the opening ReadToken/WriteToken on all paths). The seen-fields set only grows; both struct name indexes are filled for every flattened field.",
		NotDecided: "later-wins/merge results under AllowDuplicateNames; equality after unescaping itself.",
		Technique:  "guard dominance; path-sensitive go/cfg dataflow; sibling matrix",
	},
	"C09": {
		Rules:      []string{"V1-1", "V1-2", "V1-3", "V1-4", "OPT-1", "FLAGSYM-1", "ADDR-1", "FULL-1", "FLAGPAIR-1", "DEADFIELD-1", "NUMWIDTH-1", "V1-5", "NULL-1", "V1-6", "SKIP-1"},
		Decided:    "every entry from v1 into the v2 API runs under DefaultOptionsV1 (or the explicit legacy set for the syntax-only helpers) and coder option fields are only extended; each v1 default flag has a constructor and is read by the implementation; under legacy error semantics the next value is syntax-checked before the target is touched; the streaming Decoder's offset flags are reset together; the v1 constants are consistent; marshal/unmarshal honour the two-sided legacy options symmetrically. The forcedAddr bit of every addressableValue matches its provenance (scratch copy / dereferenced pointer / part of parent), which is what v1's method-calling rules depend on; a scanner used as validator covers the whole input. The legacy pre-validation is given unmarshalDecode's own `last` flag; flags required together are never tested with one masked Get; conversions use the type's width; no latch field (v1 Encoder's sticky error) is left unwritten. Test-then-set option guards of the v1 coders test the option they set; the forcedAddr bit is not forged by indirect(). A quoted or bare null leaves bool/number/string destinations unchanged under MergeWithLegacySemantics, in every scalar arshaler alike. v1 Compact/Indent/HTMLEscape write nothing to the caller's buffer when they fail; a non-fatal error under legacy reporting never leaves the value unconsumed.",
		NotDecided: "behavioural equality with the toolchain's encoding/json (a comparison of executions; static analysis of one side says nothing about the other), e.g. the indentation placeholder arithmetic of v1.Indent.",
		Technique:  "provenance of option arguments; sibling agreement; path-sensitive must-precede",
	},
	"C10": {
		Rules:      []string{"NUMWIDTH-1", "NUMCONV-1", "CASE-SYM", "FULL-1", "FLOATCONST-1"},
		Decided:    "only the width and routing clauses: every float/integer format or parse call uses the width of the Go type (t.Bits() inside the arshaler factories; a constant 32/64 only where the operand has that width by type; forwarded width parameters), decoded floats come from strconv.ParseFloat, integer targets parse digits only (jsonwire.ParseUint) and compare the magnitude against a bound derived from the width, the unsigned parser sees the whole literal so a minus sign cannot be skipped, and exponent/hex letters are recognised in both cases. No float is compared with an integer constant its type cannot represent; float32 tokens are formatted with 32 bits.",
		NotDecided: "everything arithmetic: that the shortest decimal is produced, that rounding is correct, that the bounds are exactly 2^(bits-1) and 2^bits-1 (an off-by-one in a bound is invisible to these rules), ECMA-262 layout, Token.Int/Uint/Float saturation and truncation values. These need evaluation or a solver (another technique family).",
		Technique:  "type-resolved call-site enumeration with argument provenance",
	},
	"C11": {
		Rules:      []string{"TABLE-ESC", "SINK-1", "MATRIX", "OPT-1", "WIDTH-1", "CASE-SYM", "VERB-1", "PAIR-1", "SURR-1", "INDEX-1", "ESCSET-1", "CTRL-1"},
		Decided:    "the safety clause (no raw < > & / U+2028 U+2029 under the escape options) as a sink audit: the escape table and the quoting code agree, exactly {<,>,&} depend on EscapeForHTML and {U+2028,U+2029} on EscapeForJS in every quoting path, verbatim copies happen only under !AnyEscape, bytes that skip validation come from reviewed producers, pre-quoted names are emitted only when they need no escaping, every AppendQuote on an output path receives the real flags, index arithmetic follows the rune width. Strings are only taken verbatim on the scanner's verdict about the same bytes; two-byte markers are tested consistently; surrogate pairs are combined only on utf16.DecodeRune's verdict. The control-character boundary (< 0x20) is the same in every recogniser.",
		NotDecided: "losslessness, minimality, one-U+FFFD-per-byte (value-level).",
		Technique:  "table evaluation; sink/producer audit; guard-set extraction",
	},
	"C12": {
		Rules:      []string{"FORMAT-1", "WIDTH-1", "TABLE-ESC", "TXN-2", "DEPTH-1", "WS-1", "MATRIX", "POOL-1", "POOL-3", "ESCSET-1", "CTRL-1", "WS-2", "V1-6"},
		Decided:    "Value.format/AppendFormat store or append the result only after WriteValue succeeded (src unchanged on error, no rewrite when identical); the presets pass exactly their documented options before the caller's; reformat* only appends slices of the source, structural constants, indentation and the output of ReformatString/ReformatNumber, with verbatim copies guarded by the simple scanners; the raw-value path applies the same duplicate/UTF-8/depth checks as the other recognisers; a rejected WriteValue appends nothing; the scratch encoder is pooled correctly and its buffer is copied out. The control-character boundary (< 0x20) is the same in every recogniser. Whitespace scanners accept exactly the four RFC 8259 characters; the v1 buffer helpers append nothing on failure.",
		NotDecided: "semantic equality of input and output, fixed-point property (value-level).",
		Technique:  "path-sensitive go/cfg dataflow; append-source audit; sibling matrix",
	},
	"C13": {
		Rules:      []string{"FORMAT-1", "ESCSET-1", "CASE-SYM", "CTRL-1"},
		Decided:    "the Canonicalize preset, the reorder hook for objects and arrays under ReorderRawObjects, the number shortcut guard, and that every member comparison used for reordering (the already-sorted test and the sort) is objectMember.Compare, which orders names with CompareUTF16. The verbatim number copy in ReformatNumber is decided by a length test on the number of bytes copied. The scanner's set of control characters with a mandatory short escape equals the encoder's. The control-character boundary (< 0x20) is the same in every recogniser.",
		NotDecided: "the UTF-16 ordering computed by CompareUTF16 and the ES6 number spelling themselves (value-level).",
		Technique:  "structural wiring checks",
	},
	"C14": {
		Rules:      []string{"NULL-1", "MERGE-1", "ANYPATH-1", "GLOBAL-2", "SCRATCH-1"},
		Decided:    "every null branch zeroes its destination (unless MergeWithLegacySemantics) and returns nil; the non-merging untyped fast path is only taken for a nil interface; the slice closure zeroes reused elements and trims to the element count on every exit, the array closures zero the missing tail (including [N]byte from a binary string), the map closure seeds the scratch value from the existing entry and stores every entry back. No shared package-level map or slice can reach an unmarshal result. Scratch keys/values of member loops are reset before every decode; scalar null handling consults MergeWithLegacySemantics in every sibling. What was decoded into a scratch value is written back on every path; MergeWithLegacySemantics can only suppress the zeroing of a null, never enable it.",
		NotDecided: "the merge law over values.",
		Technique:  "structural checks and path-sensitive must-follow",
	},
	"C15": {
		Rules:      []string{"FIELD-1", "ALIAS-1", "UNWRITE-2", "UNWRITE-1", "MONO-1", "UNWRITE-3", "PREC-1", "SEENSET-1"},
		Decided:    "each tag option is consumed where documented (omitzero/omitempty/string/format/casing/embed), the dominance sort compares name, depth, explicit-name in that order and keeps only dominant fields, emitted order is declaration order, the unmarshal closure prefers the exact-name index, reports ambiguity and limits ErrUnknownName to RejectUnknownMembers without a fallback, matchFoldedName implements the documented casing rules, field index paths are not aliased. avoidFlush keeps everything omitempty may need to take back in the buffer (truth table); a local initialised from an arshaler's nonDefault only grows. The seen-fields set only grows. The IsZero-method test is installed for every field (not only omitzero-tagged ones) and the same-struct name conflict is checked however the name was obtained.",
		NotDecided: "the breadth-first search over runtime type graphs and the folding function itself.",
		Technique:  "structural checks over type-checked syntax",
	},
	"C16": {
		Rules:      []string{"STALE-1", "TXN-2", "NAMES-1", "BUF-1", "FP-2", "PTR-1", "PTR-2", "POS-1", "POISON-1", "EOF-1", "INDEX-1", "POS-2", "NAMES-2", "GUARD-1"},
		Decided:    "names used in error pointers are never stale buffer aliases; a rejected call changes no pointer/offset; names are copied out before buffers move and before pointers are built; offset bookkeeping of fetch/Flush; the struct fast path records the name offset; pointer escaping is applied exactly once and the reader/writer escape tables are inverse in RFC 6901 order; after-value errors are only built after a value was consumed. A clean EOF only at depth 1; the poison byte is undone for every copied name. No Index* result is compared with `> 0`. Pointer and offset of a SemanticError around user code describe the same value (truth table); recording a name in the name stack does not depend on a validation option; Pointer's length guards are exact.",
		NotDecided: "that appendStackPointer computes the right pointer for each `where`; the offset arithmetic (pos-n, legacy +len(What)).",
		Technique:  "path-sensitive go/cfg dataflow; table inversion; append-source audit",
	},
	"C17": {
		Rules:      []string{"PREC-1", "USER-1", "USER-2", "ERR-1", "ANYPATH-1", "ADDR-1", "MONO-1", "PUBLISH-1", "WITHIN-1", "UNSUP-1", "SHARE-1"},
		Decided:    "method wrappers are installed in the documented precedence order, each falling back to the composition captured right before it; no methods on pointer/interface kinds; default, methods, time are composed in that order; caller functions are scanned in list order with ErrUnsupported fall-through and are consulted at every dispatch; bytes from user code are re-validated; user calls that receive the coder are bracketed by WithinArshalCall and the one-value check, with the ErrUnsupported fall-through only when nothing was touched; the any fast paths respect any-applicable caller functions. forcedAddr provenance (pointer-receiver methods on addressable and non-addressable values); nonDefault only grows; a cached arshaler is complete before it is published. The sanitiser of non-skippable functions and the dispatcher recognise ErrUnsupported the same way (errors.Is). A joined list of caller functions owns its backing array.",
		NotDecided: "which method actually runs for a given value (reflection over runtime types).",
		Technique:  "structural ordering checks; bracket rule; path-sensitive consult-before-dispatch",
	},
	"C18": {
		Rules:      []string{"POOL-1", "POOL-2", "POOL-3", "POOL-4", "GLOBAL-1", "ONCE-1", "DET-1", "INTERN-1", "CYCLE-1", "ESCAPE-1", "STALE-2", "GLOBAL-2", "NILTEST-1", "PUBLISH-1", "WITHIN-1", "DEADFIELD-1", "SHARE-1"},
		Decided:    "pooled coders are released to the matching pool by defer; every field of the resettable coder structures is reset or in the reviewed carry-over table; pooled buffers and the decoder's transient views only leave a call through a copy; coders are never reset onto leftover bytes; package-level state is immutable after init or concurrency-safe and no goroutines are started; lazily initialised arshaler state is read only after once.Do; map iteration order reaches the output only when Deterministic is off (or one entry); the cycle-detection set is emptied by the deferred leave; the string cache returns only equal strings. Transient decoder views are not used after the decoder advances; shared package-level values do not escape; a cached arshaler is complete before publication; no field is tested after it was cleared. A joined list of caller functions owns its backing array (no write into capacity shared with a sibling list).",
		NotDecided: "absence of data races in general (only the library's own shared state is audited); byte-identical output under Deterministic when AllowDuplicateNames lets two keys collide.",
		Technique:  "pairing/escape rules over type-checked syntax; path-sensitive dominance",
	},
	"C19": {
		Rules:      []string{"OPT-1", "OPT-2", "OPT-3", "OPT-4", "OPT-5", "OPT-6", "OPT-7", "V1-1", "GLOBAL-1", "FLAGMASK-1", "FLAGPAIR-1", "V1-5"},
		Decided:    "the flag constants form a consistent bit algebra with the documented v1 defaults; every boolean option constructor is injective and value-faithful; Join and GetOption agree on which flag guards which value field (including the nested *Struct case and the json-injected options); per-call options are saved and restored by defer before any mutation; struct-tag options are restored on every path; one-sided options are only read on their side; v1 entry points pass DefaultOptionsV1; the shared default option sets are never mutated. JoinOptions returns a fresh value; GetOption's boolean case returns the stored value whenever the option may be present; Has-masks cover the flags consulted under them. Boolean options are read with Get, never with Has (presence is not value), inside entry points and arshalers; Join never clears presence bits; v1 test-then-set guards test the option they set.",
		NotDecided: "the bit arithmetic of Flags.Join/Set/Get/Clear themselves (five-line bodies; their correctness is arithmetic).",
		Technique:  "constant-table evaluation; path-sensitive check of constructors and scoping; sibling agreement of type switches",
	},
	"C20": {
		Rules:      []string{"DEPTH-1", "CYCLE-1", "PANIC-1", "TXN-1", "TXN-2", "NAMES-1", "PEEK-1", "ERR-1", "WITHIN-1", "MERGE-1", "SKIP-1", "DEPTH-2"},
		Decided:    "the nesting limit is the same (off-by-one included) in all six guards and every guard is evaluated on every path of its function; every marshal recursion either pushes a container first or has a depth-independent cycle check, with visit/leave paired; explicit panics are classified and no function gained panic sites; the state/name bookkeeping whose violation leads to panics (rejected calls, names copied before buffers move) holds. No coder error is dropped (a loop that ignores a failing SkipValue never terminates); the peek cache is consumed exactly once. The `inside a user call` mark is removed on every path; a map key of interface type is only used after its dynamic type was found comparable. An unmarshal error positioned before the value is never returned unconsumed while legacy error reporting may be on (container loops would not terminate); no container arm bypasses the depth guard.",
		NotDecided: "implicit panics (index, nil dereference); termination in general (e.g. fetch retries while a reader returns (0, nil)).",
		Technique:  "path-sensitive go/cfg dataflow; recursion-progress analysis over marshal closures; classified site table",
	},
}
