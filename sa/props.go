package main

// PropDef describes one claimed property: which rules decide which clauses.
type PropDef struct {
	Rules       []string
	Decided     string
	NotDecided  string
	Assumptions []string
	Technique   string
}

var propOrder = []string{"C01", "C02", "C03", "C04", "C05", "C06", "C07", "C08", "C09", "C11", "C12", "C13", "C14", "C15", "C16", "C17", "C18", "C19", "C20"}

var props = map[string]*PropDef{
	"C09": {
		Rules:      []string{"V1-1", "V1-2", "V1-3", "V1-4", "OPT-1", "FLAGSYM-1"},
		Decided:    "(in progress)",
		NotDecided: "(in progress)",
		Technique:  "structural",
	},
	"C18": {
		Rules:      []string{"POOL-1", "POOL-2", "POOL-3", "GLOBAL-1", "ONCE-1", "DET-1", "INTERN-1", "CYCLE-1", "POOL-4", "ESCAPE-1"},
		Decided:    "(in progress)",
		NotDecided: "(in progress)",
		Technique:  "structural",
	},
	"C12": {
		Rules:      []string{"FORMAT-1", "WIDTH-1", "TABLE-ESC", "TXN-2", "DEPTH-1", "WS-1", "MATRIX"},
		Decided:    "(in progress)",
		NotDecided: "(in progress)",
		Technique:  "structural",
	},
	"C13": {
		Rules:      []string{"FORMAT-1"},
		Decided:    "(in progress)",
		NotDecided: "(in progress)",
		Technique:  "structural",
	},
	"C14": {
		Rules:      []string{"NULL-1", "MERGE-1", "ANYPATH-1"},
		Decided:    "(in progress)",
		NotDecided: "(in progress)",
		Technique:  "structural",
	},
	"C03": {
		Rules:      []string{"ANYPATH-1", "INTERN-1", "CASE-SYM", "NUMCONV-1"},
		Decided:    "(in progress)",
		NotDecided: "(in progress)",
		Technique:  "structural",
	},
	"C04": {
		Rules:      []string{"CODEC-1", "FLAGSYM-1", "ALIAS-1"},
		Decided:    "(in progress)",
		NotDecided: "(in progress)",
		Technique:  "sibling agreement",
	},
	"C15": {
		Rules:      []string{"FIELD-1", "ALIAS-1"},
		Decided:    "(in progress)",
		NotDecided: "(in progress)",
		Technique:  "structural",
	},
	"C17": {
		Rules:      []string{"PREC-1", "USER-1", "USER-2", "ERR-1", "ANYPATH-1"},
		Decided:    "(in progress)",
		NotDecided: "(in progress)",
		Technique:  "structural ordering + bracket rule",
	},
	"C08": {
		Rules:      []string{"NS-1", "NS-2", "NS-3", "MATRIX", "MAPCACHE-1", "TXN-1", "MERGE-1"},
		Decided:    "(in progress)",
		NotDecided: "(in progress)",
		Technique:  "guard dominance + path-sensitive dataflow",
	},
	"C11": {
		Rules:      []string{"TABLE-ESC", "SINK-1", "OPT-1", "WIDTH-1", "CASE-SYM"},
		Decided:    "(in progress)",
		NotDecided: "(in progress)",
		Technique:  "table evaluation + sink audit",
	},
	"C07": {
		Rules:      []string{"NAMES-1", "BUF-1", "STALE-3", "FP-3", "FP-4", "UNWRITE-1", "POOL-4"},
		Decided:    "(in progress)",
		NotDecided: "(in progress)",
		Technique:  "path-sensitive go/cfg dataflow",
	},
	"C16": {
		Rules:      []string{"STALE-1", "TXN-2", "NAMES-1", "BUF-1", "FP-2", "PTR-1", "PTR-2", "POS-1"},
		Decided:    "(in progress)",
		NotDecided: "(in progress)",
		Technique:  "path-sensitive go/cfg dataflow",
	},
	"C02": {
		Rules:      []string{"FP-1", "FP-2", "FP-3", "FP-4", "STALE-3", "NS-2", "SINK-1", "USER-1", "USER-2", "ERR-1"},
		Decided:    "(in progress)",
		NotDecided: "(in progress)",
		Technique:  "path-sensitive go/cfg dataflow",
	},
	"C01": {
		Rules:      []string{"MATRIX", "KIND-1", "DEPTH-1", "MAPCACHE-1", "TXN-1", "CASE-SYM", "NUMSTATE-1"},
		Decided:    "(in progress)",
		NotDecided: "(in progress)",
		Technique:  "sibling matrix + table evaluation",
	},
	"C20": {
		Rules:      []string{"DEPTH-1", "CYCLE-1", "PANIC-1", "TXN-1", "TXN-2", "NAMES-1"},
		Decided:    "(in progress)",
		NotDecided: "(in progress)",
		Technique:  "path-sensitive go/cfg dataflow",
	},
	"C05": {
		Rules:      []string{"STALE-1", "TXN-1", "TXN-2", "TXN-3", "NAMES-1", "BUF-1", "PEEK-1", "NUMSTATE-1"},
		Decided:    "(in progress)",
		NotDecided: "(in progress)",
		Technique:  "path-sensitive go/cfg dataflow",
	},
	"C06": {
		Rules:      []string{"TXN-1", "TXN-2", "TXN-3", "WS-1"},
		Decided:    "a rejected WriteToken/WriteValue/AppendRaw leaves the abstract encoder state untouched on every path (commit protocol), the state machine and namespace set are transactional, scratch namespaces are balanced.",
		NotDecided: "that the accepted token sequences are exactly the grammar's prefixes; formatting of the delivered bytes.",
		Technique:  "path-sensitive go/cfg dataflow (atoms: mutated, error nil-ness, namespace validity, name position) with recomputed effect summaries",
	},
	"C19": {
		Rules:      []string{"OPT-1", "OPT-2", "OPT-3", "OPT-4", "OPT-5", "OPT-6"},
		Decided:    "the flag constants form a consistent bit algebra, every boolean option constructor is injective and value-faithful, and JoinOptions/GetOption agree on which flag guards which value field.",
		Technique:  "constant-table evaluation of the flag algebra; path-sensitive check of every func(bool) Options constructor; sibling agreement of the Join/GetOption type switches",
		NotDecided: "the bit arithmetic of Flags.Join/Set/Get/Clear themselves (five-line bodies; their correctness is arithmetic), and the behavioural irrelevance of options beyond the read/write partition.",
	},
}
