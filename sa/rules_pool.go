package main

import (
	"fmt"
	"go/ast"
	"go/token"
	"go/types"
	"sort"
	"strings"
)

func init() {
	register(&Rule{ID: "POOL-1", Doc: "pooled coders are always returned to the matching pool: every Get{Buffered,Streaming}{Encoder,Decoder} result is released by a `defer Put...` of the same kind on the same variable directly after it is obtained", Run: rulePOOL1})
	register(&Rule{ID: "POOL-2", Doc: "reset completeness: every field of a resettable coder structure (encoderState, decoderState and the structures they contain that have a reset method) is assigned, reset, or zeroed by a whole-struct literal in the reset chain, or is in the reviewed carry-over table (availBuffer, bufStats: sizing scratch; SeenPointers: emptied by the visit/leave pairing; StringCache: only ever returns equal strings)", Run: rulePOOL2})
	register(&Rule{ID: "POOL-3", Doc: "no alias of a pooled coder's buffer escapes the call: in every function that obtains a pooled coder, the coder's Buf/buf is only used as a method receiver, under len/cap, as an assignment target, or inside a copying operation (bytes.Clone, append(dst, buf...), bytes.Equal, copy)", Run: rulePOOL3})
	register(&Rule{ID: "GLOBAL-1", Doc: "shared package-level state is immutable after initialisation or of a concurrency-safe type: no package-level variable of the implementation packages is assigned, element-written or mutated through a pointer-receiver method outside its declaration or an init function, except sync.Map/sync.Pool/sync.Once/atomic values; the library starts no goroutines", Run: ruleGLOBAL1})
	register(&Rule{ID: "ONCE-1", Doc: "lazily initialised arshaler state is read only after once.Do: in each factory, variables assigned inside the closure passed to once.Do are read by the sibling closures only at points dominated by once.Do(init)", Run: ruleONCE1})
	register(&Rule{ID: "DET-1", Doc: "map iteration order never reaches the output unguarded: every loop over a Go map (range over a map, MapRange) that writes to the encoder in its body is in a branch taken only when Deterministic is false or the map has at most one entry, or unwrites each name it wrote before sorting", Run: ruleDET1})
}

var poolGetPut = map[string]string{
	"GetBufferedEncoder": "PutBufferedEncoder", "GetStreamingEncoder": "PutStreamingEncoder",
	"GetBufferedDecoder": "PutBufferedDecoder", "GetStreamingDecoder": "PutStreamingDecoder",
	"getBufferedEncoder": "putBufferedEncoder", "getStreamingEncoder": "putStreamingEncoder",
	"getBufferedDecoder": "putBufferedDecoder", "getStreamingDecoder": "putStreamingDecoder",
}

func poolGetCall(info *types.Info, e ast.Expr) (name string, ok bool) {
	call, isCall := ast.Unparen(e).(*ast.CallExpr)
	if !isCall {
		return "", false
	}
	cf := Callee(info, call)
	if cf == nil || cf.Pkg() == nil || cf.Pkg().Path() != pkgAlias["jsontext"] {
		return "", false
	}
	if _, ok := poolGetPut[cf.Name()]; ok && strings.HasPrefix(strings.ToLower(cf.Name()), "get") {
		return cf.Name(), true
	}
	return "", false
}

func rulePOOL1(c *Ctx) {
	p := c.P
	n := 0
	for _, f := range p.FuncsIn("json", "jsontext", "v1") {
		if f.Body() == nil {
			continue
		}
		info := f.Info()
		InspectNoLit(f.Body(), func(nd ast.Node) bool {
			as, ok := nd.(*ast.AssignStmt)
			if !ok || len(as.Rhs) != 1 || len(as.Lhs) != 1 {
				return true
			}
			get, ok := poolGetCall(info, as.Rhs[0])
			if !ok {
				return true
			}
			n++
			v := IdentObj(info, as.Lhs[0])
			list, idx := stmtListOf(p, f, as)
			okPair := false
			detail := "the coder obtained from " + get + " is not released by `defer " + poolGetPut[get] + "` on the next statement"
			if list != nil && idx+1 < len(list) {
				if d, isDefer := list[idx+1].(*ast.DeferStmt); isDefer {
					if cf := Callee(info, d.Call); cf != nil && len(d.Call.Args) == 1 && IdentObj(info, d.Call.Args[0]) == v {
						if cf.Name() == poolGetPut[get] {
							okPair = true
						} else if _, isPut := poolGetPut["g"+strings.TrimPrefix(strings.TrimPrefix(cf.Name(), "p"), "P")]; isPut || strings.HasPrefix(strings.ToLower(cf.Name()), "put") {
							detail = "coder obtained from " + get + " is released with " + cf.Name() + " (wrong pool)"
						}
					}
				}
			}
			c.Oblige(fmt.Sprintf("paired:%s:%s", f.Name, get), as.Pos(), okPair, detail)
			return true
		})
	}
	c.Floor("pooled coder acquisitions", n, 8)
}

func structOf(t types.Type) (*types.Named, *types.Struct) {
	if pt, ok := t.(*types.Pointer); ok {
		t = pt.Elem()
	}
	nt, ok := t.(*types.Named)
	if !ok {
		return nil, nil
	}
	st, ok := nt.Underlying().(*types.Struct)
	if !ok {
		return nt, nil
	}
	return nt, st
}

var poolCarryOver = map[string]string{
	"availBuffer":  "scratch buffer handed out by AvailableBuffer; always zero length",
	"bufStats":     "buffer utilisation statistics used only to size the next allocation",
	"SeenPointers": "emptied by the visitPointer/defer leavePointer pairing (CYCLE-1)",
	"StringCache":  "string interning cache; makeString only returns strings equal to the input (INTERN-1)",
}

func rulePOOL2(c *Ctx) {
	p := c.P
	n := 0
	// resettable types: named struct types of jsontext with a `reset` method, plus named non-struct types with reset (stacks)
	jt := p.Pkg("jsontext")
	if jt == nil {
		c.Undecide("jsontext", "package missing")
		return
	}
	for _, tname := range jt.Types.Scope().Names() {
		tn, ok := jt.Types.Scope().Lookup(tname).(*types.TypeName)
		if !ok {
			continue
		}
		nt, st := structOf(tn.Type())
		if nt == nil || st == nil {
			continue
		}
		resetObj, _, _ := types.LookupFieldOrMethod(types.NewPointer(nt), true, jt.Types, "reset")
		rfn, _ := resetObj.(*types.Func)
		if rfn == nil {
			continue
		}
		// the method must be declared on this very type (not promoted)
		if rs := rfn.Type().(*types.Signature).Recv(); rs == nil || !isNamed(rs.Type(), pkgAlias["jsontext"], tname) {
			continue
		}
		f := p.FuncOf(rfn)
		if f == nil || f.Body() == nil {
			continue
		}
		info := f.Info()
		recv := rfn.Type().(*types.Signature).Recv()
		covered := map[*types.Var]string{}
		// assignments x.F = ..., x.F.reset(), x.F = T{...}
		conditional := map[*types.Var]bool{}
		for _, fs := range fieldStores(info, f.Body(), false) {
			if sel, ok := ast.Unparen(fs.LHS).(*ast.SelectorExpr); ok && IdentObj(info, sel.X) == recv && fs.Whole {
				// only an assignment that is a direct statement of reset's body is unconditional
				direct := false
				for _, st := range f.Body().List {
					if st == fs.Stmt {
						direct = true
					}
				}
				if direct {
					covered[fs.Field] = "assigned"
				} else if covered[fs.Field] == "" {
					conditional[fs.Field] = true
				}
			}
		}
		InspectNoLit(f.Body(), func(nd ast.Node) bool {
			call, ok := nd.(*ast.CallExpr)
			if !ok {
				return true
			}
			sel, ok := ast.Unparen(call.Fun).(*ast.SelectorExpr)
			if !ok || sel.Sel.Name != "reset" {
				return true
			}
			if fld := SelField(info, sel.X); fld != nil {
				covered[fld] = "reset()"
			}
			return true
		})
		for i := 0; i < st.NumFields(); i++ {
			fld := st.Field(i)
			n++
			key := fmt.Sprintf("reset:%s.%s", tname, fld.Name())
			if how, ok := covered[fld]; ok {
				// a struct literal assigned to an embedded struct: the carried-over fields must be in the table
				c.OK(key, fld.Pos(), how)
				continue
			}
			if reason, ok := poolCarryOver[fld.Name()]; ok {
				c.OK(key, fld.Pos(), "carried over: "+reason)
				continue
			}
			if conditional[fld] {
				c.Violation(key, fld.Pos(), "field is only reset under a condition in "+f.Name+": on the other path a reused coder keeps it from the previous use")
				continue
			}
			c.Violation(key, fld.Pos(), "field is neither assigned nor reset by "+f.Name+" and is not in the reviewed carry-over table: a pooled or Reset coder would keep it from the previous use")
		}
		// composite literals assigned in reset: any field initialised from the old value (x.F: x.F) must be in the carry-over table
		for _, cl := range findAll[*ast.CompositeLit](f.Body()) {
			for _, el := range cl.Elts {
				kv, ok := el.(*ast.KeyValueExpr)
				if !ok {
					continue
				}
				if fld := SelField(info, kv.Value); fld != nil {
					if ri, ok := p.Effects().root(info, kv.Value); ok && ri.base == recv {
						k, _ := kv.Key.(*ast.Ident)
						if k != nil && k.Name == fld.Name() {
							_, okc := poolCarryOver[fld.Name()]
							c.Oblige(fmt.Sprintf("carried:%s.%s", tname, fld.Name()), kv.Pos(), okc, "field is copied from the previous use of the coder without being in the reviewed carry-over table")
						}
					}
				}
			}
		}
	}
	c.Floor("fields of resettable structures", n, 15)
}

func rulePOOL3(c *Ctx) {
	p := c.P
	bufE := p.Field("jsontext", "encodeBuffer", "Buf")
	bufD := p.Field("jsontext", "decodeBuffer", "buf")
	avail := p.Field("jsontext", "encodeBuffer", "availBuffer")
	n := 0
	for _, f := range p.FuncsIn("json", "jsontext", "v1") {
		if f.Body() == nil || f.Decl == nil {
			continue
		}
		info := f.Info()
		pooled := false
		InspectNoLit(f.Body(), func(nd ast.Node) bool {
			if as, ok := nd.(*ast.AssignStmt); ok && len(as.Rhs) == 1 {
				if _, ok := poolGetCall(info, as.Rhs[0]); ok {
					pooled = true
				}
			}
			return true
		})
		if !pooled {
			continue
		}
		var bad []string
		uses := 0
		InspectNoLit(f.Body(), func(nd ast.Node) bool {
			sel, ok := nd.(*ast.SelectorExpr)
			if !ok {
				return true
			}
			fld := SelField(info, sel)
			if fld == nil || (fld != bufE && fld != bufD && fld != avail) {
				return true
			}
			uses++
			par := p.Parent(f.File, sel)
			for {
				if pe, ok := par.(*ast.ParenExpr); ok {
					par = p.Parent(f.File, pe)
					continue
				}
				break
			}
			okUse := false
			switch x := par.(type) {
			case *ast.CallExpr:
				if IsBuiltin(info, x, "len") || IsBuiltin(info, x, "cap") || IsBuiltin(info, x, "copy") {
					okUse = true
				}
				if IsBuiltin(info, x, "append") && x.Ellipsis.IsValid() && len(x.Args) == 2 && ast.Unparen(x.Args[1]) == ast.Expr(sel) {
					okUse = true
				}
				if cf := Callee(info, x); cf != nil {
					switch QualName(cf) {
					case "bytes.Clone", "bytes.Equal", "jsontext.mustReorderObjects":
						okUse = true
					}
				}
				if tv, ok := info.Types[x.Fun]; ok && tv.IsType() && isStringType(tv.Type) {
					okUse = true // string(buf) copies
				}
			case *ast.AssignStmt:
				for _, l := range x.Lhs {
					if ast.Unparen(l) == ast.Expr(sel) {
						okUse = true
					}
				}
				// b := X.Buf : a local alias is fine as long as the local itself does not escape
				if !okUse && len(x.Lhs) == len(x.Rhs) {
					for i, r := range x.Rhs {
						if ast.Unparen(r) == ast.Expr(sel) {
							if v, _ := IdentObj(info, x.Lhs[i]).(*types.Var); v != nil && !v.IsField() && v.Parent() != v.Pkg().Scope() {
								if why := localEscapes(p, f, v); why == "" {
									okUse = true
								} else {
									bad = append(bad, "local alias `"+v.Name()+"` of the pooled buffer "+why)
									okUse = true
								}
							}
						}
					}
				}
			case *ast.SliceExpr:
				// e.s.Buf[:0] passed to reset of the same coder
				if pc, ok := p.Parent(f.File, x).(*ast.CallExpr); ok {
					if cf := Callee(info, pc); cf != nil && cf.Name() == "reset" {
						okUse = true
					}
				}
			case *ast.UnaryExpr:
				// &e2.s.Buf handed to the reorder scratch
				if x.Op == token.AND {
					if pc, ok := p.Parent(f.File, x).(*ast.CallExpr); ok {
						if cf := Callee(info, pc); cf != nil && cf.Name() == "mustReorderObjectsFromDecoder" {
							okUse = true
						}
					}
				}
			case *ast.BinaryExpr:
				okUse = x.Op == token.EQL || x.Op == token.NEQ // nil comparison
			}
			if !okUse {
				bad = append(bad, "`"+exprString(sel)+"` used at "+p.Position(sel.Pos())+" outside a copying operation")
			}
			return true
		})
		if uses == 0 {
			continue
		}
		n++
		c.Oblige("no-escape:"+f.Name, f.Pos(), len(bad) == 0, strings.Join(bad, "; "))
	}
	c.Floor("functions that touch a pooled coder's buffer", n, 4)
}

func concurrencySafeType(t types.Type) bool {
	if pt, ok := t.(*types.Pointer); ok {
		t = pt.Elem()
	}
	nt, ok := t.(*types.Named)
	if !ok || nt.Obj().Pkg() == nil {
		return false
	}
	switch nt.Obj().Pkg().Path() {
	case "sync", "sync/atomic":
		return true
	}
	return false
}

// directRoot resolves selector/index/star chains (no method calls) to their base variable.
func directRoot(info *types.Info, e ast.Expr) (types.Object, bool) {
	for {
		e = ast.Unparen(e)
		switch x := e.(type) {
		case *ast.Ident:
			o := IdentObj(info, x)
			return o, o != nil
		case *ast.SelectorExpr:
			if s := info.Selections[x]; s != nil && s.Kind() == types.FieldVal {
				e = x.X
				continue
			}
			// qualified identifier pkg.Var
			if o := info.Uses[x.Sel]; o != nil {
				if _, isVar := o.(*types.Var); isVar && info.Selections[x] == nil {
					return o, true
				}
			}
			return nil, false
		case *ast.IndexExpr:
			e = x.X
		case *ast.StarExpr:
			e = x.X
		case *ast.SliceExpr:
			e = x.X
		default:
			return nil, false
		}
	}
}

func ruleGLOBAL1(c *Ctx) {
	p := c.P
	eff := p.Effects()
	n := 0
	nGo := 0
	pkgs := []string{"json", "jsontext", "internal", "jsonflags", "jsonopts", "jsonwire", "v1"}
	globals := map[types.Object]bool{}
	for _, short := range pkgs {
		pk := p.Pkg(short)
		if pk == nil {
			continue
		}
		for _, nm := range pk.Types.Scope().Names() {
			if v, ok := pk.Types.Scope().Lookup(nm).(*types.Var); ok {
				globals[v] = true
			}
		}
	}
	writes := map[types.Object][]string{}
	for _, f := range p.FuncsIn(pkgs...) {
		if f.Body() == nil {
			continue
		}
		decl := p.enclosingDecl(f)
		inInit := decl != nil && decl.Decl != nil && decl.Decl.Name.Name == "init" && decl.Decl.Recv == nil
		info := f.Info()
		InspectNoLit(f.Body(), func(nd ast.Node) bool {
			switch x := nd.(type) {
			case *ast.GoStmt:
				nGo++
				c.Violation("goroutine:"+f.Name, x.Pos(), "the library starts a goroutine")
			case *ast.AssignStmt:
				if x.Tok == token.DEFINE {
					return true
				}
				for _, l := range x.Lhs {
					if base, ok := directRoot(info, l); ok && globals[base] && !inInit {
						if !concurrencySafeType(base.Type()) {
							writes[base] = append(writes[base], "assigned at "+p.Position(x.Pos()))
						}
					}
				}
			case *ast.IncDecStmt:
				if base, ok := directRoot(info, x.X); ok && globals[base] && !inInit {
					writes[base] = append(writes[base], "modified at "+p.Position(x.Pos()))
				}
			case *ast.CallExpr:
				// pointer-receiver mutator on a global
				if sel, ok := ast.Unparen(x.Fun).(*ast.SelectorExpr); ok && info.Selections[sel] != nil {
					if base, ok := directRoot(info, sel.X); ok && globals[base] && !inInit && !concurrencySafeType(base.Type()) {
						if cf := Callee(info, x); cf != nil {
							if _, isPtr := cf.Type().(*types.Signature).Recv().Type().(*types.Pointer); isPtr && (eff.recvMut[cf] || len(eff.writes[cf]) > 0) {
								if fld := SelField(info, sel.X); fld == nil || !concurrencySafeType(fld.Type()) {
									writes[base] = append(writes[base], QualName(cf)+" called at "+p.Position(x.Pos()))
								}
							}
						}
					}
				}
				if IsBuiltin(info, x, "delete") || IsBuiltin(info, x, "clear") || IsBuiltin(info, x, "copy") {
					if len(x.Args) > 0 {
						if base, ok := directRoot(info, x.Args[0]); ok && globals[base] && !inInit {
							writes[base] = append(writes[base], "element write at "+p.Position(x.Pos()))
						}
					}
				}
			}
			return true
		})
	}
	var gs []types.Object
	for g := range globals {
		gs = append(gs, g)
	}
	sort.Slice(gs, func(i, j int) bool { return gs[i].Pos() < gs[j].Pos() })
	for _, g := range gs {
		n++
		key := "global:" + shortPkg(g.Pkg().Path()) + "." + g.Name()
		if concurrencySafeType(g.Type()) {
			c.OK(key, g.Pos(), "concurrency-safe type")
			continue
		}
		c.Oblige(key, g.Pos(), len(writes[g]) == 0, "package-level variable is written after initialisation: "+strings.Join(writes[g], "; "))
	}
	c.Floor("package-level variables", n, 40)
	if nGo == 0 {
		c.OK("no-goroutines", token.NoPos, "no go statements in the implementation packages")
	}
}

func ruleONCE1(c *Ctx) {
	p := c.P
	n := 0
	for _, decl := range p.FuncsIn("json") {
		if decl.Decl == nil || decl.Body() == nil {
			continue
		}
		info := decl.Info()
		// var once sync.Once; init := func() {...}
		var onceVar, initVar types.Object
		var initLit *ast.FuncLit
		ast.Inspect(decl.Body(), func(nd ast.Node) bool {
			switch x := nd.(type) {
			case *ast.ValueSpec:
				for _, nm := range x.Names {
					if v := info.Defs[nm]; v != nil && isNamed(v.Type(), "sync", "Once") {
						onceVar = v
					}
				}
			case *ast.AssignStmt:
				if len(x.Lhs) == 1 && len(x.Rhs) == 1 {
					if lit, ok := ast.Unparen(x.Rhs[0]).(*ast.FuncLit); ok && lit.Type.Params.NumFields() == 0 && lit.Type.Results == nil {
						initLit = lit
						initVar = IdentObj(info, x.Lhs[0])
					}
				}
			}
			return true
		})
		if onceVar == nil || initLit == nil {
			continue
		}
		// is init really what is passed to once.Do?
		usedAsInit := false
		ast.Inspect(decl.Body(), func(nd ast.Node) bool {
			if call, ok := nd.(*ast.CallExpr); ok {
				if sel, ok := ast.Unparen(call.Fun).(*ast.SelectorExpr); ok && sel.Sel.Name == "Do" && IdentObj(info, sel.X) == onceVar && len(call.Args) == 1 && IdentObj(info, call.Args[0]) == initVar {
					usedAsInit = true
				}
			}
			return true
		})
		if !usedAsInit {
			continue
		}
		lazy := map[types.Object]bool{}
		for _, as := range findAll[*ast.AssignStmt](initLit.Body) {
			for _, l := range as.Lhs {
				if v := IdentObj(info, l); v != nil {
					lazy[v] = true
				}
			}
		}
		// sibling closures
		for _, lit := range findAllDeep[*ast.FuncLit](decl.Body()) {
			if lit == initLit {
				continue
			}
			f := p.LitInfo(lit)
			if f == nil || p.Parent(f.File, lit) == nil {
				continue
			}
			// only top-level closures of the factory (nested ones are covered through their parent's flow order)
			if par := p.enclosingLit(f); par != nil {
				continue
			}
			reads := false
			InspectNoLit(lit.Body, func(nd ast.Node) bool {
				if id, ok := nd.(*ast.Ident); ok && lazy[info.Uses[id]] {
					reads = true
				}
				return true
			})
			if !reads {
				continue
			}
			n++
			type st struct{ done bool }
			bad := ""
			fl := &Flow[st]{Fn: f}
			visit := func(nd ast.Node, s st) st {
				// once.Do(init) anywhere in the node, then reads lexically after it are fine
				var doEnd token.Pos
				for _, call := range CallsIn(nd) {
					if sel, ok := ast.Unparen(call.Fun).(*ast.SelectorExpr); ok && sel.Sel.Name == "Do" && IdentObj(info, sel.X) == onceVar {
						doEnd = call.End()
					}
				}
				ast.Inspect(nd, func(m ast.Node) bool {
					if _, isLit := m.(*ast.FuncLit); isLit {
						return false
					}
					if id, ok := m.(*ast.Ident); ok && lazy[info.Uses[id]] {
						if !s.done && !(doEnd.IsValid() && id.Pos() > doEnd) && bad == "" {
							bad = fmt.Sprintf("%s read at %s on a path that has not executed once.Do(init)", id.Name, p.Position(id.Pos()))
						}
					}
					return true
				})
				if doEnd.IsValid() {
					s.done = true
				}
				return s
			}
			fl.Node = func(nd ast.Node, s st) []st {
				s = visit(nd, s)
				if _, ok := nd.(*ast.ReturnStmt); ok {
					return nil
				}
				return []st{s}
			}
			fl.Leaf = func(e ast.Expr, s st) (t, fs []st) { s = visit(e, s); return []st{s}, []st{s} }
			fl.Run(st{})
			c.Oblige("init-before-use:"+f.Name, lit.Pos(), bad == "", bad)
		}
	}
	c.Floor("closures that read lazily initialised factory state", n, 8)
}

// enclosingLit returns the FuncInfo of the function literal enclosing f's literal, or nil if f is directly inside a declaration.
func (p *Program) enclosingLit(f *FuncInfo) *FuncInfo {
	if f.Lit == nil {
		return nil
	}
	var n ast.Node = f.Lit
	for {
		n = p.Parent(f.File, n)
		switch x := n.(type) {
		case nil:
			return nil
		case *ast.FuncLit:
			return p.lits[x]
		case *ast.FuncDecl:
			return nil
		}
	}
}

func ruleDET1(c *Ctx) {
	p := c.P
	ft := p.Flags()
	det := ft.Single["Deterministic"]
	msig := marshalerSig(p)
	n := 0
	for _, f := range p.FuncsIn("json", "v1") {
		if f.Body() == nil {
			continue
		}
		info := f.Info()
		writesEncoder := func(body ast.Node) (bool, bool) {
			w, unwrites := false, false
			ast.Inspect(body, func(nd ast.Node) bool {
				if _, isLit := nd.(*ast.FuncLit); isLit {
					return false
				}
				call, ok := nd.(*ast.CallExpr)
				if !ok {
					return true
				}
				cf := Callee(info, call)
				if cf == nil {
					if t := info.TypeOf(call.Fun); t != nil {
						if sg, ok := types.Unalias(t).Underlying().(*types.Signature); ok {
							if msig != nil && types.Identical(sg, msig) {
								w = true
							}
							// local closures such as marshalKey(mk) in the embedded fallback
							if sg.Results().Len() == 1 && isErrorType(sg.Results().At(0).Type()) {
								if v := IdentObj(info, call.Fun); v != nil {
									for _, d := range defsOf(info, f.Body(), v) {
										if lit, ok := ast.Unparen(d).(*ast.FuncLit); ok {
											ast.Inspect(lit.Body, func(m ast.Node) bool {
												if c2, ok := m.(*ast.CallExpr); ok {
													if cf2 := Callee(info, c2); cf2 != nil && (cf2.Name() == "WriteToken" || cf2.Name() == "WriteValue") {
														w = true
													}
												}
												return true
											})
										}
									}
								}
							}
						}
					}
					return true
				}
				switch cf.Name() {
				case "WriteToken", "WriteValue", "AppendRaw":
					if cf.Pkg() != nil && cf.Pkg().Path() == pkgAlias["jsontext"] {
						w = true
					}
				case "UnwriteOnlyObjectMemberName":
					unwrites = true
				case "marshalValueAny", "marshalObjectAny", "marshalArrayAny":
					w = true
				}
				return true
			})
			return w, unwrites
		}
		isMapLoop := func(nd ast.Node) (ast.Node, bool) {
			switch x := nd.(type) {
			case *ast.RangeStmt:
				if t := info.TypeOf(x.X); t != nil {
					if _, ok := t.Underlying().(*types.Map); ok {
						return x.Body, true
					}
				}
			case *ast.ForStmt:
				found := false
				for _, part := range []ast.Node{x.Init, x.Cond, x.Post} {
					if part == nil {
						continue
					}
					ast.Inspect(part, func(m ast.Node) bool {
						if call, ok := m.(*ast.CallExpr); ok {
							if sel, ok := ast.Unparen(call.Fun).(*ast.SelectorExpr); ok && sel.Sel.Name == "MapRange" {
								found = true
							}
						}
						return true
					})
				}
				if found {
					return x.Body, true
				}
			}
			return nil, false
		}
		k := 0
		InspectNoLit(f.Body(), func(nd ast.Node) bool {
			body, ok := isMapLoop(nd)
			if !ok {
				return true
			}
			w, unwrites := writesEncoder(body)
			if !w {
				return true
			}
			n++
			k++
			key := fmt.Sprintf("map-loop:%s#%d", f.Name, k)
			guarded := detGuarded(p, f, nd, det)
			// a private helper that only holds the loop: the limit may be at every one of its call sites
			if !guarded && f.Decl != nil && f.Obj != nil && !ast.IsExported(f.Obj.Name()) {
				callers := callersOf(p, f.Obj)
				all := len(callers) > 0
				for _, cf := range callers {
					InspectNoLit(cf.Body(), func(x ast.Node) bool {
						if call, ok := x.(*ast.CallExpr); ok && Callee(cf.Info(), call) == f.Obj {
							if !detGuarded(p, cf, call, det) {
								all = false
							}
						}
						return true
					})
				}
				guarded = all
			}
			c.Oblige(key, nd.Pos(), guarded || unwrites, "a loop over a Go map writes to the encoder in iteration order without being limited to !Deterministic (or maps of at most one entry)")
			return true
		})
	}
	c.Floor("map-iteration loops that write to the encoder", n, 3)
}

// localEscapes reports how a local byte-slice variable may outlive the function ("" if it does not).
func localEscapes(p *Program, f *FuncInfo, v *types.Var) string {
	info := f.Info()
	why := ""
	ast.Inspect(f.Body(), func(nd ast.Node) bool {
		id, ok := nd.(*ast.Ident)
		if !ok || info.Uses[id] != v || why != "" {
			return true
		}
		par := p.Parent(f.File, id)
		for {
			switch x := par.(type) {
			case *ast.ParenExpr:
				par = p.Parent(f.File, x)
				continue
			case *ast.SliceExpr:
				par = p.Parent(f.File, x)
				continue
			}
			break
		}
		switch x := par.(type) {
		case *ast.ReturnStmt:
			why = "is returned at " + p.Position(x.Pos())
		case *ast.AssignStmt:
			for i, r := range x.Rhs {
				if containsNode(r, id) && i < len(x.Lhs) {
					if lv, _ := IdentObj(info, x.Lhs[i]).(*types.Var); lv == nil || lv.IsField() || SelField(info, x.Lhs[i]) != nil {
						if _, isIdent := ast.Unparen(x.Lhs[i]).(*ast.Ident); !isIdent {
							why = "is stored at " + p.Position(x.Pos())
						}
					}
				}
			}
		case *ast.CompositeLit, *ast.KeyValueExpr:
			why = "is stored in a composite value at " + p.Position(id.Pos())
		case *ast.FuncLit:
			why = "is captured by a closure"
		case *ast.SendStmt, *ast.GoStmt, *ast.DeferStmt:
			why = "is handed to concurrent/deferred code at " + p.Position(id.Pos())
		}
		return true
	})
	return why
}

func containsNode(root ast.Node, target ast.Node) bool {
	found := false
	ast.Inspect(root, func(n ast.Node) bool {
		if n == target {
			found = true
		}
		return !found
	})
	return found
}

// detGuarded reports whether node nd of function f sits under a condition with a disjunct
// !Flags.Get(Deterministic) whose other disjuncts only admit maps of at most one entry.
func detGuarded(p *Program, f *FuncInfo, nd ast.Node, det uint64) bool {
	info := f.Info()
	guarded := false
	for _, cc := range enclosingConds(p, f, nd) {
		if !cc.then {
			continue
		}
		// a disjunct !Get(Deterministic)
		var split func(e ast.Expr) []ast.Expr
		split = func(e ast.Expr) []ast.Expr {
			e = ast.Unparen(e)
			if be, ok := e.(*ast.BinaryExpr); ok && be.Op == token.LOR {
				return append(split(be.X), split(be.Y)...)
			}
			return []ast.Expr{e}
		}
		ds := split(cc.cond)
		hasDet := false
		okOthers := true
		for _, d := range ds {
			if u, ok := d.(*ast.UnaryExpr); ok && u.Op == token.NOT {
				if v, ok := IsFlagGet(info, u.X); ok && v&^1 == det {
					hasDet = true
					continue
				}
			}
			// the only other admissible disjunct: size <= 1
			if be, ok := d.(*ast.BinaryExpr); ok && be.Op == token.LEQ {
				if v, isC := ConstI64(info, be.Y); isC && v <= 1 {
					continue
				}
			}
			okOthers = false
		}
		if hasDet && okOthers {
			guarded = true
		}
	}
	return guarded
}
