package main

import (
	"go/ast"
	"go/token"
	"go/types"
	"sort"
	"strings"
)

func init() {
	register(&Rule{ID: "GLOBAL-2", Doc: "shared mutable values do not leak into results: a package-level variable whose type is a map, a slice or a pointer to a non-concurrency-safe struct is only ever indexed, ranged over, measured, compared, or passed to a reviewed read-only consumer; it is never returned, stored, appended, or handed to reflect.ValueOf/Set — otherwise two results (or two calls) would share one mutable object", Run: ruleGLOBAL2})
}

// readOnlyConsumers: callees that only read the slice/map they are given.
var readOnlyConsumers = map[string]bool{
	"bytes.Equal": true, "bytes.HasPrefix": true, "bytes.HasSuffix": true, "bytes.Contains": true, "bytes.IndexByte": true,
	"slices.Contains": true, "slices.Index": true, "slices.BinarySearch": true, "slices.Equal": true,
	"strings.Join": true, "fmt.Sprintf": true, "fmt.Errorf": true, "fmt.Sprint": true,
	"unicode/utf8.DecodeRune": true, "unicode/utf8.Valid": true,
}

func ruleGLOBAL2(c *Ctx) {
	p := c.P
	pkgs := []string{"json", "jsontext", "internal", "jsonflags", "jsonopts", "jsonwire", "v1"}
	mutableRef := func(t types.Type) bool {
		if concurrencySafeType(t) {
			return false
		}
		switch u := t.Underlying().(type) {
		case *types.Map, *types.Slice:
			return true
		case *types.Pointer:
			if concurrencySafeType(u.Elem()) {
				return false
			}
			if st, ok := u.Elem().Underlying().(*types.Struct); ok && st.NumFields() > 0 {
				return true
			}
		}
		return false
	}
	globals := map[*types.Var]bool{}
	for _, short := range pkgs {
		pk := p.Pkg(short)
		if pk == nil {
			continue
		}
		for _, nm := range pk.Types.Scope().Names() {
			if v, ok := pk.Types.Scope().Lookup(nm).(*types.Var); ok && mutableRef(v.Type()) {
				globals[v] = true
			}
		}
	}
	type use struct {
		f   *FuncInfo
		pos token.Pos
		why string
	}
	bad := map[*types.Var][]use{}
	nUses := map[*types.Var]int{}
	// classify one mention of a tracked variable (a global, or a parameter that received one)
	var classify func(f *FuncInfo, id *ast.Ident, depth int) string
	paramMemo := map[*types.Var]string{}
	paramEscapes := func(callee *types.Func, pv *types.Var, depth int) string {
		if r, ok := paramMemo[pv]; ok {
			return r
		}
		paramMemo[pv] = ""
		g := p.FuncOf(callee)
		if g == nil || g.Body() == nil {
			paramMemo[pv] = "passed to " + callee.Name() + " (no source)"
			return paramMemo[pv]
		}
		if depth > 3 {
			paramMemo[pv] = "passed down more than 3 calls"
			return paramMemo[pv]
		}
		res := ""
		ast.Inspect(g.Body(), func(nd ast.Node) bool {
			if id, ok := nd.(*ast.Ident); ok && res == "" && g.Info().Uses[id] == pv {
				// the identifier may sit in a nested literal: find its FuncInfo
				owner := g
				if w := classify(owner, id, depth+1); w != "" {
					res = w + " (inside " + callee.Name() + ")"
				}
			}
			return res == ""
		})
		paramMemo[pv] = res
		return res
	}
	classify = func(f *FuncInfo, id *ast.Ident, depth int) string {
		info := f.Info()
		var cur ast.Node = id
		par := p.Parent(f.File, cur)
		if sel, ok := par.(*ast.SelectorExpr); ok && sel.Sel == id {
			cur, par = sel, p.Parent(f.File, sel)
		}
		for {
			if pe, ok := par.(*ast.ParenExpr); ok {
				cur, par = pe, p.Parent(f.File, pe)
				continue
			}
			break
		}
		v, _ := info.Uses[id].(*types.Var)
		why := ""
		switch x := par.(type) {
		case *ast.IndexExpr:
		case *ast.RangeStmt:
			if x.X != cur {
				why = "assigned by a range statement"
			}
		case *ast.BinaryExpr:
		case *ast.SelectorExpr:
		case *ast.CallExpr:
			if x.Fun == cur {
				break
			}
			switch {
			case IsBuiltin(info, x, "len"), IsBuiltin(info, x, "cap"):
			case IsBuiltin(info, x, "copy") && len(x.Args) == 2 && x.Args[1] == cur:
			case IsBuiltin(info, x, "append") && len(x.Args) > 1 && x.Args[0] != cur && x.Ellipsis != token.NoPos:
				// append(dst, g...) copies the elements
			case IsBuiltin(info, x, "delete"), IsBuiltin(info, x, "clear"):
			default:
				cf := Callee(info, x)
				if cf != nil && cf.Pkg() != nil && readOnlyConsumers[cf.Pkg().Path()+"."+cf.Name()] {
					break
				}
				if tv, ok := info.Types[x.Fun]; ok && tv.IsType() {
					if _, isStr := tv.Type.Underlying().(*types.Basic); isStr {
						break // string(g) copies
					}
				}
				if cf != nil && p.FuncOf(cf) != nil {
					sig := cf.Type().(*types.Signature)
					for i, a := range x.Args {
						if a != cur {
							continue
						}
						pi := i
						if sig.Variadic() && pi >= sig.Params().Len()-1 {
							pi = sig.Params().Len() - 1
							if x.Ellipsis == token.NoPos {
								why = "stored into the variadic slice of " + cf.Name()
								break
							}
						}
						if pi < sig.Params().Len() {
							why = paramEscapes(cf, sig.Params().At(pi), depth)
						}
					}
					break
				}
				why = "passed to " + exprString(x.Fun)
			}
		case *ast.SliceExpr:
			why = "re-sliced (the result aliases the shared backing array)"
			if up := p.Parent(f.File, x); up != nil {
				if call, ok := up.(*ast.CallExpr); ok {
					if IsBuiltin(info, call, "append") && len(call.Args) > 1 && call.Args[0] != ast.Expr(x) && call.Ellipsis != token.NoPos {
						why = ""
					}
					if tv, ok := info.Types[call.Fun]; ok && tv.IsType() {
						if _, isStr := tv.Type.Underlying().(*types.Basic); isStr {
							why = ""
						}
					}
				}
			}
		case *ast.ReturnStmt:
			why = "returned to the caller"
		case *ast.AssignStmt:
			for _, r := range x.Rhs {
				if r == cur {
					why = "stored into another variable or field"
				}
			}
		case *ast.ValueSpec:
			why = "stored into another variable"
		case *ast.CompositeLit, *ast.KeyValueExpr:
			why = "stored into a composite value"
		case *ast.UnaryExpr:
			if x.Op == token.AND {
				why = "address taken"
			}
		case *ast.StarExpr:
		case *ast.TypeAssertExpr, *ast.SendStmt:
			why = "escapes"
		}
		_ = v
		return why
	}
	for _, f := range p.FuncsIn(pkgs...) {
		if f.Body() == nil {
			continue
		}
		decl := p.enclosingDecl(f)
		if decl != nil && decl.Decl != nil && decl.Decl.Name.Name == "init" && decl.Decl.Recv == nil {
			continue
		}
		info := f.Info()
		InspectNoLit(f.Body(), func(nd ast.Node) bool {
			id, ok := nd.(*ast.Ident)
			if !ok {
				return true
			}
			v, _ := info.Uses[id].(*types.Var)
			if v == nil || !globals[v] {
				return true
			}
			nUses[v]++
			if why := classify(f, id, 0); why != "" {
				bad[v] = append(bad[v], use{f, id.Pos(), why})
			}
			return true
		})
	}
	var vs []*types.Var
	for v := range globals {
		vs = append(vs, v)
	}
	sort.Slice(vs, func(i, j int) bool { return vs[i].Pkg().Path()+vs[i].Name() < vs[j].Pkg().Path()+vs[j].Name() })
	for _, v := range vs {
		name := v.Pkg().Name() + "." + v.Name()
		if why, ok := global2Reviewed[name]; ok {
			c.OK("no-escape:"+name, v.Pos(), "reviewed: "+why)
			continue
		}
		if len(bad[v]) == 0 {
			c.OK("no-escape:"+name, v.Pos(), "")
			continue
		}
		var ws []string
		for _, u := range bad[v] {
			ws = append(ws, u.why+" in "+u.f.Name+" at "+p.Position(u.pos))
		}
		c.ViolationW("no-escape:"+name, bad[v][0].pos, "the shared package-level "+v.Type().String()+" `"+name+"` leaves the package's read-only uses: "+bad[v][0].why+" (callers or later calls could then observe or modify one shared object)", strings.Join(ws, "; "))
	}
	c.Floor("package-level variables of mutable reference type", len(vs), 3)
}

// global2Reviewed: escapes that are fine, one reason each.
var global2Reviewed = map[string]string{}
