package main

import (
	"fmt"
	"go/ast"
	"go/token"
	"go/types"
	"sort"
	"strings"
)

func init() {
	register(&Rule{ID: "NAMES-1", Doc: "names are copied out before the buffer changes: in fetch and Flush, Names.copyQuotedBuffer(buf) precedes on every path each statement that moves, truncates, reallocates or hands off that buffer; appendStackPointer, getUnquoted and replaceLastUnquotedName are only called after copyQuotedBuffer in the same function (or from one another)", Run: ruleNAMES1})
	register(&Rule{ID: "BUF-1", Doc: "offset bookkeeping: in fetch, every path from the rebasing of d.buf on d.buf[d.prevStart:] to a return performs baseOffset += prevStart, prevEnd -= prevStart and then prevStart = 0; in Flush, baseOffset += n follows each Write on every path, on the error path Buf is never emptied and is shifted by n when n > 0, on the success path it is emptied; baseOffset, prevStart and prevEnd are written only by the read/fetch/flush/reset family", Run: ruleBUF1})
	register(&Rule{ID: "PEEK-1", Doc: "the peek cache is consumed exactly once: wherever a cached peekErr is taken to be returned, peekErr is cleared on that path before returning; prevEnd is only assigned where peekPos is known to be zero", Run: rulePEEK1})
}

func isFieldSel(info *types.Info, e ast.Expr, f *types.Var) bool {
	return f != nil && SelField(info, e) == f
}

// ---- NAMES-1 -----------------------------------------------------------------

func ruleNAMES1(c *Ctx) {
	p := c.P
	subjects := []struct {
		fn, bufType, bufField string
	}{
		{"jsontext.(*decoderState).fetch", "decodeBuffer", "buf"},
		{"jsontext.(*encoderState).Flush", "encodeBuffer", "Buf"},
	}
	for _, sj := range subjects {
		f := p.Func(sj.fn)
		buf := p.Field("jsontext", sj.bufType, sj.bufField)
		if f == nil || f.Body() == nil || buf == nil {
			c.Undecide(sj.fn, "subject function or buffer field missing")
			continue
		}
		info := f.Info()
		type st struct{ copied bool }
		bad := ""
		var badPos token.Pos
		nChanges := 0
		isChange := func(n ast.Node) (bool, string) {
			switch x := n.(type) {
			case *ast.AssignStmt:
				for i, l := range x.Lhs {
					if isFieldSel(info, l, buf) {
						// append(buf, c...) only extends; anything else moves/truncates/reallocates
						if i < len(x.Rhs) && len(x.Lhs) == len(x.Rhs) {
							if call, ok := ast.Unparen(x.Rhs[i]).(*ast.CallExpr); ok && IsBuiltin(info, call, "append") && len(call.Args) > 0 && isFieldSel(info, call.Args[0], buf) {
								continue
							}
						}
						return true, "store to " + sj.bufField
					}
				}
			}
			for _, call := range CallsIn(n) {
				if IsBuiltin(info, call, "copy") && len(call.Args) > 0 {
					if ri, ok := p.Effects().root(info, call.Args[0]); ok && ri.loc == buf {
						return true, "copy into " + sj.bufField
					}
				}
				// handing the buffer to a Write method
				if sel, ok := ast.Unparen(call.Fun).(*ast.SelectorExpr); ok && sel.Sel.Name == "Write" {
					for _, a := range call.Args {
						if isFieldSel(info, a, buf) {
							return true, "Write(" + sj.bufField + ")"
						}
					}
				}
			}
			return false, ""
		}
		fl := &Flow[st]{Fn: f, Inline: p.InlineHelpers(f)}
		visit := func(n ast.Node, s st) st {
			for _, call := range CallsIn(n) {
				if _, ok := MethodCall(info, call, "jsontext", "objectNameStack", "copyQuotedBuffer"); ok && len(call.Args) == 1 && isFieldSel(info, call.Args[0], buf) {
					s.copied = true
				}
			}
			if ch, what := isChange(n); ch {
				nChanges++
				if !s.copied && bad == "" {
					bad = what + " before Names.copyQuotedBuffer(" + sj.bufField + ")"
					badPos = n.Pos()
				}
			}
			return s
		}
		fl.Node = func(n ast.Node, s st) []st {
			s = visit(n, s)
			if _, ok := n.(*ast.ReturnStmt); ok {
				return nil
			}
			return []st{s}
		}
		fl.Leaf = func(e ast.Expr, s st) (t, fs []st) {
			s = visit(e, s)
			return []st{s}, []st{s}
		}
		fl.Run(st{})
		if nChanges == 0 {
			c.Undecide(sj.fn+"/buffer-changes", "no statement that changes the buffer was recognised")
			continue
		}
		pos := f.Pos()
		if bad != "" {
			pos = badPos
		}
		c.Oblige("copy-before-change:"+sj.fn, pos, bad == "", bad)
	}
	// who-may-call
	restricted := map[*types.Func]bool{}
	for _, nm := range [][3]string{{"jsontext", "state", "appendStackPointer"}, {"jsontext", "objectNameStack", "getUnquoted"}, {"jsontext", "objectNameStack", "replaceLastUnquotedName"}} {
		if fn := p.Method(nm[0], nm[1], nm[2]); fn != nil {
			restricted[fn] = true
		} else {
			c.Undecide(strings.Join(nm[:], "."), "method missing")
		}
	}
	nSites := 0
	for _, f := range p.FuncsIn("jsontext", "json", "v1") {
		if f.Body() == nil || f.Decl == nil {
			continue
		}
		if f.Obj != nil && restricted[f.Obj] {
			continue // calls among the restricted functions inherit the caller's obligation
		}
		info := f.Info()
		has := false
		InspectNoLit(f.Body(), func(n ast.Node) bool {
			if call, ok := n.(*ast.CallExpr); ok {
				if cf := Callee(info, call); cf != nil && restricted[cf] {
					has = true
				}
			}
			return true
		})
		if !has {
			continue
		}
		type st struct{ copied bool }
		bad := ""
		fl := &Flow[st]{Fn: f, Inline: p.InlineHelpers(f)}
		visit := func(n ast.Node, s st) st {
			for _, call := range CallsIn(n) {
				if _, ok := MethodCall(info, call, "jsontext", "objectNameStack", "copyQuotedBuffer"); ok {
					s.copied = true
					continue
				}
				if cf := Callee(info, call); cf != nil && restricted[cf] {
					nSites++
					if !s.copied && bad == "" {
						bad = fmt.Sprintf("%s called at %s without a preceding copyQuotedBuffer", QualName(cf), p.Position(call.Pos()))
					}
				}
			}
			return s
		}
		fl.Node = func(n ast.Node, s st) []st {
			s = visit(n, s)
			if _, ok := n.(*ast.ReturnStmt); ok {
				return nil
			}
			return []st{s}
		}
		fl.Leaf = func(e ast.Expr, s st) (t, fs []st) { s = visit(e, s); return []st{s}, []st{s} }
		fl.Run(st{})
		c.Oblige("copy-before-use:"+f.Name, f.Pos(), bad == "", bad)
	}
	c.Floor("call sites of functions that require copied names", nSites, 3)
}

// ---- BUF-1 -------------------------------------------------------------------

func ruleBUF1(c *Ctx) {
	p := c.P
	bufD := p.Field("jsontext", "decodeBuffer", "buf")
	prevStart := p.Field("jsontext", "decodeBuffer", "prevStart")
	prevEnd := p.Field("jsontext", "decodeBuffer", "prevEnd")
	baseD := p.Field("jsontext", "decodeBuffer", "baseOffset")
	bufE := p.Field("jsontext", "encodeBuffer", "Buf")
	baseE := p.Field("jsontext", "encodeBuffer", "baseOffset")
	if bufD == nil || prevStart == nil || prevEnd == nil || baseD == nil || bufE == nil || baseE == nil {
		c.Undecide("jsontext buffer fields", "missing")
		return
	}
	mentions := func(info *types.Info, e ast.Node, f *types.Var) bool {
		found := false
		ast.Inspect(e, func(n ast.Node) bool {
			if x, ok := n.(ast.Expr); ok && SelField(info, x) == f {
				found = true
			}
			return !found
		})
		return found
	}
	// --- fetch
	if f := p.Func("jsontext.(*decoderState).fetch"); f == nil || f.Body() == nil {
		c.Undecide("jsontext.(*decoderState).fetch", "function missing")
	} else {
		info := f.Info()
		type st struct {
			rebased             bool
			base, end, zero, ok bool
		}
		bad := ""
		var badPos token.Pos
		nRebase := 0
		isRebase := func(n ast.Node) bool {
			r := false
			ast.Inspect(n, func(x ast.Node) bool {
				if sl, ok := x.(*ast.SliceExpr); ok && isFieldSel(info, sl.X, bufD) && sl.Low != nil && isFieldSel(info, sl.Low, prevStart) {
					r = true
				}
				return !r
			})
			return r
		}
		fl := &Flow[st]{Fn: f, Inline: p.InlineHelpers(f)}
		fl.Node = func(n ast.Node, s st) []st {
			if isRebase(n) {
				nRebase++
				s = st{rebased: true, ok: true}
			}
			if as, ok := n.(*ast.AssignStmt); ok && len(as.Lhs) == 1 && len(as.Rhs) == 1 {
				switch {
				case as.Tok == token.ADD_ASSIGN && isFieldSel(info, as.Lhs[0], baseD) && mentions(info, as.Rhs[0], prevStart):
					s.base = true
					if s.zero {
						s.ok = false
					}
				case as.Tok == token.SUB_ASSIGN && isFieldSel(info, as.Lhs[0], prevEnd) && mentions(info, as.Rhs[0], prevStart):
					s.end = true
					if s.zero {
						s.ok = false
					}
				case as.Tok == token.ASSIGN && isFieldSel(info, as.Lhs[0], prevStart):
					if v, isC := ConstI64(info, as.Rhs[0]); isC && v == 0 {
						s.zero = true
					} else {
						s.ok = false
					}
				}
			}
			if r, ok := n.(*ast.ReturnStmt); ok {
				if s.rebased && !(s.base && s.end && s.zero && s.ok) && bad == "" {
					var miss []string
					if !s.base {
						miss = append(miss, "baseOffset += prevStart")
					}
					if !s.end {
						miss = append(miss, "prevEnd -= prevStart")
					}
					if !s.zero {
						miss = append(miss, "prevStart = 0")
					}
					if len(miss) == 0 {
						miss = append(miss, "prevStart zeroed before it was used for the rebasing arithmetic")
					}
					bad = "after rebasing d.buf on d.buf[prevStart:] a path returns without: " + strings.Join(miss, ", ")
					badPos = r.Pos()
				}
				return nil
			}
			return []st{s}
		}
		fl.Run(st{})
		if nRebase == 0 {
			c.Undecide("jsontext.(*decoderState).fetch/rebase", "no statement rebasing d.buf on d.buf[d.prevStart:] found")
		} else {
			pos := f.Pos()
			if bad != "" {
				pos = badPos
			}
			c.Oblige("rebase:jsontext.(*decoderState).fetch", pos, bad == "", bad)
		}
	}
	// --- Flush
	if f := p.Func("jsontext.(*encoderState).Flush"); f == nil || f.Body() == nil {
		c.Undecide("jsontext.(*encoderState).Flush", "function missing")
	} else {
		info := f.Info()
		type st struct {
			wrote, based bool
			err          tri  // triYes: nil, triNo: non-nil (for the error variable of the last generic Write)
			npos         tri  // n > 0
			buf          int8 // 0 untouched, 1 emptied (or re-aliased to the writer's spare buffer), 2 shifted by n
			infallible   bool // last write was bytes.Buffer.Write (error ignored by design)
			ret          tri  // nil-ness of the error last returned by a walked helper
		}
		var nVar, errVar types.Object
		errVars := map[types.Object]bool{} // error variables that carry the outcome of the last Write (also through helper results)
		bad := ""
		var badPos token.Pos
		nWrites := 0
		fl := &Flow[st]{Fn: f, Inline: p.InlineHelpers(f, "avoidFlush")}
		fl.CalleeReturn = func(callee *FuncInfo, ret *ast.ReturnStmt, s st) st {
			s.ret = triUnknown
			if len(ret.Results) > 0 {
				last := ast.Unparen(ret.Results[len(ret.Results)-1])
				switch {
				case IsNilIdent(info, last):
					s.ret = triYes
				case errVars[IdentObj(info, last)]:
					s.ret = s.err
				default:
					if _, isId := last.(*ast.Ident); !isId {
						s.ret = triNo // a constructed error value
					}
				}
			}
			return s
		}
		fail := func(pos token.Pos, msg string) {
			if bad == "" {
				bad, badPos = msg, pos
			}
		}
		fl.Node = func(n ast.Node, s st) []st {
			if as, ok := n.(*ast.AssignStmt); ok {
				// n, err := X.Write(e.Buf)
				if len(as.Rhs) == 1 {
					if call, ok := ast.Unparen(as.Rhs[0]).(*ast.CallExpr); ok {
						if sel, ok := ast.Unparen(call.Fun).(*ast.SelectorExpr); ok && sel.Sel.Name == "Write" && len(call.Args) == 1 && isFieldSel(info, call.Args[0], bufE) {
							nWrites++
							if s.wrote && !s.based {
								fail(as.Pos(), "second Write without baseOffset += n after the first")
							}
							s = st{wrote: true}
							if len(as.Lhs) == 2 {
								nVar = IdentObj(info, as.Lhs[0])
								if id, ok := as.Lhs[1].(*ast.Ident); ok && id.Name == "_" {
									s.infallible = isNamed(info.TypeOf(sel.X), "bytes", "Buffer")
									if !s.infallible {
										fail(as.Pos(), "error of Write discarded")
									}
									s.err = triYes
								} else {
									errVar = IdentObj(info, as.Lhs[1])
									errVars[errVar] = true
								}
							}
							return []st{s}
						}
						// err := e.helper() with the helper walked: its returned error is this variable
						if fl.Inline(call) != nil && len(as.Lhs) > 0 {
							if ev := IdentObj(info, as.Lhs[len(as.Lhs)-1]); ev != nil && isErrorType(ev.Type()) {
								errVars[ev] = true
								s.err = s.ret
							}
							return []st{s}
						}
					}
				}
				for i, l := range as.Lhs {
					if isFieldSel(info, l, baseE) && as.Tok == token.ADD_ASSIGN && nVar != nil && usesObj(info, as.Rhs[0], nVar) {
						s.based = true
					}
					if isFieldSel(info, l, bufE) && i < len(as.Rhs) && s.wrote {
						r := as.Rhs[i]
						switch {
						case nVar != nil && usesObj(info, r, nVar):
							s.buf = 2
						default:
							// e.Buf[:0], AvailableBuffer(), make(...)
							if call, ok := ast.Unparen(r).(*ast.CallExpr); ok && IsBuiltin(info, call, "append") {
								break
							}
							s.buf = 1
						}
					}
				}
			}
			if r, ok := n.(*ast.ReturnStmt); ok {
				if s.wrote {
					if !s.based {
						fail(r.Pos(), "returns after Write without baseOffset += n")
					}
					isErrRet := len(r.Results) == 1 && !IsNilIdent(info, r.Results[0])
					if isErrRet {
						if s.buf == 1 {
							fail(r.Pos(), "Buf emptied on the write-error path (unflushed bytes lost)")
						}
						if s.npos != triNo && s.buf != 2 {
							fail(r.Pos(), "write-error path with n > 0 possible does not drop the n bytes the writer accepted (they would be written twice)")
						}
					} else if s.buf != 1 {
						fail(r.Pos(), "success path returns without emptying Buf")
					}
				}
				return nil
			}
			return []st{s}
		}
		fl.Leaf = func(e ast.Expr, s st) (t, fs []st) {
			if v, nonNil, ok := ErrCmp(info, e); ok && errVars[v] {
				var nn, nl []st // non-nil branch, nil branch
				if s.err != triYes {
					s1 := s
					s1.err = triNo
					nn = []st{s1}
				}
				if s.err != triNo {
					s2 := s
					s2.err = triYes
					nl = []st{s2}
				}
				if nonNil {
					return nn, nl
				}
				return nl, nn
			}
			if be, ok := e.(*ast.BinaryExpr); ok && nVar != nil {
				x, y, op := be.X, be.Y, be.Op
				if IdentObj(info, y) == nVar { // 0 < n  ==  n > 0
					x, y = y, x
					switch op {
					case token.LSS:
						op = token.GTR
					case token.GTR:
						op = token.LSS
					case token.LEQ:
						op = token.GEQ
					case token.GEQ:
						op = token.LEQ
					}
				}
				if IdentObj(info, x) == nVar {
					if v, isC := ConstI64(info, y); isC {
						st1, st2 := s, s
						switch {
						case v == 0 && op == token.GTR, v == 1 && op == token.GEQ, v == 0 && op == token.NEQ:
							st1.npos, st2.npos = triYes, triNo
							return []st{st1}, []st{st2}
						case v == 0 && op == token.LEQ, v == 0 && op == token.EQL, v == 1 && op == token.LSS:
							st1.npos, st2.npos = triNo, triYes
							return []st{st1}, []st{st2}
						}
					}
				}
			}
			return []st{s}, []st{s}
		}
		fl.Run(st{})
		if nWrites == 0 {
			c.Undecide("jsontext.(*encoderState).Flush/writes", "no Write(e.Buf) call found")
		} else {
			pos := f.Pos()
			if bad != "" {
				pos = badPos
			}
			c.Oblige("flush:jsontext.(*encoderState).Flush", pos, bad == "", bad)
		}
	}
	// --- who may write the offset fields
	roots := map[string]bool{
		"jsontext.(*decoderState).fetch": true, "jsontext.(*encoderState).Flush": true,
		"jsontext.(*decoderState).reset": true, "jsontext.(*encoderState).reset": true,
		"jsontext.(*decoderState).ReadToken": true, "jsontext.(*decoderState).ReadValue": true,
		"jsontext.(*decodeBuffer).invalidatePreviousRead": true,
	}
	allowedFor := map[*types.Var][]string{
		baseD:     {"jsontext.(*decoderState).fetch", "jsontext.(*decoderState).reset"},
		baseE:     {"jsontext.(*encoderState).Flush", "jsontext.(*encoderState).reset"},
		prevEnd:   {"jsontext.(*decoderState).fetch", "jsontext.(*decoderState).reset", "jsontext.(*decoderState).ReadToken", "jsontext.(*decoderState).ReadValue"},
		prevStart: {"jsontext.(*decoderState).fetch", "jsontext.(*decoderState).reset", "jsontext.(*decoderState).ReadToken", "jsontext.(*decoderState).ReadValue", "jsontext.(*decodeBuffer).invalidatePreviousRead"},
	}
	_ = roots
	// static callers map (for helper extraction tolerance)
	callers := map[*types.Func]map[*FuncInfo]bool{}
	for _, f := range p.FuncsIn("jsontext", "json", "v1") {
		if f.Body() == nil {
			continue
		}
		ast.Inspect(f.Body(), func(n ast.Node) bool {
			if call, ok := n.(*ast.CallExpr); ok {
				if cf := Callee(f.Info(), call); cf != nil {
					if callers[cf] == nil {
						callers[cf] = map[*FuncInfo]bool{}
					}
					callers[cf][p.enclosingDecl(f)] = true
				}
			}
			return true
		})
	}
	var allowed func(f *FuncInfo, set map[string]bool, depth int) bool
	allowed = func(f *FuncInfo, set map[string]bool, depth int) bool {
		if f == nil {
			return false
		}
		if set[f.Name] {
			return true
		}
		if depth > 3 || f.Obj == nil || len(callers[f.Obj]) == 0 {
			return false
		}
		for cf := range callers[f.Obj] {
			if !allowed(cf, set, depth+1) {
				return false
			}
		}
		return true
	}
	nW := 0
	for _, f := range p.FuncsIn("jsontext", "json", "v1") {
		if f.Body() == nil || f.Decl == nil {
			continue
		}
		seen := map[*types.Var]bool{}
		for _, fs := range fieldStores(f.Info(), f.Body(), true) {
			names, tracked := allowedFor[fs.Field]
			if !tracked || !fs.Whole || seen[fs.Field] {
				continue
			}
			seen[fs.Field] = true
			nW++
			set := map[string]bool{}
			for _, n := range names {
				set[n] = true
			}
			_, tn := recvTypeName(fs.Field.Type())
			_ = tn
			owner := "decoder"
			if fs.Field == baseE {
				owner = "encoder"
			}
			c.Oblige(fmt.Sprintf("writer:%s.%s:%s", owner, fs.Field.Name(), f.Name), fs.Stmt.Pos(), allowed(f, set, 0),
				fmt.Sprintf("%s is written outside its owner family {%s}", fs.Field.Name(), strings.Join(names, ", ")))
		}
		// composite literal decodeBuffer{...}/encodeBuffer{...} assignments count as reset-family writes
	}
	c.Floor("writers of offset fields", nW, 8)
}

// ---- PEEK-1 ------------------------------------------------------------------

func rulePEEK1(c *Ctx) {
	p := c.P
	peekErr := p.Field("jsontext", "decodeBuffer", "peekErr")
	peekPos := p.Field("jsontext", "decodeBuffer", "peekPos")
	prevEnd := p.Field("jsontext", "decodeBuffer", "prevEnd")
	if peekErr == nil || peekPos == nil || prevEnd == nil {
		c.Undecide("jsontext.decodeBuffer.peekErr/peekPos", "field missing")
		return
	}
	nTake, nStore := 0, 0
	var fs []*FuncInfo
	for _, f := range p.FuncsIn("jsontext") {
		if f.Decl != nil && f.Body() != nil {
			fs = append(fs, f)
		}
	}
	sort.Slice(fs, func(i, j int) bool { return fs[i].Pos() < fs[j].Pos() })
	// needsZero: helpers that assign prevEnd without resetting the peek cache themselves;
	// every call to one must happen where peekPos is known to be zero.
	needsZero := map[*types.Func]bool{}
	// resetsPeek: private helpers that leave peekPos == 0 on every return (the cache reset moved into them)
	resetsPeek := map[*types.Func]bool{}
	exitNotZero := map[*FuncInfo]bool{}
	count := true
	analyse := func(f *FuncInfo, entryZero tri) (badErr, badEnd string, readsErr, storesEnd bool) {
		info := f.Info()
		InspectNoLit(f.Body(), func(n ast.Node) bool {
			if e, ok := n.(ast.Expr); ok && SelField(info, e) == peekErr {
				readsErr = true
			}
			return true
		})
		for _, s := range fieldStores(info, f.Body(), false) {
			if s.Field == prevEnd && s.Whole {
				if as, ok := s.Stmt.(*ast.AssignStmt); ok && as.Tok == token.ASSIGN {
					storesEnd = true
				}
			}
		}
		callsHelper := false
		InspectNoLit(f.Body(), func(n ast.Node) bool {
			if call, ok := n.(*ast.CallExpr); ok {
				if cf := Callee(info, call); cf != nil && needsZero[cf] {
					callsHelper = true
				}
			}
			return true
		})
		if callsHelper {
			storesEnd = true
		}
		if !readsErr && !storesEnd {
			return
		}
		type st struct {
			pending bool // a cached peekErr has been taken on this path and not yet cleared
			zero    tri  // peekPos known zero
		}
		// locals whose single definition is d.peekPos
		posAlias := map[types.Object]bool{}
		InspectNoLit(f.Body(), func(n ast.Node) bool {
			if as, ok := n.(*ast.AssignStmt); ok && len(as.Lhs) == len(as.Rhs) {
				for i, r := range as.Rhs {
					if isFieldSel(info, r, peekPos) {
						if v := IdentObj(info, as.Lhs[i]); v != nil && len(defsOf(info, f.Body(), v)) >= 1 {
							posAlias[v] = true
						}
					}
				}
			}
			return true
		})
		fl := &Flow[st]{Fn: f}
		fl.Node = func(n ast.Node, s st) []st {
			switch x := n.(type) {
			case *ast.AssignStmt:
				// reads of peekErr on the right-hand side
				for _, r := range x.Rhs {
					if mentionsField(info, r, peekErr) {
						s.pending = true
						if count {
							nTake++
						}
					}
				}
				if len(x.Lhs) == len(x.Rhs) {
					for i, l := range x.Lhs {
						if isFieldSel(info, l, peekErr) && IsNilIdent(info, x.Rhs[i]) {
							s.pending = false
						}
						if isFieldSel(info, l, peekPos) {
							if v, isC := ConstI64(info, x.Rhs[i]); isC && v == 0 {
								s.zero = triYes
							} else {
								s.zero = triUnknown
							}
						}
						if isFieldSel(info, l, prevEnd) && x.Tok == token.ASSIGN {
							if count {
								nStore++
							}
							if s.zero != triYes && badEnd == "" {
								badEnd = "prevEnd assigned at " + p.Position(x.Pos()) + " on a path where peekPos is not known to be zero (a stale peek result would survive the read)"
							}
						}
					}
				}
				// a local re-assigned from something else stops being an alias only if it had other defs: handled by posAlias construction
			case *ast.ReturnStmt:
				if s.pending && badErr == "" {
					badErr = "returns at " + p.Position(x.Pos()) + " after taking the cached peekErr without clearing it"
				}
				if s.zero != triYes {
					exitNotZero[f] = true
				}
				return nil
			}
			// calls that reset or set the cache
			for _, call := range CallsIn(n) {
				if cf := Callee(info, call); cf != nil {
					if resetsPeek[cf] {
						s.zero = triYes
						continue
					}
					if needsZero[cf] && s.zero != triYes && badEnd == "" {
						badEnd = "prevEnd assigned through " + cf.Name() + " at " + p.Position(call.Pos()) + " on a path where peekPos is not known to be zero (a stale peek result would survive the read)"
					}
					qn := QualName(cf)
					if qn == "jsontext.(*decoderState).PeekKind" || qn == "jsontext.(*decoderState).CountNextDelimWhitespace" {
						s.zero = triUnknown
					}
				}
			}
			return []st{s}
		}
		fl.Leaf = func(e ast.Expr, s st) (t, fs []st) {
			if be, ok := e.(*ast.BinaryExpr); ok && (be.Op == token.NEQ || be.Op == token.EQL || be.Op == token.GTR) {
				// d.peekErr != nil
				if isFieldSel(info, be.X, peekErr) && IsNilIdent(info, be.Y) {
					st1, st2 := s, s
					st1.pending = true
					if count {
						nTake++
					}
					if be.Op == token.NEQ {
						return []st{st1}, []st{st2}
					}
					return []st{st2}, []st{st1}
				}
				// peekPos (or alias) compared with 0
				if v, isC := ConstI64(info, be.Y); isC && v == 0 {
					if isFieldSel(info, be.X, peekPos) || posAlias[IdentObj(info, be.X)] {
						st1, st2 := s, s
						switch be.Op {
						case token.NEQ, token.GTR:
							if be.Op == token.NEQ {
								st2.zero = triYes
							}
							return []st{st1}, []st{st2}
						case token.EQL:
							st1.zero = triYes
							return []st{st1}, []st{st2}
						}
					}
				}
			}
			for _, call := range CallsIn(e) {
				if cf := Callee(info, call); cf != nil {
					if resetsPeek[cf] {
						s.zero = triYes
						continue
					}
					qn := QualName(cf)
					if qn == "jsontext.(*decoderState).PeekKind" || qn == "jsontext.(*decoderState).CountNextDelimWhitespace" {
						s.zero = triUnknown
					}
				}
			}
			return []st{s}, []st{s}
		}
		fl.Run(st{zero: entryZero})
		return
	}
	// round 0: unexported helpers that mention peekPos and return with it zero on every path
	for _, f := range fs {
		if f.Obj == nil || ast.IsExported(f.Obj.Name()) {
			continue
		}
		mentions := false
		InspectNoLit(f.Body(), func(n ast.Node) bool {
			if as, ok := n.(*ast.AssignStmt); ok {
				for _, l := range as.Lhs {
					if SelField(f.Info(), l) == peekPos {
						mentions = true
					}
				}
			}
			return !mentions
		})
		if !mentions {
			continue
		}
		delete(exitNotZero, f)
		analyse(f, triUnknown)
		count = false
		if !exitNotZero[f] && len(callersOf(p, f.Obj)) > 0 {
			resetsPeek[f.Obj] = true
		}
	}
	count = true
	nTake, nStore = 0, 0
	// round 1: find helpers (fail on their own, pass when entered with a reset cache, never touch peekPos)
	for round := 0; round < 3; round++ {
		grew := false
		for _, f := range fs {
			if f.Obj == nil || needsZero[f.Obj] {
				continue
			}
			mentions := false
			InspectNoLit(f.Body(), func(n ast.Node) bool {
				if e, ok := n.(ast.Expr); ok && SelField(f.Info(), e) == peekPos {
					mentions = true
				}
				return !mentions
			})
			if mentions || ast.IsExported(f.Obj.Name()) {
				continue
			}
			_, badEnd, _, storesEnd := analyse(f, triUnknown)
			count = false
			if storesEnd && badEnd != "" {
				if _, badEnd2, _, _ := analyse(f, triYes); badEnd2 == "" && len(callersOf(p, f.Obj)) > 0 {
					needsZero[f.Obj] = true
					grew = true
				}
			}
		}
		count = false
		if !grew {
			break
		}
	}
	count = true
	nTake, nStore = 0, 0
	for _, f := range fs {
		entry := triUnknown
		if f.Obj != nil && needsZero[f.Obj] {
			entry = triYes
		}
		badErr, badEnd, readsErr, storesEnd := analyse(f, entry)
		if readsErr {
			c.Oblige("peekerr-cleared:"+f.Name, f.Pos(), badErr == "", badErr)
		}
		if storesEnd {
			c.Oblige("prevend-after-peek-reset:"+f.Name, f.Pos(), badEnd == "", badEnd)
		}
	}
	c.Floor("places that take the cached peekErr", nTake, 3)
	c.Floor("assignments to prevEnd", nStore, 2)
}

func mentionsField(info *types.Info, e ast.Node, f *types.Var) bool {
	found := false
	ast.Inspect(e, func(n ast.Node) bool {
		if x, ok := n.(ast.Expr); ok && SelField(info, x) == f {
			found = true
		}
		return !found
	})
	return found
}

// callersOf lists the repo functions that contain a static call to fn.
func callersOf(p *Program, fn *types.Func) []*FuncInfo {
	var out []*FuncInfo
	for _, f := range p.FuncsIn("json", "jsontext", "v1") {
		if f.Body() == nil {
			continue
		}
		found := false
		InspectNoLit(f.Body(), func(n ast.Node) bool {
			if call, ok := n.(*ast.CallExpr); ok && Callee(f.Info(), call) == fn {
				found = true
			}
			return !found
		})
		if found {
			out = append(out, f)
		}
	}
	return out
}
